(* C24 — Topic aliases are always resolvable by the receiver.
   Statements only; proofs are [exact lemma] or vm_compute witnesses. *)
From MV Require Import Base.Val Session.Pkt Session.Alias Session.AliasProofs Session.AliasSched Session.AliasSchedProofs.
Open Scope N_scope.

(* Outbound.  [out_run (oinit max) evs] is the stream of PUBLISH packets (topic the message belongs
   to, Topic Name on the wire, Topic Alias or 0) one subscriber connection with Topic Alias Maximum
   [max] receives when the broker handles the messages [evs] for it (queued and written / dropped
   because the pending-writes queue is full / written from the in-flight store: resend on a new
   connection, deferred send).  [recv_ok max [] ws] is the receiver's check: every packet has a
   non-empty topic or an alias bound EARLIER ON THIS CONNECTION to the message's topic, aliases are
   <= max (none when max = 0).
   The full statement (no hypothesis on the history) is FALSE of the faithful model: C24_out_refuted.
   Outside the one listed finding it is proved for all histories. *)

(* Arithmetic: the model's cursor is an unbounded N; the Go cursor is a uint32 and the alias a uint16.
   In the code the cursor moves only when an alias is assigned, so cursor <= maximum <= 65535 at all
   times (this is [out_set_bound] / C24_out_alias_bounded's invariant): neither the uint32 addition nor
   the uint16 conversion can wrap, for any number of Set calls, and the model is exact without a bound
   on the history length.  The harness' unit-level stream drives the exported table through 70 000
   (thorough 140 000) distinct topics across the 2^16 (and 2^17) boundaries to tie this to the code. *)
Theorem C24_out_modulo_findings : forall (max : N) (evs : list oev),
  Forall (fun e => ev_topic e <> []) evs ->          (* messages are published to non-empty topics *)
  out_kf_free (oinit max) evs = true ->              (* no instance of KF_C24_binding_dropped *)
  recv_ok max [] (out_run (oinit max) evs) = true.
Proof. exact out_resolvable_init. Qed.

(* the bound on alias values needs no exclusion: it holds on every history *)
Theorem C24_out_alias_bounded : forall (max : N) (evs : list oev),
  Forall (fun w : wire => snd w <= max) (out_run (oinit max) evs).
Proof.
  intros max evs. apply (out_alias_bounded evs (oinit max)); [cbn; apply N.le_0_l|intros tp a H; discriminate].
Qed.

(* refutation: the first message for a topic is dropped on a full pending-writes queue after its alias
   was recorded; the next message carries the alias only *)
Theorem C24_out_refuted : exists (max : N) (evs : list oev),
  Forall (fun e => ev_topic e <> []) evs /\
  recv_ok max [] (out_run (oinit max) evs) = false /\
  KF_C24_binding_dropped (oinit max) (hd (EStored []) evs) = true.
Proof.
  exists 2, [EQueue (tag "q0/a") false; EQueue (tag "q0/a") true]. split.
  - repeat constructor; discriminate.
  - vm_compute. split; reflexivity.
Qed.

(* Inbound.  [in_run (iinit smax) evs] are the broker's decisions for the PUBLISH packets (topic, alias)
   one client connection sends (a refusal ends the connection); [spec_run] is the property text: refuse
   an alias above the broker's maximum, refuse an empty topic whose alias has no binding on this
   connection (or no alias at all), otherwise route under the topic itself or under the topic the client
   LAST bound to the alias on this connection. *)
Theorem C24_in : forall (smax : N) (evs : list (bytes * N)),
  in_run (iinit smax) evs = spec_run smax [] evs.
Proof. exact in_is_spec_init. Qed.

(* Concurrent publishers.  A schedule is any list of the atomic steps of any number of publisher
   goroutines delivering to one subscriber connection: [SSet k topic] = publisher k's call of
   OutboundTopicAliases.Set (lookup + allocation under the table's lock: ONE atomic step, tied to the
   code by the forced schedules of the `aliassched` engine: a second allocator never gets inside while
   one is parked there) and [SPush k] = its packet entering the pending-writes queue. *)

(* under EVERY schedule the table is injective (no alias is given to two topics), aliases stay within
   the client's maximum *)
Theorem C24_sched_table_injective : forall (max : N) (evs : list sev),
  let t := s_tab (srun max evs) in
  injective t /\ (forall tp a, lookup_t tp (o_map t) = Some a -> 0 < a <= max).
Proof.
  intros max evs t. destruct (sched_table_ok max evs) as [(Hc & Hr & Hi) Hm]. fold t in Hc, Hr, Hi, Hm.
  split; [exact Hi|]. intros tp a H. specialize (Hr _ _ H). rewrite <- Hm. split; [apply Hr|].
  apply N.le_trans with (o_cursor t); [apply Hr|exact Hc].
Qed.

(* under every schedule without the overtaking finding, every PUBLISH on the connection has a topic or
   an alias bound earlier on this connection to that topic *)
Theorem C24_sched_modulo_findings : forall (max : N) (evs : list sev),
  topics_nonempty evs -> skf_free (sinit max) evs = true ->
  recv_ok max [] (s_wire (srun max evs)) = true.
Proof. exact sched_resolvable. Qed.

(* refutation (C24-4): publisher 1 queues its alias-only PUBLISH before publisher 0, which allocated
   the alias, has queued the PUBLISH that announces it *)
Theorem C24_sched_refuted_overtaken : exists (max : N) (evs : list sev),
  topics_nonempty evs /\ recv_ok max [] (s_wire (srun max evs)) = false /\ skf_free (sinit max) evs = false.
Proof.
  exists 4, [SSet 0 (tag "q0/a"); SSet 1 (tag "q0/a"); SPush 1; SPush 0]. split.
  - intros k tp [H|[H|[H|[H|[]]]]]; inversion H; discriminate.
  - vm_compute. split; reflexivity.
Qed.

(* the seeded variant of Set (lookup and cursor read before the write lock is taken) is not atomic:
   two publishers read the same cursor and two topics get alias 1 *)
Theorem C24_split_set_not_injective : exists (evs : list xev),
  let t := x_tab (fold_left xstep evs {| x_tab := oinit 8; x_read := [] |}) in
  lookup_t (tag "q0/a") (o_map t) = Some 1 /\ lookup_t (tag "q0/b") (o_map t) = Some 1.
Proof. exists [XRead 0 (tag "q0/a"); XRead 1 (tag "q0/b"); XWrite 0; XWrite 1]. vm_compute. split; reflexivity. Qed.

(* non-vacuity *)
Example C24_out_nonvacuous :
  let evs := [EQueue (tag "a") true; EQueue (tag "b") true; EQueue (tag "a") true; EQueue (tag "c") false;
              EStored (tag "b"); EQueue (tag "c") true] in
  out_kf_free (oinit 2) evs = true /\
  out_run (oinit 2) evs =
    [(tag "a", tag "a", 1); (tag "b", tag "b", 2); (tag "a", [], 1); (tag "b", tag "b", 0); (tag "c", tag "c", 0)].
Proof. vm_compute. split; reflexivity. Qed.

Example C24_in_nonvacuous :
  in_run (iinit 5) [(tag "x", 2); ([], 2); (tag "y", 2); ([], 2); ([], 3); (tag "z", 1)] =
  [IRoute (tag "x"); IRoute (tag "x"); IRoute (tag "y"); IRoute (tag "y"); IReject] /\
  in_run (iinit 5) [(tag "x", 6)] = [IReject].
Proof. vm_compute. split; reflexivity. Qed.

Print Assumptions C24_out_modulo_findings.
Print Assumptions C24_out_alias_bounded.
Print Assumptions C24_out_refuted.
Print Assumptions C24_in.
Print Assumptions C24_sched_table_injective.
Print Assumptions C24_sched_modulo_findings.
Print Assumptions C24_sched_refuted_overtaken.
Print Assumptions C24_split_set_not_injective.
