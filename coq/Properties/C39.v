(* C39 — WebSocket transport is byte-transparent.
   Statements only; every proof is [exact lemma].  [read_all sizes (mkWs None ms) o] is the
   broker's reader (any sequence of read sizes, as bufio issues them) over the data messages [ms]
   through wsConn.Read, with [o] the chunking of gorilla's message reader; it returns the bytes
   delivered, how it ended (EOpen: reads used up, EInvalid: ErrInvalidMessage, EClosed: no more
   messages) and the state left.  Partial: gorilla/websocket is the trusted message iterator
   (a list of (type, payload) data messages; control frames never surface; no transport errors
   inside a message); what the broker does with the delivered byte stream is the same code as
   over TCP and is exercised end to end by the harness. *)
From MV Require Import Base.Val IO.WsFrame IO.WsFrameProofs Findings.FixedC39.
Open Scope N_scope.

(* All messages binary: for every segmentation [ms] of a byte stream, every read-size sequence
   and every chunking, what the reads return followed by what is still pending is exactly the
   concatenation of the payloads — nothing lost, duplicated or reordered at message boundaries —
   the reader never fails with ErrInvalidMessage, and if it ends it has delivered everything. *)
Theorem C39_concat : forall ms sizes o d e sf, all_binary ms = true ->
  read_all sizes (mkWs None ms) o = (d, e, sf) ->
  e <> EInvalid /\ e <> EStuck /\
  (e = EOpen -> d ++ pending sf = concat (map snd ms)) /\
  (e = EClosed -> d = concat (map snd ms) /\ pending sf = []).
Proof. exact concat_all_binary. Qed.

(* ... and enough non-empty reads do deliver everything (no read comes back empty, so more reads
   than bytes suffice, however many empty messages the client interleaves). *)
Theorem C39_concat_complete : forall ms sizes o d e sf, all_binary ms = true ->
  Forall (fun z => (0 < z)%nat) sizes -> (length (concat (map snd ms)) < length sizes)%nat ->
  read_all sizes (mkWs None ms) o = (d, e, sf) ->
  e = EClosed /\ d = concat (map snd ms).
Proof. exact concat_all_binary_complete. Qed.

(* A read with room never returns zero bytes without an error (what bufio relies on). *)
Theorem C39_no_empty_read : forall sz s o d s' o', (0 < sz)%nat ->
  ws_read sz s o = (ROk d, s', o') -> d <> [].
Proof. exact ws_read_nonempty. Qed.

(* The first non-binary message: only bytes of the binary messages before it are ever delivered
   (a prefix of their concatenation), the reader cannot run past it, and when it reaches it the
   read fails with ErrInvalidMessage having delivered exactly those bytes; nothing of that
   message or of anything after it is delivered. *)
Theorem C39_nonbinary_ends : forall pre m post sizes o d e sf,
  all_binary pre = true -> is_binary m = false ->
  read_all sizes (mkWs None (pre ++ m :: post)) o = (d, e, sf) ->
  e <> EClosed /\ e <> EStuck /\
  (exists rest, d ++ rest = concat (map snd pre)) /\
  (e = EInvalid -> d = concat (map snd pre) /\ msgs sf = post /\ cur sf = None).
Proof. exact nonbinary_ends. Qed.

Theorem C39_nonbinary_ends_complete : forall pre m post sizes o d e sf,
  all_binary pre = true -> is_binary m = false ->
  Forall (fun z => (0 < z)%nat) sizes -> (length (concat (map snd pre)) < length sizes)%nat ->
  read_all sizes (mkWs None (pre ++ m :: post)) o = (d, e, sf) ->
  e = EInvalid /\ d = concat (map snd pre) /\ msgs sf = post.
Proof. exact nonbinary_ends_complete. Qed.

(* Replies: every Write is one binary message; the payloads the client receives, concatenated,
   are the bytes written. *)
Theorem C39_write : forall ps,
  all_binary (map ws_write ps) = true /\ stream (map ws_write ps) = concat ps.
Proof. exact write_side. Qed.

(* Connections are independent: a listener serves every connection from a fresh reader state
   (ws_init: no current message), so what one connection delivers is a function of its own
   messages only — whatever earlier or later connections sent, and wherever they stopped. *)
Theorem C39_connections_independent : forall before c after,
  serve (before ++ c :: after) = serve before ++ serve1 c :: serve after.
Proof. exact serve_independent. Qed.

(* ... which is exactly what is lost if a reader state is carried over: a connection that starts
   with the unread tail of somebody else's message delivers those foreign bytes first. *)
Theorem C39_stale_reader_leaks : forall tail ms sizes o d e sf, all_binary ms = true ->
  Forall (fun z => (0 < z)%nat) sizes -> (length (tail ++ concat (map snd ms)) < length sizes)%nat ->
  read_all sizes (mkWs (Some tail) ms) o = (d, e, sf) ->
  d = tail ++ concat (map snd ms).
Proof. exact stale_reader_leaks. Qed.

(* non-vacuity: a PINGREQ split over three messages with empty ones in between, read with
   1-byte buffers and adverse chunking; a message that exactly fills the buffer; a text message *)
Example C39_nonvacuous :
  read_all [1; 1; 1]%nat (mkWs None [(2, [192]); (2, []); (2, []); (2, [0]); (2, [])]) [(1%nat, false); (1%nat, true)]
    = ([192; 0], EClosed, mkWs None []) /\
  read_all [2; 2; 2]%nat (mkWs None [(2, [1; 2]); (2, [3])]) [] = ([1; 2; 3], EClosed, mkWs None []) /\
  read_all [5; 5; 5]%nat (mkWs None [(2, [1; 2]); (1, [9]); (2, [3])]) [] = ([1; 2], EInvalid, mkWs None [(2, [3])]).
Proof. vm_compute. repeat split. Qed.

(* the repaired defect (fixed in /repo): 100 empty binary messages used to give 100 empty reads *)
Example C39_prefix_refuted :
  empty_reads_prefix 100 (mkWs None hundred_empty_then_ping) = 100%nat /\
  empty_reads_fixed 100 (mkWs None hundred_empty_then_ping) = 0%nat.
Proof. split; [exact prefix_hundred_empty_reads | exact (proj1 fixed_skips_empty_messages)]. Qed.

Print Assumptions C39_concat.
Print Assumptions C39_concat_complete.
Print Assumptions C39_no_empty_read.
Print Assumptions C39_nonbinary_ends.
Print Assumptions C39_nonbinary_ends_complete.
Print Assumptions C39_write.
Print Assumptions C39_connections_independent.
Print Assumptions C39_stale_reader_leaks.
