(* C26 — Packet codec round-trips every well-formed packet.
   Statements only; every proof is [exact lemma].
   [wf_packet] (Codec/CodecNorm.v): every field within its Go type, header flags as the packet type
   requires, strings valid UTF-8 of at most 65535 bytes, the packet within the protocol's maximum
   size.  [norm pk rem] = the packet the encoded bytes mean ([expected] of the specification-level
   packet [abs pk]); its properties are the explicit normal form [norm_props] (C26_properties), which
   states the encoder's suppression rules: response information only with Mods.AllowResponseInfo,
   reason string / user properties dropped with Mods.DisallowProblemInfo or at Mods.MaxSize, zero /
   empty / out-of-range values written as "absent". *)
From MV Require Import Base.Val Codec.Vbi Codec.Wire Codec.Props Codec.MochiCodec Codec.SpecCodec
  Codec.SpecBridge Codec.CodecRT Codec.CodecEnc Codec.CodecNorm Codec.CodecNormProofs Codec.CodecRoundTrip
  Codec.CodecDecWf Codec.CodecReencode Findings.FixedC26.
Open Scope N_scope.

(* Encoding a well-formed packet of any of the 15 types under protocol version 3, 4 or 5 succeeds
   (unless the packet identifier is the refused 0, C26_encoder_refuses_only_pid0), and decoding the
   result with the same version (fixed header, remaining length, body — whatever follows in the stream
   is left unread) gives the normal form of the packet; the remaining-length field of the encoding
   is the number of bytes that follow it. *)
Theorem C26_roundtrip : forall pk, wf_packet pk = true -> KF_C26_pid0 pk = false ->
  exists bs rem, mochi_encode pk = Ok bs /\
    (exists hb body, bs = hb :: put_vbi rem ++ body /\ blen body = rem /\ rem <= 268435455) /\
    forall rest, Vbi.wf_bytes (bs ++ rest) ->
      mochi_decode_packet (pk_version pk) (bs ++ rest) = Ok (norm pk rem, rest).
Proof. exact roundtrip_total. Qed.

Theorem C26_encoder_refuses_only_pid0 : forall pk, wf_packet pk = true ->
  KF_C26_pid0 pk = true -> mochi_encode pk = Err ENoPacketID.
Proof. exact encode_pid0. Qed.

(* The encoder's output is one of the forms the standard permits for the specification-level
   packet [abs pk] (byte for byte). *)
Theorem C26_encodes_permitted_form : forall pk bs,
  wf_packet pk = true -> mochi_encode pk = Ok bs ->
  exists body, bs = frame (abs pk) body /\ In body (bodies (pk_version pk) (abs pk)) /\
               len body <= 268435455.
Proof. exact encode_is_form. Qed.

(* The decoded properties are exactly the properties valid for the packet type and not suppressed. *)
Theorem C26_properties : forall pkt m p n, props_of (entries pkt m p n) = norm_props pkt m p n.
Proof. exact props_of_entries. Qed.

(* What "equivalent" means field by field: the normal form has the type, flags, identifiers, topic,
   payload, reason codes, filters, subscription options and CONNECT parameters of the packet
   ([same_fields], by packet type; reason codes and properties only where the protocol version
   carries them), and its properties are [norm_props]. *)
Theorem C26_fields_preserved : forall pk rem, wf_packet pk = true ->
  let q := norm pk rem in
  pk_version q = pk_version pk /\
  fh_type (pk_fh q) = fh_type (pk_fh pk) /\ fh_qos (pk_fh q) = fh_qos (pk_fh pk) /\
  fh_dup (pk_fh q) = fh_dup (pk_fh pk) /\ fh_retain (pk_fh q) = fh_retain (pk_fh pk) /\
  fh_remaining (pk_fh q) = rem /\
  same_fields pk q /\
  ((pk_version pk = 5 \/ fh_type (pk_fh pk) = 15) -> fh_type (pk_fh pk) <> 12 -> fh_type (pk_fh pk) <> 13 ->
   exists n, pk_props q = norm_props (fh_type (pk_fh pk)) (pk_mods pk) (pk_props pk) n).
Proof. exact norm_preserves. Qed.

(* Every packet the decoder returns is well-formed (so the theorems above apply to it), for every
   version byte and whatever Mods the caller sets for re-encoding — with two provisos stated in the
   hypotheses: a CONNECT must have the standard protocol name / level and no will bits without the
   will flag ([connect_standard]: the decoder also accepts CONNECTs that ConnectValidate refuses; the
   proof does not cover those), and the input must not be within 0.4 MB of the protocol's maximum
   size (IN_MAX = 268000000). *)
Theorem C26_decoded_wellformed : forall v bs pk rest m,
  v < 256 -> Vbi.wf_bytes bs -> blen bs <= IN_MAX ->
  mochi_decode_packet v bs = Ok (pk, rest) ->
  (fh_type (pk_fh pk) = 1 -> connect_standard pk = true) ->
  wf_packet (set_pk_mods m pk) = true.
Proof. exact decoded_wf. Qed.

(* Re-encoding: any byte string the decoder accepts re-encodes to bytes that decode to the normal
   form of the decoded packet ([C26_fields_preserved] says what the normal form keeps) — modulo the
   known finding KF_C26_pid0 and the two provisos of C26_decoded_wellformed.  The size proviso is
   real: Properties.Decode lets the last property of a block run past the declared block length, so
   a re-encoding can be up to one property per block longer than the accepted input. *)
Theorem C26_reencode_modulo_findings : forall v bs pk rest m,
  v < 256 -> Vbi.wf_bytes bs -> blen bs <= IN_MAX ->
  mochi_decode_packet v bs = Ok (pk, rest) ->
  (fh_type (pk_fh pk) = 1 -> connect_standard pk = true) ->
  KF_C26_pid0 pk = false ->
  let pk' := set_pk_mods m pk in
  exists bs' rem, mochi_encode pk' = Ok bs' /\
    forall rest', Vbi.wf_bytes (bs' ++ rest') ->
      mochi_decode_packet (pk_version pk) (bs' ++ rest') = Ok (norm pk' rem, rest').
Proof. exact reencode. Qed.

(* The model's validity predicate for strings (codec.go validUTF8 = utf8.Valid and no NUL, modelled
   in Wire.v) IS the specification: well-formed UTF-8 per RFC 3629 section 4 (SpecCodec.utf8_wf, the
   ABNF alternatives one by one; surrogates, overlong forms and code points above U+10FFFF excluded)
   without the null character [MQTT-1.5.4-1,2]. *)
Theorem C26_utf8_is_spec : forall s, valid_utf8 s = utf8_wf s.
Proof. exact valid_utf8_is_spec. Qed.

(* special code points are well-formed strings — U+FFFD (EF BF BD, what lenient decoders substitute
   for errors, but a valid character when sent literally), U+FEFF, U+0001, U+007F/0080, U+07FF/0800,
   the noncharacters U+FFFE/U+FFFF, U+D7FF/U+E000 around the surrogates, U+10000, U+10FFFF — and
   the ill-formed forms are not: surrogates, overlong encodings, truncated sequences, > U+10FFFF, NUL;
   a PUBLISH with U+FFFD in topic and user property satisfies wf_packet and round-trips *)
Example C26_special_code_points :
  forallb valid_utf8 [[239;191;189]; [239;187;191]; [1]; [127]; [194;128]; [223;191]; [224;160;128];
                      [239;191;190]; [239;191;191]; [237;159;191]; [238;128;128]; [240;144;128;128];
                      [244;143;191;191]] = true /\
  forallb (fun s => negb (valid_utf8 s))
          [[237;160;128]; [237;191;191]; [192;128]; [193;191]; [224;128;128]; [224;159;191];
           [240;128;128;128]; [240;143;191;191]; [194]; [226;130]; [240;159;152]; [128]; [191];
           [244;144;128;128]; [245;128;128;128]; [255]; [0]; [97;0;98]] = true /\
  let fffd := [239; 191; 189] in
  let pk := set_pk_props (set_user [(fffd, fffd)] props0)
            (set_pk_payload [104] (set_pk_topic fffd (fresh_packet 5 (mkfh 0 PUBLISH 0 false false)))) in
  wf_packet pk = true /\
  exists bs q, mochi_encode pk = Ok bs /\ mochi_decode_packet 5 bs = Ok (q, []) /\
               pk_topic q = fffd /\ p_user (pk_props q) = [(fffd, fffd)].
Proof.
  split; [vm_compute; reflexivity|]. split; [vm_compute; reflexivity|]. cbv zeta.
  split; [vm_compute; reflexivity|]. eexists. eexists.
  split; [vm_compute; reflexivity|]. split; [vm_compute; reflexivity|]. split; reflexivity.
Qed.

(* Known finding KF_C26_pid0: the decoder accepts a packet identifier 0 where one is required; the
   encoder refuses such a packet, so these accepted byte strings cannot be re-encoded. *)
Theorem C26_reencode_refuted :
  exists v bs, match mochi_decode_packet v bs with
               | Ok (pk, []) => mochi_encode pk = Err ENoPacketID
               | _ => False
               end.
Proof. exists 4, [50; 5; 0; 1; 97; 0; 0]. vm_compute. reflexivity. Qed.

(* non-vacuity: an MQTT 5 PUBLISH with properties round-trips; the fixed defect *)
Example C26_nonvacuous :
  let pk := set_pk_props (set_user [([107], [118])] (set_topic_alias_flag true (set_topic_alias 3 props0)))
            (set_pk_payload [104; 105] (set_pk_topic [116] (set_pk_packet_id 9
            (fresh_packet 5 (mkfh 0 PUBLISH 1 false true))))) in
  wf_packet pk = true /\
  mochi_encode pk = Ok [51; 18; 0; 1; 116; 0; 9; 10; 35; 0; 3; 38; 0; 1; 107; 0; 1; 118; 104; 105] /\
  exists q, mochi_decode_packet 5 [51; 18; 0; 1; 116; 0; 9; 10; 35; 0; 3; 38; 0; 1; 107; 0; 1; 118; 104; 105]
            = Ok (q, []) /\ pk_topic q = [116] /\ p_topic_alias (pk_props q) = 3 /\ p_user (pk_props q) = [([107], [118])].
Proof.
  cbv zeta. split; [vm_compute; reflexivity|]. split; [vm_compute; reflexivity|].
  eexists. split; [vm_compute; reflexivity|]. repeat split.
Qed.

Example C26_prefix_refuted :
  ack_encode_prefix pubrec_0x10 = Ok [80; 2; 0; 7] /\ mochi_encode pubrec_0x10 = Ok [80; 3; 0; 7; 16].
Proof. split; [exact (proj1 prefix_ack_drops_reason) | exact (proj1 fixed_ack_keeps_reason)]. Qed.

Print Assumptions C26_roundtrip.
Print Assumptions C26_encodes_permitted_form.
Print Assumptions C26_properties.
Print Assumptions C26_fields_preserved.
Print Assumptions C26_encoder_refuses_only_pid0.
Print Assumptions C26_decoded_wellformed.
Print Assumptions C26_reencode_modulo_findings.
Print Assumptions C26_reencode_refuted.
Print Assumptions C26_utf8_is_spec.
