(* C07 — Every request that requires a response gets one.
   Statements only; proofs are [exact lemma] or vm_compute witnesses. *)
From MV Require Import Base.Val Session.Pkt Session.Respond Session.RespondProofs.
Open Scope N_scope.

(* Full statement demanded by the property (for the response-deciding model of server.go):
     forall c p, wf_request c p = true -> resp_ok p (model_response c p) = true.
   It is FALSE of the faithful model of the current code; the two witnesses below replay on the
   real broker (KNOWN_FINDINGS.json: KF_C07_pubrel_error, KF_C07_qos_downgrade; both behaviours are
   pinned by existing tests).  Outside exactly those two predicates the statement is proved. *)

Theorem C07_modulo_findings : forall (c : ctx) (p : pkt),
  wf_request c p = true ->
  KF_C07_pubrel_error c p = false ->
  KF_C07_qos_downgrade c p = false ->
  resp_ok p (model_response c p) = true.
Proof. exact respond_sound. Qed.

(* the same for the model the engine runs, which includes the refusal of a response larger than the client's
   Maximum Packet Size (the connection is closed with DISCONNECT 0x95 instead) *)
Theorem C07_modulo_findings_sized : forall (c : ctx) (p : pkt),
  wf_request c p = true ->
  KF_C07_pubrel_error c p = false ->
  KF_C07_qos_downgrade c p = false ->
  resp_ok p (model_response_sized c p) = true.
Proof. exact respond_sized_sound. Qed.

Definition props0 : props :=
  {| p_alias := 0; p_subids := []; p_mei := 0; p_ct := []; p_rt := []; p_cd := []; p_user := []; p_rs := [];
     p_sei := 0; p_seiflag := false; p_rm := 0; p_tam := 0; p_maxqos := 0; p_maxqosflag := false; p_aci := [];
     p_ska := 0; p_skaflag := false; p_pfi := 0; p_pfiflag := false; p_mps := 0; p_wdi := 0; p_ri := []; p_sr := [];
     p_rpi := 0; p_rpiflag := false; p_rri := 0 |}.
Definition mkpk (ty qos pid rc : N) : pkt :=
  {| k_type := ty; k_dup := false; k_qos := qos; k_retain := false; k_pid := pid; k_topic := [116];
     k_payload := []; k_rc := rc; k_rcs := []; k_sp := false; k_props := props0; k_filters := [] |}.
Definition ctx0 (maxqos : N) (infl : option N) : ctx :=
  {| x_ver := 5; x_maxqos := maxqos; x_obscure := false; x_topic_valid := true; x_recvq := 10%Z;
     x_acl_write := true; x_infl := infl; x_filters := []; x_too_large := false |}.

(* refutation 1: PUBREL with reason 0x92 for an identifier the broker knows gets no PUBCOMP *)
Theorem C07_refuted_pubrel : exists c p,
  wf_request c p = true /\ resp_ok p (model_response c p) = false /\ KF_C07_pubrel_error c p = true.
Proof. exists (ctx0 2 (Some T_PUBREC)), (mkpk T_PUBREL 1 7 146). vm_compute. repeat split. Qed.

(* refutation 2: with server maximum QoS 1 a QoS 2 PUBLISH is answered with PUBACK, not PUBREC *)
Theorem C07_refuted_downgrade : exists c p,
  wf_request c p = true /\ resp_ok p (model_response c p) = false /\ KF_C07_qos_downgrade c p = true.
Proof. exists (ctx0 1 None), (mkpk T_PUBLISH 2 7 0). vm_compute. repeat split. Qed.

(* non-vacuity: a QoS 2 publish, a PUBREL and a SUBSCRIBE meet the hypotheses *)
Example C07_nonvacuous :
  let c := ctx0 2 None in
  wf_request c (mkpk T_PUBLISH 2 7 0) = true /\ KF_C07_qos_downgrade c (mkpk T_PUBLISH 2 7 0) = false /\
  model_response c (mkpk T_PUBLISH 2 7 0) = RAck T_PUBREC 7 0 /\
  wf_request (ctx0 2 (Some T_PUBREC)) (mkpk T_PUBREL 1 7 0) = true /\
  model_response (ctx0 2 (Some T_PUBREC)) (mkpk T_PUBREL 1 7 0) = RAck T_PUBCOMP 7 0.
Proof. vm_compute. repeat split. Qed.

Print Assumptions C07_modulo_findings.
Print Assumptions C07_modulo_findings_sized.
Print Assumptions C07_refuted_pubrel.
Print Assumptions C07_refuted_downgrade.
