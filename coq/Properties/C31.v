(* C31 — the topic index stays consistent under any concurrent history.  Statements only. *)
From MV Require Import Base.Val Topics.Levels Topics.Match Topics.Alist Topics.IndexSpec Topics.Trie
  Topics.TrieInv Topics.TrieRefine Topics.TrieSelect Topics.TrieMsgs Topics.Lin Topics.LinProofs Topics.TrieLin
  Topics.TopicsEngine Findings.FixedC31.
From Coq Require Import Permutation.
Open Scope N_scope.

(* Sequential refinement: under ANY serial order of operations the particle tree is the simple set of
   subscriptions / map of retained messages [abs ops]: every operation returns what the set / map returns
   (Subscribe, InlineSubscribe: 1 iff the entry is new; Unsubscribe, InlineUnsubscribe: 1 iff it existed;
   RetainMessage: 1 stored / 2 = -1 removed / 0 nothing to remove), and every query afterwards is answered from
   the set / map (C01, C02). *)
Theorem C31_seq_refines : forall ops, wf_ops ops ->
  t_rets ix_empty ops = a_rets a_empty ops /\
  (forall t, valid_topic t ->
     set_eq (r_cl (subscribers (run ops) t)) (sel_cl (abs ops) t) /\
     set_eq (r_sh (subscribers (run ops) t)) (sel_sh (abs ops) t) /\
     set_eq (r_in (subscribers (run ops) t)) (sel_in (abs ops) t)) /\
  (forall f, msg_filter_ok f = true -> Permutation (messages (run ops) f) (spec_retained (abs ops) f)).
Proof.
  intros ops W. pose proof (R_run ops W) as HR. split; [exact (rets_R ops _ _ R_empty W)|]. split.
  - intros t V. exact (conj (select_clients _ _ HR t V) (conj (select_shared _ _ HR t V) (select_inline _ _ HR t V))).
  - intros f OK. exact (messages_perm _ _ f HR OK).
Qed.

(* what the set / map specification returns, spelled out: "existed before" *)
Theorem C31_reports_existed : forall a c f pay id,
  is_share f = false ->
  snd (a_step a (OSub c f pay)) = (if al_mem beq_pair (c, f) (a_cl a) then 0 else 1) /\
  snd (a_step a (OUnsub c f)) = (if al_mem beq_pair (c, f) (a_cl a) then 1 else 0) /\
  snd (a_step a (OInSub id f pay)) = (if al_mem beq_npair (id, f) (a_in a) then 0 else 1) /\
  snd (a_step a (OInUnsub id f)) = (if al_mem beq_npair (id, f) (a_in a) then 1 else 0).
Proof. intros a c f pay id S. cbn [a_step]. rewrite S. repeat split. Qed.

(* Removing empty particles never drops anything: trim changes the contents at no path, so every live
   subscription and every retained message is still found. *)
Theorem C31_trim_preserves : forall p n q, wf_node n -> content_at (trim p n) q = content_at n q.
Proof. exact content_at_trim. Qed.

(* ... and the tree stays well formed under every operation (keys unique, no empty share group) *)
Theorem C31_wf_preserved : forall ops, wf_ops ops -> wf_node (ix_root (run ops)).
Proof. intros ops W. exact (R_wf _ _ (R_run ops W)). Qed.

(* Linearizability: every exported mutator of TopicsIndex holds the root lock from its first to its last
   statement, i.e. is one atomic step.  For every program (one list of operations per goroutine) and every
   schedule (the goroutine that runs next), the history h of the run is a serial order that
   - keeps the order of every goroutine (its operations in h, followed by those it has not run yet, are its program),
   - gives every operation the return value the set / map specification gives it in that order, and
   - leaves an index that answers every query as the specification state does. *)
Theorem C31_lin : forall prog (sched : list nat) xf restf h, wf_ops (concat prog) ->
  run_sched t_step sched ix_empty prog = (xf, restf, h) ->
  let serial := map (fun e : nat * op * N => snd (fst e)) h in
  (forall t, proj t h ++ nth t restf [] = nth t prog []) /\
  map snd h = a_rets a_empty serial /\
  (forall t, valid_topic t ->
     set_eq (r_cl (subscribers xf t)) (sel_cl (a_run a_empty serial) t) /\
     set_eq (r_sh (subscribers xf t)) (sel_sh (a_run a_empty serial) t) /\
     set_eq (r_in (subscribers xf t)) (sel_in (a_run a_empty serial) t)) /\
  (forall f, msg_filter_ok f = true -> Permutation (messages xf f) (spec_retained (a_run a_empty serial) f)).
Proof.
  intros prog sched xf restf h W H serial.
  destruct (index_linearizable prog sched xf restf h W H) as (P & RV & HR). fold serial in RV, HR.
  split; [exact P|]. split; [exact RV|]. split.
  - intros t V. exact (conj (select_clients _ _ HR t V) (conj (select_shared _ _ HR t V) (select_inline _ _ HR t V))).
  - intros f OK. exact (messages_perm _ _ f HR OK).
Qed.

(* the generic fact behind it, for any state / operation / return types: a schedule of atomic steps is a
   serial execution in program order *)
Theorem C31_atomic_serial : forall (St Op Rv : Type) (step : St -> Op -> St * Rv) sched st prog stf restf h,
  run_sched step sched st prog = (stf, restf, h) ->
  seq_run step st (map (fun e => snd (fst e)) h) = (stf, map snd h) /\
  (forall t, proj t h ++ nth t restf [] = nth t prog []) /\ length restf = length prog.
Proof. intros St Op Rv step. exact (sched_serial step). Qed.

(* The checker used on the real index (concurrent batches): it accepts an observation exactly when some
   interleaving of the per-goroutine lists that respects their order explains all return values and the final
   queries; and it accepts whatever atomic goroutines can observe. *)
Theorem C31_lin_check_decides : forall (St : Type) (step : St -> op -> St * N) (final : St -> bool) st ths,
  lin_check step N.eqb final st ths = true <->
  exists l, interleave ths l /\ explains step N.eqb final st l = true.
Proof. intros St step final. exact (lin_check_spec step N.eqb final). Qed.

Theorem C31_lin_check_accepts_atomic : forall (St : Type) (step : St -> op -> St * N) (final : St -> bool)
  sched st prog stf restf h,
  run_sched step sched st prog = (stf, restf, h) -> final stf = true ->
  lin_check step N.eqb final st (obs_of (length prog) h) = true /\
  (forall t, map fst (nth t (obs_of (length prog) h) []) ++ nth t restf [] = nth t prog []).
Proof.
  intros St step final sched st prog stf restf h H F.
  exact (atomic_is_linearizable step N.eqb final N.eqb_refl sched st prog stf restf h H F).
Qed.

(* non-vacuity: two goroutines racing to subscribe the same (client, filter): exactly one sees "new" in
   either schedule, and the checker rejects the observation in which both do *)
Example C31_nonvacuous :
  let prog := [[OSub (tag "c") (tag "a") 1; OUnsub (tag "c") (tag "a")]; [OSub (tag "c") (tag "a") 2]] in
  wf_ops (concat prog) /\
  map snd (snd (run_sched t_step [0; 1; 0]%nat ix_empty prog)) = [1; 0; 1] /\
  map snd (snd (run_sched t_step [1; 0; 0]%nat ix_empty prog)) = [1; 0; 1] /\
  map snd (snd (run_sched t_step [0; 0; 1]%nat ix_empty prog)) = [1; 1; 1] /\
  lin_check a_step N.eqb (fun _ => true) a_empty
    [[(OSub (tag "c") (tag "a") 1, 1)]; [(OSub (tag "c") (tag "a") 2, 1)]] = false /\
  lin_check a_step N.eqb (fun _ => true) a_empty
    [[(OSub (tag "c") (tag "a") 1, 0)]; [(OSub (tag "c") (tag "a") 2, 1)]] = true.
Proof. vm_compute. repeat split; repeat constructor. Qed.

(* the repaired defect (fixed in /repo): the pre-fix Unsubscribe reported "existed" for an absent subscription *)
Example C31_prefix_refuted :
  unsubscribe_ret_prefix (run [OSub (tag "c1") (tag "a/b") 1]) (tag "a/b") (tag "c2") = 1 /\
  inline_unsubscribe_ret_prefix (run [OInSub 7 (tag "q") 1]) 9 (tag "q") = 1.
Proof. vm_compute. repeat split. Qed.

Print Assumptions C31_seq_refines.
Print Assumptions C31_reports_existed.
Print Assumptions C31_trim_preserves.
Print Assumptions C31_wf_preserved.
Print Assumptions C31_lin.
Print Assumptions C31_atomic_serial.
Print Assumptions C31_lin_check_decides.
Print Assumptions C31_lin_check_accepts_atomic.
