(* C18 — Auth ledger decisions are deterministic and use MQTT level semantics.
   Statements only; every proof is [exact lemma].  Model and specification: Auth/Ledger.v. *)
From Coq Require Import String Permutation.
From MV Require Import Base.Val Topics.Valid Auth.Ledger Auth.LedgerProofs Findings.FixedC18.
Import VLevels.
Open Scope N_scope.
Open Scope list_scope.

(* ---- a rule filter matches a topic only level by level ---- *)

(* MatchTopic is [level_match] on the levels of filter and topic, for every filter in which a "#"
   level occurs only as the last level (a trailing '#'; see Auth/Ledger.v for the guard) and every
   topic, of any length. *)
Theorem C18_match_spec : forall f t,
  hash_only_last (split f) = true -> match_topic f t = level_match (split f) (split t).
Proof. exact match_topic_spec. Qed.

(* a filter without wildcards matches only the identical topic *)
Theorem C18_match_exact : forall f t,
  no_wildcard (split f) -> (match_topic f t = true <-> f = t).
Proof. exact match_topic_exact. Qed.

(* '+' matches exactly one level *)
Theorem C18_match_plus : forall fl tl,
  level_match ([43] :: fl) tl = true <-> exists x tl', tl = x :: tl' /\ level_match fl tl' = true.
Proof. exact level_match_plus. Qed.

(* a trailing '#' matches one or more further levels *)
Theorem C18_match_trailing_hash : forall pre tl,
  hash_only_last pre = true -> Forall (fun l => is_hash l = false) pre ->
  (level_match (pre ++ [[35]]) tl = true <->
   exists t1 t2, tl = t1 ++ t2 /\ level_match pre t1 = true /\ t2 <> []).
Proof. exact level_match_trailing_hash. Qed.

(* ---- the decisions are the same on every evaluation: they do not depend on the order in which
        Go enumerates the Users map or any Filters map ---- *)

Theorem C18_deterministic_user_acl : forall acl acl' topic write,
  Permutation acl acl' -> user_acl_loop acl topic write false = user_acl_loop acl' topic write false.
Proof. exact user_acl_loop_perm. Qed.

Theorem C18_deterministic : forall l l' c topic write pw,
  ledger_equiv l l' ->
  acl_ok l c topic write = acl_ok l' c topic write /\ auth_ok l c pw = auth_ok l' c pw.
Proof. intros l l' c topic write pw E. split; [exact (acl_ok_equiv l l' c topic write E) | exact (auth_ok_equiv l l' c pw E)]. Qed.

(* ledger_equiv covers every re-enumeration of the Users map (keys are unique in a Go map) *)
Theorem C18_users_map_order : forall us us',
  NoDup (map fst us) -> Permutation us us' -> users_equiv us us'.
Proof. exact users_equiv_perm. Qed.

(* ---- global rules are consulted in list order (first matching rule decides) ---- *)

Theorem C18_order_auth : forall pre n r post c pw,
  Forall (fun x => auth_rule_matches x c pw = false) pre -> auth_rule_matches r c pw = true ->
  auth_global (pre ++ r :: post) n c pw = (n + N.of_nat (length pre), a_allow r).
Proof. exact auth_global_first. Qed.

Theorem C18_order_acl : forall pre n r post c topic write,
  Forall (fun x => acl_decisive x c topic = false) pre -> acl_decisive r c topic = true ->
  acl_global (pre ++ r :: post) n c topic write = (n + N.of_nat (length pre), acl_rule_decision r topic write).
Proof. exact acl_global_first. Qed.

(* no rule decides: connect is refused, publish/subscribe is allowed *)
Theorem C18_order_default : forall rs rs' n c pw topic write,
  Forall (fun x => auth_rule_matches x c pw = false) rs ->
  Forall (fun x => acl_decisive x c topic = false) rs' ->
  auth_global rs n c pw = (0, false) /\ acl_global rs' n c topic write = (0, true).
Proof.
  intros rs rs' n c pw topic write F F'.
  split; [exact (auth_global_none rs n c pw F) | exact (acl_global_none rs' n c topic write F')].
Qed.

(* ---- a user's own rules take precedence ---- *)

Theorem C18_user_precedence : forall l c topic write pw u,
  find_user (l_users l) (cl_username c) = Some u ->
  (u_password u <> [] -> u_password u = pw -> auth_ok l c pw = (0, negb (u_disallow u))) /\
  (any_matching (u_acl u) topic = true -> acl_ok l c topic write = (0, any_granting (u_acl u) topic write)).
Proof.
  intros l c topic write pw u F.
  split; [exact (user_auth_precedence l c pw u F) | exact (user_acl_precedence l c topic write u F)].
Qed.

(* ---- the model refines the declarative specification used by the checker ---- *)

Theorem C18_refines_spec : forall l c topic write pw,
  (forall d, acl_spec match_topic l c topic write = Some d -> snd (acl_ok l c topic write) = d) /\
  snd (auth_ok l c pw) = auth_spec l c pw.
Proof.
  intros l c topic write pw. split; [exact (acl_ok_refines_spec l c topic write) | exact (auth_ok_is_spec l c pw)].
Qed.

(* non-vacuity *)
Example C18_nonvacuous_match :
  map (fun p => match_topic (B (fst p)) (B (snd p)))
      [("a/b","a/b"); ("a/+","a/b"); ("a/+","a/"); ("a/#","a/b"); ("a/#","a/b/c"); ("#","a"); ("+/+","a/b");
       ("a/+","a/b/c"); ("a","a/b"); ("a/b","a"); ("a/#","a"); ("a/+","a"); ("+","a/b"); ("a/b","a/c"); ("a+","ab")]%string
  = [true; true; true; true; true; true; true;
     false; false; false; false; false; false; false; false].
Proof. vm_compute. reflexivity. Qed.

Example C18_nonvacuous_decisions :
  let u := Build_user_rule (B "pw") [(B "a/#", 3); (B "a/b", 0); (B "c", 1)] false in
  let l := Build_ledger [(B "u1", u)]
                        [Build_auth_rule (B "cl*") [] [] [] false; Build_auth_rule [] [] [] [] true]
                        [Build_acl_rule [] (B "u2") [] [(B "x/#", 1)]; Build_acl_rule [] [] [] [(B "#", 0)]] in
  let c1 := Build_client (B "cl1") (B "u1") (B "127.0.0.1") in
  let c2 := Build_client (B "k") (B "u2") (B "127.0.0.1") in
  acl_ok l c1 (B "a/b") true = (0, true) /\        (* own rules: a granting filter wins, in any order *)
  acl_ok l c1 (B "c") true = (0, false) /\         (* own rules: matched, not granted *)
  acl_ok l c1 (B "zz") true = (1, false) /\        (* own rules silent: first decisive global rule *)
  acl_ok l c2 (B "x/y") false = (0, true) /\ acl_ok l c2 (B "x/y") true = (0, false) /\
  auth_ok l c1 (B "pw") = (0, true) /\             (* own record before the refusing rule 0 *)
  auth_ok l c1 (B "bad") = (0, false) /\ auth_ok l c2 (B "bad") = (1, true).
Proof. vm_compute. repeat split. Qed.

(* the repaired defects (fixed in /repo): what the pre-fix code did *)
Example C18_prefix_refuted :
  match_topic_prefix (B "a/+") (B "a/b/c") = true /\ match_topic_prefix (B "a") (B "a/b") = true /\
  exists acl acl', Permutation acl acl' /\
    user_acl_loop_prefix acl (B "a/b") true <> user_acl_loop_prefix acl' (B "a/b") true.
Proof.
  split; [vm_compute; reflexivity|]. split; [vm_compute; reflexivity|].
  exists [(B "a/#", 3); (B "a/b", 0)], [(B "a/b", 0); (B "a/#", 3)].
  split; [apply perm_swap|]. vm_compute. discriminate.
Qed.

Print Assumptions C18_match_spec.
Print Assumptions C18_match_exact.
Print Assumptions C18_match_plus.
Print Assumptions C18_match_trailing_hash.
Print Assumptions C18_deterministic_user_acl.
Print Assumptions C18_deterministic.
Print Assumptions C18_users_map_order.
Print Assumptions C18_order_auth.
Print Assumptions C18_order_acl.
Print Assumptions C18_order_default.
Print Assumptions C18_user_precedence.
Print Assumptions C18_refines_spec.
