(* C17 — Authorisation is enforced on every route a message can take.
   Statements only; proofs are [exact lemma].  Everything is quantified over ALL permission relations
   [perm : client -> topic-or-filter -> write? -> bool] (the answer of the ACL hooks), all matching
   relations and filter-validity predicates, and ALL histories [ops] from the empty broker:
   [emitted ob evs] = evs is what the connections received in some step of some history,
   [reachable ob st] = st is the broker state after some history.  The model is that of the repaired
   code (fix 411d180: will topic validated at CONNECT, sendLWT checks validity and write permission);
   the pre-fix behaviour is documented in Findings/FixedC17.v.  C17-3 (storage hooks persisting refused
   subscriptions) is a matter of the storage model (C20-C22), not of this routing model. *)
From MV Require Import Base.Val Topics.Levels Topics.Match Hooks.Chain Auth.Acl Auth.AclProofs.
Open Scope N_scope.

Section C17.
Variable perm : client -> bytes -> bool -> bool.
Variable matches : bytes -> bytes -> bool.
Variable valid_filter : bytes -> bool.

(* No client receives a message on a topic its read permission denies — live fan-out, retained
   messages replayed on subscribe, messages kept for an offline session and resent later, wills. *)
Theorem C17_read : forall (ob : bool) (evs : list (client * aev)) (c : client) (m : msg),
  emitted perm matches valid_filter ob evs -> In (c, ADeliver m) evs -> perm c (m_topic m) false = true.
Proof. exact (read_enforced perm matches valid_filter). Qed.

(* No message from a non-inline client is delivered or retained on a topic its write permission denies
   (nor on an invalid or $SYS topic): this holds for everything delivered in any step (forwarding,
   wills, delayed wills, retained replay, resend) and for everything the broker keeps (retained store,
   in-flight queues of offline sessions, pending delayed wills) in any reachable state. *)
Theorem C17_write : forall (ob : bool),
  (forall evs c m, emitted perm matches valid_filter ob evs -> In (c, ADeliver m) evs -> msg_ok perm m) /\
  (forall st, reachable perm matches valid_filter ob st ->
     (forall t m, In (t, m) (a_ret st) -> t = m_topic m /\ msg_ok perm m) /\
     (forall c s m, In (c, s) (a_cl st) -> In m (c_queue s) -> msg_ok perm m /\ perm c (m_topic m) false = true) /\
     (forall c m, In (c, m) (a_delayed st) -> msg_ok perm m)).
Proof. exact (write_enforced perm matches valid_filter). Qed.

(* Subscriptions to denied filters are refused (0x87; 0x80 when obscured or for MQTT 3) and never
   deliver: the index of every reachable state holds only valid filters the client may read, and every
   delivery rests on such a filter matching the topic. *)
Theorem C17_sub_refused : forall (ob : bool),
  (forall ver cl fs i f q, nth_error fs i = Some (f, q) -> valid_filter f = true -> perm cl f false = false ->
     nth_error (fst (sub_codes perm valid_filter ver ob cl fs)) i = Some (if (ver <? 5) || ob then 128 else 135)) /\
  (forall st c f q, reachable perm matches valid_filter ob st -> In (c, (f, q)) (a_subs st) ->
     valid_filter f = true /\ perm c f false = true) /\
  (forall evs c m, emitted perm matches valid_filter ob evs -> In (c, ADeliver m) evs ->
     exists f, valid_filter f = true /\ perm c f false = true /\ matches f (m_topic m) = true).
Proof. exact (sub_refused perm matches valid_filter). Qed.

(* Clients cannot publish to $SYS topics: such a publish changes nothing and reaches nobody (and by
   C17_write no client message on a $SYS topic is ever delivered, retained or queued: msg_ok demands
   valid_pub_topic). *)
Theorem C17_sys : forall (ob : bool) (st : ast) (cl : client) (topic payload : bytes) (qos : N) (rt : bool) (pid : N),
  prefix (tag "$SYS") topic = true -> has_wild topic = false ->
  fst (astep perm matches valid_filter ob st (APublish cl topic payload qos rt pid)) = st /\
  forall c m, ~ In (c, ADeliver m) (snd (astep perm matches valid_filter ob st (APublish cl topic payload qos rt pid))).
Proof. exact (sys_refused perm matches valid_filter). Qed.

(* Will topics must be valid topic names: a CONNECT with any other will topic is refused and changes
   nothing; every will held by a session of a reachable state has a valid topic name. *)
Theorem C17_will_topic_valid : forall (ob : bool),
  (forall st cl ver clean w, valid_pub_topic (w_topic w) = false ->
     astep perm matches valid_filter ob st (AConnect cl ver clean (Some w)) = (st, [(cl, AConnack false false); (cl, AClosed)])) /\
  (forall st c s w, reachable perm matches valid_filter ob st -> In (c, s) (a_cl st) -> c_will s = Some w ->
     valid_pub_topic (w_topic w) = true).
Proof. exact (will_topic_valid perm matches valid_filter). Qed.

End C17.

(* ---------- non-vacuity: concrete permission tables and histories ---------- *)
Definition tblx : acl_table :=
  [ (tag "p", (tag "a/x", true)); (tag "s", (tag "a/#", false)); (tag "s", (tag "a/x", false));
    (tag "s", (tag "d/#", false)); (tag "p", (tag "d/x", true)) ].
Definition run_x := arun (perm_of tblx) topic_matches valid_filter_spec false a_init.
Definition wl (t : bytes) (delay : bool) : option will := Some (mkW t [9] 1 true delay).

(* a permitted publish is delivered and retained; the subscriber may read a/x but not d/x although its
   filter d/# was granted: the message on d/x is retained (write allowed) but not delivered *)
Example C17_delivers :
  snd (run_x [AConnect (tag "s") 5 true None; ASubscribe (tag "s") 1 [(tag "a/#", 1); (tag "d/#", 0); (tag "b/#", 0)];
              AConnect (tag "p") 4 true None; APublish (tag "p") (tag "a/x") [1] 1 true 7;
              APublish (tag "p") (tag "d/x") [2] 0 true 0]) =
  [ [(tag "s", AConnack true false)]; [(tag "s", ASuback 1 [1; 0; 135])]; [(tag "p", AConnack true false)];
    [(tag "p", AAck 4 7 0); (tag "s", ADeliver (mkM (Some (tag "p")) (tag "a/x") [1] 1 true))]; [] ] /\
  map fst (a_ret (fst (run_x [AConnect (tag "p") 4 true None; APublish (tag "p") (tag "a/x") [1] 1 true 7;
                               APublish (tag "p") (tag "d/x") [2] 0 true 0]))) = [tag "d/x"; tag "a/x"].
Proof. vm_compute. split; reflexivity. Qed.

(* wills: on a permitted topic the will is delivered and retained when the connection drops; on a topic
   the client may not write it is neither; on a wildcard or $SYS topic the CONNECT is refused *)
Example C17_wills :
  snd (run_x [AConnect (tag "s") 4 true None; ASubscribe (tag "s") 1 [(tag "a/#", 0)];
              AConnect (tag "p") 4 true (wl (tag "a/x") false); ANetClose (tag "p")]) =
  [ [(tag "s", AConnack true false)]; [(tag "s", ASuback 1 [0])]; [(tag "p", AConnack true false)];
    [(tag "p", AClosed); (tag "s", ADeliver (mkM (Some (tag "p")) (tag "a/x") [9] 1 true))] ] /\
  (let r := run_x [AConnect (tag "s") 4 true None; ASubscribe (tag "s") 1 [(tag "a/#", 0)];
                   AConnect (tag "p") 4 true (wl (tag "a/y") false); ANetClose (tag "p")] in
   nth 3 (snd r) [] = [(tag "p", AClosed)] /\ a_ret (fst r) = []) /\
  snd (run_x [AConnect (tag "p") 5 true (wl (tag "$SYS/w") false)]) = [[(tag "p", AConnack false false); (tag "p", AClosed)]] /\
  snd (run_x [AConnect (tag "p") 5 true (wl (tag "a/+/#") true)]) = [[(tag "p", AConnack false false); (tag "p", AClosed)]].
Proof. vm_compute. repeat split. Qed.

Print Assumptions C17_read.
Print Assumptions C17_write.
Print Assumptions C17_sub_refused.
Print Assumptions C17_sys.
Print Assumptions C17_will_topic_valid.
