(* C17 — Authorisation is enforced on every route a message can take.
   Statements only; proofs are [exact lemma].  Everything is quantified over ALL permission relations
   [perm : client -> topic-or-filter -> write? -> bool] (the answer of the ACL hooks), all matching
   relations, filter-validity and shared-filter predicates, and ALL histories from the empty broker, each
   step with an arbitrary share-group oracle (which member of a group Go's map iteration picks):
   [emitted ... ob evs] = evs is what the connections received in some step of some history,
   [reachable ... ob st] = st is the broker state after some history.  Histories contain connects (also
   over a live connection: takeover, with the will of the connection taken over), DISCONNECT with and
   without will, network drops, publishes at QoS 0-2 (with PUBREL, retransmission) with or without topic
   alias, subscribes (plain and $share filters, No-Local), inline publishes, will ticks, session expiry.
   The model is that of the repaired code (fix 411d180: will topic validated at CONNECT, sendLWT checks
   validity and write permission); the pre-fix behaviour is documented in Findings/FixedC17.v.  C17-3
   (storage hooks persisting refused subscriptions) is a matter of the storage model (C20-C22). *)
From MV Require Import Base.Val Topics.Levels Topics.Match Hooks.Chain Auth.Acl Auth.AclProofs.
Open Scope N_scope.

Section C17.
Variable perm : client -> bytes -> bool -> bool.
Variable matches : bytes -> bytes -> bool.
Variable valid_filter : bytes -> bool.
Variable is_shared : bytes -> bool.
Variable eff : bytes -> bytes.
Local Notation emitted := (emitted perm matches valid_filter is_shared eff).
Local Notation reachable := (reachable perm matches valid_filter is_shared eff).
Local Notation astep := (astep perm matches valid_filter is_shared eff).

(* No client receives a message on a topic its read permission denies — live fan-out (also as the
   chosen member of a share group), retained messages replayed on subscribe, messages kept for an
   offline session and resent on resumption or takeover, wills. *)
Theorem C17_read : forall (ob : bool) (evs : list (client * aev)) (c : client) (m : msg),
  emitted ob evs -> In (c, ADeliver m) evs -> perm c (m_topic m) false = true.
Proof. exact (read_enforced perm matches valid_filter is_shared eff). Qed.

(* No message from a non-inline client is delivered or retained on a topic its write permission denies
   (nor on an invalid or $SYS topic): this holds for everything delivered in any step (forwarding, wills,
   delayed wills, the will published at a takeover, retained replay, resend) and for everything the
   broker keeps (retained store, in-flight queues of offline sessions, pending delayed wills) in any
   reachable state.  Topic aliases are no way around it: every alias of every connection is bound to a
   topic its client may write (the ACL is asked about the topic in the packet — the empty string for an
   alias-only packet — but an alias can only be bound by a packet that carries the topic and passed). *)
Theorem C17_write : forall (ob : bool),
  (forall evs c m, emitted ob evs -> In (c, ADeliver m) evs -> msg_ok perm m) /\
  (forall st, reachable ob st ->
     (forall t m, In (t, m) (a_ret st) -> t = m_topic m /\ msg_ok perm m) /\
     (forall c s m, In (c, s) (a_cl st) -> In m (c_queue s) -> msg_ok perm m /\ perm c (m_topic m) false = true) /\
     (forall c m, In (c, m) (a_delayed st) -> msg_ok perm m) /\
     (forall c s a t, In (c, s) (a_cl st) -> In (a, t) (c_alias s) -> perm c t true = true /\ valid_pub_topic t = true)).
Proof. exact (write_enforced perm matches valid_filter is_shared eff). Qed.

(* Subscriptions to denied filters are refused (0x87; 0x80 when obscured or for MQTT 3) and never
   deliver.  The filter the ACL is asked about is the string the client sent, including a
   $share/<group>/ prefix (that is what processSubscribe does); the index of every reachable state holds
   only valid filters the client was permitted, and every delivery rests on such a filter whose
   EFFECTIVE filter (behind the share prefix) matches the topic — and, by C17_read, on read permission
   for the topic itself, also for the member a share group happened to choose. *)
Theorem C17_sub_refused : forall (ob : bool),
  (forall ver cl fs i f q nl, nth_error fs i = Some (f, (q, nl)) -> valid_filter f = true -> nl && is_shared f = false ->
     perm cl f false = false ->
     nth_error (fst (sub_codes perm valid_filter is_shared ver ob cl fs)) i = Some (if (ver <? 5) || ob then 128 else 135)) /\
  (forall st c f o, reachable ob st -> In (c, (f, o)) (a_subs st) -> valid_filter f = true /\ perm c f false = true) /\
  (forall evs c m, emitted ob evs -> In (c, ADeliver m) evs ->
     exists f, valid_filter f = true /\ perm c f false = true /\ matches (eff_of is_shared eff f) (m_topic m) = true).
Proof. exact (sub_refused perm matches valid_filter is_shared eff). Qed.

(* Clients cannot publish to $SYS topics: such a publish changes nothing and reaches nobody (and by
   C17_write no client message on a $SYS topic is ever delivered, retained, queued or aliased). *)
Theorem C17_sys : forall (ob : bool) (sel : bytes -> client -> bool) (st : ast) (cl : client) (topic payload : bytes)
                         (qos : N) (rt : bool) (pid alias : N),
  prefix (tag "$SYS") topic = true -> has_wild topic = false ->
  fst (astep ob sel st (APublish cl topic payload qos rt pid alias)) = st /\
  forall c m, ~ In (c, ADeliver m) (snd (astep ob sel st (APublish cl topic payload qos rt pid alias))).
Proof. exact (sys_refused perm matches valid_filter is_shared eff). Qed.

(* Will topics must be valid topic names: a CONNECT with any other will topic is refused and changes
   nothing (a live connection of the same id is not even taken over); every will held by a session of a
   reachable state has a valid topic name. *)
Theorem C17_will_topic_valid : forall (ob : bool),
  (forall sel st cl ver clean w, valid_pub_topic (w_topic w) = false ->
     astep ob sel st (AConnect cl ver clean (Some w)) = (st, [(cl, AConnack false false); (cl, AClosed)])) /\
  (forall st c s w, reachable ob st -> In (c, s) (a_cl st) -> c_will s = Some w -> valid_pub_topic (w_topic w) = true).
Proof. exact (will_topic_valid perm matches valid_filter is_shared eff). Qed.

End C17.

(* ---------- non-vacuity: concrete permission tables and histories ---------- *)
Definition tblx : acl_table :=
  [ (tag "p", (tag "a/x", true)); (tag "s", (tag "a/#", false)); (tag "s", (tag "a/x", false));
    (tag "s", (tag "d/#", false)); (tag "p", (tag "d/x", true)); (tag "p", ([], true));
    (tag "g", (tag "$share/k/a/#", false)); (tag "h", (tag "$share/k/a/#", false)); (tag "h", (tag "a/x", false)) ].
Definition first_sel : bytes -> client -> bool := fun _ _ => true.
Definition pick (c : bytes) : bytes -> client -> bool := fun _ m => beq_bytes m c.
Definition run_sel (ops : list ((bytes -> client -> bool) * aop)) :=
  arun (perm_of tblx) topic_matches valid_filter_spec is_share eff_filter false a_init ops.
Definition run_x (ops : list aop) := run_sel (map (fun o => (first_sel, o)) ops).
Definition wl (t : bytes) (delay : bool) : option will := Some (mkW t [9] 1 true delay).
Definition pub (c : bytes) (t : bytes) (p : bytes) (q : N) (r : bool) (pid al : N) := APublish c t p q r pid al.

(* a permitted publish is delivered and retained; the subscriber may read a/x but not d/x although its
   filter d/# was granted: the message on d/x is retained (write allowed) but not delivered *)
Example C17_delivers :
  snd (run_x [AConnect (tag "s") 5 true None;
              ASubscribe (tag "s") 1 [(tag "a/#", (1, false)); (tag "d/#", (0, false)); (tag "b/#", (0, false))];
              AConnect (tag "p") 4 true None; pub (tag "p") (tag "a/x") [1] 1 true 7 0;
              pub (tag "p") (tag "d/x") [2] 0 true 0 0]) =
  [ [(tag "s", AConnack true false)]; [(tag "s", ASuback 1 [1; 0; 135])]; [(tag "p", AConnack true false)];
    [(tag "p", AAck 4 7 0); (tag "s", ADeliver (mkM (Some (tag "p")) (tag "a/x") [1] 1 true))]; [] ] /\
  map fst (a_ret (fst (run_x [AConnect (tag "p") 4 true None; pub (tag "p") (tag "a/x") [1] 1 true 7 0;
                               pub (tag "p") (tag "d/x") [2] 0 true 0 0]))) = [tag "d/x"; tag "a/x"].
Proof. vm_compute. split; reflexivity. Qed.

(* wills: on a permitted topic the will is delivered and retained when the connection drops — or is
   taken over; on a topic the client may not write it is neither; on a wildcard or $SYS topic the
   CONNECT is refused *)
Example C17_wills :
  snd (run_x [AConnect (tag "s") 4 true None; ASubscribe (tag "s") 1 [(tag "a/#", (0, false))];
              AConnect (tag "p") 4 true (wl (tag "a/x") false); ANetClose (tag "p")]) =
  [ [(tag "s", AConnack true false)]; [(tag "s", ASuback 1 [0])]; [(tag "p", AConnack true false)];
    [(tag "p", AClosed); (tag "s", ADeliver (mkM (Some (tag "p")) (tag "a/x") [9] 1 true))] ] /\
  nth 3 (snd (run_x [AConnect (tag "s") 4 true None; ASubscribe (tag "s") 1 [(tag "a/#", (0, false))];
                     AConnect (tag "p") 4 true (wl (tag "a/x") false); AConnect (tag "p") 4 true None])) [] =
    [(tag "p", AConnack true false); (tag "p", AClosed); (tag "s", ADeliver (mkM (Some (tag "p")) (tag "a/x") [9] 1 true))] /\
  (let r := run_x [AConnect (tag "s") 4 true None; ASubscribe (tag "s") 1 [(tag "a/#", (0, false))];
                   AConnect (tag "p") 4 true (wl (tag "a/y") false); ANetClose (tag "p")] in
   nth 3 (snd r) [] = [(tag "p", AClosed)] /\ a_ret (fst r) = []) /\
  snd (run_x [AConnect (tag "p") 5 true (wl (tag "$SYS/w") false)]) = [[(tag "p", AConnack false false); (tag "p", AClosed)]] /\
  snd (run_x [AConnect (tag "p") 5 true (wl (tag "a/+/#") true)]) = [[(tag "p", AConnack false false); (tag "p", AClosed)]].
Proof. vm_compute. repeat split. Qed.

(* topic aliases: alias 1 is bound to a/x by a permitted publish; an attempt to re-bind it to a/y (not
   permitted) is refused and leaves the binding; the alias-only packet (the ACL is asked about "") then
   goes to a/x.  An alias-only packet on an alias never bound ends the connection. *)
Example C17_alias :
  snd (run_x [AConnect (tag "s") 5 true None; ASubscribe (tag "s") 1 [(tag "a/#", (0, false))];
              AConnect (tag "p") 5 true None; pub (tag "p") (tag "a/x") [1] 0 false 0 1;
              pub (tag "p") (tag "a/y") [2] 1 false 8 1; pub (tag "p") [] [3] 0 false 0 1;
              pub (tag "p") [] [4] 0 false 0 2]) =
  [ [(tag "s", AConnack true false)]; [(tag "s", ASuback 1 [0])]; [(tag "p", AConnack true false)];
    [(tag "s", ADeliver (mkM (Some (tag "p")) (tag "a/x") [1] 0 false))];
    [(tag "p", AAck 4 8 135)];
    [(tag "s", ADeliver (mkM (Some (tag "p")) (tag "a/x") [3] 0 false))];
    [(tag "p", AClosed)] ].
Proof. vm_compute. reflexivity. Qed.

(* share group k on a/#: g and h were both permitted the $share filter; h may read a/x, g may not.  When
   the group picks h the message arrives, when it picks g it is lost for the group — never delivered to
   a member that may not read the topic *)
Definition share_ops (c : bytes) : list ((bytes -> client -> bool) * aop) :=
  map (fun o => (pick c, o))
      [AConnect (tag "g") 5 true None; ASubscribe (tag "g") 1 [(tag "$share/k/a/#", (0, false))];
       AConnect (tag "h") 5 true None; ASubscribe (tag "h") 1 [(tag "$share/k/a/#", (0, false))];
       AConnect (tag "p") 4 true None; pub (tag "p") (tag "a/x") [1] 0 false 0 0].
Example C17_share :
  nth 5 (snd (run_sel (share_ops (tag "h")))) [] = [(tag "h", ADeliver (mkM (Some (tag "p")) (tag "a/x") [1] 0 false))] /\
  nth 5 (snd (run_sel (share_ops (tag "g")))) [(tag "x", AClosed)] = [].
Proof. vm_compute. split; reflexivity. Qed.

Print Assumptions C17_read.
Print Assumptions C17_write.
Print Assumptions C17_sub_refused.
Print Assumptions C17_sys.
Print Assumptions C17_will_topic_valid.
