(* Dispatch table of all engines: [engine name case] is what the OCaml driver calls. *)
From MV Require Import Base.Val Codec.Vbi.

Definition engine (name : bytes) (c : val) : val :=
  if beq_bytes name (tag "vbi") then vbi_engine c
  else bad_case.
