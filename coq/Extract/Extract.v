(* Extraction: ExtrOcamlBasic only.  N, Z, positive, nat, ascii, string stay Coq datatypes. *)
From Coq Require Extraction.
From Coq Require Import ExtrOcamlBasic.
From MV Require Import Base.Val Extract.Engines.
Extraction Language OCaml.
Extraction "model.ml" engine.
