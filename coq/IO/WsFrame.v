(* Model of listeners/websocket.go: wsConn.Read / wsConn.Write, the adapter that lets the broker
   treat a WebSocket connection as a byte stream.  No proofs in this file.

     func (ws *wsConn) Read(p []byte) (int, error) {
         for { n, err := ws.read(p)
               if n > 0 || err != nil || len(p) == 0 { return n, err } } }

     func (ws *wsConn) read(p []byte) (int, error) {
         if ws.r == nil {
             op, r, err := ws.c.NextReader()             -- next data message (gorilla/websocket)
             if err != nil { return 0, err }
             if op != websocket.BinaryMessage { return 0, ErrInvalidMessage }
             ws.r = r }
         var n int
         for { if n == len(p) { return n, nil }          -- buffer full
               br, err := ws.r.Read(p[n:]); n += br
               if err != nil { ws.r = nil                -- end of the current message
                               if errors.Is(err, io.EOF) { err = nil }
                               return n, err } } }

     func (ws *wsConn) Write(p []byte) (int, error) { ws.c.WriteMessage(BinaryMessage, p) ... }

   gorilla/websocket is the trusted message iterator (partial): it is modelled as the list of data
   messages (type, payload) still to come — control frames are handled inside it and never
   surface — and a message reader that hands out the payload in chunks whose sizes are not ours to
   choose (frame fragmentation, TCP segmentation): an oracle, over which the theorems quantify.
   Transport failures in the middle of a message are outside the model. *)
From MV Require Import Base.Val.
Open Scope N_scope.

Definition msg : Type := (N * bytes)%type.       (* (message type, payload); 1 = text, 2 = binary *)
Definition is_binary (m : msg) : bool := fst m =? 2.

Record ws : Type := mkWs {
  cur : option bytes;      (* ws.r: what is left of the current message; None = ws.r == nil *)
  msgs : list msg          (* messages NextReader has not returned yet *)
}.

(* one (hint, eof-with-data) pair per call of the message reader's Read *)
Definition oracle : Type := list (nat * bool).
Definition next_or (o : oracle) : (nat * bool) * oracle :=
  match o with [] => ((O, false), []) | x :: r => (x, r) end.

Definition is_nil {A} (l : list A) : bool := match l with [] => true | _ => false end.

(* r.Read(b) with len b = k > 0 on a message with [rest] left: at the end (0, io.EOF); otherwise
   between 1 and min k |rest| bytes (hint 0 = as many as fit: [firstn] stops at the end of the
   message by itself), and io.EOF may or may not come together with the last bytes. *)
Definition mr_read (rest : bytes) (k : nat) (o : nat * bool) : bytes * bytes * bool :=
  match rest with
  | [] => ([], [], true)
  | _ => let j := match fst o with O => k | S h => Nat.min (S h) k end in
         let rest' := skipn j rest in
         (firstn j rest, rest', snd o && is_nil rest')
  end.

(* the inner for loop of read; [need] = len(p) - n.  The loop runs at most need + 1 times (every
   round but the last delivers a byte): called with fuel = need + 1, the fuel never runs out
   (lemma rd_loop_spec), the O branch is the buffer-full exit. *)
Fixpoint rd_loop (fuel need : nat) (rest : bytes) (o : oracle) (acc : bytes) : bytes * option bytes * oracle :=
  match fuel with
  | O => (acc, Some rest, o)
  | S f =>
      match need with
      | O => (acc, Some rest, o)
      | _ => let '(x, o') := next_or o in
             let '(chunk, rest', eof) := mr_read rest need x in
             if eof then (acc ++ chunk, None, o')
             else rd_loop f (need - length chunk) rest' o' (acc ++ chunk)
      end
  end.

Inductive r1 : Type := R1Data (d : bytes) | R1Invalid | R1Closed.

(* ws.read *)
Definition read1 (sz : nat) (s : ws) (o : oracle) : r1 * ws * oracle :=
  match cur s with
  | Some rest =>
      let '(d, c, o') := rd_loop (S sz) sz rest o [] in (R1Data d, mkWs c (msgs s), o')
  | None =>
      match msgs s with
      | [] => (R1Closed, s, o)                       (* NextReader fails: the peer is gone *)
      | m :: r =>
          if is_binary m
          then let '(d, c, o') := rd_loop (S sz) sz (snd m) o [] in (R1Data d, mkWs c r, o')
          else (R1Invalid, mkWs None r, o)           (* ErrInvalidMessage; ws.r stays nil *)
      end
  end.

Inductive rres : Type :=
| ROk (d : bytes)        (* (len d, nil) *)
| RInvalid               (* (0, ErrInvalidMessage) *)
| RClosed                (* (0, err) from NextReader *)
| RStuck.                (* fuel exhausted: excluded by lemma ws_read_not_stuck *)

(* ws.Read: repeat read until it yields bytes, an error, or p is empty.  Every round that yields
   nothing uses up the current reader or one message: fuel 2 + number of messages suffices. *)
Fixpoint read_fuel (fuel sz : nat) (s : ws) (o : oracle) : rres * ws * oracle :=
  match fuel with
  | O => (RStuck, s, o)
  | S f =>
      let '(r, s', o') := read1 sz s o in
      match r with
      | R1Data d => if negb (is_nil d) || Nat.eqb sz 0 then (ROk d, s', o') else read_fuel f sz s' o'
      | R1Invalid => (RInvalid, s', o')
      | R1Closed => (RClosed, s', o')
      end
  end.

Definition ws_read (sz : nat) (s : ws) (o : oracle) : rres * ws * oracle :=
  read_fuel (2 + length (msgs s)) sz s o.

(* the consumer (bufio.Reader under Client.Read): any sequence of read sizes; it stops at the
   first error, which ends the connection *)
Inductive ending : Type := EOpen | EInvalid | EClosed | EStuck.

Fixpoint read_all (sizes : list nat) (s : ws) (o : oracle) : bytes * ending * ws :=
  match sizes with
  | [] => ([], EOpen, s)
  | sz :: r =>
      match ws_read sz s o with
      | (ROk d, s', o') => let '(ds, e, sf) := read_all r s' o' in (d ++ ds, e, sf)
      | (RInvalid, s', _) => ([], EInvalid, s')
      | (RClosed, s', _) => ([], EClosed, s')
      | (RStuck, s', _) => ([], EStuck, s')
      end
  end.

(* Every accepted connection gets a wsConn of its own, with no current message reader:
   handler() builds &wsConn{Conn: ..., c: c}, so ws.r == nil. *)
Definition ws_init (ms : list msg) : ws := mkWs None ms.

(* a listener serving connections one after the other; a connection = its messages, the read
   sizes of its consumer and the chunking of its message readers *)
Definition conn_in : Type := (list msg * list nat * oracle)%type.
Definition serve1 (c : conn_in) : bytes * ending :=
  let '(ms, sizes, o) := c in let '(d, e, _) := read_all sizes (ws_init ms) o in (d, e).
Definition serve (cs : list conn_in) : list (bytes * ending) := map serve1 cs.

(* wsConn.Write: one binary message per call *)
Definition ws_write (p : bytes) : msg := (2, p).

(* ---------- specification vocabulary ---------- *)
(* the byte stream a list of messages denotes: the payloads of the binary messages up to the
   first message that is not binary *)
Fixpoint stream (ms : list msg) : bytes :=
  match ms with
  | [] => []
  | m :: r => if is_binary m then snd m ++ stream r else []
  end.

Definition pending (s : ws) : bytes :=
  match cur s with Some r => r | None => [] end ++ stream (msgs s).

Definition all_binary (ms : list msg) : bool := forallb is_binary ms.

(* ---------- engine ----------
   case = (msgs tcp_in out_ws out_tcp obs_ws obs_tcp ended_ws)
     msgs = ((type payload) ...) as sent by the WebSocket client; type 9 / 10 (ping / pong) are
            control frames, which the trusted iterator never surfaces: they are dropped here;
     tcp_in = the bytes the harness sent over TCP for reference;
     out_ws = ((type payload) ...) received by the WebSocket client, out_tcp = bytes received
            over TCP, obs_* = bytes forwarded to an observing subscriber during each run;
     ended_ws = the broker ended the WebSocket connection.
   Model: the read sequence (2048-byte reads, the broker's bufio size) over [msgs] must deliver
   exactly tcp_in and end the way the observation says.  Spec: replies and forwarded bytes are
   the same over both transports, every reply message is binary, and the connection is ended
   iff a non-binary message was sent. *)
Definition parse_msg (v : val) : option msg :=
  match v with VL [VN t; VB p] => Some (t, p) | _ => None end.

Definition is_control (m : msg) : bool := 8 <=? fst m.

(* Number of 2048-byte reads that certainly exhaust a message: |payload| / 2048 + 2.  The length is
   counted on N with an accumulator, so that megabyte payloads do not need a deep stack in the
   extracted code.  Should the bound ever be too small the run ends EOpen and the case is reported
   as a model mismatch, never accepted. *)
Fixpoint len_acc (l : bytes) (acc : N) : N :=
  match l with [] => acc | _ :: r => len_acc r (acc + 1) end.

Definition reads_for (m : msg) : nat := N.to_nat (len_acc (snd m) 0 / 2048 + 2).

Definition model_delivery (ms : list msg) : bytes * ending :=
  let sizes := flat_map (fun m => repeat 2048%nat (reads_for m)) ms ++ [2048%nat] in
  let '(d, e, _) := read_all sizes (ws_init ms) [] in (d, e).

(* does anything follow the first non-binary message? *)
Fixpoint sent_after_nonbinary (ms : list msg) : bool :=
  match ms with
  | [] => false
  | m :: r => if is_binary m then sent_after_nonbinary r else negb (is_nil r)
  end.

Definition is_prefix (a b : bytes) : bool := beq_bytes (firstn (length a) b) a.

(* When the client keeps sending after a non-binary message the broker closes a socket with
   unread input; TCP then resets the connection and replies still in flight may never reach the
   client.  In that situation only "what arrived is a prefix of the TCP replies" is decidable from
   the observation; in every other case the replies must be equal. *)
Definition ws_check (ms : list msg) (tcp_in : bytes) (out_ws : list msg) (out_tcp obs_ws obs_tcp : bytes)
                    (ended : bool) : val :=
  let data := filter (fun m => negb (is_control m)) ms in
  let '(d, e) := model_delivery data in
  let has_nonbin := negb (all_binary data) in
  let nontriv := (1 <? N.of_nat (length data)) in
  let tg := if has_nonbin then (if sent_after_nonbinary data then tag "nonbinary-then-more" else tag "nonbinary-last")
            else tag "binary" in
  let replies_ok := if sent_after_nonbinary data then is_prefix (stream out_ws) out_tcp
                    else beq_bytes (stream out_ws) out_tcp in
  if negb (beq_bytes d tcp_in) then bad_case             (* the harness' reference run used other bytes *)
  else if negb (all_binary out_ws) then verdict 1 (tag "reply-not-binary") nontriv []
  else if negb replies_ok then verdict 1 (tag "replies-differ") nontriv [VB (stream out_ws)]
  else if negb (beq_bytes obs_ws obs_tcp) then verdict 1 (tag "forwarded-differ") nontriv []
  else if has_nonbin && negb ended then verdict 1 (tag "nonbinary-not-ended") nontriv []
  else if negb has_nonbin && ended then verdict 1 (tag "binary-ended") nontriv []
  else match e, has_nonbin with
       | EInvalid, true => verdict 0 tg nontriv []
       | EClosed, false => verdict 0 tg nontriv []
       | _, _ => verdict 2 tg nontriv []
       end.

(* cases that follow a history of earlier connections on the same listener are tagged apart *)
Definition retag_hist (v : val) : val :=
  match v with
  | VL (VN code :: VB t :: rest) => VL (VN code :: VB (tag "after-aborted-" ++ t) :: rest)
  | _ => v
  end.

(* ENGINE ws IO.WsFrame.ws_engine *)
Definition ws_engine (c : val) : val :=
  match c with
  | VL [VL ms; VB tcp_in; VL outws; VB out_tcp; VB obs_ws; VB obs_tcp; VN ended] =>
      match map_opt parse_msg ms, map_opt parse_msg outws with
      | Some m, Some o => ws_check m tcp_in o out_tcp obs_ws obs_tcp (negb (ended =? 0))
      | _, _ => bad_case
      end
  (* (6 history case...): the same observation made after [history] = earlier websocket connections
     (each a list of messages) that ended while the broker was partway through a message.  The
     verdict is that of the connection's own bytes, judged from ws_init: what other connections
     sent is not an input. *)
  | VL [VN 6; VL _; VL ms; VB tcp_in; VL outws; VB out_tcp; VB obs_ws; VB obs_tcp; VN ended] =>
      match map_opt parse_msg ms, map_opt parse_msg outws with
      | Some m, Some o => retag_hist (ws_check m tcp_in o out_tcp obs_ws obs_tcp (negb (ended =? 0)))
      | _, _ => bad_case
      end
  | _ => bad_case
  end.
