(* C34 — the write path of one client connection.  Model of clients.go WritePacket's buffer logic
   (the four branches: pending-writes queue empty / non-empty x outbuf nil / non-nil, threshold
   ClientNetWriteBufferSize, flushOutbuf), of WriteLoop with the repair 4fc1aa5 (a queued packet that
   cannot be written is reported dropped and the buffer is flushed if no queued write is left), and
   of publishToClient's drop branches; the specification; the engine.  No proofs here. *)
From MV Require Import Base.Val Session.Pkt.
Open Scope N_scope.

(* ---------- model ---------- *)

Inductive src := Loop | Direct.   (* WriteLoop (a PUBLISH taken from the queue) / the handler goroutine *)

Record wev := {
  e_src : src;
  e_id : N;            (* identity of the packet *)
  e_size : N;          (* encoded length *)
  e_early : bool;      (* WritePacket returns before the buffer logic: too large for the client, encoding error *)
  e_qempty : bool }.   (* len(cl.State.outbound) == 0 when the call looks at the queue *)

Record wst := {
  outbuf : list (N * N);        (* cl.Net.outbuf: (id, size) of the packets in it; [] = nil *)
  written : list N;             (* ids written to the connection, in wire order *)
  chunks : list (list N);       (* the Write calls on the connection: sizes of the packets in each *)
  reported : list N;            (* OnPacketSent *)
  dropped : list N }.           (* OnPublishDropped *)

Definition winit : wst := {| outbuf := []; written := []; chunks := []; reported := []; dropped := [] |}.

Definition buflen (b : list (N * N)) : N := fold_right (fun p a => snd p + a) 0 b.

(* buf.WriteTo(cl.Net.Conn) *)
Definition write_direct (s : wst) (id size : N) : wst :=
  {| outbuf := outbuf s; written := written s ++ [id]; chunks := chunks s ++ [[size]];
     reported := reported s; dropped := dropped s |}.

(* flushOutbuf *)
Definition flush (s : wst) : wst :=
  match outbuf s with
  | [] => s
  | b => {| outbuf := []; written := written s ++ map fst b; chunks := chunks s ++ [map snd b];
            reported := reported s; dropped := dropped s |}
  end.

Definition buffer (s : wst) (id size : N) : wst :=
  {| outbuf := outbuf s ++ [(id, size)]; written := written s; chunks := chunks s;
     reported := reported s; dropped := dropped s |}.

Definition report (s : wst) (id : N) : wst :=
  {| outbuf := outbuf s; written := written s; chunks := chunks s; reported := reported s ++ [id]; dropped := dropped s |}.

Definition report_drop (s : wst) (id : N) : wst :=
  {| outbuf := outbuf s; written := written s; chunks := chunks s; reported := reported s; dropped := dropped s ++ [id] |}.

Definition is_nil {A} (l : list A) : bool := match l with [] => true | _ => false end.

(* one WritePacket call (and, for the write loop, its error branch) *)
Definition wstep (thr : N) (s : wst) (e : wev) : wst :=
  if e_early e then
    match e_src e with
    | Loop => let s1 := report_drop s (e_id e) in if e_qempty e then flush s1 else s1    (* flushIdle *)
    | Direct => s                                                                          (* the error goes to the caller *)
    end
  else
    let s1 :=
      if e_qempty e then
        (if is_nil (outbuf s) then write_direct s (e_id e) (e_size e)
         else flush (buffer s (e_id e) (e_size e)))
      else
        (if is_nil (outbuf s) then
           (if thr <=? e_size e then write_direct s (e_id e) (e_size e) else buffer s (e_id e) (e_size e))
         else
           let s2 := buffer s (e_id e) (e_size e) in
           if buflen (outbuf s2) <? thr then s2 else flush s2) in
    report s1 (e_id e).

Definition wrun (thr : N) (evs : list wev) : wst := fold_left (wstep thr) evs winit.

(* ---------- specification ---------- *)

(* the connection is idle after the calls: the last call that looked at the pending-writes queue found
   it empty (had it found it non-empty, the write loop would still have a packet to take) *)
Definition idle_after (evs : list wev) : bool :=
  fold_left (fun idle e => match e_src e, e_early e with Direct, true => idle | _, _ => e_qempty e end) evs true.

(* everything reported as sent has been written, nothing waits in the buffer *)
Definition flushed (s : wst) : Prop := outbuf s = [] /\ reported s = written s.

(* a queued message is written or reported dropped *)
Definition accounted (evs : list wev) (s : wst) : Prop :=
  forall e, In e evs -> e_src e = Loop -> In (e_id e) (written s) \/ In (e_id e) (dropped s).

(* the shape of a Write call that carries several packets: the buffer was below the threshold before
   each packet but the last was added *)
Fixpoint chunk_ok_from (thr acc : N) (sizes : list N) : bool :=
  match sizes with
  | [] => true
  | [_] => true
  | x :: r => (acc + x <? thr) && chunk_ok_from thr (acc + x) r
  end.
Definition chunk_ok (thr : N) (sizes : list N) : bool := chunk_ok_from thr 0 sizes.

(* ---------- publishToClient: what can happen to a message for a connected client ---------- *)

Inductive fate :=
| FInflightFull      (* QoS > 0 and the in-flight store is full *)
| FIdsExhausted      (* no packet identifier left *)
| FHeld              (* stored in flight, held back by flow control *)
| FQueueFull         (* the pending-writes queue is full *)
| FQueued.           (* handed to the write loop *)

Inductive hook := HPublishDropped | HPacketIDExhausted.

Definition fate_report (f : fate) : option hook :=
  match f with
  | FInflightFull => Some HPublishDropped          (* after fix 17f8a7b *)
  | FIdsExhausted => Some HPacketIDExhausted
  | FQueueFull => Some HPublishDropped
  | FHeld | FQueued => None
  end.

Definition fate_is_drop (f : fate) : bool :=
  match f with FInflightFull | FIdsExhausted | FQueueFull => true | FHeld | FQueued => false end.

(* ---------- engine ----------
   case = (thr (step ...))
   step = ((ev ...) (chunkLen ...) (writtenKey ...) (reportedKey ...) (expectedSeq ...) (writtenSeq ...) (droppedSeq ...))
   ev = (src size), the packets written in the step in wire order *)

Fixpoint insert_sorted (x : N) (l : list N) : list N :=
  match l with [] => [x] | y :: r => if x <=? y then x :: l else y :: insert_sorted x r end.
Definition sort_n (l : list N) : list N := fold_right insert_sorted [] l.
Fixpoint beq_nl (a b : list N) : bool :=
  match a, b with [] , [] => true | x :: a', y :: b' => (x =? y) && beq_nl a' b' | _, _ => false end.
Definition same_multiset (a b : list N) : bool := beq_nl (sort_n a) (sort_n b).
Fixpoint mem_n (x : N) (l : list N) : bool := match l with [] => false | y :: r => (x =? y) || mem_n x r end.

(* cut the written sizes into the observed Write calls *)
Fixpoint cut (sizes : list N) (lens : list N) : option (list (list N)) :=
  match lens with
  | [] => match sizes with [] => Some [] | _ => None end
  | n :: r =>
      let k := N.to_nat n in
      if Nat.ltb (length sizes) k then None
      else match cut (skipn k sizes) r with Some cs => Some (firstn k sizes :: cs) | None => None end
  end.

Record wstep_obs := { so_sizes : list N; so_chunks : list N; so_written : list N; so_reported : list N;
                      so_expected : list N; so_wseq : list N; so_dseq : list N }.

Definition as_ev (v : val) : option N := match v with VL [VN _; VN size] => Some size | _ => None end.

Definition as_wstep (v : val) : option wstep_obs :=
  match v with
  | VL [VL evs; ch; wk; rk; ex; ws; ds] =>
      do sizes <- map_opt as_ev evs; do ch' <- as_NL ch; do wk' <- as_NL wk; do rk' <- as_NL rk;
      do ex' <- as_NL ex; do ws' <- as_NL ws; do ds' <- as_NL ds;
      Some {| so_sizes := sizes; so_chunks := ch'; so_written := wk'; so_reported := rk'; so_expected := ex';
              so_wseq := ws'; so_dseq := ds' |}
  | _ => None
  end.

(* clause 1 at the quiescent point after the step; clause 2 for the messages routed in the step *)
Definition step_flushed (o : wstep_obs) : bool := same_multiset (so_written o) (so_reported o).
Definition step_accounted (o : wstep_obs) : bool :=
  forallb (fun x => mem_n x (so_wseq o) || mem_n x (so_dseq o)) (so_expected o).
(* the Write calls have the shape the buffer logic produces *)
Definition step_shape (thr : N) (o : wstep_obs) : bool :=
  match cut (so_sizes o) (so_chunks o) with
  | Some cs => forallb (chunk_ok thr) cs
  | None => false
  end.

Fixpoint wb_walk (thr : N) (steps : list wstep_obs) : N :=
  match steps with
  | [] => 0
  | o :: r =>
      if negb (step_flushed o) || negb (step_accounted o) then 1
      else if negb (step_shape thr o) then 2
      else wb_walk thr r
  end.

(* ENGINE writebuf IO.WriteBuf.writebuf_engine *)
Definition writebuf_engine (v : val) : val :=
  match v with
  | VL [VN thr; VL steps] =>
      match map_opt as_wstep steps with
      | Some l =>
          let code := wb_walk thr l in
          let buffered := existsb (fun o => existsb (fun n => 1 <? n) (so_chunks o)) l in
          let drops := existsb (fun o => negb (is_nil (so_dseq o))) l in
          verdict code (if drops then (if buffered then tag "drops+buffered" else tag "drops")
                        else if buffered then tag "buffered" else tag "direct")
                  (buffered || drops) []
      | None => bad_case
      end
  | _ => bad_case
  end.

(* ---------- transient write fault (engine flushfault) ----------
   case = (thr reported written closed fault_consumed): one Write call of the connection failed while direct
   acknowledgements were parked between queued publishes.  Clause 1 of the property at the final quiescent point:
   unless the connection was closed, every packet reported as sent is on the wire (the packet whose own write
   failed may be on the wire without having been reported: the retry flushes its bytes). *)
Definition fault_ok (reported written : list N) (closed : bool) : bool :=
  closed || forallb (fun k => mem_n k written) reported.

(* ENGINE flushfault IO.WriteBuf.flushfault_engine *)
Definition flushfault_engine (v : val) : val :=
  match v with
  | VL [VN _; rk; wk; cl; fc] =>
      match as_NL rk, as_NL wk, as_bool cl, as_bool fc with
      | Some r, Some w, Some c, Some f =>
          let tg := if c then tag "closed" else if f then tag "fault-survived" else tag "no-fault" in
          verdict (if fault_ok r w c then 0 else 1) tg (negb c && f && negb (is_nil r)) []
      | _, _, _, _ => bad_case
      end
  | _ => bad_case
  end.
