(* C28 (framing part) — model of the inbound read path up to the packet body:
   packets/fixedheader.go FixedHeader.Decode, clients.go ReadFixedHeader (length decoding and the
   maximum-packet-size check) and ReadPacket's io.ReadFull.  Specification from MQTT 2.1.3 (flag
   bits per packet type).  No proofs in this file. *)
From MV Require Import Base.Val Codec.Vbi.
Open Scope N_scope.

(* ---------- model of FixedHeader.Decode ---------- *)
Record fhdr := { fh_type : N; fh_qos : N; fh_dup : bool; fh_retain : bool }.

Definition bit (hb k : N) : N := N.land (N.shiftr hb k) 1.

Definition fh_decode (hb : N) : option fhdr :=
  let ty := N.shiftr hb 4 in
  let r :=
    if ty =? 3 then
      if (0 <? N.land (N.shiftr hb 1) 1) && (0 <? N.land (N.shiftr hb 1) 2) then None
      else Some {| fh_type := ty; fh_qos := N.land (N.shiftr hb 1) 3; fh_dup := 0 <? bit hb 3;
                   fh_retain := 0 <? N.land hb 1 |}
    else if (ty =? 6) || (ty =? 8) || (ty =? 10) then
      if negb (bit hb 0 =? 0) || negb (bit hb 1 =? 1) || negb (bit hb 2 =? 0) || negb (bit hb 3 =? 0) then None
      else Some {| fh_type := ty; fh_qos := N.land (N.shiftr hb 1) 3; fh_dup := false; fh_retain := false |}
    else
      if negb (bit hb 0 =? 0) || negb (bit hb 1 =? 0) || negb (bit hb 2 =? 0) || negb (bit hb 3 =? 0) then None
      else Some {| fh_type := ty; fh_qos := 0; fh_dup := false; fh_retain := false |} in
  match r with
  | Some h => if (fh_qos h =? 0) && fh_dup h then None else Some h
  | None => None
  end.

(* ---------- specification of the first byte (MQTT 5, table 2-2 and 3.3.1) ---------- *)
Definition fh_spec (hb : N) : option fhdr :=
  let ty := hb / 16 in
  let flags := hb mod 16 in
  if ty =? 3 then
    let dup := 8 <=? flags in
    let qos := (flags mod 8) / 2 in
    let retain := flags mod 2 =? 1 in
    if qos =? 3 then None                      (* [MQTT-3.3.1-4] *)
    else if dup && (qos =? 0) then None        (* [MQTT-3.3.1-2] *)
    else Some {| fh_type := 3; fh_qos := qos; fh_dup := dup; fh_retain := retain |}
  else if (ty =? 6) || (ty =? 8) || (ty =? 10) then
    if flags =? 2 then Some {| fh_type := ty; fh_qos := 1; fh_dup := false; fh_retain := false |} else None
  else
    if flags =? 0 then Some {| fh_type := ty; fh_qos := 0; fh_dup := false; fh_retain := false |} else None.

Definition fhdr_eqb (a b : fhdr) : bool :=
  (fh_type a =? fh_type b) && (fh_qos a =? fh_qos b) && Bool.eqb (fh_dup a) (fh_dup b) &&
  Bool.eqb (fh_retain a) (fh_retain b).
Definition ofhdr_eqb (a b : option fhdr) : bool :=
  match a, b with Some x, Some y => fhdr_eqb x y | None, None => true | _, _ => false end.

(* ---------- model of one iteration of the read loop ---------- *)
Inductive frame_res :=
| Frame (h : fhdr) (bu : N) (body rest : bytes)
| NeedMore                      (* the stream ends inside the packet: the reader blocks / sees EOF *)
| BadHeader                     (* FixedHeader.Decode error *)
| BadLength                     (* malformed variable byte integer *)
| TooLarge.                     (* ErrPacketTooLarge, decided before any body byte is read *)

Definition read_frame (maxsize : N) (bs : bytes) : frame_res :=
  match bs with
  | [] => NeedMore
  | hb :: r =>
      match fh_decode hb with
      | None => BadHeader
      | Some h =>
          match vbi_decode r with
          | VErrEOF _ => NeedMore
          | VErrMalformed _ => BadLength
          | VOk n bu rest =>
              if (0 <? maxsize) && (maxsize <? n + 1 + bu) then TooLarge
              else if N.of_nat (length rest) <? n then NeedMore
              else Frame h bu (firstn (N.to_nat n) rest) (skipn (N.to_nat n) rest)
          end
      end
  end.

(* all frames of a stream; fuel = length of the stream (each frame consumes >= 2 bytes) *)
Fixpoint read_frames (fuel : nat) (maxsize : N) (bs : bytes) : list (fhdr * N) * N :=
  match fuel with
  | O => ([], 0)
  | S f =>
      match read_frame maxsize bs with
      | Frame h bu body rest =>
          let (l, fin) := read_frames f maxsize rest in ((h, N.of_nat (length body)) :: l, fin)
      | NeedMore => ([], 0)
      | BadHeader => ([], 1)
      | BadLength => ([], 2)
      | TooLarge => ([], 3)
      end
  end.

(* ---------- engine ----------
   case = (maxsize stream frames final)   frames = list of (type qos dup retain remaining)
   final: 0 = stream exhausted, 1 = header error, 2 = malformed length, 3 = too large *)
Definition as_frame (v : val) : option (fhdr * N) :=
  match v with
  | VL [VN t; VN q; d; r; VN rem] =>
      match as_bool d, as_bool r with
      | Some d', Some r' => Some ({| fh_type := t; fh_qos := q; fh_dup := d'; fh_retain := r' |}, rem)
      | _, _ => None
      end
  | _ => None
  end.

Fixpoint frames_eqb (a b : list (fhdr * N)) : bool :=
  match a, b with
  | [], [] => true
  | (h, n) :: a', (h', n') :: b' => fhdr_eqb h h' && (n =? n') && frames_eqb a' b'
  | _, _ => false
  end.

(* spec on the observation: an accepted frame never exceeds the maximum packet size *)
Definition vbi_len (n : N) : N := vbi_min_len n.
Definition obs_size_ok (maxsize : N) (fr : list (fhdr * N)) : bool :=
  (maxsize =? 0) || forallb (fun x => 1 + vbi_len (snd x) + snd x <=? maxsize) fr.

(* ENGINE framing IO.Framing.framing_engine *)
Definition framing_engine (v : val) : val :=
  match v with
  | VL [VN maxsize; VB stream; VL frames; VN final] =>
      match map_opt as_frame frames with
      | Some fr =>
          if negb (wf_bytesb stream) then bad_case else
          let '(mf, mfin) := read_frames (S (length stream)) maxsize stream in
          let nontriv := 1 <? N.of_nat (length fr) in
          let tg := match final with 0 => tag "eof" | 1 => tag "badheader" | 2 => tag "badlength" | _ => tag "toolarge" end in
          if negb (obs_size_ok maxsize fr) then verdict 1 tg nontriv []
          else if frames_eqb mf fr && (mfin =? final) then verdict 0 tg nontriv []
          else verdict 2 tg nontriv [VN mfin; VN (N.of_nat (length mf))]
      | None => bad_case
      end
  | _ => bad_case
  end.
