(* Proofs for C34 over the write-path model. *)
From MV Require Import Base.Val Session.Pkt IO.WriteBuf.
From Coq Require Import Lia ZifyBool ZifyN ZifyNat.
Open Scope N_scope.

(* the calls of a history one after the other, from any state *)
Definition idle_step (idle : bool) (e : wev) : bool :=
  match e_src e, e_early e with Direct, true => idle | _, _ => e_qempty e end.

(* everything reported is written or still in the buffer, in order; a non-empty buffer means the
   pending-writes queue was seen non-empty by the last call that looked *)
Definition inv (s : wst) (idle : bool) : Prop :=
  reported s = written s ++ map fst (outbuf s) /\ (outbuf s <> [] -> idle = false).

Lemma flush_inv s : reported (flush s) = reported s /\ outbuf (flush s) = [] /\
  written (flush s) = written s ++ map fst (outbuf s) /\ dropped (flush s) = dropped s.
Proof. unfold flush. destruct (outbuf s) eqn:E; cbn; rewrite ?E, ?app_nil_r; auto. Qed.

Definition content (s : wst) : list N := written s ++ map fst (outbuf s).

Lemma direct_content s id size : outbuf s = [] ->
  content (write_direct s id size) = content s ++ [id] /\ reported (write_direct s id size) = reported s /\ outbuf (write_direct s id size) = [].
Proof. intros B. unfold content. cbn. rewrite B. cbn. rewrite !app_nil_r. auto. Qed.

Lemma buffer_content s id size :
  content (buffer s id size) = content s ++ [id] /\ reported (buffer s id size) = reported s.
Proof. unfold content. cbn. rewrite map_app, app_assoc. auto. Qed.

Lemma flush_content s : content (flush s) = content s /\ reported (flush s) = reported s /\ outbuf (flush s) = [].
Proof.
  unfold content, flush. destruct (outbuf s) eqn:B; cbn; rewrite ?B; cbn; rewrite ?app_nil_r; auto.
Qed.

Lemma wstep_inv thr s idle e : inv s idle -> inv (wstep thr s e) (idle_step idle e).
Proof.
  intros [Hr Hb]. fold (content s) in Hr. unfold inv. fold (content (wstep thr s e)).
  unfold wstep, idle_step.
  destruct (e_early e) eqn:Early.
  - destruct (e_src e).
    + destruct (e_qempty e).
      * destruct (flush_content (report_drop s (e_id e))) as (F1 & F2 & F3).
        rewrite F1, F2, F3. split; [exact Hr|congruence].
      * split; [exact Hr|reflexivity].
    + split; [exact Hr|exact Hb].
  - replace (match e_src e with Loop => e_qempty e | Direct => e_qempty e end) with (e_qempty e) by (destruct (e_src e); reflexivity).
    set (s1 := if e_qempty e then _ else _).
    assert (K : content s1 = content s ++ [e_id e] /\ reported s1 = reported s /\ (outbuf s1 <> [] -> e_qempty e = false)).
    { unfold s1. destruct (e_qempty e) eqn:Q.
      - destruct (outbuf s) eqn:B; cbn [is_nil].
        + destruct (direct_content s (e_id e) (e_size e) B) as (A1 & A2 & A3). rewrite A1, A2, A3. repeat split; congruence.
        + destruct (flush_content (buffer s (e_id e) (e_size e))) as (F1 & F2 & F3).
          destruct (buffer_content s (e_id e) (e_size e)) as (B1 & B2).
          rewrite F1, F2, F3, B1, B2. repeat split; congruence.
      - destruct (outbuf s) eqn:B; cbn [is_nil].
        + destruct (thr <=? e_size e).
          * destruct (direct_content s (e_id e) (e_size e) B) as (A1 & A2 & A3). rewrite A1, A2. repeat split; reflexivity.
          * destruct (buffer_content s (e_id e) (e_size e)) as (B1 & B2). rewrite B1, B2. repeat split; reflexivity.
        + destruct (buffer_content s (e_id e) (e_size e)) as (B1 & B2).
          destruct (buflen _ <? thr).
          * rewrite B1, B2. repeat split; reflexivity.
          * destruct (flush_content (buffer s (e_id e) (e_size e))) as (F1 & F2 & F3).
            rewrite F1, F2, B1, B2. repeat split; reflexivity. }
    destruct K as (K1 & K2 & K3).
    split; [|exact K3].
    change (reported (report s1 (e_id e))) with (reported s1 ++ [e_id e]).
    change (content (report s1 (e_id e))) with (content s1).
    rewrite K1, K2, Hr. reflexivity.
Qed.

Lemma run_inv thr evs : forall s idle, inv s idle ->
  inv (fold_left (wstep thr) evs s) (fold_left idle_step evs idle).
Proof. induction evs as [|e r IH]; intros s idle H; [exact H|]. cbn. apply IH, wstep_inv, H. Qed.

Theorem flushed_when_idle (thr : N) (evs : list wev) :
  idle_after evs = true -> flushed (wrun thr evs).
Proof.
  intros Hidle. unfold wrun, idle_after in *.
  assert (I0 : inv winit true) by (split; [reflexivity|intros H; exfalso; apply H; reflexivity]).
  destruct (run_inv thr evs winit true I0) as [Hr Hb]. change (fold_left idle_step evs true) with
    (fold_left (fun idle e => match e_src e, e_early e with Direct, true => idle | _, _ => e_qempty e end) evs true) in Hb.
  rewrite Hidle in Hb.
  assert (E : outbuf (fold_left (wstep thr) evs winit) = []).
  { destruct (outbuf (fold_left (wstep thr) evs winit)) eqn:B; [reflexivity|]. exfalso. assert (true = false) by (apply Hb; congruence). discriminate. }
  split; [exact E|]. rewrite Hr, E. cbn. apply app_nil_r.
Qed.

(* ---------- every queued packet is reported sent or reported dropped ---------- *)

Lemma flush_keeps s : reported (flush s) = reported s /\ dropped (flush s) = dropped s.
Proof. destruct (flush_inv s) as (A & _ & _ & B). auto. Qed.

Lemma wstep_reported_dropped thr s e :
  (exists l, reported (wstep thr s e) = reported s ++ l) /\ (exists l, dropped (wstep thr s e) = dropped s ++ l) /\
  (e_src e = Loop -> e_early e = true -> In (e_id e) (dropped (wstep thr s e))) /\
  (e_early e = false -> In (e_id e) (reported (wstep thr s e))).
Proof.
  unfold wstep. destruct (e_early e) eqn:Early.
  - destruct (e_src e).
    + destruct (e_qempty e).
      * destruct (flush_keeps (report_drop s (e_id e))) as [A B]. rewrite A, B. cbn.
        repeat split; try discriminate; [exists []; rewrite app_nil_r; reflexivity|eexists; reflexivity|].
        intros _ _. apply in_or_app. right. left. reflexivity.
      * cbn. repeat split; try discriminate; [exists []; rewrite app_nil_r; reflexivity|eexists; reflexivity|].
        intros _ _. apply in_or_app. right. left. reflexivity.
    + repeat split; try discriminate; exists []; rewrite app_nil_r; reflexivity.
  - set (s1 := if e_qempty e then _ else _).
    assert (K : reported s1 = reported s /\ dropped s1 = dropped s).
    { unfold s1. destruct (e_qempty e).
      - destruct (is_nil (outbuf s)); [split; reflexivity|]. destruct (flush_keeps (buffer s (e_id e) (e_size e))) as [A B].
        rewrite A, B. split; reflexivity.
      - destruct (is_nil (outbuf s)).
        + destruct (thr <=? e_size e); split; reflexivity.
        + destruct (buflen _ <? thr); [split; reflexivity|].
          destruct (flush_keeps (buffer s (e_id e) (e_size e))) as [A B]. rewrite A, B. split; reflexivity. }
    destruct K as [K1 K2]. cbn. rewrite K1, K2.
    repeat split; try discriminate; [eexists; reflexivity|exists []; rewrite app_nil_r; reflexivity|].
    intros _. apply in_or_app. right. left. reflexivity.
Qed.

Lemma run_grows thr evs : forall s,
  (exists l, reported (fold_left (wstep thr) evs s) = reported s ++ l) /\
  (exists l, dropped (fold_left (wstep thr) evs s) = dropped s ++ l).
Proof.
  induction evs as [|e r IH]; intros s; cbn.
  - split; exists []; rewrite app_nil_r; reflexivity.
  - destruct (IH (wstep thr s e)) as [[l1 H1] [l2 H2]].
    destruct (wstep_reported_dropped thr s e) as ([m1 M1] & [m2 M2] & _).
    split; [exists (m1 ++ l1); rewrite H1, M1, app_assoc|exists (m2 ++ l2); rewrite H2, M2, app_assoc]; reflexivity.
Qed.

Lemma run_accounts thr evs : forall s e, In e evs -> e_src e = Loop ->
  (if e_early e then In (e_id e) (dropped (fold_left (wstep thr) evs s))
   else In (e_id e) (reported (fold_left (wstep thr) evs s))).
Proof.
  induction evs as [|x r IH]; intros s e Hin Hl; [destruct Hin|].
  cbn. destruct Hin as [->|Hin]; [|apply IH; assumption].
  destruct (wstep_reported_dropped thr s e) as (_ & _ & D & R).
  destruct (run_grows thr r (wstep thr s e)) as [[l1 H1] [l2 H2]].
  destruct (e_early e) eqn:E.
  - rewrite H2. apply in_or_app. left. apply D; auto.
  - rewrite H1. apply in_or_app. left. apply R; reflexivity.
Qed.

Theorem accounted_when_idle (thr : N) (evs : list wev) :
  idle_after evs = true -> accounted evs (wrun thr evs).
Proof.
  intros Hidle e Hin Hl. destruct (flushed_when_idle thr evs Hidle) as [_ Hrw].
  pose proof (run_accounts thr evs winit e Hin Hl) as H. unfold wrun in *.
  destruct (e_early e); [right; exact H|left; rewrite <- Hrw; exact H].
Qed.

(* ---------- the Write calls have the shape the engine checks ---------- *)

Fixpoint below (thr acc : N) (l : list N) : bool :=
  match l with [] => true | x :: r => (acc + x <? thr) && below thr (acc + x) r end.

Lemma below_app thr l : forall acc x,
  below thr acc (l ++ [x]) = below thr acc l && (acc + fold_right N.add 0 l + x <? thr).
Proof.
  induction l as [|y r IH]; intros acc x; cbn.
  - rewrite N.add_0_r, Bool.andb_true_r. reflexivity.
  - rewrite IH. rewrite <- Bool.andb_assoc. f_equal. f_equal. f_equal. lia.
Qed.

Lemma below_chunk_from thr l : forall acc, below thr acc l = true -> chunk_ok_from thr acc l = true.
Proof.
  induction l as [|x r IH]; intros acc H; [reflexivity|]. cbn in H. apply Bool.andb_true_iff in H. destruct H as [H1 H2].
  cbn. destruct r; [reflexivity|]. rewrite H1. cbn [andb]. apply IH, H2.
Qed.

Lemma below_chunk_app thr l : forall acc x, below thr acc l = true -> chunk_ok_from thr acc (l ++ [x]) = true.
Proof.
  induction l as [|y r IH]; intros acc x H; [reflexivity|]. cbn in H. apply Bool.andb_true_iff in H. destruct H as [H1 H2].
  cbn. destruct (r ++ [x]) eqn:E; [destruct r; discriminate|]. rewrite H1. cbn [andb]. rewrite <- E. apply IH, H2.
Qed.

Lemma buflen_sum b : buflen b = fold_right N.add 0 (map snd b).
Proof. induction b as [|p r IH]; cbn; [reflexivity|]. unfold buflen in IH. rewrite IH. reflexivity. Qed.

Definition shape_inv (thr : N) (s : wst) : Prop :=
  below thr 0 (map snd (outbuf s)) = true /\ Forall (fun c => chunk_ok thr c = true) (chunks s).

Lemma flush_shape thr s : shape_inv thr s -> shape_inv thr (flush s).
Proof.
  intros [Hb Hc]. unfold flush. destruct (outbuf s) eqn:B; [split; [rewrite B; exact Hb|exact Hc]|].
  split; [reflexivity|]. cbn [chunks]. apply Forall_app. split; [exact Hc|]. constructor; [|constructor].
  apply below_chunk_from. exact Hb.
Qed.

Lemma wstep_shape thr s e : shape_inv thr s -> shape_inv thr (wstep thr s e).
Proof.
  intros H. pose proof H as [Hb Hc]. unfold wstep.
  assert (Hd : forall id size, shape_inv thr (write_direct s id size)).
  { intros. split; [exact Hb|]. cbn. apply Forall_app. split; [exact Hc|]. repeat constructor. }
  assert (Hfl : forall id size, shape_inv thr (flush (buffer s id size))).
  { intros id size. unfold flush, buffer. cbn [outbuf]. destruct (outbuf s ++ [(id, size)]) eqn:B; [destruct (outbuf s); discriminate|].
    split; [reflexivity|]. cbn [chunks]. apply Forall_app. split; [exact Hc|]. constructor; [|constructor].
    rewrite <- B, map_app. cbn. apply below_chunk_app, Hb. }
  destruct (e_early e).
  - destruct (e_src e); [|exact H]. destruct (e_qempty e); [apply flush_shape|]; (split; [exact Hb|exact Hc]).
  - match goal with |- shape_inv thr (report ?x _) => assert (K : shape_inv thr x); [|destruct K; split; assumption] end.
    destruct (e_qempty e).
    + destruct (is_nil (outbuf s)); [apply Hd|apply Hfl].
    + destruct (outbuf s) as [|p b] eqn:B; cbn [is_nil].
      * destruct (thr <=? e_size e) eqn:T; [apply Hd|].
        split; [|exact Hc]. cbn. rewrite B. cbn. replace (e_size e <? thr) with true by lia. reflexivity.
      * destruct (buflen (outbuf (buffer s (e_id e) (e_size e))) <? thr) eqn:L; [|apply Hfl].
        assert (G : forall l a, fold_right N.add a l = fold_right N.add 0 l + a).
        { induction l as [|y r IH]; intros a; cbn; [lia|rewrite IH; lia]. }
        split; [|exact Hc]. cbn [buffer outbuf] in *.
        rewrite buflen_sum in L. rewrite B in *. rewrite map_app in *. cbn [map snd] in *.
        rewrite below_app, Hb. cbn [andb].
        rewrite fold_right_app in L. cbn [fold_right] in L. rewrite G in L. cbn [fold_right]. lia.
Qed.

Theorem chunks_shape (thr : N) (evs : list wev) :
  Forall (fun c => chunk_ok thr c = true) (chunks (wrun thr evs)).
Proof.
  assert (forall evs s, shape_inv thr s -> shape_inv thr (fold_left (wstep thr) evs s)) as K.
  { induction evs0 as [|e r IH]; intros s H; [exact H|]. cbn. apply IH, wstep_shape, H. }
  apply (K evs winit). split; [reflexivity|constructor].
Qed.

(* publishToClient: a message for a connected client that is neither queued nor held is reported *)
Theorem fate_drop_reported (f : fate) : fate_is_drop f = true -> fate_report f <> None.
Proof. destruct f; cbn; intros H; try discriminate. Qed.

(* the fault monitor means what it says: accepted and not closed => every reported packet was written *)
Lemma mem_n_In x l : mem_n x l = true -> In x l.
Proof.
  induction l as [|y r IH]; cbn; [discriminate|]. intro H. apply Bool.orb_prop in H as [H|H].
  - left. symmetry. apply N.eqb_eq. exact H.
  - right. exact (IH H).
Qed.

Theorem fault_ok_sound reported written : fault_ok reported written false = true ->
  forall k, In k reported -> In k written.
Proof.
  unfold fault_ok. cbn [orb]. intros H k Hk. rewrite forallb_forall in H. apply mem_n_In. exact (H k Hk).
Qed.
