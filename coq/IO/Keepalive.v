(* Model of the keepalive mechanism of clients.go: Client.refreshDeadline (clients.go:262) and the
   packet loop Client.Read (clients.go:365), in MILLISECONDS on Z.  No proofs in this file.

     func (cl *Client) refreshDeadline(keepalive uint16) {
         var expiry time.Time                      // zero time = no deadline
         if keepalive > 0 {
             expiry = time.Now().Add(time.Duration(keepalive) * time.Second * 3 / 2)
         }
         cl.Net.Conn.SetDeadline(expiry)
     }
     func (cl *Client) Read(h ReadFn) error {
         for { if cl.Closed() { return nil }
               cl.refreshDeadline(cl.State.Keepalive)   // (re-)arm
               ReadFixedHeader; ReadPacket               // fail once the deadline has passed
               h(cl, pk) } }

   A packet is taken to arrive at one instant (the arrival of its last byte) and to be processed
   in zero time, so the deadline is re-armed at the arrival time of each packet.  What the model
   cannot exhibit (partial): the accuracy of the OS / Go runtime timers and the processing time
   between the arrival of a packet and the re-arm (which only ever makes the real deadline later). *)
From MV Require Import Base.Val.
Open Scope Z_scope.

(* ---------- refreshDeadline ----------
   time.Duration is int64 nanoseconds; keepalive <= 65535 so keepalive * 10^9 * 3 < 2^63 and the
   product cannot wrap (lemma [deadline_ns_no_overflow]). *)
Definition second_ns : Z := 1000000000.
Definition deadline_ns (K : Z) : Z := K * second_ns * 3 / 2.

(* None = the zero time.Time: SetDeadline(zero) removes any deadline *)
Definition deadline_ms (K : Z) : option Z :=
  if 0 <? K then Some (deadline_ns K / 1000000) else None.

(* ---------- the read loop over packet arrival times ----------
   [Open t0]: parked in ReadFixedHeader, deadline armed at time t0 (expires at t0 + deadline).
   [Closed t]: the blocked read failed with a timeout at time t; Read returned, attachClient's
   deferred Stop closed the connection.  A packet arriving at or after the expiry is not read. *)
Inductive conn : Type :=
| Open (armed_at : Z)
| Closed (closed_at : Z).

Definition step (K : Z) (c : conn) (arrival : Z) : conn :=
  match c with
  | Closed t => Closed t
  | Open t0 =>
      match deadline_ms K with
      | None => Open arrival
      | Some d => if arrival <? t0 + d then Open arrival else Closed (t0 + d)
      end
  end.

Definition run (K : Z) (c : conn) (arrivals : list Z) : conn := fold_left (step K) arrivals c.

(* Histories that also contain what the broker itself sends on the connection (deliveries to a
   subscriber, retained messages, wills, resends).  Client.WritePacket does not touch the
   deadline: an outbound write is a no-op for the keepalive state; only an inbound packet
   re-arms. *)
Inductive hev : Type :=
| HIn (t : Z)        (* an inbound packet arrives at time t *)
| HOut (t : Z).      (* the broker writes a packet to the connection at time t *)

Definition step_ev (K : Z) (c : conn) (e : hev) : conn :=
  match e with
  | HIn a => step K c a
  | HOut _ => c
  end.

Definition run_ev (K : Z) (c : conn) (h : list hev) : conn := fold_left (step_ev K) h c.

Fixpoint inbounds (h : list hev) : list Z :=
  match h with
  | [] => []
  | HIn a :: r => a :: inbounds r
  | HOut _ :: r => inbounds r
  end.

(* is the connection closed at time [t], nothing further having arrived? *)
Definition closed_by (K : Z) (c : conn) (t : Z) : bool :=
  match c with
  | Closed tc => tc <=? t
  | Open t0 => match deadline_ms K with
               | None => false
               | Some d => t0 + d <=? t
               end
  end.

(* ---------- specification vocabulary (from the property text) ----------
   arrival times are listed in order; [gaps_below t0 l b]: every packet arrives less than [b] ms
   after the previous one (the first one after t0, the moment the keepalive was established). *)
Fixpoint gaps_below (t0 : Z) (arrivals : list Z) (b : Z) : Prop :=
  match arrivals with
  | [] => True
  | a :: r => t0 <= a /\ a - t0 < b /\ gaps_below a r b
  end.

Fixpoint ordered_from (t0 : Z) (arrivals : list Z) : Prop :=
  match arrivals with
  | [] => True
  | a :: r => t0 <= a /\ ordered_from a r
  end.

Definition last_arrival (t0 : Z) (arrivals : list Z) : Z := last arrivals t0.

(* one and a half keepalive periods, in ms *)
Definition limit_ms (K : Z) : Z := 1500 * K.

(* ---------- engine ----------
   case = (0 K disabled offset_ms)
            deadline probe: the real Client.Read armed the connection; [disabled] = the zero time
            was passed to SetDeadline; [offset_ms] = deadline minus the time just before the call,
            rounded down to ms.  Accepted window [limit, limit + 50 ms] (scheduling jitter between
            the harness' clock read and the code's).
        | (1 K events)
            session over the real server (CONNECT with keepalive K, then packets):
            events = (0 disabled offset_ms)   SetDeadline call
                   | (1 n)                    a Read on the connection returned n > 0 bytes (one packet)
            every packet must be followed by a re-arm with the right offset before the next read
            blocks; the CONNECT itself must be followed by an arm.
        | (3 K history closed closed_at_ms watched_until_ms)
            real-time run with a publisher: history = ((0 t) inbound packet | (1 t) the broker's
            write reached the client), times in ms since the CONNECT; judged like kind 2, the
            expectation taken from the inbound packets only.
        | (2 K arrivals_ms closed closed_at_ms watched_until_ms)
            real-time run: packets were accepted by the connection at the given times (ms since
            the CONNECT was sent), the connection was seen closed at [closed_at_ms] (closed = 1)
            or was still open when the harness stopped watching.  Tolerance: a quarter of K
            seconds, as in the property text. *)
Definition zN (z : Z) : val := VN (Z.to_N z).

Definition probe_tol : Z := 50.

Definition arm_ok_spec (K : Z) (disabled : bool) (off : Z) : bool :=
  if 0 <? K then negb disabled && (limit_ms K <=? off) && (off <=? limit_ms K + probe_tol)
  else disabled.

Definition arm_ok_model (K : Z) (disabled : bool) (off : Z) : bool :=
  match deadline_ms K with
  | None => disabled
  | Some d => negb disabled && (d <=? off) && (off <=? d + probe_tol)
  end.

Definition model_info (K : Z) : list val :=
  match deadline_ms K with None => [VN 0] | Some d => [VN 1; zN d] end.

Definition check_probe (K : Z) (disabled : bool) (off : Z) : val :=
  let nontriv := 0 <? K in
  let tg := if 0 <? K
            then (if disabled then tag "probe-disabled"
                  else if off <? limit_ms K then tag "probe-early"
                  else if limit_ms K + probe_tol <? off then tag "probe-late" else tag "probe")
            else (if disabled then tag "probe-zero" else tag "probe-zero-armed") in
  if negb (arm_ok_spec K disabled off) then verdict 1 tg nontriv (model_info K)
  else if arm_ok_model K disabled off then verdict 0 tg nontriv []
  else verdict 2 tg nontriv (model_info K).

Inductive ev : Type :=
| EArm (disabled : bool) (off : Z)
| ERead (n : Z)
| EWrite (n : Z).      (* the broker wrote n bytes to the connection: no effect on the deadline *)

Definition parse_ev (v : val) : option ev :=
  match v with
  | VL [VN 0; VN d; VN off] => Some (EArm (negb (d =? 0)%N) (Z.of_N off))
  | VL [VN 1; VN n] => Some (ERead (Z.of_N n))
  | VL [VN 2; VN n] => Some (EWrite (Z.of_N n))
  | _ => None
  end.

(* walk the events: [armed] = a correct arm happened since the last packet was read; [wrote] = the
   broker has written to the connection since then.  Offsets are measured from the moment the last
   inbound packet was handed to the broker, so an arm is correct iff it puts the deadline 1.5 K
   after the last INBOUND packet, whatever has been written in between.
   result: 0 ok, 1 a read blocked on a stale/absent deadline, 2 an arm with a wrong offset (spec),
   3 arm differs from the model only, 4 wrong offset after an outbound write (the write moved
   the deadline) *)
Fixpoint walk (K : Z) (first : bool) (armed wrote : bool) (evs : list ev) : N :=
  match evs with
  | [] => if armed || first then 0 else 1
  | EArm d off :: r =>
      if first then walk K first armed wrote r (* before the CONNECT no keepalive is known *)
      else if negb (arm_ok_spec K d off) then (if wrote then 4 else 2)
      else if negb (arm_ok_model K d off) then 3
      else walk K first true wrote r
  | ERead _ :: r =>
      if first then walk K false false false r (* the CONNECT: the keepalive is not known before it *)
      else if armed then walk K false false false r
      else 1
  | EWrite _ :: r => walk K first armed true r (* no-op for the deadline *)
  end.

Definition count_reads (evs : list ev) : nat :=
  length (filter (fun e => match e with ERead _ => true | _ => false end) evs).
Definition count_writes (evs : list ev) : nat :=
  length (filter (fun e => match e with EWrite _ => true | _ => false end) evs).

Definition check_session (K : Z) (evs : list ev) : val :=
  let nontriv := (0 <? K) && (2 <=? Z.of_nat (count_reads evs)) in
  let tg := if (0 <? Z.of_nat (count_writes evs)) then tag "session-with-writes" else tag "session" in
  match walk K true false false evs with
  | 0%N => verdict 0 tg nontriv []
  | 1%N => verdict 1 (tag "session-stale-deadline") nontriv (model_info K)
  | 2%N => verdict 1 (tag "session-wrong-deadline") nontriv (model_info K)
  | 4%N => verdict 1 (tag "session-write-moved-deadline") nontriv (model_info K)
  | _ => verdict 2 tg nontriv (model_info K)
  end.

(* real-time runs: the model with a tolerance window after each expiry *)
Definition rt_tol (K : Z) : Z := 250 * K.

(* 0 = consistent, 1 = a packet was accepted although the connection had to be closed *)
Fixpoint rt_walk (K : Z) (t0 : Z) (arrivals : list Z) : Z * bool :=
  match arrivals with
  | [] => (t0, true)
  | a :: r =>
      match deadline_ms K with
      | None => rt_walk K a r
      | Some _ => if a <? limit_ms K + t0 + rt_tol K then rt_walk K a r else (t0, false)
      end
  end.

(* [h]: the observed history, inbound packets and (for the runs with a publisher) the broker's own
   writes; the expectation is computed from the inbound packets only, the model runs on all of it *)
Definition check_rt_h (K : Z) (h : list hev) (closed : bool) (closed_at until : Z) : val :=
  let nontriv := true in
  let arrivals := inbounds h in
  let '(tl, ok) := rt_walk K 0 arrivals in
  let m := run_ev K (Open 0) h in
  let minfo := match m with Open t => [VN 0; zN t] | Closed t => [VN 1; zN t] end ++ model_info K in
  if negb ok then verdict 1 (tag "rt-not-closed") nontriv minfo
  else if closed then
    if 0 <? K then
      if closed_at <? tl + limit_ms K then verdict 1 (tag "rt-closed-early") nontriv minfo
      else if tl + limit_ms K + rt_tol K <? closed_at then verdict 1 (tag "rt-closed-late") nontriv minfo
      else verdict 0 (tag "rt-closed") nontriv []
    else verdict 1 (tag "rt-zero-closed") nontriv minfo
  else
    if (0 <? K) && (tl + limit_ms K + rt_tol K <? until) then verdict 1 (tag "rt-not-closed") nontriv minfo
    else verdict 0 (tag "rt-open") nontriv [].

Definition check_rt (K : Z) (arrivals : list Z) (closed : bool) (closed_at until : Z) : val :=
  check_rt_h K (map HIn arrivals) closed closed_at until.

Definition parse_hev (v : val) : option hev :=
  match v with
  | VL [VN 0; VN t] => Some (HIn (Z.of_N t))
  | VL [VN 1; VN t] => Some (HOut (Z.of_N t))
  | _ => None
  end.

Definition has_out (h : list hev) : bool :=
  existsb (fun e => match e with HOut _ => true | _ => false end) h.

(* same verdicts, tagged apart so that the distribution shows the runs with outbound traffic *)
Definition retag (v : val) : val :=
  match v with
  | VL (VN code :: VB t :: rest) => VL (VN code :: VB (tag "w-" ++ t) :: rest)
  | _ => v
  end.

Definition as_Z (v : val) : option Z := match v with VN n => Some (Z.of_N n) | _ => None end.

(* ENGINE keepalive IO.Keepalive.keepalive_engine *)
Definition keepalive_engine (c : val) : val :=
  match c with
  | VL [VN 0; VN k; VN d; VN off] =>
      if (k <=? 65535)%N then check_probe (Z.of_N k) (negb (d =? 0)%N) (Z.of_N off) else bad_case
  | VL [VN 1; VN k; VL evs] =>
      match map_opt parse_ev evs with
      | Some l => if (k <=? 65535)%N then check_session (Z.of_N k) l else bad_case
      | None => bad_case
      end
  | VL [VN 2; VN k; VL arr; VN closed; VN closed_at; VN until] =>
      match map_opt as_Z arr with
      | Some l => if (k <=? 65535)%N
                  then check_rt (Z.of_N k) l (negb (closed =? 0)%N) (Z.of_N closed_at) (Z.of_N until)
                  else bad_case
      | None => bad_case
      end
  | VL [VN 3; VN k; VL h; VN closed; VN closed_at; VN until] =>
      match map_opt parse_hev h with
      | Some l => if (k <=? 65535)%N
                  then (if has_out l then retag else (fun v => v))
                         (check_rt_h (Z.of_N k) l (negb (closed =? 0)%N) (Z.of_N closed_at) (Z.of_N until))
                  else bad_case
      | None => bad_case
      end
  | _ => bad_case
  end.
