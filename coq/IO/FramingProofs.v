(* Proofs about the inbound framing model (C28). *)
From MV Require Import Base.Val Base.Bytes Codec.Vbi Codec.VbiProofs IO.Framing.
From Coq Require Import Lia ZifyBool ZifyN ZifyNat.
Ltac Zify.zify_post_hook ::= Z.div_mod_to_equations.
Open Scope N_scope.

(* ---------- the first byte: model = standard, for all 256 bytes ---------- *)
Lemma fhdr_eqb_eq a b : fhdr_eqb a b = true -> a = b.
Proof.
  destruct a as [t q d r], b as [t' q' d' r']. unfold fhdr_eqb. cbn.
  intro H. apply andb_prop in H as [H Hr]. apply andb_prop in H as [H Hd]. apply andb_prop in H as [Ht Hq].
  apply N.eqb_eq in Ht, Hq. apply Bool.eqb_prop in Hd, Hr. subst. reflexivity.
Qed.

Lemma ofhdr_eqb_eq a b : ofhdr_eqb a b = true -> a = b.
Proof.
  destruct a as [x|], b as [y|]; cbn; intro H; try discriminate; try reflexivity.
  f_equal. apply fhdr_eqb_eq. exact H.
Qed.

Lemma fh_decode_is_spec (hb : N) : hb < 256 -> fh_decode hb = fh_spec hb.
Proof.
  intro H. apply ofhdr_eqb_eq.
  assert (S : forallb (fun b => ofhdr_eqb (fh_decode b) (fh_spec b)) (rangeN 256) = true)
    by (vm_compute; reflexivity).
  exact (forall_below _ 256 S hb H).
Qed.

(* ---------- the spec decoder only looks at a prefix ---------- *)
Lemma spec_value_split j : forall bs v rest, spec_value j bs = Some (v, rest) ->
  exists pre, bs = pre ++ rest /\ (0 < length pre <= j)%nat /\
              forall y, spec_value j (pre ++ y) = Some (v, y).
Proof.
  induction j as [|j IH]; intros bs v rest H; [discriminate|].
  destruct bs as [|b t]; [discriminate|]. rewrite spec_value_S in H.
  destruct (b <? 128) eqn:E.
  - injection H as <- <-. exists [b]. split; [reflexivity|]. split; [cbn; lia|].
    intro y. cbn [app]. rewrite spec_value_S, E. reflexivity.
  - destruct (spec_value j t) as [[v' r']|] eqn:S; [|discriminate].
    injection H as <- <-. destruct (IH _ _ _ S) as (pre & -> & L & P).
    exists (b :: pre). split; [reflexivity|]. split; [cbn; lia|].
    intro y. cbn [app]. rewrite spec_value_S, E, P. reflexivity.
Qed.

(* ---------- one frame ---------- *)
Lemma firstn_skipn_len {A} (n : nat) (l : list A) : (n <= length l)%nat -> length (firstn n l) = n.
Proof. intro H. rewrite firstn_length. lia. Qed.

(* An accepted frame: the stream is exactly header byte, a length field the standard accepts,
   the body and the rest; the header is the standard's; and the whole packet respects the
   configured maximum packet size. *)
Theorem frame_sound (maxsize : N) (bs : bytes) h bu body rest :
  wf_bytes bs -> read_frame maxsize bs = Frame h bu body rest ->
  exists hb lenb,
    bs = hb :: lenb ++ body ++ rest /\
    fh_spec hb = Some h /\
    spec_decode (lenb ++ body ++ rest) = Some (N.of_nat (length body), body ++ rest) /\
    N.of_nat (length lenb) = bu /\ 1 <= bu <= 4 /\
    (0 < maxsize -> 1 + bu + N.of_nat (length body) <= maxsize).
Proof.
  intros Hwf H. destruct bs as [|hb r]; [discriminate|]. cbn [read_frame] in H.
  inversion Hwf as [|? ? Hb Hr]; subst.
  destruct (fh_decode hb) as [h'|] eqn:F; [|discriminate].
  destruct (vbi_decode r) as [n bu' rest'| |] eqn:V; try discriminate.
  destruct ((0 <? maxsize) && (maxsize <? n + 1 + bu')) eqn:M; [discriminate|].
  destruct (N.of_nat (length rest') <? n) eqn:L; [discriminate|].
  injection H as <- <- <- <-.
  destruct (decoded_bounded r n bu' rest' Hr V) as (Hn & Hbu & S).
  pose proof (decode_refines_spec r Hr) as D. rewrite S in D. destruct D as [D _].
  rewrite V in D. injection D as Dbu.
  unfold spec_decode in S. destruct (spec_value_split _ _ _ _ S) as (pre & Epre & Lpre & P).
  exists hb, pre. rewrite fh_decode_is_spec in F by exact Hb.
  assert (Hlen : (N.to_nat n <= length rest')%nat) by lia.
  assert (Hbody : length (firstn (N.to_nat n) rest') = N.to_nat n) by (apply firstn_skipn_len; exact Hlen).
  rewrite firstn_skipn. split; [rewrite Epre; reflexivity|]. split; [exact F|].
  split; [unfold spec_decode; rewrite P, Hbody, N2Nat.id; reflexivity|].
  assert (Hpre : N.of_nat (length pre) = bu').
  { rewrite Dbu. unfold consumed. rewrite Epre, app_length. lia. }
  split; [exact Hpre|]. split; [exact Hbu|].
  intro Hm. rewrite Hbody. lia.
Qed.

(* The size check is decided from the header alone: whatever follows the length field, an
   over-size packet is refused (no body byte is needed, none is looked at). *)
Theorem toolarge_before_body (maxsize hb n : N) (e : bytes) :
  n <= vbi_max -> vbi_encode n = Some e -> fh_decode hb <> None ->
  0 < maxsize -> maxsize < 1 + N.of_nat (length e) + n ->
  forall y, wf_bytes y -> read_frame maxsize (hb :: e ++ y) = TooLarge.
Proof.
  intros Hn E F Hm Hs y Hy. cbn [read_frame].
  destruct (fh_decode hb) as [h|]; [|congruence].
  destruct (roundtrip n Hn) as (e' & E' & Le & R). rewrite E in E'. injection E' as <-.
  rewrite (R y Hy).
  replace ((0 <? maxsize) && (maxsize <? n + 1 + vbi_min_len n)) with true by lia.
  reflexivity.
Qed.

(* Conversely a packet within the limit whose bytes are all present is accepted as one frame and the
   following bytes are left untouched for the next packet. *)
Theorem frame_complete (maxsize hb n : N) (e body rest : bytes) h :
  n <= vbi_max -> vbi_encode n = Some e -> fh_decode hb = Some h ->
  N.of_nat (length body) = n -> wf_bytes body -> wf_bytes rest ->
  (maxsize = 0 \/ 1 + N.of_nat (length e) + n <= maxsize) ->
  read_frame maxsize (hb :: e ++ body ++ rest) = Frame h (vbi_min_len n) body rest.
Proof.
  intros Hn E F Lb Wb Wr Hm. cbn [read_frame]. rewrite F.
  destruct (roundtrip n Hn) as (e' & E' & Le & R). rewrite E in E'. injection E' as <-.
  rewrite (R (body ++ rest) (wf_app _ _ Wb Wr)).
  replace ((0 <? maxsize) && (maxsize <? n + 1 + vbi_min_len n)) with false by lia.
  rewrite app_length.
  replace (N.of_nat (length body + length rest) <? n) with false by lia.
  replace (N.to_nat n) with (length body) by lia.
  rewrite firstn_app, Nat.sub_diag, firstn_all. cbn [firstn]. rewrite app_nil_r.
  rewrite skipn_app, Nat.sub_diag, skipn_all. reflexivity.
Qed.
