(* Proofs about the WebSocket adapter model (C39). *)
From MV Require Import Base.Val IO.WsFrame.
From Coq Require Import Lia ZifyBool ZifyN ZifyNat.
Open Scope N_scope.

Definition cbytes (c : option bytes) : bytes := match c with Some r => r | None => [] end.

Lemma is_nil_true {A} (l : list A) : is_nil l = true -> l = [].
Proof. destruct l; [reflexivity|discriminate]. Qed.

(* ---------- the message reader ---------- *)
Lemma mr_read_spec rest k o chunk rest' eof : (0 < k)%nat ->
  mr_read rest k o = (chunk, rest', eof) ->
  chunk ++ rest' = rest /\ (length chunk <= k)%nat /\ (eof = true -> rest' = []) /\
  (rest <> [] -> (1 <= length chunk)%nat) /\ (rest = [] -> eof = true).
Proof.
  intros Hk H. destruct rest as [|b r].
  - cbn in H. inversion H; subst. split; [reflexivity|]. split; [cbn; lia|]. split; [reflexivity|].
    split; [intro C; contradiction|reflexivity].
  - unfold mr_read in H.
    set (j := match fst o with O => k | S h => Nat.min (S h) k end) in H.
    assert (Hj : (1 <= j <= k)%nat) by (unfold j; destruct (fst o); lia).
    inversion H; subst chunk rest' eof; clear H.
    split; [apply firstn_skipn|]. split; [rewrite firstn_length; lia|].
    split. { intro E. apply andb_prop in E. apply is_nil_true. exact (proj2 E). }
    split; [intros _; rewrite firstn_length; cbn [length]; lia | intro C; discriminate].
Qed.

(* ---------- the inner loop of read ---------- *)
Lemma rd_loop_spec : forall fuel need rest o acc d c o', (need < fuel)%nat ->
  rd_loop fuel need rest o acc = (d, c, o') ->
  exists dd, d = acc ++ dd /\ dd ++ cbytes c = rest /\ (length dd <= need)%nat /\
             (c = None \/ length dd = need) /\ ((0 < need)%nat -> rest <> [] -> dd <> []).
Proof.
  induction fuel as [|f IH]; intros need rest o acc d c o' Hf H; [lia|].
  cbn [rd_loop] in H. destruct need as [|n].
  - injection H as Hd Hc Ho. subst d c o'. exists []. rewrite app_nil_r. cbn [cbytes app length].
    split; [reflexivity|]. split; [reflexivity|]. split; [lia|]. split; [right; reflexivity|]. intro C. lia.
  - destruct (next_or o) as [x o1]. destruct (mr_read rest (S n) x) as [[chunk rest'] eof] eqn:Em.
    destruct (mr_read_spec rest (S n) x chunk rest' eof ltac:(lia) Em) as (A1 & A2 & A3 & A4 & A5).
    destruct eof.
    + injection H as Hd Hc Ho. subst d c o'. exists chunk. rewrite (A3 eq_refl) in A1. cbn [cbytes].
      split; [reflexivity|]. split; [exact A1|]. split; [exact A2|]. split; [left; reflexivity|].
      intros _ Hne E. subst chunk. specialize (A4 Hne). cbn in A4. lia.
    + assert (Hne : rest <> []) by (intro E; specialize (A5 E); discriminate).
      specialize (A4 Hne).
      destruct (IH (S n - length chunk)%nat rest' o1 (acc ++ chunk) d c o' ltac:(lia) H)
        as (dd & B1 & B2 & B3 & B4 & B5).
      exists (chunk ++ dd). rewrite app_assoc. split; [exact B1|].
      split; [rewrite <- app_assoc, B2; exact A1|].
      split; [rewrite app_length; lia|].
      split; [destruct B4 as [B4 | B4]; [left; exact B4 | right; rewrite app_length; lia]|].
      intros _ _ E. apply app_eq_nil in E. destruct E as [E _]. subst chunk. cbn in A4. lia.
Qed.

(* ---------- stream vocabulary ---------- *)
Fixpoint tail_after (ms : list msg) : option (list msg) :=
  match ms with
  | [] => None
  | m :: r => if is_binary m then tail_after r else Some r
  end.

Definition measure (s : ws) : nat := (length (msgs s) + match cur s with Some _ => 1 | None => 0 end)%nat.

Lemma all_binary_stream ms : all_binary ms = true ->
  stream ms = concat (map snd ms) /\ tail_after ms = None.
Proof.
  induction ms as [|m r IH]; intro H; [split; reflexivity|].
  cbn [all_binary forallb] in H. apply andb_prop in H. destruct H as [Hm Hr].
  destruct (IH Hr) as [I1 I2]. cbn [stream tail_after map concat]. rewrite Hm, I1, I2. split; reflexivity.
Qed.

Lemma stream_app_nonbinary pre m post : all_binary pre = true -> is_binary m = false ->
  stream (pre ++ m :: post) = concat (map snd pre) /\ tail_after (pre ++ m :: post) = Some post.
Proof.
  induction pre as [|x r IH]; intros H Hm.
  - cbn. rewrite Hm. split; reflexivity.
  - cbn [all_binary forallb] in H. apply andb_prop in H. destruct H as [Hx Hr].
    destruct (IH Hr Hm) as [I1 I2]. cbn [app stream tail_after map concat]. rewrite Hx, I1, I2.
    split; reflexivity.
Qed.

(* ---------- ws.read ---------- *)
Lemma read1_spec sz s o r s' o' : read1 sz s o = (r, s', o') ->
  match r with
  | R1Data d => d ++ pending s' = pending s /\ (length d <= sz)%nat /\
                tail_after (msgs s') = tail_after (msgs s) /\
                (d = [] -> (0 < sz)%nat -> (measure s' < measure s)%nat)
  | R1Invalid => pending s = [] /\ cur s' = None /\ tail_after (msgs s) = Some (msgs s')
  | R1Closed => pending s = [] /\ tail_after (msgs s) = None /\ pending s' = []
  end.
Proof.
  unfold read1. destruct s as [c ms]. cbn [cur msgs]. destruct c as [rest|].
  - destruct (rd_loop (S sz) sz rest o []) as [[d c'] o1] eqn:E. intro H. inversion H; subst; clear H.
    destruct (rd_loop_spec _ _ _ _ _ _ _ _ (Nat.lt_succ_diag_r sz) E) as (dd & B1 & B2 & B3 & B4 & B5).
    cbn [app] in B1. subst dd. unfold cbytes in B2. unfold pending, measure. cbn [cur msgs].
    split; [apply (f_equal (fun x => x ++ stream ms)) in B2; rewrite <- app_assoc in B2; exact B2|].
    split; [exact B3|]. split; [reflexivity|].
    intros Ed Hsz. subst d. destruct B4 as [B4 | B4]; [subst c'; lia | cbn in B4; lia].
  - destruct ms as [|m r0].
    + intro H. inversion H; subst. cbn. repeat split; reflexivity.
    + destruct (is_binary m) eqn:Eb.
      * destruct (rd_loop (S sz) sz (snd m) o []) as [[d c'] o1] eqn:E. intro H. inversion H; subst; clear H.
        destruct (rd_loop_spec _ _ _ _ _ _ _ _ (Nat.lt_succ_diag_r sz) E) as (dd & B1 & B2 & B3 & B4 & B5).
        cbn [app] in B1. subst dd. unfold cbytes in B2. unfold pending, measure. cbn [cur msgs stream tail_after app]. rewrite Eb.
        split; [apply (f_equal (fun x => x ++ stream r0)) in B2; rewrite <- app_assoc in B2; exact B2|].
        split; [exact B3|]. split; [reflexivity|].
        intros Ed Hsz. subst d. destruct B4 as [B4 | B4]; [subst c'; cbn [length]; lia | cbn in B4; lia].
      * intro H. inversion H; subst; clear H. unfold pending. cbn [cur msgs stream tail_after app]. rewrite Eb.
        repeat split; reflexivity.
Qed.

(* ---------- ws.Read ---------- *)
Lemma read_fuel_spec : forall fuel sz s o r s' o', (measure s < fuel)%nat ->
  read_fuel fuel sz s o = (r, s', o') ->
  match r with
  | ROk d => d ++ pending s' = pending s /\ (length d <= sz)%nat /\ ((0 < sz)%nat -> d <> []) /\
             tail_after (msgs s') = tail_after (msgs s)
  | RInvalid => pending s = [] /\ cur s' = None /\ tail_after (msgs s) = Some (msgs s')
  | RClosed => pending s = [] /\ tail_after (msgs s) = None /\ pending s' = []
  | RStuck => False
  end.
Proof.
  induction fuel as [|f IH]; intros sz s o r s' o' Hf H; [lia|].
  cbn [read_fuel] in H. destruct (read1 sz s o) as [[r1 s1] o1] eqn:E1.
  pose proof (read1_spec sz s o r1 s1 o1 E1) as S1. destruct r1 as [d| |].
  - destruct S1 as (P1 & P2 & P3 & P4).
    destruct (negb (is_nil d) || Nat.eqb sz 0) eqn:Ec.
    + inversion H; subst; clear H. split; [exact P1|]. split; [exact P2|]. split; [|exact P3].
      intros Hsz Ed. subst d. cbn in Ec. apply Nat.eqb_eq in Ec. lia.
    + apply orb_false_elim in Ec. destruct Ec as [Ed Esz].
      assert (d = []) by (destruct d; [reflexivity|discriminate]). subst d.
      apply Nat.eqb_neq in Esz. specialize (P4 eq_refl ltac:(lia)).
      specialize (IH sz s1 o1 r s' o' ltac:(lia) H). cbn [app] in P1.
      destruct r as [d2| | |].
      * destruct IH as (Q1 & Q2 & Q3 & Q4). rewrite <- P1, <- P3. repeat split; assumption.
      * destruct IH as (Q1 & Q2 & Q3). rewrite <- P1, <- P3. repeat split; assumption.
      * destruct IH as (Q1 & Q2 & Q3). rewrite <- P1, <- P3. repeat split; assumption.
      * exact IH.
  - inversion H; subst; clear H. exact S1.
  - inversion H; subst; clear H. exact S1.
Qed.

Lemma ws_read_spec sz s o r s' o' : ws_read sz s o = (r, s', o') ->
  match r with
  | ROk d => d ++ pending s' = pending s /\ (length d <= sz)%nat /\ ((0 < sz)%nat -> d <> []) /\
             tail_after (msgs s') = tail_after (msgs s)
  | RInvalid => pending s = [] /\ cur s' = None /\ tail_after (msgs s) = Some (msgs s')
  | RClosed => pending s = [] /\ tail_after (msgs s) = None /\ pending s' = []
  | RStuck => False
  end.
Proof.
  unfold ws_read. apply read_fuel_spec. unfold measure. destruct (cur s); lia.
Qed.

Lemma ws_read_not_stuck sz s o s' o' : ws_read sz s o <> (RStuck, s', o').
Proof. intro H. exact (ws_read_spec sz s o RStuck s' o' H). Qed.

Lemma ws_read_nonempty sz s o d s' o' : (0 < sz)%nat -> ws_read sz s o = (ROk d, s', o') -> d <> [].
Proof. intros Hsz H. exact (proj1 (proj2 (proj2 (ws_read_spec sz s o (ROk d) s' o' H))) Hsz). Qed.

(* ---------- the consumer ---------- *)
Lemma read_all_spec : forall sizes s o d e sf, read_all sizes s o = (d, e, sf) ->
  match e with
  | EOpen => d ++ pending sf = pending s /\ tail_after (msgs sf) = tail_after (msgs s)
  | EInvalid => d = pending s /\ tail_after (msgs s) = Some (msgs sf) /\ cur sf = None
  | EClosed => d = pending s /\ tail_after (msgs s) = None /\ pending sf = []
  | EStuck => False
  end.
Proof.
  induction sizes as [|sz r IH]; intros s o d e sf H; cbn [read_all] in H.
  - inversion H; subst. split; reflexivity.
  - destruct (ws_read sz s o) as [[rr s1] o1] eqn:E. pose proof (ws_read_spec sz s o rr s1 o1 E) as S1.
    destruct rr as [d1| | |].
    + destruct (read_all r s1 o1) as [[ds e1] sf1] eqn:E2. inversion H; subst; clear H.
      destruct S1 as (P1 & _ & _ & P4). specialize (IH s1 o1 ds e sf E2).
      destruct e.
      * destruct IH as [Q1 Q2]. rewrite <- app_assoc, Q1, P1, Q2, P4. split; reflexivity.
      * destruct IH as (Q1 & Q2 & Q3). rewrite Q1, P1, <- P4. repeat split; assumption.
      * destruct IH as (Q1 & Q2 & Q3). rewrite Q1, P1, <- P4. repeat split; assumption.
      * exact IH.
    + inversion H; subst; clear H. destruct S1 as (P1 & P2 & P3). rewrite P1. repeat split; assumption.
    + inversion H; subst; clear H. destruct S1 as (P1 & P2 & P3). rewrite P1. repeat split; assumption.
    + contradiction.
Qed.

(* enough reads with room for at least one byte reach the end of what is pending *)
Lemma read_all_progress : forall sizes s o d e sf, Forall (fun z => (0 < z)%nat) sizes ->
  (length (pending s) < length sizes)%nat -> read_all sizes s o = (d, e, sf) -> e <> EOpen.
Proof.
  induction sizes as [|sz r IH]; intros s o d e sf HF HL H; [cbn in HL; lia|].
  cbn [read_all] in H. inversion HF as [|? ? Hsz HFr]; subst.
  destruct (ws_read sz s o) as [[rr s1] o1] eqn:E. pose proof (ws_read_spec sz s o rr s1 o1 E) as S1.
  destruct rr as [d1| | |].
  - destruct (read_all r s1 o1) as [[ds e1] sf1] eqn:E2. inversion H; subst; clear H.
    destruct S1 as (P1 & _ & P3 & _). specialize (P3 Hsz).
    apply (IH s1 o1 ds e sf HFr); [|exact E2].
    assert (L : length (pending s) = (length d1 + length (pending s1))%nat) by (rewrite <- P1, app_length; reflexivity).
    destruct d1; [contradiction|]. cbn [length] in *. lia.
  - inversion H; subst. discriminate.
  - inversion H; subst. discriminate.
  - inversion H; subst. discriminate.
Qed.

(* ---------- the statements ---------- *)
Lemma concat_all_binary ms sizes o d e sf : all_binary ms = true ->
  read_all sizes (mkWs None ms) o = (d, e, sf) ->
  e <> EInvalid /\ e <> EStuck /\
  (e = EOpen -> d ++ pending sf = concat (map snd ms)) /\
  (e = EClosed -> d = concat (map snd ms) /\ pending sf = []).
Proof.
  intros Hb H. destruct (all_binary_stream ms Hb) as [S1 S2].
  pose proof (read_all_spec sizes _ o d e sf H) as R. unfold pending at 2 in R. cbn [cur msgs app] in R.
  destruct e.
  - destruct R as [R1 R2]. rewrite S1 in R1. repeat split; try discriminate; auto.
  - destruct R as (_ & R2 & _). rewrite S2 in R2. discriminate.
  - destruct R as (R1 & _ & R3). unfold pending in R1. cbn [cur msgs app] in R1. rewrite S1 in R1.
    repeat split; try discriminate; auto.
  - contradiction.
Qed.

Lemma concat_all_binary_complete ms sizes o d e sf : all_binary ms = true ->
  Forall (fun z => (0 < z)%nat) sizes -> (length (concat (map snd ms)) < length sizes)%nat ->
  read_all sizes (mkWs None ms) o = (d, e, sf) ->
  e = EClosed /\ d = concat (map snd ms).
Proof.
  intros Hb HF HL H. destruct (concat_all_binary ms sizes o d e sf Hb H) as (N1 & N2 & _ & N4).
  assert (e <> EOpen).
  { apply (read_all_progress sizes (mkWs None ms) o d e sf HF); [|exact H].
    unfold pending. cbn [cur msgs app]. rewrite (proj1 (all_binary_stream ms Hb)). exact HL. }
  destruct e; try contradiction. split; [reflexivity|exact (proj1 (N4 eq_refl))].
Qed.

Lemma nonbinary_ends pre m post sizes o d e sf : all_binary pre = true -> is_binary m = false ->
  read_all sizes (mkWs None (pre ++ m :: post)) o = (d, e, sf) ->
  e <> EClosed /\ e <> EStuck /\
  (exists rest, d ++ rest = concat (map snd pre)) /\
  (e = EInvalid -> d = concat (map snd pre) /\ msgs sf = post /\ cur sf = None).
Proof.
  intros Hb Hm H. destruct (stream_app_nonbinary pre m post Hb Hm) as [S1 S2].
  pose proof (read_all_spec sizes _ o d e sf H) as R. unfold pending at 2 in R. cbn [cur msgs app] in R.
  destruct e.
  - destruct R as [R1 R2]. rewrite S1 in R1. split; [discriminate|]. split; [discriminate|].
    split; [exists (pending sf); exact R1 | discriminate].
  - destruct R as (R1 & R2 & R3). unfold pending in R1. cbn [cur msgs app] in R1. rewrite S1 in R1.
    rewrite S2 in R2. inversion R2; subst.
    split; [discriminate|]. split; [discriminate|]. split; [exists []; apply app_nil_r|].
    intros _. repeat split; auto.
  - destruct R as (_ & R2 & _). rewrite S2 in R2. discriminate.
  - contradiction.
Qed.

Lemma nonbinary_ends_complete pre m post sizes o d e sf : all_binary pre = true -> is_binary m = false ->
  Forall (fun z => (0 < z)%nat) sizes -> (length (concat (map snd pre)) < length sizes)%nat ->
  read_all sizes (mkWs None (pre ++ m :: post)) o = (d, e, sf) ->
  e = EInvalid /\ d = concat (map snd pre) /\ msgs sf = post.
Proof.
  intros Hb Hm HF HL H. destruct (nonbinary_ends pre m post sizes o d e sf Hb Hm H) as (N1 & N2 & _ & N4).
  assert (e <> EOpen).
  { apply (read_all_progress sizes (mkWs None (pre ++ m :: post)) o d e sf HF); [|exact H].
    unfold pending. cbn [cur msgs app]. rewrite (proj1 (stream_app_nonbinary pre m post Hb Hm)). exact HL. }
  destruct e; try contradiction. destruct (N4 eq_refl) as (A & B & _). repeat split; assumption.
Qed.

Lemma write_side ps : all_binary (map ws_write ps) = true /\ stream (map ws_write ps) = concat ps.
Proof.
  induction ps as [|p r [I1 I2]]; [split; reflexivity|].
  cbn [map all_binary forallb stream]. unfold ws_write at 1 3. cbn [is_binary fst snd].
  change (2 =? 2) with true. cbn [andb]. split; [exact I1|]. rewrite I2. reflexivity.
Qed.

(* ---------- independence of connections ---------- *)
Lemma serve_independent before c after :
  serve (before ++ c :: after) = serve before ++ serve1 c :: serve after.
Proof. unfold serve. rewrite map_app. reflexivity. Qed.

(* what a connection's reader delivers if it did not start from ws_init but inherited the unread
   tail of somebody else's message: the foreign bytes come first *)
Lemma stale_reader_leaks tail ms sizes o d e sf : all_binary ms = true ->
  Forall (fun z => (0 < z)%nat) sizes -> (length (tail ++ concat (map snd ms)) < length sizes)%nat ->
  read_all sizes (mkWs (Some tail) ms) o = (d, e, sf) ->
  d = tail ++ concat (map snd ms).
Proof.
  intros Hb HF HL H. pose proof (read_all_spec sizes _ o d e sf H) as R.
  assert (P : pending (mkWs (Some tail) ms) = tail ++ concat (map snd ms)).
  { unfold pending. cbn [cur msgs]. rewrite (proj1 (all_binary_stream ms Hb)). reflexivity. }
  assert (Ne : e <> EOpen).
  { apply (read_all_progress sizes (mkWs (Some tail) ms) o d e sf HF); [rewrite P; exact HL|exact H]. }
  destruct e; try contradiction.
  - destruct R as (R1 & _). rewrite R1. exact P.
  - destruct R as (R1 & _). rewrite R1. exact P.
Qed.
