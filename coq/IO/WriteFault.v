(* C34 — the write path of one client connection WITH transient write faults.
   Extension of IO/WriteBuf.v: every event carries a flag "the Write call this WritePacket makes on the
   connection fails (nothing is written)".  Faithful to clients.go: a failed direct write / failed
   flushOutbuf leaves cl.Net.outbuf as it is (flushOutbuf clears the buffer only after a successful
   write) and WritePacket returns the error before OnPacketSent; WriteLoop then reports the PUBLISH as
   dropped and calls flushIdle (the retry; the fault being transient it succeeds); a handler that gets
   the error ends the connection.  Engine flushfault (IO/WriteBuf.v fault_ok) observes exactly the
   conclusion of fault_flushed on the real client. *)
From MV Require Import Base.Val Session.Pkt IO.WriteBuf.
From Coq Require Import Lia.
Open Scope N_scope.

Definition flush_f (fail : bool) (s : wst) : wst * bool :=
  match outbuf s with
  | [] => (s, false)
  | _ => if fail then (s, true) else (flush s, false)
  end.

Definition write_direct_f (fail : bool) (s : wst) (id size : N) : wst * bool :=
  if fail then (s, true) else (write_direct s id size, false).

(* the locked section of WritePacket: new state, error *)
Definition wp_f (thr : N) (fail : bool) (s : wst) (e : wev) : wst * bool :=
  if e_qempty e then
    (if is_nil (outbuf s) then write_direct_f fail s (e_id e) (e_size e)
     else flush_f fail (buffer s (e_id e) (e_size e)))
  else
    (if is_nil (outbuf s) then
       (if thr <=? e_size e then write_direct_f fail s (e_id e) (e_size e)
        else (buffer s (e_id e) (e_size e), false))
     else
       let s2 := buffer s (e_id e) (e_size e) in
       if buflen (outbuf s2) <? thr then (s2, false) else flush_f fail s2).

(* state, connection closed *)
Definition fstep (thr : N) (x : wst * bool) (ef : wev * bool) : wst * bool :=
  let (s, cl) := x in
  let (e, fail) := ef in
  if cl then x
  else if e_early e then
    match e_src e with
    | Loop => let s1 := report_drop s (e_id e) in
              ((if e_qempty e then fst (flush_f fail s1) else s1), false)          (* flushIdle ignores the error *)
    | Direct => (s, false)
    end
  else
    let (s1, err) := wp_f thr fail s e in
    if err then
      match e_src e with
      | Loop => let s2 := report_drop s1 (e_id e) in
                ((if e_qempty e then flush s2 else s2), false)                      (* flushIdle: the retry succeeds *)
      | Direct => (s1, true)                                                        (* the handler ends the connection *)
      end
    else (report s1 (e_id e), false).

Definition frun (thr : N) (evs : list (wev * bool)) : wst * bool := fold_left (fstep thr) evs (winit, false).

(* without faults this is the model of IO/WriteBuf.v *)
Lemma flush_f_nofault s : flush_f false s = (flush s, false).
Proof. unfold flush_f, flush. destruct (outbuf s); reflexivity. Qed.

Theorem fstep_nofault thr s e : fstep thr (s, false) (e, false) = (wstep thr s e, false).
Proof.
  unfold fstep, wstep, wp_f, write_direct_f. destruct (e_early e).
  - destruct (e_src e); [|reflexivity]. destruct (e_qempty e); [|reflexivity]. rewrite flush_f_nofault. reflexivity.
  - destruct (e_qempty e); destruct (is_nil (outbuf s)); try reflexivity.
    + rewrite flush_f_nofault. reflexivity.
    + destruct (thr <=? e_size e); reflexivity.
    + cbv zeta. destruct (buflen (outbuf (buffer s (e_id e) (e_size e))) <? thr); [reflexivity|].
      rewrite flush_f_nofault. reflexivity.
Qed.

Theorem frun_nofault thr evs : frun thr (map (fun e => (e, false)) evs) = (wrun thr evs, false).
Proof.
  unfold frun, wrun. generalize winit. induction evs as [|e r IH]; intro s; [reflexivity|].
  cbn [map fold_left]. rewrite fstep_nofault. apply IH.
Qed.

(* ---------- invariant ---------- *)
Definition idle_step (idle : bool) (e : wev) : bool :=
  match e_src e, e_early e with Direct, true => idle | _, _ => e_qempty e end.

Lemma idle_after_fold evs : idle_after evs = fold_left idle_step evs true.
Proof. reflexivity. Qed.

Definition Inv (x : wst * bool) (idle : bool) : Prop :=
  snd x = false ->
  (idle = true -> outbuf (fst x) = []) /\
  (forall id, In id (reported (fst x)) -> In id (written (fst x)) \/ In id (map fst (outbuf (fst x)))).

Lemma is_nil_true {A} (l : list A) : is_nil l = true -> l = [].
Proof. destruct l; [reflexivity|discriminate]. Qed.

Lemma flush_outbuf s : outbuf (flush s) = [].
Proof. unfold flush. destruct (outbuf s) eqn:E; [exact E|reflexivity]. Qed.

Lemma flush_reported s : reported (flush s) = reported s.
Proof. unfold flush. destruct (outbuf s); reflexivity. Qed.

Lemma flush_written s id : In id (written s) \/ In id (map fst (outbuf s)) -> In id (written (flush s)).
Proof.
  unfold flush. destruct (outbuf s) as [|p b] eqn:E.
  - intros [H|H]; [exact H|destruct H].
  - cbn [written]. rewrite in_app_iff. tauto.
Qed.

(* what the fallible flush / write do to the part of the state the invariant speaks about *)
Lemma flush_f_cases fail s s' err : flush_f fail s = (s', err) ->
  (err = true /\ s' = s) \/ (err = false /\ s' = flush s).
Proof.
  unfold flush_f. destruct (outbuf s) eqn:E.
  - intro H. injection H as <- <-. right. split; [reflexivity|]. unfold flush. rewrite E. reflexivity.
  - destruct fail; intro H; injection H as <- <-; [left|right]; split; reflexivity.
Qed.

Lemma wp_f_cases thr fail s e s1 err : wp_f thr fail s e = (s1, err) ->
  (* the packet was written at once, or it is in the buffer (with everything that was there), or (error) nothing
     happened to the connection and the buffer holds at least what it held *)
  reported s1 = reported s /\
  (forall id, In id (written s) \/ In id (map fst (outbuf s)) -> In id (written s1) \/ In id (map fst (outbuf s1))) /\
  (err = false -> In (e_id e) (written s1) \/ In (e_id e) (map fst (outbuf s1))) /\
  (err = false -> e_qempty e = true -> outbuf s1 = []) /\
  (err = true -> e_qempty e = true -> outbuf (flush s1) = []).
Proof.
  unfold wp_f, write_direct_f. intro H.
  assert (B : forall id, In id (written s) \/ In id (map fst (outbuf s)) ->
              In id (written (buffer s (e_id e) (e_size e))) \/ In id (map fst (outbuf (buffer s (e_id e) (e_size e))))).
  { intros id [Hi|Hi]; cbn; [left; exact Hi|right; rewrite map_app, in_app_iff; left; exact Hi]. }
  assert (Bid : In (e_id e) (map fst (outbuf (buffer s (e_id e) (e_size e))))).
  { cbn. rewrite map_app, in_app_iff. right. left. reflexivity. }
  destruct (e_qempty e) eqn:Q; destruct (is_nil (outbuf s)) eqn:Nl.
  - apply is_nil_true in Nl. destruct fail; injection H as <- <-.
    + repeat split; try tauto; try discriminate. intros _ _. apply flush_outbuf.
    + cbn. rewrite Nl. repeat split; try discriminate.
      * intros id [Hi|Hi]; [left; rewrite in_app_iff; tauto|destruct Hi].
      * intros _. left. rewrite in_app_iff. right. left. reflexivity.
  - destruct (flush_f_cases _ _ _ _ H) as [[-> ->]|[-> ->]].
    + repeat split; try discriminate; try exact B. intros _ _. apply flush_outbuf.
    + rewrite flush_reported. repeat split; try discriminate.
      * intros id Hi. left. apply flush_written. exact (B id Hi).
      * intros _. left. apply flush_written. right. exact Bid.
      * intros _ _. apply flush_outbuf.
  - apply is_nil_true in Nl. destruct (thr <=? e_size e).
    + destruct fail; injection H as <- <-.
      * repeat split; try tauto; discriminate.
      * cbn. rewrite Nl. repeat split; try discriminate.
        -- intros id [Hi|Hi]; [left; rewrite in_app_iff; tauto|destruct Hi].
        -- intros _. left. rewrite in_app_iff. right. left. reflexivity.
    + injection H as <- <-. repeat split; try discriminate; try exact B. intros _. right. exact Bid.
  - cbv zeta in H. destruct (buflen (outbuf (buffer s (e_id e) (e_size e))) <? thr).
    + injection H as <- <-. repeat split; try discriminate; try exact B. intros _. right. exact Bid.
    + destruct (flush_f_cases _ _ _ _ H) as [[-> ->]|[-> ->]].
      * repeat split; try discriminate; exact B.
      * rewrite flush_reported. repeat split; try discriminate.
        -- intros id Hi. left. apply flush_written. exact (B id Hi).
        -- intros _. left. apply flush_written. right. exact Bid.
Qed.

Lemma step_inv thr x idle e fail :
  (e_early e = true -> fail = false) ->
  Inv x idle -> Inv (fstep thr x (e, fail)) (idle_step idle e).
Proof.
  intros Hf I. destruct x as [s cl]. unfold fstep. destruct cl.
  { intro C. discriminate C. }
  specialize (I eq_refl). cbn [fst snd] in I. destruct I as [Iidle Irep].
  unfold idle_step.
  destruct (e_early e) eqn:Ea.
  - rewrite (Hf eq_refl). destruct (e_src e).
    + intros _. cbn [fst snd]. destruct (e_qempty e).
      * rewrite flush_f_nofault. cbn [fst]. split; [intros _; apply flush_outbuf|].
        intros id Hi. rewrite flush_reported in Hi. left. apply flush_written. exact (Irep id Hi).
      * split; [discriminate|]. exact Irep.
    + intros _. cbn [fst snd]. split; [exact Iidle|exact Irep].
  - destruct (wp_f thr fail s e) as [s1 err] eqn:W.
    destruct (wp_f_cases _ _ _ _ _ _ W) as (Hr & Hk & Hin & Hq & Hqe).
    assert (Hidle : match e_src e with Loop => e_qempty e | Direct => e_qempty e end = e_qempty e)
      by (destruct (e_src e); reflexivity).
    replace (match e_src e with Loop => e_qempty e | Direct => e_qempty e end) with (e_qempty e).
    destruct err.
    + destruct (e_src e).
      * intros _. cbn [fst snd]. destruct (e_qempty e) eqn:Q.
        -- split; [intros _; apply flush_outbuf|].
           intros id Hi. rewrite flush_reported in Hi. cbn in Hi. rewrite Hr in Hi.
           left. apply flush_written. cbn. exact (Hk id (Irep id Hi)).
        -- split; [discriminate|]. intros id Hi. cbn in Hi. rewrite Hr in Hi. cbn. exact (Hk id (Irep id Hi)).
      * intro C. discriminate C.
    + intros _. cbn [fst snd]. split.
      * intro Q. cbn. exact (Hq eq_refl Q).
      * intros id Hi. cbn in Hi. rewrite Hr, in_app_iff in Hi. cbn.
        destruct Hi as [Hi|[<-|[]]]; [exact (Hk id (Irep id Hi))|exact (Hin eq_refl)].
Qed.

Lemma closed_absorbing thr evs s : snd (fold_left (fstep thr) evs (s, true)) = true.
Proof. revert s. induction evs as [|[e f] r IH]; intro s; [reflexivity|]. cbn [fold_left fstep]. apply IH. Qed.

Lemma run_inv thr : forall evs x idle,
  (forall e f, In (e, f) evs -> e_early e = true -> f = false) ->
  Inv x idle -> Inv (fold_left (fstep thr) evs x) (fold_left idle_step (map fst evs) idle).
Proof.
  induction evs as [|[e f] r IH]; intros x idle H I; [exact I|].
  cbn [fold_left map fst]. apply IH.
  - intros e' f' Hin. apply H. right. exact Hin.
  - apply step_inv; [|exact I]. apply H. left. reflexivity.
Qed.

(* For EVERY history of WritePacket calls in which any of the connection writes may fail once (the retry by flushIdle
   succeeds; a fault is not placed on a packet that is refused before the buffer logic): if the connection was not
   ended and it is idle, nothing is left in the write buffer and every packet reported as sent has been written. *)
Theorem fault_flushed thr evs :
  (forall e f, In (e, f) evs -> e_early e = true -> f = false) ->
  snd (frun thr evs) = false -> idle_after (map fst evs) = true ->
  outbuf (fst (frun thr evs)) = [] /\
  forall id, In id (reported (fst (frun thr evs))) -> In id (written (fst (frun thr evs))).
Proof.
  intros H C Idle. unfold frun in *.
  assert (I0 : Inv (winit, false) true).
  { intros _. cbn. split; [reflexivity|]. intros id []. }
  pose proof (run_inv thr evs (winit, false) true H I0) as I.
  rewrite <- idle_after_fold in I. specialize (I C). destruct I as [Io Ir].
  rewrite Idle in Io. specialize (Io eq_refl). split; [exact Io|].
  intros id Hi. destruct (Ir id Hi) as [Hw|Hb]; [exact Hw|]. rewrite Io in Hb. destruct Hb.
Qed.

(* the seeded change C34d as a model variant: flushOutbuf forgets the buffer BEFORE the write.  One parked PUBACK (id 1,
   reported), then the queued PUBLISH (id 2) whose flush fails: the PUBACK is reported and never written. *)
Definition flush_f_lossy (fail : bool) (s : wst) : wst * bool :=
  match outbuf s with
  | [] => (s, false)
  | _ => if fail then ({| outbuf := []; written := written s; chunks := chunks s; reported := reported s;
                          dropped := dropped s |}, true)
         else (flush s, false)
  end.

Example lossy_flush_strands :
  let s0 := report (buffer winit 1 4) 1 in                              (* PUBACK parked and reported *)
  let (s1, err) := flush_f_lossy true (buffer s0 2 30) in               (* the write loop's flush fails *)
  let s2 := flush (report_drop s1 2) in                                  (* drop reported, flushIdle *)
  err = true /\ outbuf s2 = [] /\ reported s2 = [1] /\ written s2 = [].
Proof. vm_compute. repeat split. Qed.
