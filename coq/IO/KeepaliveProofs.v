(* Proofs about the keepalive model (C37). *)
From MV Require Import Base.Val IO.Keepalive.
From Coq Require Import Lia ZifyBool.
Ltac Zify.zify_post_hook ::= Z.div_mod_to_equations.
Open Scope Z_scope.

Arguments Z.mul : simpl never.
Arguments Z.add : simpl never.
Arguments Z.div : simpl never.
Arguments Z.ltb : simpl never.
Arguments Z.leb : simpl never.

(* ---------- refreshDeadline arithmetic ---------- *)

(* the int64 product of the Go expression never wraps for a uint16 keepalive *)
Lemma deadline_ns_no_overflow K : 0 <= K <= 65535 ->
  0 <= K * second_ns * 3 < 2 ^ 63.
Proof. unfold second_ns. intro H. split; [lia|]. change (2 ^ 63) with 9223372036854775808. lia. Qed.

Lemma deadline_ms_pos K : 0 < K -> deadline_ms K = Some (limit_ms K).
Proof.
  intro H. unfold deadline_ms, deadline_ns, second_ns, limit_ms.
  replace (0 <? K) with true by lia. f_equal. lia.
Qed.

Lemma deadline_ms_nonpos K : K <= 0 -> deadline_ms K = None.
Proof. intro H. unfold deadline_ms. replace (0 <? K) with false by lia. reflexivity. Qed.

(* ---------- the read loop ---------- *)

Lemma run_closed K t l : run K (Closed t) l = Closed t.
Proof. induction l as [|a r IH]; [reflexivity|]. exact IH. Qed.

Lemma run_cons K c a r : run K c (a :: r) = run K (step K c a) r.
Proof. reflexivity. Qed.

Lemma last_cons (a : Z) r d : last (a :: r) d = last r a.
Proof.
  revert a d. induction r as [|b r IH]; intros a d; [reflexivity|].
  change (last (a :: b :: r) d) with (last (b :: r) d). rewrite IH. symmetry. apply IH.
Qed.

Lemma ordered_last t0 l : ordered_from t0 l -> t0 <= last l t0.
Proof.
  revert t0. induction l as [|a r IH]; intros t0 H; [cbn; lia|].
  destruct H as [H1 H2]. rewrite last_cons. specialize (IH a H2). lia.
Qed.

Lemma gaps_ordered t0 l b : gaps_below t0 l b -> ordered_from t0 l.
Proof.
  revert t0. induction l as [|a r IH]; intros t0 H; [exact I|].
  destruct H as (H1 & _ & H3). split; [exact H1|]. apply IH. exact H3.
Qed.

(* never early: while every gap is below the limit the loop keeps reading *)
Lemma run_open K t0 l : 0 <= K ->
  gaps_below t0 l (limit_ms K) -> run K (Open t0) l = Open (last l t0).
Proof.
  intro HK. revert t0. induction l as [|a r IH]; intros t0 H; [reflexivity|].
  destruct H as (H1 & H2 & H3). rewrite run_cons, last_cons.
  assert (S : step K (Open t0) a = Open a).
  { cbn [step]. destruct (Z.eq_dec K 0) as [-> | Hnz].
    - rewrite deadline_ms_nonpos by lia. reflexivity.
    - rewrite deadline_ms_pos by lia. replace (a <? t0 + limit_ms K) with true by lia. reflexivity. }
  rewrite S. apply IH. exact H3.
Qed.

Lemma never_early K t0 l t : 0 <= K <= 65535 ->
  gaps_below t0 l (limit_ms K) -> t < last l t0 + limit_ms K ->
  run K (Open t0) l = Open (last l t0) /\ closed_by K (run K (Open t0) l) t = false.
Proof.
  intros HK G Ht. rewrite (run_open K t0 l) by (lia || exact G). split; [reflexivity|].
  cbn [closed_by]. destruct (Z.eq_dec K 0) as [-> | Hnz].
  - rewrite deadline_ms_nonpos by lia. reflexivity.
  - rewrite deadline_ms_pos by lia. lia.
Qed.

(* whatever arrived (in order), the state is: still open and armed at the last arrival, or closed
   no later than the last arrival *)
Lemma run_shape K t0 l : 0 < K -> ordered_from t0 l ->
  run K (Open t0) l = Open (last l t0) \/
  exists tc, run K (Open t0) l = Closed tc /\ tc <= last l t0.
Proof.
  intro HK. revert t0. induction l as [|a r IH]; intros t0 H; [left; reflexivity|].
  destruct H as [H1 H2]. rewrite run_cons, last_cons. cbn [step].
  rewrite deadline_ms_pos by exact HK.
  destruct (a <? t0 + limit_ms K) eqn:E.
  - apply IH. exact H2.
  - right. exists (t0 + limit_ms K). rewrite run_closed. split; [reflexivity|].
    pose proof (ordered_last a r H2). lia.
Qed.

Lemma closes_by K t0 l t : 0 < K <= 65535 -> ordered_from t0 l ->
  last l t0 + limit_ms K <= t -> closed_by K (run K (Open t0) l) t = true.
Proof.
  intros HK O Ht. destruct (run_shape K t0 l) as [E | (tc & E & Htc)]; [lia|exact O| |]; rewrite E.
  - cbn [closed_by]. rewrite deadline_ms_pos by lia. lia.
  - cbn [closed_by]. unfold limit_ms in Ht. lia.
Qed.

(* a packet that comes too late is not read, nor is anything after it *)
Lemma late_packet_not_read K t0 l late rest : 0 < K <= 65535 ->
  gaps_below t0 l (limit_ms K) -> last l t0 + limit_ms K <= late ->
  run K (Open t0) (l ++ late :: rest) = Closed (last l t0 + limit_ms K).
Proof.
  intros HK G HL. unfold run. rewrite fold_left_app. fold (run K (Open t0) l).
  rewrite (run_open K t0 l) by (lia || exact G).
  change (run K (step K (Open (last l t0)) late) rest = Closed (last l t0 + limit_ms K)).
  cbn [step]. rewrite deadline_ms_pos by lia.
  replace (late <? last l t0 + limit_ms K) with false by lia. apply run_closed.
Qed.

Lemma zero_disables t0 l t :
  run 0 (Open t0) l = Open (last l t0) /\ closed_by 0 (run 0 (Open t0) l) t = false.
Proof.
  assert (R : forall l t0, run 0 (Open t0) l = Open (last l t0)).
  { clear. induction l as [|a r IH]; intro t0; [reflexivity|].
    rewrite run_cons, last_cons. cbn [step]. rewrite deadline_ms_nonpos by lia. apply IH. }
  rewrite R. split; [reflexivity|]. cbn [closed_by]. rewrite deadline_ms_nonpos by lia. reflexivity.
Qed.

(* ---------- the engine's acceptance test is the specification's ---------- *)
Lemma arm_model_is_spec K d off : 0 <= K -> arm_ok_model K d off = arm_ok_spec K d off.
Proof.
  intro HK. unfold arm_ok_model, arm_ok_spec. destruct (Z.eq_dec K 0) as [-> | Hnz].
  - reflexivity.
  - rewrite deadline_ms_pos by lia. replace (0 <? K) with true by lia. reflexivity.
Qed.

(* ---------- histories with the broker's own writes ---------- *)
Lemma run_ev_inbounds K h : forall c, run_ev K c h = run K c (inbounds h).
Proof.
  induction h as [|e r IH]; intro c; [reflexivity|].
  destruct e as [a | t]; cbn [run_ev fold_left step_ev inbounds].
  - change (run_ev K (step K c a) r = run K (step K c a) (inbounds r)). apply IH.
  - change (run_ev K c r = run K c (inbounds r)). apply IH.
Qed.

Lemma mixed_closes_by K t0 h t : 0 < K <= 65535 -> ordered_from t0 (inbounds h) ->
  last (inbounds h) t0 + limit_ms K <= t -> closed_by K (run_ev K (Open t0) h) t = true.
Proof. intros HK O Ht. rewrite run_ev_inbounds. exact (closes_by K t0 (inbounds h) t HK O Ht). Qed.

Lemma mixed_never_early K t0 h t : 0 <= K <= 65535 ->
  gaps_below t0 (inbounds h) (limit_ms K) -> t < last (inbounds h) t0 + limit_ms K ->
  run_ev K (Open t0) h = Open (last (inbounds h) t0) /\ closed_by K (run_ev K (Open t0) h) t = false.
Proof. intros HK G Ht. rewrite run_ev_inbounds. exact (never_early K t0 (inbounds h) t HK G Ht). Qed.

(* in particular: writes alone never keep a silent connection open *)
Lemma writes_do_not_extend K t0 outs t : 0 < K <= 65535 -> t0 + limit_ms K <= t ->
  closed_by K (run_ev K (Open t0) (map HOut outs)) t = true.
Proof.
  intros HK Ht. apply mixed_closes_by; [exact HK| |].
  - assert (E : inbounds (map HOut outs) = []) by (induction outs as [|x r IH]; [reflexivity|exact IH]).
    rewrite E. exact I.
  - assert (E : inbounds (map HOut outs) = []) by (induction outs as [|x r IH]; [reflexivity|exact IH]).
    rewrite E. exact Ht.
Qed.
