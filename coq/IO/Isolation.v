(* C28 (dynamic part) — monitor for the `bytes` engine: an attacker connection sends arbitrary
   bytes while a reference publisher/subscriber pair exchanges numbered messages.
   case = (panics hung ref_sent ref_recv attacker_closed attacker_served ref_closed attacker_chunks)
   The observation satisfies the property iff no handler panicked, the broker did not hang, the
   reference subscriber received exactly the reference messages, once each and in order, the
   reference connections are still open, and the attacker connection was either closed or is
   still being served (answers PINGREQ). *)
From MV Require Import Base.Val.
Open Scope N_scope.

Fixpoint beq_Nlist (a b : list N) : bool :=
  match a, b with
  | [], [] => true
  | x :: a', y :: b' => (x =? y) && beq_Nlist a' b'
  | _, _ => false
  end.

Definition isolation_ok (panics : N) (hung : bool) (sent recv : list N) (closed served refclosed : bool) : bool :=
  (panics =? 0) && negb hung && beq_Nlist sent recv && (closed || served) && negb refclosed.

(* ENGINE bytes IO.Isolation.bytes_engine *)
Definition bytes_engine (v : val) : val :=
  match v with
  | VL [VN panics; hung; VL sent; VL recv; closed; served; refclosed; VL _chunks] =>
      match as_bool hung, map_opt as_N sent, map_opt as_N recv, as_bool closed, as_bool served, as_bool refclosed with
      | Some h, Some s, Some r, Some c, Some sv, Some rc =>
          let tg := if c then tag "closed" else tag "served" in
          if isolation_ok panics h s r c sv rc then verdict 0 tg (1 <? N.of_nat (length s)) []
          else verdict 1 tg true []
      | _, _, _, _, _, _ => bad_case
      end
  | _ => bad_case
  end.
