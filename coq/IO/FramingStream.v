(* C28 (framing part, whole streams) — the read loop over a stream of ANY number of packets:
   a sequence of complete, in-limit packets is cut into exactly those packets whatever follows them
   (a truncated packet, garbage, an over-size packet, nothing), and the outcome for what follows is
   the outcome it would have on its own: nothing a packet contains is ever taken for part of another
   packet.  Conversely every list of frames the loop delivers is a segmentation of a prefix of the
   stream into standard packets within the limit.  Induction over the packet list / the fuel. *)
From MV Require Import Base.Val Base.Bytes Codec.Vbi Codec.VbiProofs IO.Framing IO.FramingProofs.
From Coq Require Import Lia ZifyBool ZifyN ZifyNat.
Open Scope N_scope.

(* a stream that is the concatenation of complete in-limit packets, with the frames it must yield *)
Inductive good_stream (maxsize : N) : list (fhdr * N) -> bytes -> Prop :=
| gs_nil : good_stream maxsize [] []
| gs_cons hb n e body h fr bs :
    hb < 256 -> n <= vbi_max -> vbi_encode n = Some e -> fh_decode hb = Some h ->
    N.of_nat (length body) = n -> wf_bytes body ->
    (maxsize = 0 \/ 1 + N.of_nat (length e) + n <= maxsize) ->
    good_stream maxsize fr bs ->
    good_stream maxsize ((h, n) :: fr) (hb :: e ++ body ++ bs).

Lemma good_stream_wf maxsize fr bs : good_stream maxsize fr bs -> wf_bytes bs.
Proof.
  induction 1 as [|hb n e body h fr bs Hb Hn He Hh Hl Wb Hm G IH]; [constructor|].
  constructor; [exact Hb|]. apply wf_app; [exact (enc_wf n e Hn He)|]. apply wf_app; assumption.
Qed.

(* each packet is at least two bytes long: the fuel S (length stream) used by the engine suffices *)
Lemma good_stream_len maxsize fr bs : good_stream maxsize fr bs -> (2 * length fr <= length bs)%nat.
Proof.
  induction 1 as [|hb n e body h fr bs Hb Hn He Hh Hl Wb Hm G IH]; [cbn; lia|].
  pose proof (enc_length n e Hn He) as L.
  assert (1 <= vbi_min_len n) by (unfold vbi_min_len; repeat destruct (_ <? _); lia).
  cbn [length]. rewrite !app_length. lia.
Qed.

Lemma read_frames_S f maxsize bs :
  read_frames (S f) maxsize bs =
  match read_frame maxsize bs with
  | Frame h bu body rest => let (l, fin) := read_frames f maxsize rest in ((h, N.of_nat (length body)) :: l, fin)
  | NeedMore => ([], 0) | BadHeader => ([], 1) | BadLength => ([], 2) | TooLarge => ([], 3)
  end.
Proof. reflexivity. Qed.

(* COMPLETENESS for streams: the good packets come out one by one, then the loop continues on the tail
   exactly as if the tail were a stream of its own *)
Theorem frames_of_good_prefix maxsize fr bs : good_stream maxsize fr bs ->
  forall tail fuel, wf_bytes tail -> (length fr <= fuel)%nat ->
  read_frames fuel maxsize (bs ++ tail) =
  (fr ++ fst (read_frames (fuel - length fr) maxsize tail), snd (read_frames (fuel - length fr) maxsize tail)).
Proof.
  induction 1 as [|hb n e body h fr bs Hb Hn He Hh Hl Wb Hm G IH]; intros tail fuel Wt Hf.
  - cbn [app length]. rewrite Nat.sub_0_r. destruct (read_frames fuel maxsize tail). reflexivity.
  - cbn [length] in Hf. destruct fuel as [|f]; [lia|].
    rewrite read_frames_S.
    replace ((hb :: e ++ body ++ bs) ++ tail) with (hb :: e ++ body ++ (bs ++ tail))
      by (cbn [app]; rewrite <- !app_assoc; reflexivity).
    rewrite (frame_complete maxsize hb n e body (bs ++ tail) h Hn He Hh Hl Wb
               (wf_app _ _ (good_stream_wf _ _ _ G) Wt) Hm).
    rewrite (IH tail f Wt ltac:(lia)). cbn [length Nat.sub fst snd]. rewrite Hl. reflexivity.
Qed.

Lemma read_frames_nil fuel maxsize : read_frames fuel maxsize [] = ([], 0).
Proof. destruct fuel; reflexivity. Qed.

(* a stream made only of good packets, with the fuel the engine uses: exactly those frames, stream exhausted *)
Corollary frames_of_good_stream maxsize fr bs : good_stream maxsize fr bs ->
  read_frames (S (length bs)) maxsize bs = (fr, 0).
Proof.
  intro G. pose proof (good_stream_len _ _ _ G) as L.
  pose proof (frames_of_good_prefix maxsize fr bs G [] (S (length bs)) ltac:(constructor) ltac:(lia)) as H.
  rewrite app_nil_r, read_frames_nil in H. cbn [fst snd] in H. rewrite app_nil_r in H. exact H.
Qed.

(* the first packet after the good ones decides the end of the connection alone: a bad first byte, a malformed
   length or an over-size header ends the loop with that error AFTER all good packets were delivered *)
Corollary bad_tail_after_good maxsize fr bs tail fuel : good_stream maxsize fr bs -> wf_bytes tail ->
  (length fr < fuel)%nat ->
  forall code, match read_frame maxsize tail with
               | Frame _ _ _ _ => False | NeedMore => code = 0 | BadHeader => code = 1
               | BadLength => code = 2 | TooLarge => code = 3 end ->
  read_frames fuel maxsize (bs ++ tail) = (fr, code).
Proof.
  intros G Wt Hf code Hc.
  rewrite (frames_of_good_prefix maxsize fr bs G tail fuel Wt ltac:(lia)).
  destruct (fuel - length fr)%nat as [|f] eqn:E; [lia|].
  rewrite read_frames_S.
  destruct (read_frame maxsize tail); try contradiction; subst code; cbn [fst snd]; rewrite app_nil_r; reflexivity.
Qed.

(* SOUNDNESS for streams: whatever the loop delivers is a segmentation of a prefix of the stream into
   packets with a standard first byte, a length field the standard accepts, within the limit *)
Inductive segmented (maxsize : N) : list (fhdr * N) -> bytes -> bytes -> Prop :=
| sg_nil tail : segmented maxsize [] tail tail
| sg_cons hb lenb body h fr bs tail :
    fh_spec hb = Some h ->
    spec_decode (lenb ++ body ++ bs) = Some (N.of_nat (length body), body ++ bs) ->
    1 <= N.of_nat (length lenb) <= 4 ->
    (0 < maxsize -> 1 + N.of_nat (length lenb) + N.of_nat (length body) <= maxsize) ->
    segmented maxsize fr bs tail ->
    segmented maxsize ((h, N.of_nat (length body)) :: fr) (hb :: lenb ++ body ++ bs) tail.

Lemma wf_app_r a b : wf_bytes (a ++ b) -> wf_bytes b.
Proof. unfold wf_bytes. intro H. apply Forall_app in H. tauto. Qed.

Theorem frames_sound_stream maxsize : forall fuel bs fr fin,
  wf_bytes bs -> read_frames fuel maxsize bs = (fr, fin) ->
  exists tail, segmented maxsize fr bs tail /\
    (fin = 0 \/ (fin = 1 /\ read_frame maxsize tail = BadHeader) \/ (fin = 2 /\ read_frame maxsize tail = BadLength)
     \/ (fin = 3 /\ read_frame maxsize tail = TooLarge)).
Proof.
  induction fuel as [|f IH]; intros bs fr fin W H.
  - cbn in H. injection H as <- <-. exists bs. split; [constructor|left; reflexivity].
  - rewrite read_frames_S in H.
    destruct (read_frame maxsize bs) as [h bu body rest| | | |] eqn:R.
    + destruct (read_frames f maxsize rest) as [l fin'] eqn:RF. injection H as <- <-.
      destruct (frame_sound maxsize bs h bu body rest W R) as (hb & lenb & Ebs & Hh & Hs & Hbu & Hr & Hm).
      assert (Wr : wf_bytes rest).
      { rewrite Ebs in W. inversion W as [|? ? _ W']; subst. apply wf_app_r in W'. apply wf_app_r in W'. exact W'. }
      destruct (IH rest l fin' Wr RF) as (tail & Sg & Hfin).
      exists tail. split; [|exact Hfin]. rewrite Ebs.
      apply sg_cons; try assumption. lia. intro Hp. specialize (Hm Hp). lia.
    + injection H as <- <-. exists bs. split; [constructor|left; reflexivity].
    + injection H as <- <-. exists bs. split; [constructor|right; left; split; [reflexivity|exact R]].
    + injection H as <- <-. exists bs. split; [constructor|right; right; left; split; [reflexivity|exact R]].
    + injection H as <- <-. exists bs. split; [constructor|right; right; right; split; [reflexivity|exact R]].
Qed.
