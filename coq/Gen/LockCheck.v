(* WIP generated: not part of the shared build.  Compiled on every run of ./check C32 by
   lib/conc_gen.py (private copy under .build/gen/C32); by hand:
   make -C /verif/coq && coqc -Q /verif/coq MV /verif/coq/Gen/LockCheck.v *)
From Coq Require Import List NArith.
From MV Require Import Conc.Locks Conc.LocksProofs.
From MV Require Import Gen.LockGraph.
Import ListNotations.

(* the proved checker, evaluated by the kernel on the table regenerated from the Go source: every
   function releases on every path what it acquired (no unbalanced function), the call closure is
   closed, no lock class is re-acquired while held, the lock order has a topological numbering *)
Lemma lockgraph_ok : lock_discipline_ok_full fn_names unbalanced table = true.
Proof. vm_compute. reflexivity. Qed.

(* hence: goroutines whose lock behaviour is described by the table never deadlock on the broker's
   locks and can always run to completion, whatever the schedule *)
Theorem C32_holds_for_this_tree :
  (forall g, existsb (N.eqb g) unbalanced = false) /\
  forall (cl : lock -> cls) (gs : list (fname * list ev)),
    (forall f es, In (f, es) gs -> conforms cl table unbalanced [(f, [])] es = true) ->
    forall sched,
      ~ deadlocked (run sched (map (fun g => thread_of (snd g)) gs)) /\
      exists sched', all_done (run (sched ++ sched') (map (fun g => thread_of (snd g)) gs)).
Proof. exact (checked_table_sound_full fn_names unbalanced table lockgraph_ok). Qed.

Print Assumptions C32_holds_for_this_tree.
