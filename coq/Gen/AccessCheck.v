(* WIP generated: not part of the shared build.  Compiled on every run of ./check C33 by
   lib/conc_gen.py (private copy under .build/gen/C33); by hand:
   make -C /verif/coq && coqc -Q /verif/coq MV /verif/coq/Gen/AccessCheck.v *)
From Coq Require Import List String.
From MV Require Import Conc.Locks Conc.Discipline Conc.DisciplineProofs.
From MV Require Import Gen.AccessTable.
Import ListNotations.

(* the declaration names every unit once *)
Lemma decl_ok : decl_wfb decl = true.
Proof. vm_compute. reflexivity. Qed.

(* the proved checker, evaluated by the kernel on the access table regenerated from the Go source:
   every access site lies in a declared unit and keeps its protection, except in the units that
   carry a listed finding *)
Lemma access_ok : sites_respect_modulo decl tbl = true.
Proof. vm_compute. reflexivity. Qed.

Theorem C33_holds_for_this_tree_modulo_findings :
  forall s1 s2, In s1 tbl -> In s2 tbl ->
    overlap s1 s2 = true -> conflicting s1 s2 = true -> may_be_concurrent s1 s2 = true ->
    exists u, In u decl /\ In u (units_of decl s1) /\ In u (units_of decl s2) /\
              (u_kf u <> None \/ exempt u s1 = true \/ exempt u s2 = true \/ synchronised u s1 s2).
Proof. exact (discipline_sound_modulo decl tbl (decl_wfb_sound decl decl_ok) access_ok). Qed.

Print Assumptions C33_holds_for_this_tree_modulo_findings.
