(* Engines for C20 (`hx restart`) and C21 (`hx crash`).

   restart case = (backend maxcap events snapshot1 snapshot2)
     events    : the storage hook events the real broker issued during a generated history,
                 including its shutdown;
     snapshot1 : the broker's in-memory state after the shutdown;
     snapshot2 : the in-memory state of a second broker after readStore on the same store.
   Checks  (spec)   observation of snapshot2 = observation of snapshot1;
           (model)  snapshot2 = [restart (read_back (run_awrites b writes))], field by field;
           (memory) observation of snapshot1 = the abstract state the writes describe ([arun]),
                    i.e. the hooks were told everything the broker keeps in memory.

   crash case = (backend maxcap events k cut_event cut_writes snapshot2): only the first k storage
   writes reached the store.  Checks (spec = model here, the abstract state of the first k writes is
   the specification) snapshot2 against [restart] of the model store and against the observation of
   [arun (firstn k writes)].

   A snapshot is (clients index-subscriptions client-subscriptions inflight retained).
   No proofs in this file. *)
From MV Require Import Base.Val Storage.Kv Storage.StoreHooks Storage.StoreEngine Storage.Restart Storage.Crash.
Open Scope N_scope.

(* ---------- printing ---------- *)

Definition val_of_subscription (s : subscription) : val :=
  VL [VB (su_filter s); VN (su_identifier s); VN (su_rh s); VN (su_qos s); vbool (su_rap s);
      vbool (su_nolocal s); VN (su_qos s)].

Definition val_of_pkt (p : pkt) : val :=
  VL [p_fh p; VN (p_pid p); VB (p_topic p); VB (p_payload p); VB (p_origin p); VN (p_created p);
      VN (u64_of_z (p_expiry p)); VN (p_ver p); VN (p_pf p); vbool (p_pf_flag p); VN (p_mei p); p_props p].

Definition val_of_optz (o : option Z) : val :=
  match o with Some z => VL [VN (u64_of_z z)] | None => VL [] end.

Definition val_of_msg_obs (m : msg_obs) : val :=
  VL [mo_fh m; VN (mo_pid m); VB (mo_topic m); VB (mo_payload m); VB (mo_origin m); VN (mo_created m);
      val_of_optz (mo_deadline m); VN (u64_of_z (mo_wire_expiry m)); VN (mo_pf m); vbool (mo_pf_flag m);
      VN (mo_mei m); mo_props m].

(* the model's restored state in the snapshot format *)
Definition vals_of_rstate (rs : rstate) : list (list val) :=
  let subs := map (fun e => VL [VB (fst (fst e)); val_of_subscription (snd e)]) (rs_sub rs) in
  [map (fun e => val_of_client_rec (snd e)) (rs_cl rs); subs; subs;
   map (fun e => VL [VB (fst (fst e)); val_of_pkt (snd e)]) (rs_ifm rs);
   map (fun e => val_of_pkt (snd e)) (rs_ret rs)].

(* ---------- observation of a snapshot ---------- *)

Definition parse_snapshot (v : val) : option (list (list val)) :=
  match v with
  | VL [VL cl; VL isub; VL csub; VL ifm; VL ret] => Some [cl; isub; csub; ifm; ret]
  | _ => None
  end.

Definition retained_view (p : pkt) : pkt :=
  mkPkt (p_fh p) 0 (p_topic p) (p_payload p) (p_origin p) (p_created p) (p_expiry p) (p_ver p)
        (p_pf p) (p_pf_flag p) (p_mei p) (p_props p).

Definition obs_sub (v : val) : option (bytes * val) :=
  match v with
  | VL [VB cid; s] =>
      match parse_subscription s with
      | Some (s', _) => Some (cid, VL [VB cid; val_of_subscription s'])
      | None => None
      end
  | _ => None
  end.

Definition obs_ifm (maxcap : N) (v : val) : option (bytes * val) :=
  match v with
  | VL [VB cid; p] =>
      match parse_pkt p with
      | Some p' => Some (cid, VL [VB cid; val_of_msg_obs (obs_of_pkt maxcap p')])
      | None => None
      end
  | _ => None
  end.

(* [None] = not parsable; [Some None] = a $SYS topic: the broker publishes and retains those itself at
   every system tick, they are not persisted and not part of the observation *)
Definition obs_ret (maxcap : N) (v : val) : option (option val) :=
  match parse_pkt v with
  | Some p => if has_prefix (tag "$SYS") (p_topic p) then Some None
              else Some (Some (val_of_msg_obs (obs_of_pkt maxcap (retained_view p))))
  | None => None
  end.

Definition mem_bytes (x : bytes) (l : list bytes) : bool := existsb (beq_bytes x) l.

(* only sessions that outlive their connection are part of the observation.  [owned] = true (the
   state at shutdown): only subscriptions / in-flight messages of such sessions count (what a session
   that has ended leaves behind in memory is the business of C15); [owned] = false (the state after
   the restart): everything restored counts, so that a subscription restored for a client without a
   session shows up *)
Definition observe_snapshot (owned : bool) (maxcap : N) (s : list (list val)) : option (list (list val)) :=
  match s with
  | [cl; isub; csub; ifm; ret] =>
      match map_opt parse_client_rec cl, map_opt obs_sub isub, map_opt obs_sub csub,
            map_opt (obs_ifm maxcap) ifm, map_opt (obs_ret maxcap) ret with
      | Some cls, Some i, Some cs, Some f, Some r =>
          let live := filter (fun c => negb (ends_on_disconnect c)) cls in
          let ids := map cr_id live in
          let keep := fun l : list (bytes * val) =>
                        filter_map (fun e => if negb owned || mem_bytes (fst e) ids then Some (snd e) else None) l in
          Some [map (fun c => val_of_client_rec (session_obs c)) live; keep i; keep cs; keep f; filter_map (fun o => o) r]
      | _, _, _, _, _ => None
      end
  | _ => None
  end.

(* the observation the abstract state prescribes, in the same format *)
Definition observe_astate (maxcap : N) (st : astate) : list (list val) :=
  let subs := filter_map (fun e : sub_key * (subscription * N) =>
                            if has_session st (fst (fst e))
                            then Some (VL [VB (fst (fst e)); val_of_subscription (sub_obs (fst (snd e)) (snd (snd e)))])
                            else None) (as_sub st) in
  [filter_map (fun e : bytes * client_rec =>
                 if ends_on_disconnect (snd e) then None else Some (val_of_client_rec (session_obs (snd e)))) (as_cl st);
   subs; subs;
   filter_map (fun e : ifm_key * (pkt * N) =>
                 if has_session st (fst (fst e))
                 then Some (VL [VB (fst (fst e)); val_of_msg_obs (obs_of_pkt maxcap (fst (snd e)))]) else None) (as_ifm st);
   filter_map (fun e : bytes * (bytes * pkt) =>
                 if is_nil (p_payload (snd (snd e))) then None
                 else Some (val_of_msg_obs (obs_of_pkt maxcap (retained_view (snd (snd e)))))) (as_ret st)].

Definition observe_rstate (maxcap : N) (rs : rstate) : list (list val) :=
  let subs := map (fun e => VL [VB (fst (fst e)); val_of_subscription (snd e)]) (rs_sub rs) in
  [map (fun e => val_of_client_rec (snd e)) (rs_cl rs); subs; subs;
   map (fun e => VL [VB (fst (fst e)); val_of_msg_obs (obs_of_pkt maxcap (snd e))]) (rs_ifm rs);
   map (fun e => val_of_msg_obs (obs_of_pkt maxcap (retained_view (snd e)))) (rs_ret rs)].

(* inclusion of multisets of values *)
Fixpoint mset_subb (a b : list val) : bool :=
  match a with
  | [] => true
  | x :: a' => match remove1 x b with Some b' => mset_subb a' b' | None => false end
  end.

(* two observations that agree except that the second may hold more in-flight messages (component 3) *)
Definition only_more_inflight (a b : list (list val)) : bool :=
  match a, b with
  | [c1; i1; s1; f1; r1], [c2; i2; s2; f2; r2] =>
      mset_eqb c1 c2 && mset_eqb i1 i2 && mset_eqb s1 s2 && mset_subb f1 f2 && mset_eqb r1 r2
  | _, _ => false
  end.

Definition kf_deferred : bytes := tag "KF_C20_deferred_send_untracked".

(* an observation without the two expiry fields of its messages (deadline, wire expiry): what the
   finding KF_C20_irregular_expiry is allowed to change, and nothing else *)
Definition erase_msg_expiry (v : val) : val :=
  match v with
  | VL [fh; pid; topic; payload; origin; created; _; _; pf; pff; mei; props] =>
      VL [fh; pid; topic; payload; origin; created; VL []; VL []; pf; pff; mei; props]
  | _ => v
  end.
Definition erase_expiry (o : list (list val)) : list (list val) :=
  match o with
  | [cl; i; cs; f; r] =>
      [cl; i; cs; map (fun v => match v with VL [c; m] => VL [c; erase_msg_expiry m] | _ => v end) f; map erase_msg_expiry r]
  | _ => o
  end.

Definition backend_of_index (n : N) : option backend :=
  match n with 0 => Some Badger | 1 => Some Pebble | 2 => Some Bolt | 3 => Some Redis | _ => None end.

Definition kf_name (maxcap : N) (aws : list awr) : option bytes :=
  if KF_C20_sub_key_collision aws then Some (tag "KF_C20_sub_key_collision")
  else if KF_C20_irregular_expiry maxcap aws then Some (tag "KF_C20_irregular_expiry")
  else if key_limit_exceeded aws then Some (tag "KF_C20_key_limit")
  else None.

(* ENGINE restart Storage.RestartEngine.restart_engine *)
Definition restart_engine (c : val) : val :=
  match c with
  | VL [VN bi; VN maxcap; VL evs; s1; s2] =>
      match backend_of_index bi, map_opt parse_event evs, parse_snapshot s1, parse_snapshot s2 with
      | Some b, Some es, Some snap1, Some snap2 =>
          match observe_snapshot true maxcap snap1, observe_snapshot false maxcap snap2 with
          | Some o1, Some o2 =>
              let aws := awrites_of es in
              let nontriv := 3 <? N.of_nat (length aws) in
              let rs := restart maxcap (read_back (run_awrites b aws)) in
              let spec_ok := comps_eqb o1 o2 in
              let model_ok := comps_eqb (vals_of_rstate rs) snap2 in
              let mem_ok := comps_eqb (observe_astate maxcap (arun aws)) o1 in
              let tg := match b with Badger => tag "restart-badger" | Pebble => tag "restart-pebble"
                                | Bolt => tag "restart-bolt" | Redis => tag "restart-redis" end in
              if superseded_writes es then verdict 1 tg nontriv [VN 7]
              else if clean_start_leftover astate0 es then
                (if superseded_delivery es then verdict 3 tg nontriv [VB (tag "KF_C20_takeover_delivery"); VN 6]
                 else if held_back astate0 [] es then verdict 3 tg nontriv [VB kf_deferred; VN 6]
                 else verdict 1 tg nontriv [VN 6])
              else if negb spec_ok then
                match kf_name maxcap aws with
                | Some k => if model_ok && mem_ok then verdict 3 tg nontriv [VB k; VN (first_diff 0 o1 o2)]
                            else if KF_C20_irregular_expiry maxcap aws && model_ok &&
                                    comps_eqb (erase_expiry o1) (erase_expiry o2) &&
                                    comps_eqb (erase_expiry (observe_astate maxcap (arun aws))) (erase_expiry o1)
                            (* also the memory of a later broker process differs from the recorded packets only in
                               the expiry fields of such messages (they were restored once already) *)
                            then verdict 3 tg nontriv [VB (tag "KF_C20_irregular_expiry"); VN (first_diff 0 o1 o2)]
                            else verdict 1 tg nontriv [VN (first_diff 0 o1 o2)]
                | None => if superseded_delivery es && model_ok
                          then verdict 3 tg nontriv [VB (tag "KF_C20_takeover_delivery"); VN (first_diff 0 o1 o2)]
                          else if held_back astate0 [] es && model_ok && only_more_inflight o1 o2
                          then verdict 3 tg nontriv [VB kf_deferred; VN (first_diff 0 o1 o2)]
                          else verdict 1 tg nontriv [VN (first_diff 0 o1 o2)]
                end
              else if negb model_ok then verdict 2 tg nontriv [VN 1; VN (first_diff 0 (vals_of_rstate rs) snap2)]
              else if negb mem_ok then
                if superseded_delivery es
                then verdict 3 tg nontriv [VB (tag "KF_C20_takeover_delivery"); VN (first_diff 0 (observe_astate maxcap (arun aws)) o1)]
                else if held_back astate0 [] es && only_more_inflight o1 (observe_astate maxcap (arun aws))
                then verdict 3 tg nontriv [VB kf_deferred; VN 3]
                else match kf_name maxcap aws with
                     | Some k => verdict 3 tg nontriv [VB k; VN (first_diff 0 (observe_astate maxcap (arun aws)) o1)]
                     | None => verdict 2 tg nontriv [VN 2; VN (first_diff 0 (observe_astate maxcap (arun aws)) o1)]
                     end
              else verdict 0 tg nontriv []
          | _, _ => bad_case
          end
      | _, _, _, _ => bad_case
      end
  | _ => bad_case
  end.

(* ENGINE crash Storage.RestartEngine.crash_engine *)
Definition crash_engine (c : val) : val :=
  match c with
  | VL [VN bi; VN maxcap; VL evs; VN k; VN ce; VN cw; s1; s2] =>
      match backend_of_index bi, map_opt parse_event evs, parse_snapshot s1, parse_snapshot s2 with
      | Some b, Some es, Some snap1, Some snap2 =>
          match observe_snapshot true maxcap snap1, observe_snapshot false maxcap snap2 with
          | Some o1, Some o2 =>
              (* when every write of the history reached the store (no cut), the broker's memory at the
                 end of the history must be what the writes describe: whatever the broker holds for a
                 session without having told the store is lost by any later crash *)
              let complete := N.of_nat (length (awrites_of es)) <=? k in
              let mem_ok := negb complete || comps_eqb (observe_astate maxcap (arun (awrites_of es))) o1 in
              let kn := N.to_nat k in
              let aws := firstn kn (awrites_of es) in
              let nontriv := 2 <? k in
              (* the harness cut the history where the model says the k-th write is *)
              let count_ok := (N.of_nat (length (awrites_of (firstn (N.to_nat ce) es))) + cw =? k)
                              || (N.of_nat (length (awrites_of es)) <=? k) in
              let rs := restart maxcap (read_back (run_awrites b aws)) in
              let spec_ok := comps_eqb (observe_astate maxcap (arun aws)) o2 in
              let model_ok := comps_eqb (vals_of_rstate rs) snap2 in
              let tg := match b with Badger => tag "crash-badger" | Pebble => tag "crash-pebble"
                                | Bolt => tag "crash-bolt" | Redis => tag "crash-redis" end in
              if negb count_ok then verdict 2 tg nontriv [VN 3]
              else if superseded_writes es then verdict 1 tg nontriv [VN 7]
              else if clean_start_leftover astate0 es then
                (if superseded_delivery es then verdict 3 tg nontriv [VB (tag "KF_C20_takeover_delivery"); VN 6]
                 else if held_back astate0 [] es then verdict 3 tg nontriv [VB kf_deferred; VN 6]
                 else verdict 1 tg nontriv [VN 6])
              else if negb spec_ok then
                match kf_name maxcap aws with
                | Some kf => if model_ok then verdict 3 tg nontriv [VB kf; VN (first_diff 0 (observe_astate maxcap (arun aws)) o2)]
                             else verdict 1 tg nontriv [VN (first_diff 0 (observe_astate maxcap (arun aws)) o2)]
                | None => verdict 1 tg nontriv [VN (first_diff 0 (observe_astate maxcap (arun aws)) o2)]
                end
              else if ack_before_write es kn then verdict 1 tg nontriv [VN 8]
              else if negb mem_ok then
                (if superseded_delivery es then verdict 3 tg nontriv [VB (tag "KF_C20_takeover_delivery"); VN 5]
                 else if held_back astate0 [] es && only_more_inflight o1 (observe_astate maxcap (arun (awrites_of es)))
                 then verdict 3 tg nontriv [VB kf_deferred; VN 5]
                 else if KF_C20_irregular_expiry maxcap (awrites_of es) &&
                         comps_eqb (erase_expiry (observe_astate maxcap (arun (awrites_of es)))) (erase_expiry o1)
                 then verdict 3 tg nontriv [VB (tag "KF_C20_irregular_expiry"); VN 5]
                 else verdict 1 tg nontriv [VN 5; VN (first_diff 0 (observe_astate maxcap (arun (awrites_of es))) o1)])
              else if negb model_ok then verdict 2 tg nontriv [VN 1; VN (first_diff 0 (vals_of_rstate rs) snap2)]
              else if KF_C21_ack_before_forward es kn then verdict 3 tg nontriv [VB (tag "KF_C21_ack_before_forward")]
              else verdict 0 tg nontriv []
          | _, _ => bad_case
          end
      | _, _, _, _ => bad_case
      end
  | _ => bad_case
  end.

(* ---------- C30, restart clause: a refused filter creates nothing ---------- *)

(* (client id, filter) pairs of the SUBSCRIBE packets of a history, by outcome *)
Definition sub_outcomes (refused : bool) (es : list event) : list sub_key :=
  flat_map (fun e => match e with
                     | ESubscribed cid subs =>
                         filter_map (fun sr : subscription * N =>
                                       if Bool.eqb (128 <=? snd sr) refused then Some (cid, su_filter (fst sr)) else None) subs
                     | _ => []
                     end) es.

Definition mem_sub_key (k : sub_key) (l : list sub_key) : bool := existsb (sub_key_eqb k) l.

(* a snapshot entry (cid (filter ...)) or a stored subscription (cid filter qos) *)
Definition entry_key (v : val) : option sub_key :=
  match v with
  | VL [VB cid; VL (VB f :: _)] => Some (cid, f)
  | VL [VB cid; VB f; _] => Some (cid, f)
  | _ => None
  end.

Definition keys_of_entries (l : list val) : list sub_key := filter_map entry_key l.

(* ENGINE subinvalid_restart Storage.RestartEngine.subinvalid_restart_engine *)
Definition subinvalid_restart_engine (c : val) : val :=
  match c with
  | VL [VN bi; VL evs; s1; VL stored; s2] =>
      match backend_of_index bi, map_opt parse_event evs, parse_snapshot s1, parse_snapshot s2 with
      | Some b, Some es, Some [_; i1; c1; _; _], Some [_; i2; c2; _; _] =>
          let accepted := sub_outcomes false es in
          (* refused and never accepted for that client: nothing may exist for it anywhere *)
          let refused := filter (fun k => negb (mem_sub_key k accepted)) (sub_outcomes true es) in
          let hit := fun (l : list val) => existsb (fun k => mem_sub_key k refused) (keys_of_entries l) in
          let lost := fun (l : list val) => existsb (fun k => negb (mem_sub_key k (keys_of_entries l))) accepted in
          let tg := match b with Badger => tag "subinvalid-badger" | Pebble => tag "subinvalid-pebble"
                            | Bolt => tag "subinvalid-bolt" | Redis => tag "subinvalid-redis" end in
          let nontriv := negb (is_nil refused) in
          if hit i1 || hit c1 then verdict 1 tg nontriv [VN 1]          (* in the index / client state *)
          else if hit stored then verdict 1 tg nontriv [VN 2]           (* in the store *)
          else if hit i2 || hit c2 then verdict 1 tg nontriv [VN 3]     (* after the restart *)
          else if lost i1 || lost stored || lost i2 then verdict 2 tg nontriv [VN 4]
          else verdict 0 tg nontriv []
      | _, _, _, _ => bad_case
      end
  | _ => bad_case
  end.

(* ---------- C14, restart clause: with Clean Start 1 nothing of the previous session survives ---------- *)

(* the events recorded after the last clean-start marker of client c *)
Fixpoint after_last_clean (c : bytes) (es : list event) : option (list event) :=
  match es with
  | [] => None
  | e :: r =>
      match after_last_clean c r with
      | Some s => Some s
      | None => match e with ECleanStart c' => if beq_bytes c c' then Some r else None | _ => None end
      end
  end.

Definition clean_ids (es : list event) : list bytes :=
  filter_map (fun e => match e with ECleanStart c => Some c | _ => None end) es.

(* what the session of c may hold: subscriptions accepted and messages queued since its clean start *)
Definition allowed_subs (c : bytes) (since : list event) : list bytes :=
  flat_map (fun e => match e with
                     | ESubscribed c' subs =>
                         if beq_bytes c c'
                         then filter_map (fun sr : subscription * N => if 128 <=? snd sr then None else Some (su_filter (fst sr))) subs
                         else []
                     | _ => []
                     end) since.
Definition allowed_pids (c : bytes) (since : list event) : list N :=
  filter_map (fun e => match e with
                       | EQosPublish c' p _ => if beq_bytes c c' then Some (p_pid p) else None
                       | _ => None
                       end) since.

Definition sub_entry_ok (es : list event) (v : val) : bool :=
  match v with
  | VL [VB cid; VL (VB f :: _)] =>
      match after_last_clean cid es with
      | Some since => mem_bytes f (allowed_subs cid since)
      | None => true
      end
  | _ => true
  end.
Definition ifm_entry_ok (es : list event) (v : val) : bool :=
  match v with
  | VL [VB cid; VL (_ :: VN pid :: _)] =>
      match after_last_clean cid es with
      | Some since => existsb (N.eqb pid) (allowed_pids cid since)
      | None => true
      end
  | _ => true
  end.

Definition clean_survivors (es : list event) (snap : list (list val)) : bool :=
  match snap with
  | [_; isub; csub; ifm; _] =>
      negb (forallb (sub_entry_ok es) isub && forallb (sub_entry_ok es) csub && forallb (ifm_entry_ok es) ifm)
  | _ => false
  end.

(* ENGINE restart_life Storage.RestartEngine.restart_life_engine *)
Definition restart_life_engine (c : val) : val :=
  match c with
  | VL [VN bi; VN maxcap; VL evs; s1; s2] =>
      match backend_of_index bi, map_opt parse_event evs, parse_snapshot s1, parse_snapshot s2 with
      | Some b, Some es, Some snap1, Some snap2 =>
          let tg := tag "restart-life" in
          let nontriv := negb (is_nil (clean_ids es)) in
          (* other properties' findings that leave records behind *)
          let excused := superseded_delivery es || held_back astate0 [] es in
          if excused then verdict 0 (tag "restart-life-excused") false []
          else if clean_start_leftover astate0 es then verdict 1 tg nontriv [VN 1]   (* still recorded at the clean start *)
          else if clean_survivors es snap1 then verdict 1 tg nontriv [VN 2]          (* held by the broker *)
          else if clean_survivors es snap2 then verdict 1 tg nontriv [VN 3]          (* restored later *)
          else verdict 0 tg nontriv []
      | _, _, _, _ => bad_case
      end
  | _ => bad_case
  end.

(* ---------- C25, restart clause: no restored message outlives its expiry ---------- *)

(* a tick: housekeeping ran with time [now]; the retained topics and in-flight (client, packet id)
   left afterwards *)
Definition parse_tick (v : val) : option (N * list bytes * list ifm_key) :=
  match v with
  | VL [VN now; VL topics; VL ifms] =>
      match map_opt as_B topics,
            map_opt (fun x => match x with VL [VB c; VN p] => Some (c, p) | _ => None end) ifms with
      | Some ts, Some ks => Some (now, ts, ks)
      | _, _ => None
      end
  | _ => None
  end.

Definition alive (maxcap now : N) (p : pkt) : bool :=
  match deadline maxcap p with Some d => negb (d <? Z.of_N now)%Z | None => true end.

Definition mem_ifm_key (k : ifm_key) (l : list ifm_key) : bool := existsb (ifm_key_eqb k) l.

(* ENGINE restart_expiry Storage.RestartEngine.restart_expiry_engine *)
Definition restart_expiry_engine (c : val) : val :=
  match c with
  | VL [VN bi; VN maxcap; VL evs; VL ticks] =>
      match backend_of_index bi, map_opt parse_event evs, map_opt parse_tick ticks with
      | Some b, Some es, Some tks =>
          let st := arun (awrites_of es) in
          let rets := filter (fun e : bytes * (bytes * pkt) => negb (is_nil (p_payload (snd (snd e))))) (as_ret st) in
          let ifms := filter (fun e : ifm_key * (pkt * N) => has_session st (fst (fst e))) (as_ifm st) in
          let tg := match maxcap with 0 => tag "restart-expiry-nomax" | _ => tag "restart-expiry" end in
          let has_expiry := existsb (fun e : bytes * (bytes * pkt) => 0 <? p_mei (snd (snd e))) rets in
          (* kept although expired / gone although not expired, at some tick *)
          let late := existsb (fun t => let '(now, ts, ks) := t in
                        existsb (fun e : bytes * (bytes * pkt) => mem_bytes (fst e) ts && negb (alive maxcap now (snd (snd e)))) rets ||
                        existsb (fun e : ifm_key * (pkt * N) => mem_ifm_key (fst e) ks && negb (alive maxcap now (fst (snd e)))) ifms) tks in
          let early := existsb (fun t => let '(now, ts, ks) := t in
                        existsb (fun e : bytes * (bytes * pkt) => negb (mem_bytes (fst e) ts) && alive maxcap now (snd (snd e))) rets ||
                        existsb (fun e : ifm_key * (pkt * N) => negb (mem_ifm_key (fst e) ks) && alive maxcap now (fst (snd e))) ifms) tks in
          (* only the messages under observation matter (an acknowledgement record completed before the
             shutdown may carry an expiry time of its own kind) *)
          let odd := existsb (fun e : bytes * (bytes * pkt) => irregular maxcap (snd (snd e))) rets ||
                     existsb (fun e : ifm_key * (pkt * N) => irregular maxcap (fst (snd e))) ifms in
          if odd then verdict 0 (tag "restart-expiry-excused") false []
          else if late then verdict 1 tg has_expiry [VN 1]
          else if early then verdict 1 tg has_expiry [VN 2]
          else verdict 0 tg has_expiry []
      | _, _, _ => bad_case
      end
  | _ => bad_case
  end.
