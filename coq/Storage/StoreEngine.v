(* Engine for C22 (and the parsing / printing helpers shared by the C20 and C21 engines): parses a
   case produced by `hx storage` — a sequence of storage hook events and, per back end, what the
   real hook returned from StoredClients / StoredSubscriptions / StoredInflightMessages /
   StoredRetainedMessages / StoredSysInfo afterwards — and compares
     (spec)  the back ends with each other, up to order and up to the storage key (record ID);
     (model) each back end with [read_back (run_hooks b evs)], up to order, storage key included.
   No proofs in this file. *)
From MV Require Import Base.Val Storage.Kv Storage.StoreHooks.
Open Scope N_scope.

(* ---------- val helpers ---------- *)

Fixpoint val_eqb (a b : val) : bool :=
  match a, b with
  | VN x, VN y => x =? y
  | VB x, VB y => beq_bytes x y
  | VL x, VL y =>
      (fix go (x y : list val) : bool :=
         match x, y with
         | [], [] => true
         | a' :: x', b' :: y' => val_eqb a' b' && go x' y'
         | _, _ => false
         end) x y
  | _, _ => false
  end.

Fixpoint remove1 (x : val) (l : list val) : option (list val) :=
  match l with
  | [] => None
  | y :: r => if val_eqb x y then Some r
              else match remove1 x r with Some r' => Some (y :: r') | None => None end
  end.

(* equality of lists of values as multisets *)
Fixpoint mset_eqb (a b : list val) : bool :=
  match a with
  | [] => match b with [] => true | _ => false end
  | x :: a' => match remove1 x b with Some b' => mset_eqb a' b' | None => false end
  end.

(* int64 passed as its two's complement uint64 *)
Definition z_of_u64 (n : N) : Z :=
  if n <? 9223372036854775808 then Z.of_N n else (Z.of_N n - 18446744073709551616)%Z.
Definition u64_of_z (z : Z) : N :=
  if (z <? 0)%Z then Z.to_N (z + 18446744073709551616)%Z else Z.to_N z.

(* ---------- parsing what the hooks were called with ---------- *)

Definition parse_client_rec (v : val) : option client_rec :=
  match v with
  | VL [VB id; VB listener; VB remote; VB username; VN clean; VN ver; VN sei; VN seif; VN rpi; VN rpif;
        props; will] =>
      Some (mkClientRec id listener remote username (negb (clean =? 0)) ver sei (negb (seif =? 0))
                        rpi (negb (rpif =? 0)) props will)
  | _ => None
  end.

Definition parse_rclient (c t : val) : option rclient :=
  match parse_client_rec c, as_bool t with
  | Some r, Some b => Some (mkRClient r b)
  | _, _ => None
  end.

Definition parse_subscription (v : val) : option (subscription * N) :=
  match v with
  | VL [VB filter; VN ident; VN rh; VN qos; VN rap; VN nolocal; VN reason] =>
      Some (mkSub filter ident rh qos (negb (rap =? 0)) (negb (nolocal =? 0)), reason)
  | _ => None
  end.

Definition parse_pkt (v : val) : option pkt :=
  match v with
  | VL [fh; VN pid; VB topic; VB payload; VB origin; VN created; VN expiry; VN ver; VN pf; VN pff;
        VN mei; props] =>
      Some (mkPkt fh pid topic payload origin created (z_of_u64 expiry) ver pf (negb (pff =? 0)) mei props)
  | _ => None
  end.

Definition parse_event (v : val) : option event :=
  match v with
  | VL [VN 0; c; t] => option_map ESessionEstablished (parse_rclient c t)
  | VL [VN 1; c; t] => option_map EWillSent (parse_rclient c t)
  | VL [VN 2; c; t; VN expire] =>
      option_map (fun rc => EDisconnect rc (negb (expire =? 0))) (parse_rclient c t)
  | VL [VN 3; VB cid; VL subs] => option_map (ESubscribed cid) (map_opt parse_subscription subs)
  | VL [VN 4; VB cid; VL filters] => option_map (EUnsubscribed cid) (map_opt as_B filters)
  | VL [VN 5; VB cid; p; VN clear] => option_map (fun p' => ERetain cid p' (negb (clear =? 0))) (parse_pkt p)
  | VL [VN 6; VB cid; p; VN sent] => option_map (fun p' => EQosPublish cid p' sent) (parse_pkt p)
  | VL [VN 7; VB cid; VN pid] => Some (EQosComplete cid pid)
  | VL [VN 8; VB cid; VN pid] => Some (EQosDropped cid pid)
  | VL [VN 9; info] => Some (ESysTick info)
  | VL [VN 10; VB topic] => Some (ERetainedExpired topic)
  | VL [VN 11; VB cid] => Some (EClientExpired cid)
  | VL [VN 12; VB cid; VN ptype; VN pid; VN reason] => Some (EAckSent cid ptype pid reason)
  | VL [VN 13; VB cid] => Some (EProcessed cid)
  | VL [VN 14; VB cid] => Some (ESuperseded cid)
  | VL [VN 15; VB cid] => Some (ECleanStart cid)
  | _ => None
  end.

(* ---------- printing records in the format the harness uses for read-backs ---------- *)

Definition val_of_client_rec (c : client_rec) : val :=
  VL [VB (cr_id c); VB (cr_listener c); VB (cr_remote c); VB (cr_username c); vbool (cr_clean c);
      VN (cr_ver c); VN (cr_sei c); vbool (cr_sei_flag c); VN (cr_rpi c); vbool (cr_rpi_flag c);
      cr_props c; cr_will c].

(* a stored client record as read back, with its T field *)
Definition val_of_stored_client (c : client_rec) : val :=
  match val_of_client_rec c with VL l => VL (l ++ [VB (type_tag TCL)]) | v => v end.

Definition val_of_sub_rec (s : sub_rec) : val :=
  VL [VB (sr_key s); VB (sr_client s); VB (sr_filter s); VN (sr_identifier s); VN (sr_rh s); VN (sr_qos s);
      vbool (sr_rap s); vbool (sr_nolocal s); VB (type_tag TSUB)].

Definition val_of_msg_rec (t : rtype) (m : msg_rec) : val :=
  VL [VB (mr_key m); VB (mr_client m); VB (mr_origin m); VN (mr_pid m); mr_fh m; VB (mr_topic m);
      VB (mr_payload m); VN (mr_sent m); VN (mr_created m); VN (mr_pf m); vbool (mr_pf_flag m);
      VN (mr_mei m); mr_props m; VB (type_tag t)].

(* system.Info zero value: version "" and twenty zero counters *)
Definition zero_info : val := VL (VB [] :: repeat (VN 0) 20).

Definition val_of_sys (s : option (bytes * val)) : val :=
  match s with Some (id, info) => VL [VB id; info; VB (type_tag TSYS)] | None => VL [VB []; zero_info; VB []] end.

(* components of a read-back as lists of values: clients, subscriptions, in-flight, retained, [sys] *)
Definition vals_of_readback (r : readback) : list (list val) :=
  [map val_of_stored_client (rb_clients r); map val_of_sub_rec (rb_subs r);
   map (val_of_msg_rec TIFM) (rb_inflight r); map (val_of_msg_rec TRET) (rb_retained r); [val_of_sys (rb_sys r)]].

Definition parse_observed (v : val) : option (list (list val)) :=
  match v with
  | VL [VL cl; VL su; VL ifm; VL ret; sys] => Some [cl; su; ifm; ret; [sys]]
  | _ => None
  end.

(* the storage key is the first field of subscription and message records *)
Definition erase_val_key (v : val) : val :=
  match v with VL (_ :: r) => VL (VB [] :: r) | _ => v end.
Definition erase_observed (o : list (list val)) : list (list val) :=
  match o with
  | [cl; su; ifm; ret; sys] => [cl; map erase_val_key su; map erase_val_key ifm; map erase_val_key ret; sys]
  | _ => o
  end.

Fixpoint comps_eqb (a b : list (list val)) : bool :=
  match a, b with
  | [], [] => true
  | x :: a', y :: b' => mset_eqb x y && comps_eqb a' b'
  | _, _ => false
  end.

(* index of the first differing component, 9 if none *)
Fixpoint first_diff (i : N) (a b : list (list val)) : N :=
  match a, b with
  | x :: a', y :: b' => if mset_eqb x y then first_diff (i + 1) a' b' else i
  | [], [] => 9
  | _, _ => i
  end.

Definition all_backends : list backend := [Badger; Pebble; Bolt; Redis].

Definition backend_index (b : backend) : N :=
  match b with Badger => 0 | Pebble => 1 | Bolt => 2 | Redis => 3 end.

(* observed read-backs, in the order badger, pebble, bolt, redis; [VL []] = back end not run *)
Fixpoint parse_backends (bs : list backend) (vs : list val) : option (list (backend * list (list val))) :=
  match bs, vs with
  | [], [] => Some []
  | b :: bs', v :: vs' =>
      match parse_backends bs' vs' with
      | None => None
      | Some r =>
          match v with
          | VL [] => Some r
          | _ => match parse_observed v with Some o => Some ((b, o) :: r) | None => None end
          end
      end
  | _, _ => None
  end.

Definition model_vals (b : backend) (evs : list event) : list (list val) :=
  vals_of_readback (read_back (run_hooks b evs)).

(* one set of read-backs against spec and model; [phase] 0 = read from the open store, 1 = read after
   the back end was closed and opened again on the same location *)
Definition storage_check (es : list event) (phase : N) (obs : list val) : val :=
  match parse_backends all_backends obs with
  | Some ((b0, o0) :: rest) =>
      let nontriv := 1 <? N.of_nat (length es) in
      let all := (b0, o0) :: rest in
      (* spec: every back end answers like the first one *)
      let bad_spec := filter (fun bo => negb (comps_eqb (erase_observed o0) (erase_observed (snd bo)))) rest in
      (* model: every back end answers like its model *)
      let bad_model := filter (fun bo => negb (comps_eqb (model_vals (fst bo) es) (snd bo))) all in
      let tg := if KF_C22_key_limit es then tag "storage-longkey" else tag "storage" in
      match bad_spec, bad_model with
      | [], [] => verdict 0 tg nontriv []
      | [], (b, o) :: _ =>
          verdict 2 tg nontriv [VN (backend_index b); VN (first_diff 0 (model_vals b es) o); VN phase]
      | (b, o) :: _, [] =>
          if KF_C22_key_limit es
          then verdict 3 tg nontriv [VB (tag "KF_C22_key_limit"); VN (backend_index b)]
          else verdict 1 tg nontriv [VN (backend_index b0); VN (backend_index b);
                                     VN (first_diff 0 (erase_observed o0) (erase_observed o)); VN phase]
      | (b, o) :: _, _ :: _ =>
          verdict 1 tg nontriv [VN (backend_index b0); VN (backend_index b);
                                VN (first_diff 0 (erase_observed o0) (erase_observed o)); VN phase]
      end
  | _ => bad_case
  end.

Definition verdict_code (v : val) : N := match v with VL (VN c :: _) => c | _ => 9 end.

(* ENGINE storage Storage.StoreEngine.storage_engine *)
Definition storage_engine (c : val) : val :=
  match c with
  | VL [VL evs; VL obs] =>
      match map_opt parse_event evs with Some es => storage_check es 0 obs | None => bad_case end
  | VL [VL evs; VL obs; VL reopened] =>
      match map_opt parse_event evs with
      | Some es =>
          let v1 := storage_check es 0 obs in
          (* what the store holds after closing and reopening must be the same state *)
          if (verdict_code v1 =? 0) || (verdict_code v1 =? 3)
          then (let v2 := storage_check es 1 reopened in if verdict_code v2 =? 0 then v1 else v2)
          else v1
      | None => bad_case
      end
  | _ => bad_case
  end.
