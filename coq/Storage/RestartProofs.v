(* C20 / C21: the state a restarted broker loads from the store is the state the storage writes
   describe, for every sequence of writes (hence for every history and for every prefix of its
   write log), on every back end, outside the listed findings. *)
From Coq Require Import Lia ZArith ZifyBool ZifyN ZifyNat.
From MV Require Import Base.Val Base.Bytes Storage.Kv Storage.KvProofs Storage.StoreHooks Storage.StoreProofs
                       Storage.Restart Storage.RefineProofs.
Open Scope N_scope.

(* ---------- keys ---------- *)

Lemma sub_key_eqb_eq (a b : sub_key) : sub_key_eqb a b = true <-> a = b.
Proof.
  destruct a as [a1 a2], b as [b1 b2]. unfold sub_key_eqb. cbn [fst snd]. rewrite andb_true_iff, !beq_bytes_eq.
  split; [intros [-> ->]; reflexivity | intro H; injection H as -> ->; split; reflexivity].
Qed.

Lemma ifm_key_eqb_eq (a b : ifm_key) : ifm_key_eqb a b = true <-> a = b.
Proof.
  destruct a as [a1 a2], b as [b1 b2]. unfold ifm_key_eqb. cbn [fst snd]. rewrite andb_true_iff, beq_bytes_eq, N.eqb_eq.
  split; [intros [-> ->]; reflexivity | intro H; injection H as -> ->; split; reflexivity].
Qed.

(* "<id>:<decimal>" splits in one way only *)
Definition no_colon (d : bytes) : bool := forallb (fun b => negb (b =? colon)) d.

Lemma no_colon_app_colon a d : no_colon (a ++ colon :: d) = false.
Proof.
  induction a as [|x a IH]; cbn [app no_colon forallb].
  - rewrite N.eqb_refl. reflexivity.
  - fold (no_colon (a ++ colon :: d)). rewrite IH. apply andb_false_r.
Qed.

Lemma app_colon_inj a b d1 d2 : no_colon d1 = true -> no_colon d2 = true ->
  a ++ colon :: d1 = b ++ colon :: d2 -> a = b /\ d1 = d2.
Proof.
  revert b. induction a as [|x a IH]; intros [|y b] N1 N2 E; cbn [app] in E.
  - injection E as ->. split; reflexivity.
  - injection E as _ E. subst d1. rewrite no_colon_app_colon in N1. discriminate.
  - injection E as _ E. subst d2. rewrite no_colon_app_colon in N2. discriminate.
  - injection E as -> E. destruct (IH b N1 N2 E) as [-> ->]. split; reflexivity.
Qed.

(* decimal printing of 16-bit packet identifiers is injective and uses digits only: checked for
   every value by evaluation *)
Definition undec (d : bytes) : N := fold_left (fun acc b => acc * 10 + (b - 48)) d 0.

Definition dec_good (n : N) : bool := no_colon (dec n) && (undec (dec n) =? n).

Lemma dec_all_good :
  forallb (fun h => forallb (fun l => dec_good (256 * h + l)) (rangeN 256)) (rangeN 256) = true.
Proof. vm_compute. reflexivity. Qed.

Lemma dec_good_below n : n < 65536 -> dec_good n = true.
Proof.
  intro H.
  assert (Hh : n / 256 < N.of_nat 256) by (apply N.div_lt_upper_bound; cbn; lia).
  assert (Hl : n mod 256 < N.of_nat 256) by (apply N.mod_lt; discriminate).
  pose proof (forall_below _ 256 dec_all_good (n / 256) Hh) as A. cbv beta in A.
  pose proof (forall_below _ 256 A (n mod 256) Hl) as B. cbv beta in B.
  rewrite <- (N.div_mod n 256) in B by discriminate. exact B.
Qed.

Lemma ifm_suffix_inj c1 p1 c2 p2 : p1 < 65536 -> p2 < 65536 ->
  ifm_suffix c1 p1 = ifm_suffix c2 p2 -> (c1, p1) = (c2, p2).
Proof.
  intros H1 H2 E. pose proof (dec_good_below p1 H1) as G1. pose proof (dec_good_below p2 H2) as G2.
  unfold dec_good in G1, G2. apply andb_true_iff in G1, G2. destruct G1 as [A1 B1], G2 as [A2 B2].
  unfold ifm_suffix in E. destruct (app_colon_inj _ _ _ _ A1 A2 E) as [-> D].
  apply N.eqb_eq in B1, B2. rewrite D in B1. rewrite B1 in B2. subst p2. reflexivity.
Qed.

(* ---------- fold helpers ---------- *)

Lemma fold_left_ext {A B} (f g : A -> B -> A) l a : (forall x y, f x y = g x y) -> fold_left f l a = fold_left g l a.
Proof. intro H. revert a. induction l as [|y l IH]; intro a; cbn [fold_left]; [reflexivity|]. rewrite H. apply IH. Qed.

Lemma fold_left_map {A B C} (f : A -> C -> A) (g : B -> C) l a :
  fold_left f (map g l) a = fold_left (fun x y => f x (g y)) l a.
Proof. revert a. induction l as [|y l IH]; intro a; cbn [fold_left map]; [reflexivity | apply IH]. Qed.

Lemma fold_left_flat_map {A B C} (f : A -> C -> A) (g : B -> list C) l a :
  fold_left f (flat_map g l) a = fold_left (fun x y => fold_left f (g y) x) l a.
Proof.
  revert a. induction l as [|y l IH]; intro a; cbn [fold_left flat_map]; [reflexivity|].
  rewrite fold_left_app. apply IH.
Qed.

(* ---------- the hash of one record type, as a typed store ---------- *)
Section PROJ.
  Context {K V R : Type}.
  Variable t : rtype.
  Variable enc : K -> bytes.
  Variable rec_of : K -> V -> R.
  Variable inj : R -> srec.
  Variable ops_of : awr -> list (@op K V).

  Definition step_ok (a : awr) : Prop :=
    match wr_of a with
    | WSet t' suf v =>
        if rtype_eqb t t'
        then exists k v', ops_of a = [OSet k v'] /\ suf = enc k /\ with_key suf v = inj (rec_of k v')
        else ops_of a = []
    | WDel t' suf =>
        if rtype_eqb t t' then exists k, ops_of a = [ODel k] /\ suf = enc k else ops_of a = []
    end.
  Hypothesis all_ok : forall a, step_ok a.

  Definition tag_val (e : bytes * R) : bytes * srec := (fst e, inj (snd e)).

  Lemma tag_set k x s : map tag_val (kv_set k x s) = kv_set k (inj x) (map tag_val s).
  Proof. exact (map_kv_set (fun y => y) inj id_inj k x s). Qed.
  Lemma tag_del k s : map tag_val (kv_del k s) = kv_del k (map tag_val s).
  Proof. exact (map_kv_del (fun y => y) inj id_inj k s). Qed.

  Lemma proj_run aws : forall H S, hash_of (hname t) H = map tag_val S ->
    hash_of (hname t) (fold_left hash_apply (map wr_of aws) H) =
    map tag_val (fold_left (sstep enc rec_of) (flat_map ops_of aws) S).
  Proof.
    induction aws as [|a aws IH]; intros H S REL; cbn [map fold_left flat_map]; [exact REL|].
    rewrite fold_left_app. apply IH. pose proof (all_ok a) as OK. unfold step_ok in OK.
    destruct (wr_of a) as [t' suf v | t' suf]; cbn [hash_apply]; destruct (rtype_eqb t t') eqn:E.
    - apply rtype_eqb_eq in E. subst t'. destruct OK as [k [v' [-> [-> W]]]].
      cbn [fold_left sstep]. rewrite hash_of_hset_same, W, REL, tag_set. reflexivity.
    - rewrite OK. cbn [fold_left]. rewrite hash_of_hset_other by (rewrite hname_inj; exact E). exact REL.
    - apply rtype_eqb_eq in E. subst t'. destruct OK as [k [-> ->]].
      cbn [fold_left sstep]. rewrite hash_of_hdel_same, REL, tag_del. reflexivity.
    - rewrite OK. cbn [fold_left]. rewrite hash_of_hdel_other by (rewrite hname_inj; exact E). exact REL.
  Qed.

  Lemma proj_vals (as_t : srec -> option R) aws : (forall r, as_t (inj r) = Some r) ->
    filter_map as_t (hgetall (hname t) (fold_left hash_apply (map wr_of aws) [])) =
    kv_vals (srun enc rec_of (flat_map ops_of aws)).
  Proof.
    intro AS. unfold hgetall. rewrite (proj_run aws [] [] eq_refl). unfold srun.
    induction (fold_left (sstep enc rec_of) (flat_map ops_of aws) []) as [|[f r] s IH]; [reflexivity|].
    cbn [map tag_val kv_vals snd fst filter_map]. rewrite AS. f_equal. exact IH.
  Qed.
End PROJ.

(* ---------- the four record types ---------- *)

Definition cl_ops (a : awr) : list (@op bytes client_rec) :=
  match a with ASetClient c => [OSet (cr_id c) c] | ADelClient cid => [ODel cid] | _ => [] end.
Definition sub_ops (a : awr) : list (@op sub_key (subscription * N)) :=
  match a with ASetSub cid s g => [OSet (cid, su_filter s) (s, g)] | ADelSub cid f => [ODel (cid, f)] | _ => [] end.
Definition ret_ops (a : awr) : list (@op bytes (bytes * pkt)) :=
  match a with ASetRet cid p => [OSet (p_topic p) (cid, p)] | ADelRet topic => [ODel topic] | _ => [] end.
Definition ifm_ops (a : awr) : list (@op ifm_key (pkt * N)) :=
  match a with ASetIfm cid p sent => [OSet (cid, p_pid p) (p, sent)] | ADelIfm cid pid => [ODel (cid, pid)] | _ => [] end.

Definition id_enc (k : bytes) : bytes := k.
Definition sub_enc (k : sub_key) : bytes := sub_suffix (fst k) (snd k).
Definition ifm_enc (k : ifm_key) : bytes := ifm_suffix (fst k) (snd k).

(* the record stored under a key (redis layout: the ID field is the key suffix) *)
Definition cl_rec (k : bytes) (c : client_rec) : client_rec :=
  mkClientRec k (cr_listener c) (cr_remote c) (cr_username c) (cr_clean c) (cr_ver c) (cr_sei c) (cr_sei_flag c)
              (cr_rpi c) (cr_rpi_flag c) (cr_props c) (cr_will c).
Definition sub_rec_of (k : sub_key) (v : subscription * N) : sub_rec :=
  let s := fst v in
  mkSubRec (sub_enc k) (fst k) (snd k) (su_identifier s) (su_rh s) (snd v) (su_rap s) (su_nolocal s).
Definition ret_rec_of (k : bytes) (v : bytes * pkt) : msg_rec :=
  let p := snd v in
  mkMsgRec k (fst v) (p_origin p) 0 (p_fh p) k (p_payload p) 0 (p_created p) (p_pf p) (p_pf_flag p) (p_mei p)
           (strip_alias (p_props p)).
Definition ifm_rec_of (k : ifm_key) (v : pkt * N) : msg_rec :=
  let p := fst v in
  mkMsgRec (ifm_enc k) (fst k) (p_origin p) (snd k) (p_fh p) (p_topic p) (p_payload p) (snd v) (p_created p)
           (p_pf p) (p_pf_flag p) (p_mei p) (strip_alias (p_props p)).

Definition sub_key_of (r : sub_rec) : sub_key := (sr_client r, sr_filter r).
Definition ifm_key_of (r : msg_rec) : ifm_key := (mr_client r, mr_pid r).

Lemma cl_ok a : step_ok TCL id_enc cl_rec SClient cl_ops a.
Proof.
  destruct a; cbn; try reflexivity.
  - exists (cr_id c), c. repeat split. destruct c; reflexivity.
  - exists cid. split; reflexivity.
Qed.
Lemma sub_ok a : step_ok TSUB sub_enc sub_rec_of SSub sub_ops a.
Proof.
  destruct a; cbn; try reflexivity.
  - exists (cid, su_filter s), (s, granted). repeat split.
  - exists (cid, filter). split; reflexivity.
Qed.
Lemma ret_ok a : step_ok TRET id_enc ret_rec_of SMsg ret_ops a.
Proof.
  destruct a; cbn; try reflexivity.
  - exists (p_topic p), (cid, p). repeat split.
  - exists topic. split; reflexivity.
Qed.
Lemma ifm_ok a : step_ok TIFM ifm_enc ifm_rec_of SMsg ifm_ops a.
Proof.
  destruct a; cbn; try reflexivity.
  - exists (cid, p_pid p), (p, sent). repeat split.
  - exists (cid, pid). split; reflexivity.
Qed.

(* what redis returns, as typed stores *)
Lemma redis_read_back aws :
  let rb := read_back (run_awrites Redis aws) in
  rb_clients rb = kv_vals (srun id_enc cl_rec (flat_map cl_ops aws)) /\
  rb_subs rb = kv_vals (srun sub_enc sub_rec_of (flat_map sub_ops aws)) /\
  rb_inflight rb = kv_vals (srun ifm_enc ifm_rec_of (flat_map ifm_ops aws)) /\
  rb_retained rb = kv_vals (srun id_enc ret_rec_of (flat_map ret_ops aws)).
Proof.
  cbn zeta. rewrite hash_run. unfold read_back.
  cbn [rb_clients rb_subs rb_inflight rb_retained values_of_type].
  repeat split.
  - apply (proj_vals TCL id_enc cl_rec SClient cl_ops cl_ok StoreHooks.as_client). reflexivity.
  - apply (proj_vals TSUB sub_enc sub_rec_of SSub sub_ops sub_ok StoreHooks.as_sub). reflexivity.
  - apply (proj_vals TIFM ifm_enc ifm_rec_of SMsg ifm_ops ifm_ok StoreHooks.as_msg). reflexivity.
  - apply (proj_vals TRET id_enc ret_rec_of SMsg ret_ops ret_ok StoreHooks.as_msg). reflexivity.
Qed.

(* the abstract state, as the maps of the same operations *)
Lemma arun_maps aws :
  as_cl (arun aws) = mrun beq_bytes (flat_map cl_ops aws) /\
  as_sub (arun aws) = mrun sub_key_eqb (flat_map sub_ops aws) /\
  as_ifm (arun aws) = mrun ifm_key_eqb (flat_map ifm_ops aws) /\
  as_ret (arun aws) = mrun beq_bytes (flat_map ret_ops aws).
Proof.
  unfold arun, mrun.
  assert (G : forall st,
    as_cl (fold_left astep aws st) = fold_left (mstep beq_bytes) (flat_map cl_ops aws) (as_cl st) /\
    as_sub (fold_left astep aws st) = fold_left (mstep sub_key_eqb) (flat_map sub_ops aws) (as_sub st) /\
    as_ifm (fold_left astep aws st) = fold_left (mstep ifm_key_eqb) (flat_map ifm_ops aws) (as_ifm st) /\
    as_ret (fold_left astep aws st) = fold_left (mstep beq_bytes) (flat_map ret_ops aws) (as_ret st)).
  { induction aws as [|a aws IH]; intro st; cbn [fold_left flat_map]; [repeat split|].
    rewrite !fold_left_app. destruct (IH (astep st a)) as [A [B [C D]]]. rewrite A, B, C, D.
    destruct a; cbn [astep cl_ops sub_ops ifm_ops ret_ops fold_left mstep as_cl as_sub as_ifm as_ret];
      repeat split. }
  exact (G astate0).
Qed.

(* ---------- the restart only reads what survives erasing the storage keys ---------- *)

Lemma restart_erase maxcap rb : restart maxcap (erase_keys rb) = restart maxcap rb.
Proof.
  unfold restart, erase_keys. cbn [rb_clients rb_subs rb_inflight rb_retained rb_sys].
  f_equal.
  - unfold load_subs. rewrite fold_left_map. apply fold_left_ext. intros m s. destruct s; reflexivity.
  - unfold load_inflight. rewrite fold_left_map. apply fold_left_ext. intros m r. destruct r; reflexivity.
  - unfold load_retained. rewrite fold_left_map. apply fold_left_ext. intros m r. destruct r; reflexivity.
Qed.

Lemma restart_any_backend maxcap aws b : key_limit_exceeded aws = false ->
  restart maxcap (read_back (run_awrites b aws)) = restart maxcap (read_back (run_awrites Redis aws)).
Proof.
  intro K. rewrite <- (restart_erase maxcap (read_back (run_awrites b aws))).
  rewrite (same_as_redis aws b K). apply restart_erase.
Qed.

(* ---------- the loaders as instances of [load] ---------- *)

Definition act_cl (c : client_rec) : @action client_rec :=
  if ends_on_disconnect c then Skip else Put (session_obs c).
Definition act_sub (cl : amap bytes client_rec) (s : sub_rec) : @action subscription :=
  if has_client cl (sr_client s)
  then Put (mkSub (sr_filter s) (sr_identifier s) (sr_rh s) (sr_qos s) (sr_rap s) (sr_nolocal s)) else Skip.
Definition act_ifm (maxcap : N) (cl : amap bytes client_rec) (r : msg_rec) : @action pkt :=
  if has_client cl (mr_client r) then Put (to_packet maxcap r) else Skip.
Definition act_ret (maxcap : N) (r : msg_rec) : @action pkt :=
  if is_nil (mr_payload r) then Clear else Put (to_packet maxcap r).

Lemma load_clients_eq cs : load_clients cs = load beq_bytes cr_id act_cl cs.
Proof.
  unfold load_clients, load. apply fold_left_ext. intros m c. unfold lstep, act_cl.
  destruct (ends_on_disconnect c); reflexivity.
Qed.
Lemma load_subs_eq cl ss : load_subs cl ss = load sub_key_eqb sub_key_of (act_sub cl) ss.
Proof.
  unfold load_subs, load. apply fold_left_ext. intros m s. unfold lstep, act_sub, sub_key_of.
  destruct (has_client cl (sr_client s)); reflexivity.
Qed.
Lemma load_inflight_eq maxcap cl ms : load_inflight maxcap cl ms = load ifm_key_eqb ifm_key_of (act_ifm maxcap cl) ms.
Proof.
  unfold load_inflight, load. apply fold_left_ext. intros m r. unfold lstep, act_ifm, ifm_key_of.
  destruct (has_client cl (mr_client r)); reflexivity.
Qed.
Lemma load_retained_eq maxcap ms : load_retained maxcap ms = load beq_bytes mr_topic (act_ret maxcap) ms.
Proof.
  unfold load_retained, load. apply fold_left_ext. intros m r. unfold lstep, act_ret.
  destruct (is_nil (mr_payload r)); reflexivity.
Qed.

(* ---------- where the values in the maps come from ---------- *)

Lemma cl_ops_origin aws k c : In (OSet k c) (flat_map cl_ops aws) -> k = cr_id c.
Proof.
  intro H. apply in_flat_map in H. destruct H as [a [_ H]].
  destruct a; cbn [cl_ops] in H; try contradiction; destruct H as [H|[]]; try discriminate H.
  injection H as E1 E2. subst. reflexivity.
Qed.
Lemma sub_ops_origin aws k s g : In (OSet k (s, g)) (flat_map sub_ops aws) ->
  snd k = su_filter s /\ In (ASetSub (fst k) s g) aws.
Proof.
  intro H. apply in_flat_map in H. destruct H as [a [I H]].
  destruct a; cbn [sub_ops] in H; try contradiction; destruct H as [H|[]]; try discriminate H.
  injection H as E1 E2 E3. subst. cbn [fst snd]. split; [reflexivity | exact I].
Qed.
Lemma ret_ops_origin aws k cid p : In (OSet k (cid, p)) (flat_map ret_ops aws) ->
  k = p_topic p /\ In (ASetRet cid p) aws.
Proof.
  intro H. apply in_flat_map in H. destruct H as [a [I H]].
  destruct a; cbn [ret_ops] in H; try contradiction; destruct H as [H|[]]; try discriminate H.
  injection H as E1 E2 E3. subst. split; [reflexivity | exact I].
Qed.
Lemma ifm_ops_origin aws k p sent : In (OSet k (p, sent)) (flat_map ifm_ops aws) ->
  snd k = p_pid p /\ In (ASetIfm (fst k) p sent) aws.
Proof.
  intro H. apply in_flat_map in H. destruct H as [a [I H]].
  destruct a; cbn [ifm_ops] in H; try contradiction; destruct H as [H|[]]; try discriminate H.
  injection H as E1 E2 E3. subst. cbn [fst snd]. split; [reflexivity | exact I].
Qed.

Lemma cl_rec_id c : cl_rec (cr_id c) c = c.
Proof. destruct c; reflexivity. Qed.

(* ---------- injectivity of the key encodings on the keys of a history ---------- *)

Lemma id_inj_on ks : inj_on id_enc ks.
Proof. intros a b _ _ E. exact E. Qed.

Lemma sub_keys_eq aws : keys (flat_map sub_ops aws) = sub_keys aws.
Proof.
  induction aws as [|a aws IH]; [reflexivity|]. cbn [flat_map]. unfold keys in *. rewrite map_app, IH.
  destruct a; reflexivity.
Qed.

Lemma sub_inj_on aws : KF_C20_sub_key_collision aws = false -> inj_on sub_enc (keys (flat_map sub_ops aws)).
Proof.
  intros KF a b Ia Ib E. rewrite sub_keys_eq in Ia, Ib. unfold KF_C20_sub_key_collision in KF.
  destruct (sub_key_eqb a b) eqn:Q; [apply sub_key_eqb_eq; exact Q|]. exfalso.
  assert (X : existsb (fun a => existsb (collide a) (sub_keys aws)) (sub_keys aws) = true).
  { apply existsb_exists. exists a. split; [exact Ia|]. apply existsb_exists. exists b. split; [exact Ib|].
    unfold collide. rewrite Q. cbn [negb andb]. apply beq_bytes_eq. exact E. }
  rewrite X in KF. discriminate KF.
Qed.

Lemma ifm_keys_bounded aws : pids_ok aws = true -> forall k, In k (keys (flat_map ifm_ops aws)) -> snd k < 65536.
Proof.
  intros P k I. unfold keys in I. apply in_map_iff in I. destruct I as [o [<- I]].
  apply in_flat_map in I. destruct I as [a [Ia I]].
  unfold pids_ok in P. rewrite forallb_forall in P. specialize (P a Ia).
  destruct a; cbn [ifm_ops] in I; try contradiction; destruct I as [<-|[]]; cbn [op_key snd]; apply N.ltb_lt; exact P.
Qed.

Lemma ifm_inj_on aws : pids_ok aws = true -> inj_on ifm_enc (keys (flat_map ifm_ops aws)).
Proof.
  intros P [c1 p1] [c2 p2] Ia Ib E.
  apply ifm_suffix_inj; [exact (ifm_keys_bounded aws P _ Ia) | exact (ifm_keys_bounded aws P _ Ib) | exact E].
Qed.

(* ---------- what is observed of a restored message ---------- *)

Lemma regular_of_kf maxcap aws : KF_C20_irregular_expiry maxcap aws = false ->
  (forall cid p sent, In (ASetIfm cid p sent) aws -> irregular maxcap p = false) /\
  (forall cid p, In (ASetRet cid p) aws -> irregular maxcap p = false).
Proof.
  intro KF. unfold KF_C20_irregular_expiry in KF.
  assert (G : forall a, In a aws ->
     match a with ASetRet _ p => irregular maxcap p | ASetIfm _ p _ => irregular maxcap p | _ => false end = false).
  { intros a I. destruct (match a with ASetRet _ p => irregular maxcap p | ASetIfm _ p _ => irregular maxcap p | _ => false end) eqn:E;
      [|reflexivity].
    assert (X : existsb (fun a => match a with ASetRet _ p => irregular maxcap p | ASetIfm _ p _ => irregular maxcap p
                                  | _ => false end) aws = true)
      by (apply existsb_exists; exists a; split; assumption).
    rewrite X in KF. discriminate KF. }
  split; [intros cid p sent I; exact (G _ I) | intros cid p I; exact (G _ I)].
Qed.

Lemma unhold_regular maxcap created m : unhold (regular_expiry maxcap created m) = regular_expiry maxcap created m.
Proof.
  unfold unhold, regular_expiry. destruct (min_nz maxcap m =? 0); [reflexivity|].
  replace (Z.of_N (created + min_nz maxcap m) <? 0)%Z with false by lia. reflexivity.
Qed.

(* without an interval of its own a message lives exactly as long as the server's maximum allows *)
Lemma deadline_no_interval maxcap created x ver (fh : val) pid topic payload origin pf pff mei props :
  ((ver =? 5) && (0 <? x)%Z) = false ->
  let e := regular_expiry maxcap created 0 in
  deadline maxcap (mkPkt fh pid topic payload origin created e (if (0 <? e)%Z then 5 else 0) pf pff mei props) =
  (if 0 <? maxcap then Some (Z.of_N (created + maxcap)) else None).
Proof.
  intros _. cbn zeta. unfold deadline. cbn [p_ver p_expiry p_created]. rewrite unhold_regular.
  unfold regular_expiry, min_nz. destruct (maxcap =? 0) eqn:C.
  - change (0 =? 0) with true. cbn [orb]. replace (0 <? maxcap) with false by lia. reflexivity.
  - change (0 =? 0) with true. cbn [orb]. rewrite C. replace (0 <? maxcap) with true by lia.
    replace (0 <? Z.of_N (created + maxcap))%Z with true by lia. change (5 =? 5) with true. cbn [andb min_optz].
    f_equal. lia.
Qed.

Lemma deadline_restored maxcap fh pid topic payload origin created expiry ver pf pff mei props pid' topic' :
  irregular maxcap (mkPkt fh pid topic payload origin created expiry ver pf pff mei props) = false ->
  let e := regular_expiry maxcap created (eff_mei fh mei) in
  let q := mkPkt fh pid' topic' payload origin created e (if (0 <? e)%Z then 5 else 0) pf pff mei props in
  deadline maxcap q = deadline maxcap (mkPkt fh pid topic payload origin created expiry ver pf pff mei props) /\
  wire_expiry q = wire_expiry (mkPkt fh pid topic payload origin created expiry ver pf pff mei props).
Proof.
  unfold irregular. cbn [p_expiry p_created p_fh p_mei p_ver]. intro H.
  assert (T : (match fh with VL (VN t :: _) => t | _ => 3 end) = fh_type fh) by reflexivity.
  destruct (fh_type fh =? 3) eqn:TY.
  - (* a PUBLISH *)
    apply orb_false_iff in H. destruct H as [H1 H2]. apply negb_false_iff in H1. apply Z.eqb_eq in H1.
    cbn zeta. unfold deadline, wire_expiry. cbn [p_ver p_expiry p_created p_fh]. rewrite H1, unhold_regular.
    cbn zeta. split; [|reflexivity].
    set (e := regular_expiry maxcap created (eff_mei fh mei)).
    destruct (0 <? e)%Z eqn:E.
    + change (5 =? 5) with true. cbn [andb].
      destruct (ver =? 5) eqn:V; cbn [andb]; [reflexivity|].
      cbn [negb] in H2. rewrite andb_true_r in H2. apply N.ltb_ge in H2.
      assert (M : eff_mei fh mei = 0) by lia.
      unfold e, regular_expiry, min_nz in *. rewrite M in *.
      destruct (maxcap =? 0) eqn:C; cbn [orb] in *.
      * cbn in E. discriminate E.
      * change (0 =? 0) with true in *. cbn [orb] in *. rewrite C in *.
        assert (0 < maxcap) by lia. replace (0 <? maxcap) with true by lia. cbn [min_optz].
        f_equal. lia.
    + change (0 =? 5) with false. cbn [andb]. rewrite andb_false_r. reflexivity.
  - (* an acknowledgement: no interval, nothing on the wire *)
    assert (M : eff_mei fh mei = 0) by (unfold eff_mei; rewrite TY; reflexivity).
    cbn zeta. rewrite M. split.
    + destruct (ver =? 5) eqn:V.
      * cbn [andb] in H. apply negb_false_iff in H. apply Z.eqb_eq in H.
        unfold deadline. cbn [p_ver p_expiry p_created]. rewrite H, unhold_regular, V.
        set (e := regular_expiry maxcap created 0). destruct (0 <? e)%Z; [reflexivity|].
        change (0 =? 5) with false. cbn [andb]. reflexivity.
      * rewrite (deadline_no_interval maxcap created 0 ver) by (rewrite V; reflexivity).
        unfold deadline. cbn [p_ver p_expiry p_created]. rewrite V. cbn [andb min_optz]. reflexivity.
    + unfold wire_expiry. cbn [p_fh p_expiry]. rewrite !T, TY. reflexivity.
Qed.

Lemma strip_alias_idem v : strip_alias (strip_alias v) = strip_alias v.
Proof.
  destruct v as [n | b | l]; try reflexivity.
  do 6 (destruct l as [|? l]; try reflexivity).
  destruct v4 as [n | b | l']; try reflexivity. destruct l; reflexivity.
Qed.

Lemma obs_restored maxcap p pid' topic' key cid sent :
  irregular maxcap p = false ->
  obs_of_pkt maxcap
    (to_packet maxcap (mkMsgRec key cid (p_origin p) pid' (p_fh p) topic' (p_payload p) sent (p_created p)
                                (p_pf p) (p_pf_flag p) (p_mei p) (strip_alias (p_props p)))) =
  obs_of_pkt maxcap (mkPkt (p_fh p) pid' topic' (p_payload p) (p_origin p) (p_created p) (p_expiry p) (p_ver p)
                           (p_pf p) (p_pf_flag p) (p_mei p) (p_props p)).
Proof.
  destruct p as [fh pid topic payload origin created expiry ver pf pff mei props]. cbn [p_fh p_pid p_topic p_payload
    p_origin p_created p_expiry p_ver p_pf p_pf_flag p_mei p_props]. intro IRR.
  destruct (deadline_restored maxcap fh pid topic payload origin created expiry ver pf pff mei props pid' topic' IRR)
    as [D W]. cbn zeta in D, W.
  unfold obs_of_pkt, to_packet. cbn [mr_fh mr_pid mr_topic mr_payload mr_origin mr_created mr_mei mr_pf mr_pf_flag mr_props
    p_fh p_pid p_topic p_payload p_origin p_created p_pf p_pf_flag p_mei p_props].
  assert (D' : deadline maxcap (mkPkt fh pid' topic' payload origin created expiry ver pf pff mei props) =
               deadline maxcap (mkPkt fh pid topic payload origin created expiry ver pf pff mei props)) by reflexivity.
  assert (W' : wire_expiry (mkPkt fh pid' topic' payload origin created expiry ver pf pff mei props) =
               wire_expiry (mkPkt fh pid topic payload origin created expiry ver pf pff mei props)) by reflexivity.
  rewrite D', W', <- D, <- W, strip_alias_idem. reflexivity.
Qed.

(* ---------- the theorem on the redis layout ---------- *)
Section MAIN.
  Variable maxcap : N.
  Variable aws : list awr.
  Hypothesis NOCOLL : KF_C20_sub_key_collision aws = false.
  Hypothesis REG : KF_C20_irregular_expiry maxcap aws = false.
  Hypothesis PIDS : pids_ok aws = true.

  Let rs := restart maxcap (read_back (run_awrites Redis aws)).
  Let st := arun aws.

  Lemma sessions_restored cid : rest_session rs cid = spec_session st cid.
  Proof.
    pose proof (redis_read_back aws) as RB. cbn zeta in RB. destruct RB as [RC _].
    destruct (arun_maps aws) as [AC _].
    unfold rest_session, rs, restart. cbn [rs_cl]. rewrite RC, load_clients_eq.
    rewrite (load_refines beq_bytes beq_bytes_eq id_enc cl_rec cr_id (fun k v => eq_refl) act_cl _ (id_inj_on _) cid).
    unfold spec_session, st. rewrite AC.
    destruct (aget beq_bytes cid (mrun beq_bytes (flat_map cl_ops aws))) as [c|] eqn:A; [|reflexivity].
    pose proof (cl_ops_origin aws cid c (mrun_origin beq_bytes beq_bytes_eq _ _ _ A)) as E. subst cid.
    rewrite cl_rec_id. unfold put_of, act_cl. destruct (ends_on_disconnect c); reflexivity.
  Qed.

  Lemma clients_sessions cid : has_client (rs_cl rs) cid = has_session st cid.
  Proof.
    unfold has_client, has_session. pose proof (sessions_restored cid) as S. unfold rest_session in S.
    rewrite S. reflexivity.
  Qed.

  Lemma subs_restored k : rest_sub rs k = spec_sub st k.
  Proof.
    pose proof (redis_read_back aws) as RB. cbn zeta in RB. destruct RB as [_ [RS _]].
    destruct (arun_maps aws) as [_ [AS _]].
    unfold rest_sub. unfold rs at 1. unfold restart. cbn [rs_sub]. rewrite RS, load_subs_eq.
    rewrite (load_refines sub_key_eqb sub_key_eqb_eq sub_enc sub_rec_of sub_key_of
               (fun k v => match k with (a, b) => eq_refl end) _ _ (sub_inj_on aws NOCOLL) k).
    unfold spec_sub, st. rewrite AS.
    destruct (aget sub_key_eqb k (mrun sub_key_eqb (flat_map sub_ops aws))) as [[s g]|] eqn:A.
    - destruct (sub_ops_origin aws k s g (mrun_origin sub_key_eqb sub_key_eqb_eq _ _ _ A)) as [F _].
      unfold put_of, act_sub, sub_rec_of. cbn [sr_client sr_filter sr_identifier sr_rh sr_qos sr_rap sr_nolocal fst snd].
      change (restart maxcap (read_back (run_awrites Redis aws))) with rs. rewrite clients_sessions.
      fold st. destruct (has_session st (fst k)); [|reflexivity]. cbn [option_map]. unfold sub_obs. rewrite F. reflexivity.
    - destruct (has_session (arun aws) (fst k)); reflexivity.
  Qed.

  Lemma inflight_restored k : rest_ifm maxcap rs k = spec_ifm maxcap st k.
  Proof.
    pose proof (redis_read_back aws) as RB. cbn zeta in RB. destruct RB as [_ [_ [RI _]]].
    destruct (arun_maps aws) as [_ [_ [AI _]]].
    unfold rest_ifm. unfold rs at 1. unfold restart. cbn [rs_ifm]. rewrite RI, load_inflight_eq.
    rewrite (load_refines ifm_key_eqb ifm_key_eqb_eq ifm_enc ifm_rec_of ifm_key_of
               (fun k v => match k with (a, b) => eq_refl end) _ _ (ifm_inj_on aws PIDS) k).
    unfold spec_ifm, st. rewrite AI.
    destruct (aget ifm_key_eqb k (mrun ifm_key_eqb (flat_map ifm_ops aws))) as [[p sent]|] eqn:A.
    - destruct (ifm_ops_origin aws k p sent (mrun_origin ifm_key_eqb ifm_key_eqb_eq _ _ _ A)) as [F I].
      unfold put_of, act_ifm. unfold ifm_rec_of at 1. cbn [mr_client fst snd].
      change (restart maxcap (read_back (run_awrites Redis aws))) with rs. rewrite clients_sessions.
      fold st. destruct (has_session st (fst k)); [|reflexivity]. cbn [option_map fst]. f_equal.
      unfold ifm_rec_of. cbn [fst snd]. rewrite F.
      rewrite (obs_restored maxcap p (p_pid p) (p_topic p) _ _ _ (proj1 (regular_of_kf maxcap aws REG) _ _ _ I)).
      destruct p; reflexivity.
    - cbn [option_map]. destruct (has_session (arun aws) (fst k)); reflexivity.
  Qed.

  Lemma retained_restored t : rest_ret maxcap rs t = spec_ret maxcap st t.
  Proof.
    pose proof (redis_read_back aws) as RB. cbn zeta in RB. destruct RB as [_ [_ [_ RR]]].
    destruct (arun_maps aws) as [_ [_ [_ AR]]].
    unfold rest_ret, rs, restart. cbn [rs_ret]. rewrite RR, load_retained_eq.
    rewrite (load_refines beq_bytes beq_bytes_eq id_enc ret_rec_of mr_topic (fun k v => eq_refl) _ _ (id_inj_on _) t).
    unfold spec_ret, st. rewrite AR.
    destruct (aget beq_bytes t (mrun beq_bytes (flat_map ret_ops aws))) as [[cid p]|] eqn:A; [|reflexivity].
    destruct (ret_ops_origin aws t cid p (mrun_origin beq_bytes beq_bytes_eq _ _ _ A)) as [F I].
    unfold put_of, act_ret. unfold ret_rec_of at 1. cbn [mr_payload snd].
    destruct (is_nil (p_payload p)); [reflexivity|]. cbn [option_map]. f_equal.
    unfold ret_rec_of. cbn [fst snd]. rewrite F.
    exact (obs_restored maxcap p 0 (p_topic p) _ _ _ (proj2 (regular_of_kf maxcap aws REG) _ _ I)).
  Qed.

  Theorem redis_restores : restores maxcap rs st.
  Proof.
    split; [exact sessions_restored|]. split; [exact subs_restored|].
    split; [exact inflight_restored | exact retained_restored].
  Qed.
End MAIN.

(* ---------- every back end ---------- *)

Theorem restart_restores : forall maxcap aws b,
  key_limit_exceeded aws = false ->
  KF_C20_sub_key_collision aws = false ->
  KF_C20_irregular_expiry maxcap aws = false ->
  pids_ok aws = true ->
  restores maxcap (restart maxcap (read_back (run_awrites b aws))) (arun aws).
Proof.
  intros maxcap aws b K C R P. rewrite (restart_any_backend maxcap aws b K).
  exact (redis_restores maxcap aws C R P).
Qed.

(* ---------- the full statement fails: one witness per finding ---------- *)

Definition wsub (f : bytes) (q : N) : subscription := mkSub f 0 0 q false false.
Definition wclient (id : bytes) : client_rec := mkClientRec id (tag "t") [] [] false 4 0 false 0 false (VL []) (VL []).

(* clients "a" and "a:b" subscribe to "b:c" and "c": one key "a:b:c", the second write replaces the first *)
Definition collision_history : list awr :=
  [ASetClient (wclient (tag "a")); ASetClient (wclient (tag "a:b"));
   ASetSub (tag "a") (wsub (tag "b:c") 1) 1; ASetSub (tag "a:b") (wsub (tag "c") 2) 2].

Lemma collision_witness :
  KF_C20_sub_key_collision collision_history = true /\
  rest_sub (restart 86400 (read_back (run_awrites Redis collision_history))) (tag "a", tag "b:c") = None /\
  spec_sub (arun collision_history) (tag "a", tag "b:c") = Some (wsub (tag "b:c") 1).
Proof. vm_compute. repeat split. Qed.

(* a retained will: sendLWT stores it without an expiry time although the server caps message life *)
Definition will_pkt : pkt := mkPkt (VL [VN 3; VN 1; VN 0; VN 1; VN 0]) 0 (tag "w") (tag "gone") (tag "a") 1000 0%Z 0 0 false 0 (VL []).
Definition irregular_history : list awr := [ASetRet (tag "a") will_pkt].

Lemma irregular_witness :
  KF_C20_irregular_expiry 86400 irregular_history = true /\
  option_map mo_wire_expiry (rest_ret 86400 (restart 86400 (read_back (run_awrites Redis irregular_history))) (tag "w"))
    = Some 87400%Z /\
  option_map mo_wire_expiry (spec_ret 86400 (arun irregular_history) (tag "w")) = Some 0%Z.
Proof. vm_compute. repeat split. Qed.

(* a client id too long for bbolt's keys: the session is not stored *)
Definition long_key_history : list awr := [ASetClient (wclient long_id)].

Lemma long_key_witness :
  key_limit_exceeded long_key_history = true /\
  rest_session (restart 86400 (read_back (run_awrites Bolt long_key_history))) long_id = None /\
  match spec_session (arun long_key_history) long_id with Some _ => true | None => false end = true.
Proof. vm_compute. repeat split. Qed.
