(* C21: every prefix of the write log is a sequence of writes, so the restart theorem applies to it;
   the known findings are monotone in the log; a write leaves the state under every other key as it
   was; a taken-over client causes no write to its client record. *)
From Coq Require Import Lia.
From MV Require Import Base.Val Base.Bytes Storage.Kv Storage.KvProofs Storage.StoreHooks Storage.StoreProofs
                       Storage.Restart Storage.RefineProofs Storage.RestartProofs Storage.Crash.
Open Scope N_scope.

Lemma firstn_in {A} (k : nat) (l : list A) x : In x (firstn k l) -> In x l.
Proof.
  revert l. induction k as [|k IH]; intros [|y l] H; cbn [firstn] in H; try destruct H.
  - left. assumption.
  - right. apply IH. assumption.
Qed.

Lemma existsb_incl {A} (f : A -> bool) l1 l2 : (forall x, In x l1 -> In x l2) -> existsb f l2 = false -> existsb f l1 = false.
Proof.
  intros I H. destruct (existsb f l1) eqn:E; [|reflexivity].
  apply existsb_exists in E. destruct E as [x [Ix Fx]].
  assert (X : existsb f l2 = true) by (apply existsb_exists; exists x; split; [apply I; exact Ix | exact Fx]).
  rewrite X in H. discriminate H.
Qed.

Lemma sub_keys_in aws k : In k (sub_keys aws) <-> exists a, In a aws /\ In k (keys (sub_ops a)).
Proof.
  rewrite <- sub_keys_eq. unfold keys. rewrite in_map_iff. split.
  - intros [o [E I]]. apply in_flat_map in I. destruct I as [a [Ia Io]]. exists a. split; [exact Ia|].
    apply in_map_iff. exists o. split; assumption.
  - intros [a [Ia I]]. apply in_map_iff in I. destruct I as [o [E Io]]. exists o. split; [exact E|].
    apply in_flat_map. exists a. split; assumption.
Qed.

(* the findings are monotone: a prefix of a history free of them is free of them *)
Lemma prefix_no_findings maxcap aws k :
  key_limit_exceeded aws = false -> KF_C20_sub_key_collision aws = false ->
  KF_C20_irregular_expiry maxcap aws = false -> pids_ok aws = true ->
  key_limit_exceeded (firstn k aws) = false /\ KF_C20_sub_key_collision (firstn k aws) = false /\
  KF_C20_irregular_expiry maxcap (firstn k aws) = false /\ pids_ok (firstn k aws) = true.
Proof.
  intros K C R P. repeat split.
  - unfold key_limit_exceeded in *. eapply existsb_incl; [|exact K].
    intros w I. apply in_map_iff in I. destruct I as [a [<- I]]. apply in_map. eapply firstn_in; exact I.
  - unfold KF_C20_sub_key_collision in *.
    assert (INC : forall x, In x (sub_keys (firstn k aws)) -> In x (sub_keys aws)).
    { intros x I. apply sub_keys_in in I. destruct I as [a [Ia I]]. apply sub_keys_in. exists a.
      split; [eapply firstn_in; exact Ia | exact I]. }
    destruct (existsb (fun a => existsb (collide a) (sub_keys (firstn k aws))) (sub_keys (firstn k aws))) eqn:E; [|reflexivity].
    apply existsb_exists in E. destruct E as [a [Ia E]]. apply existsb_exists in E. destruct E as [b [Ib E]].
    assert (X : existsb (fun a => existsb (collide a) (sub_keys aws)) (sub_keys aws) = true).
    { apply existsb_exists. exists a. split; [apply INC; exact Ia|]. apply existsb_exists. exists b.
      split; [apply INC; exact Ib | exact E]. }
    rewrite X in C. discriminate C.
  - unfold KF_C20_irregular_expiry in *. eapply existsb_incl; [|exact R]. intros x I. eapply firstn_in; exact I.
  - unfold pids_ok in *. apply forallb_forall. intros a I. rewrite forallb_forall in P. apply P. eapply firstn_in; exact I.
Qed.

(* C21, state part: after a process death behind the k-th write the restarted broker holds exactly
   the state the first k writes describe *)
Theorem crash_restores : forall maxcap evs k b,
  key_limit_exceeded (awrites_of evs) = false ->
  KF_C20_sub_key_collision (awrites_of evs) = false ->
  KF_C20_irregular_expiry maxcap (awrites_of evs) = false ->
  pids_ok (awrites_of evs) = true ->
  restores maxcap (restart maxcap (read_back (crashed_store b evs k))) (arun (firstn k (awrites_of evs))).
Proof.
  intros maxcap evs k b K C R P. unfold crashed_store.
  destruct (prefix_no_findings maxcap (awrites_of evs) k K C R P) as [K' [C' [R' P']]].
  apply restart_restores; assumption.
Qed.

(* what further writes do not touch stays as it was: a crash inside an operation leaves every
   session, subscription, in-flight and retained message the operation does not write as it was
   acknowledged before *)
Definition touched_cl (aws : list awr) : list bytes := keys (flat_map cl_ops aws).
Definition touched_sub (aws : list awr) : list sub_key := keys (flat_map sub_ops aws).
Definition touched_ifm (aws : list awr) : list ifm_key := keys (flat_map ifm_ops aws).
Definition touched_ret (aws : list awr) : list bytes := keys (flat_map ret_ops aws).

Theorem untouched_kept : forall maxcap done more,
  (forall cid, ~ In cid (touched_cl more) ->
     spec_session (arun (done ++ more)) cid = spec_session (arun done) cid) /\
  (forall k, ~ In (fst k) (touched_cl more) -> ~ In k (touched_sub more) ->
     spec_sub (arun (done ++ more)) k = spec_sub (arun done) k) /\
  (forall k, ~ In (fst k) (touched_cl more) -> ~ In k (touched_ifm more) ->
     spec_ifm maxcap (arun (done ++ more)) k = spec_ifm maxcap (arun done) k) /\
  (forall t, ~ In t (touched_ret more) ->
     spec_ret maxcap (arun (done ++ more)) t = spec_ret maxcap (arun done) t).
Proof.
  intros maxcap done more.
  destruct (arun_maps (done ++ more)) as [A1 [A2 [A3 A4]]]. destruct (arun_maps done) as [B1 [B2 [B3 B4]]].
  assert (S : forall cid, ~ In cid (touched_cl more) ->
                spec_session (arun (done ++ more)) cid = spec_session (arun done) cid).
  { intros cid N. unfold spec_session. rewrite A1, B1, flat_map_app.
    rewrite (mrun_app_untouched beq_bytes beq_bytes_eq _ _ cid N). reflexivity. }
  assert (HS : forall cid, ~ In cid (touched_cl more) ->
                has_session (arun (done ++ more)) cid = has_session (arun done) cid).
  { intros cid N. unfold has_session. rewrite (S cid N). reflexivity. }
  split; [exact S|]. split; [|split].
  - intros k N1 N2. unfold spec_sub. rewrite (HS _ N1), A2, B2, flat_map_app.
    rewrite (mrun_app_untouched sub_key_eqb sub_key_eqb_eq _ _ k N2). reflexivity.
  - intros k N1 N2. unfold spec_ifm. rewrite (HS _ N1), A3, B3, flat_map_app.
    rewrite (mrun_app_untouched ifm_key_eqb ifm_key_eqb_eq _ _ k N2). reflexivity.
  - intros t N. unfold spec_ret. rewrite A4, B4, flat_map_app.
    rewrite (mrun_app_untouched beq_bytes beq_bytes_eq _ _ t N). reflexivity.
Qed.

(* the storage hooks write nothing to the client record on behalf of a client that was taken over *)
Theorem superseded_no_client_writes : forall c expire, rc_takenover c = true ->
  hook_awrites (ESessionEstablished c) = [] /\ hook_awrites (EWillSent c) = [] /\
  hook_awrites (EDisconnect c expire) = [].
Proof.
  intros c expire T. cbn [hook_awrites]. unfold update_client. rewrite T. cbn [negb]. rewrite andb_false_r.
  repeat split.
Qed.

(* ---------- the finding KF_C21_ack_before_forward: a recorded history ---------- *)

Definition w_fh_pub : val := VL [VN 3; VN 1; VN 0; VN 0; VN 9].
Definition w_fh_ack : val := VL [VN 4; VN 0; VN 0; VN 0; VN 0].
Definition w_ack : pkt := mkPkt w_fh_ack 101 [] [] [] 1000 87400%Z 0 0 false 0 (VL []).
Definition w_pub : pkt := mkPkt w_fh_pub 1 (tag "a/b") (tag "m1") (tag "p") 1000 87400%Z 4 0 false 0 (VL []).
Definition w_sub_client : client_rec := mkClientRec (tag "s") (tag "t") [] [] false 4 0 false 0 false (VL []) (VL []).

(* client "s" holds a session and a QoS 1 subscription; "p" publishes with QoS 1: the broker stores
   its PUBACK record, writes the PUBACK, completes the record, and only then queues and stores the
   message for "s" *)
Definition w_history : list event :=
  [ESessionEstablished (mkRClient w_sub_client false);
   ESubscribed (tag "s") [(mkSub (tag "a/b") 0 0 1 false false, 1)];
   EQosPublish (tag "p") w_ack 1000; EAckSent (tag "p") 4 101 0; EQosComplete (tag "p") 101;
   EQosPublish (tag "s") w_pub 1000; EProcessed (tag "p")].

Lemma w_history_window :
  KF_C21_ack_before_forward w_history 4 = true /\
  rest_ifm 86400 (restart 86400 (read_back (crashed_store Bolt w_history 4))) (tag "s", 1) = None /\
  rest_ifm 86400 (restart 86400 (read_back (crashed_store Bolt w_history 5))) (tag "s", 1) <> None.
Proof. vm_compute. repeat split. discriminate. Qed.

(* ---------- Clean Start: nothing of the discarded session is restored ---------- *)

Lemma no_entry_sub c f (m : amap sub_key (subscription * N)) :
  existsb (fun e : sub_key * (subscription * N) => beq_bytes (fst (fst e)) c) m = false ->
  aget sub_key_eqb (c, f) m = None.
Proof.
  induction m as [|[[c' f'] v] r IH]; cbn [existsb aget fst]; intro H; [reflexivity|].
  apply orb_false_iff in H. destruct H as [H1 H2].
  unfold sub_key_eqb at 1. cbn [fst snd]. rewrite beq_bytes_sym, H1. cbn [andb]. exact (IH H2).
Qed.

Lemma no_entry_ifm c pid (m : amap ifm_key (pkt * N)) :
  existsb (fun e : ifm_key * (pkt * N) => beq_bytes (fst (fst e)) c) m = false ->
  aget ifm_key_eqb (c, pid) m = None.
Proof.
  induction m as [|[[c' p'] v] r IH]; cbn [existsb aget fst]; intro H; [reflexivity|].
  apply orb_false_iff in H. destruct H as [H1 H2].
  unfold ifm_key_eqb at 1. cbn [fst snd]. rewrite beq_bytes_sym, H1. cbn [andb]. exact (IH H2).
Qed.

(* when the writes have discarded everything recorded for a client id (which the broker must have
   done by the time it establishes a session with Clean Start 1: [clean_start_leftover] checks it on
   every recorded history), a restart after any further writes that do not concern the id restores no
   subscription and no in-flight message for it *)
Theorem clean_start_nothing_restored : forall maxcap aws b c,
  key_limit_exceeded aws = false -> KF_C20_sub_key_collision aws = false ->
  KF_C20_irregular_expiry maxcap aws = false -> pids_ok aws = true ->
  session_leftover c (arun aws) = false ->
  forall f pid,
    rest_sub (restart maxcap (read_back (run_awrites b aws))) (c, f) = None /\
    rest_ifm maxcap (restart maxcap (read_back (run_awrites b aws))) (c, pid) = None.
Proof.
  intros maxcap aws b c K C R P L f pid.
  destruct (restart_restores maxcap aws b K C R P) as [_ [S [I _]]].
  unfold session_leftover in L. apply orb_false_iff in L. destruct L as [L1 L2].
  rewrite S, I. unfold spec_sub, spec_ifm. cbn [fst].
  rewrite (no_entry_sub c f _ L1), (no_entry_ifm c pid _ L2). cbn [option_map].
  destruct (has_session (arun aws) c); split; reflexivity.
Qed.
