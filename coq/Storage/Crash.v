(* C21: the write log of a history and its prefixes (a process death after the k-th storage write),
   and what "acknowledged before the crash" means in terms of the recorded history: storage writes
   interleaved with the acknowledgements the broker sent (markers recorded by the harness through
   OnPacketSent / OnPacketProcessed).  No proofs in this file. *)
From MV Require Import Base.Val Storage.Kv Storage.StoreHooks Storage.Restart.
Open Scope N_scope.

(* ---------- the write log ---------- *)

Inductive item :=
| IWrite (a : awr)
| IAck (cid : bytes) (ptype pid reason : N)    (* an acknowledgement of type ptype was written to client cid *)
| IEnd (cid : bytes).                          (* the broker finished handling one packet of client cid *)

Definition items_of_event (e : event) : list item :=
  match e with
  | EAckSent c t p r => [IAck c t p r]
  | EProcessed c => [IEnd c]
  | ESuperseded _ => []
  (* the handling of a CONNECT ends with OnSessionEstablished (acknowledgements resent to a resumed
     session before it belong to no request), a connection ends with OnDisconnect *)
  | ESessionEstablished c => map IWrite (hook_awrites e) ++ [IEnd (cr_id (rc_rec c))]
  | EDisconnect c _ => map IWrite (hook_awrites e) ++ [IEnd (cr_id (rc_rec c))]
  | _ => map IWrite (hook_awrites e)
  end.

Definition items_of (evs : list event) : list item := flat_map items_of_event evs.

(* the store a process death leaves behind after the first k writes of the history *)
Definition crashed_store (b : backend) (evs : list event) (k : nat) : bstore :=
  run_awrites b (firstn k (awrites_of evs)).

(* everything recorded before the (k+1)-th write, and the rest: the process may die at any instant
   between two writes, in the worst case just before the next one *)
Fixpoint split_at_write (k : nat) (its : list item) : list item * list item :=
  match its with
  | [] => ([], [])
  | IWrite a :: r =>
      match k with
      | O => ([], its)
      | S k' => let (p, q) := split_at_write k' r in (IWrite a :: p, q)
      end
  | i :: r => let (p, q) := split_at_write k r in (i :: p, q)
  end.

(* acknowledgements sent whose packet is still being handled at the end of the list *)
Fixpoint pending_acks (its : list item) (acc : list (bytes * N * N)) : list (bytes * N * N) :=
  match its with
  | [] => acc
  | IAck c t _ r :: rest => pending_acks rest ((c, t, r) :: acc)
  | IEnd c :: rest => pending_acks rest (filter (fun a => negb (beq_bytes (fst (fst a)) c)) acc)
  | IWrite _ :: rest => pending_acks rest acc
  end.

(* the writes still to come while the packet of client c is being handled *)
Fixpoint writes_until_end (c : bytes) (its : list item) : list awr :=
  match its with
  | [] => []
  | IEnd c' :: rest => if beq_bytes c c' then [] else writes_until_end c rest
  | IWrite a :: rest => a :: writes_until_end c rest
  | IAck _ _ _ _ :: rest => writes_until_end c rest
  end.

(* packet types *)
Definition PUBACK : N := 4.   Definition PUBREC : N := 5.
Definition SUBACK : N := 9.   Definition UNSUBACK : N := 11.

(* a write that persists what the acknowledgement (type t, reason r, to client c) has promised *)
Definition forwards (c : bytes) (t r : N) (a : awr) : bool :=
  match a with
  | ASetIfm _ p _ => ((t =? PUBACK) || (t =? PUBREC)) && (r <? 128) && (fh_type (p_fh p) =? 3) && beq_bytes (p_origin p) c
  | _ => false
  end.

Definition settles (c : bytes) (t r : N) (a : awr) : bool :=
  match a with
  | ASetSub c' _ _ => (t =? SUBACK) && beq_bytes c' c
  | ADelSub c' _ => (t =? UNSUBACK) && beq_bytes c' c
  | ASetRet c' _ => ((t =? PUBACK) || (t =? PUBREC)) && (r <? 128) && beq_bytes c' c
  | _ => false
  end.

Definition late (sel : bytes -> N -> N -> awr -> bool) (evs : list event) (k : nat) : bool :=
  let (pre, suf) := split_at_write k (items_of evs) in
  existsb (fun a => let '(c, t, r) := a in existsb (sel c t r) (writes_until_end c suf)) (pending_acks pre []).

(* KF: a QoS 1/2 PUBLISH is acknowledged to its publisher (server.go processPublish writes the
   PUBACK / PUBREC) before the message is queued and persisted for its subscribers
   (publishToSubscribers): a crash in between loses a message the publisher was told is accepted *)
Definition KF_C21_ack_before_forward (evs : list event) (k : nat) : bool := late forwards evs k.

(* a SUBACK / UNSUBACK / PUBACK sent before the subscription, its removal or the retained message it
   acknowledges is written *)
Definition ack_before_write (evs : list event) (k : nat) : bool := late settles evs k.

(* writes issued for a client object that has been taken over must not delete or overwrite the state
   of the session with that client id, which now belongs to the client that took over.  (Additions
   are not covered by the property: a message routed to the old client object in the take-over
   window - e.g. its own will, when the session subscribes to it - is stored under the session.) *)
Definition touches_session (c : bytes) (a : awr) : bool :=
  match a with
  | ASetClient r => beq_bytes (cr_id r) c
  | ADelClient c' => beq_bytes c' c
  | ADelSub c' _ => beq_bytes c' c
  | ADelIfm c' _ => beq_bytes c' c
  | _ => false
  end.

Fixpoint superseded_writes (evs : list event) : bool :=
  match evs with
  | ESuperseded c :: ((e :: _) as rest) => existsb (touches_session c) (hook_awrites e) || superseded_writes rest
  | _ :: rest => superseded_writes rest
  | [] => false
  end.

(* KF (C20): a message queued on a client object that has already been taken over - in the take-over
   window the old connection's teardown can still find its own object under the client id (e.g. when
   the session subscribes to its own will topic).  The hooks store it under the session's key, the
   session's live client object never sees it: store and memory diverge, and the record outlives the
   session. *)
Fixpoint superseded_delivery (evs : list event) : bool :=
  match evs with
  | ESuperseded c :: ((EQosPublish c' _ _ :: _) as rest) => beq_bytes c c' || superseded_delivery rest
  | _ :: rest => superseded_delivery rest
  | [] => false
  end.

(* A session established with Clean Start 1 begins empty: by then the writes must have discarded
   every subscription and in-flight message recorded for the client id (MQTT-3.1.2-4).  The marker
   is recorded at OnSessionEstablished, after the broker has dropped the previous session. *)
Definition session_leftover (c : bytes) (st : astate) : bool :=
  existsb (fun e : sub_key * (subscription * N) => beq_bytes (fst (fst e)) c) (as_sub st) ||
  existsb (fun e : ifm_key * (pkt * N) => beq_bytes (fst (fst e)) c) (as_ifm st).

Fixpoint clean_start_leftover (st : astate) (evs : list event) : bool :=
  match evs with
  | [] => false
  | ECleanStart c :: rest => session_leftover c st || clean_start_leftover st rest
  | e :: rest => clean_start_leftover (fold_left astep (hook_awrites e) st) rest
  end.

(* KF (C09-1, pinned by an existing test): after an acknowledgement frees send quota, the broker
   sends the next message held back by flow control and deletes its in-flight record right away
   (server.go processPacket, NextImmediate) without telling the hooks: the stored record stays.  It can
   only happen to a session whose client gave a Receive Maximum and had more PUBLISH records in flight
   than that; [held_back] recognises such histories from the stored records. *)
Definition recv_max_of (c : client_rec) : N :=
  match cr_props c with VL [_; _; _; VN rm; _; _; _] => rm | _ => 0 end.

Definition stored_publishes (c : bytes) (st : astate) : N :=
  N.of_nat (length (filter (fun e : ifm_key * (pkt * N) =>
                              beq_bytes (fst (fst e)) c && (fh_type (p_fh (fst (snd e))) =? 3)) (as_ifm st))).

Fixpoint held_back (st : astate) (rm : amap bytes N) (evs : list event) : bool :=
  match evs with
  | [] => false
  | e :: rest =>
      let st' := fold_left astep (hook_awrites e) st in
      let rm' := match e with
                 | ESessionEstablished c => aset beq_bytes (cr_id (rc_rec c)) (recv_max_of (rc_rec c)) rm
                 | _ => rm
                 end in
      match e with
      | EQosPublish cid _ _ =>
          match aget beq_bytes cid rm' with
          | Some n => (0 <? n) && (n <? stored_publishes cid st')
          | None => false
          end
      | _ => false
      end || held_back st' rm' rest
  end.

(* ---------- specification ---------- *)

(* C21 for one crash point: the restarted broker holds exactly the state the first k writes describe
   (nothing written is lost, nothing deleted comes back, whatever the keys look like), and nothing
   acknowledged before the crash is missing from those writes *)
Definition crash_ok (maxcap : N) (evs : list event) (k : nat) (rs : rstate) : Prop :=
  restores maxcap rs (arun (firstn k (awrites_of evs))) /\
  ack_before_write evs k = false /\ KF_C21_ack_before_forward evs k = false /\
  clean_start_leftover astate0 evs = false.
