(* Model of the four bundled storage hooks (hooks/storage/{badger,pebble,bolt,redis}/*.go) and of
   the record types of hooks/storage/storage.go.

   For every storage hook event the hooks issue the same *logical* writes ([hook_writes]): a record
   type, a key suffix (client id, "<id>:<filter>", "<id>:<packet id>", topic) and a record.  The
   back ends differ in the *physical* layout:
     badger / pebble / bbolt : one flat key space, key = "<TYPE>_<suffix>" ("SYS" for the system
                               info), read back by prefix iteration over "CL", "SUB", "RET", "IFM";
     redis                   : one hash per type named "mochi-<TYPE>", field = <suffix>, read back by
                               HGETALL.
   and in the size of key the engine accepts (bbolt 32768 bytes, badger 65000 bytes; a Set with a
   longer key fails and is only logged).  encoding/json is taken as the identity on the record types
   (trusted; validated by the correspondence harness on every run).

   The model is of the tree *after* the repairs recorded in findings.d/C22.json / C20.json
   (Findings/FixedC22.v keeps the pre-fix behaviour).  No proofs in this file. *)
From Coq Require Import Permutation.
From MV Require Import Base.Val Storage.Kv.
Open Scope N_scope.

(* ---------- record types (storage.go) ---------- *)

(* storage.Client.  [cr_props] = the connect properties copied verbatim (authentication method /
   data, request response info, receive maximum, topic alias maximum, user properties, maximum
   packet size); [cr_will] = ClientWill, copied verbatim. *)
Record client_rec := mkClientRec {
  cr_id : bytes; cr_listener : bytes; cr_remote : bytes; cr_username : bytes;
  cr_clean : bool; cr_ver : N;
  cr_sei : N; cr_sei_flag : bool;          (* SessionExpiryInterval, SessionExpiryIntervalFlag *)
  cr_rpi : N; cr_rpi_flag : bool;          (* RequestProblemInfo, RequestProblemInfoFlag *)
  cr_props : val; cr_will : val }.

(* storage.Subscription.  [sr_key] is the ID field (the storage key). *)
Record sub_rec := mkSubRec {
  sr_key : bytes; sr_client : bytes; sr_filter : bytes; sr_identifier : N; sr_rh : N; sr_qos : N;
  sr_rap : bool; sr_nolocal : bool }.

(* storage.Message.  [mr_key] is the ID field; [mr_fh] the fixed header; [mr_props] the publish
   properties (content type, response topic, correlation data, subscription identifiers, user
   properties, topic alias): copied verbatim except the topic alias, which Properties.Copy(false)
   resets to 0 (an alias only has a meaning on the connection it was sent on). *)
Record msg_rec := mkMsgRec {
  mr_key : bytes; mr_client : bytes; mr_origin : bytes; mr_pid : N; mr_fh : val; mr_topic : bytes;
  mr_payload : bytes; mr_sent : N; mr_created : N;
  mr_pf : N; mr_pf_flag : bool; mr_mei : N; mr_props : val }.

Inductive srec :=
| SClient (c : client_rec)
| SSub (s : sub_rec)
| SMsg (m : msg_rec)
| SSys (id : bytes) (info : val).

(* ---------- what the hooks are called with ---------- *)

(* *mqtt.Client as far as the storage hooks read it: the fields of the record plus whether
   StopCause() is ErrSessionTakenOver *)
Record rclient := mkRClient { rc_rec : client_rec; rc_takenover : bool }.

(* packets.Subscription as far as persisted *)
Record subscription := mkSub {
  su_filter : bytes; su_identifier : N; su_rh : N; su_qos : N; su_rap : bool; su_nolocal : bool }.

(* packets.Packet (a PUBLISH, or an acknowledgement kept in flight) as far as the hooks and the
   restart path read it.  [p_expiry] is the absolute expiry time (0 = none; the deferral path of
   server.go:1090 stores -1, hence Z); [p_ver] the protocol version recorded in the packet. *)
Record pkt := mkPkt {
  p_fh : val; p_pid : N; p_topic : bytes; p_payload : bytes; p_origin : bytes; p_created : N;
  p_expiry : Z; p_ver : N; p_pf : N; p_pf_flag : bool; p_mei : N; p_props : val }.

Inductive event :=
| ESessionEstablished (c : rclient)                       (* OnSessionEstablished *)
| EWillSent (c : rclient)                                 (* OnWillSent *)
| EDisconnect (c : rclient) (expire : bool)               (* OnDisconnect *)
| ESubscribed (cid : bytes) (subs : list (subscription * N))   (* OnSubscribed: filters with reason codes *)
| EUnsubscribed (cid : bytes) (filters : list bytes)      (* OnUnsubscribed *)
| ERetain (cid : bytes) (p : pkt) (clear : bool)          (* OnRetainMessage, clear = (r == -1) *)
| EQosPublish (cid : bytes) (p : pkt) (sent : N)          (* OnQosPublish *)
| EQosComplete (cid : bytes) (pid : N)                    (* OnQosComplete *)
| EQosDropped (cid : bytes) (pid : N)                     (* OnQosDropped *)
| ESysTick (info : val)                                   (* OnSysInfoTick *)
| ERetainedExpired (topic : bytes)                        (* OnRetainedExpired *)
| EClientExpired (cid : bytes)                            (* OnClientExpired *)
(* markers recorded by the correspondence harness between the storage events; no storage writes *)
| EAckSent (cid : bytes) (ptype pid reason : N)           (* OnPacketSent: an acknowledgement reached the client *)
| EProcessed (cid : bytes)                                (* OnPacketProcessed: end of the handling of one inbound packet *)
| ESuperseded (cid : bytes)                               (* the next event is issued for a client object already taken over *)
| ECleanStart (cid : bytes).                              (* the session being established was requested with Clean Start / Clean Session 1 *)

(* ---------- keys ---------- *)

Inductive rtype := TCL | TSUB | TRET | TIFM | TSYS.

Definition type_tag (t : rtype) : bytes :=
  match t with
  | TCL => tag "CL" | TSUB => tag "SUB" | TRET => tag "RET" | TIFM => tag "IFM" | TSYS => tag "SYS"
  end.

Definition colon : N := 58.
Definition underscore : N := 95.

(* strconv.FormatUint(n, 10) *)
Fixpoint dec_fuel (fuel : nat) (n : N) (acc : bytes) : bytes :=
  match fuel with
  | O => acc
  | S f => let acc' := (48 + n mod 10) :: acc in
           if n / 10 =? 0 then acc' else dec_fuel f (n / 10) acc'
  end.
Definition dec (n : N) : bytes := dec_fuel 20 n [].

Definition sub_suffix (cid filter : bytes) : bytes := cid ++ colon :: filter.     (* "<id>:<filter>" *)
Definition ifm_suffix (cid : bytes) (pid : N) : bytes := cid ++ colon :: dec pid. (* "<id>:<FormatID>" *)

(* ---------- writes issued per event ---------- *)

(* What a hook method asks the store to do, with structured keys (client id, (client id, filter),
   (client id, packet id), topic).  The abstract session state of Storage/Restart.v is defined on
   these; the back ends flatten the keys into byte strings ([wr_of]). *)
Inductive awr :=
| ASetClient (c : client_rec)                            (* updateClient *)
| ADelClient (cid : bytes)
| ASetSub (cid : bytes) (s : subscription) (granted : N)
| ADelSub (cid filter : bytes)
| ASetRet (cid : bytes) (p : pkt)
| ADelRet (topic : bytes)
| ASetIfm (cid : bytes) (p : pkt) (sent : N)
| ADelIfm (cid : bytes) (pid : N)
| ASetSys (info : val).

(* the same, as the back ends see it: a record type, a key suffix and a record *)
Inductive wr :=
| WSet (t : rtype) (suffix : bytes) (v : srec)
| WDel (t : rtype) (suffix : bytes).

(* pk.Properties.Copy(false): the topic alias (last element of the properties) is not carried over *)
Definition strip_alias (props : val) : val :=
  match props with
  | VL [ct; rt; cd; si; us; VN _] => VL [ct; rt; cd; si; us; VN 0]
  | _ => props
  end.

Definition sub_record (cid : bytes) (s : subscription) (reason : N) : sub_rec :=
  mkSubRec [] cid (su_filter s) (su_identifier s) (su_rh s) reason (su_rap s) (su_nolocal s).

Definition retained_record (cid : bytes) (p : pkt) : msg_rec :=
  mkMsgRec [] cid (p_origin p) 0 (p_fh p) (p_topic p) (p_payload p) 0 (p_created p)
           (p_pf p) (p_pf_flag p) (p_mei p) (strip_alias (p_props p)).

Definition inflight_record (cid : bytes) (p : pkt) (sent : N) : msg_rec :=
  mkMsgRec [] cid (p_origin p) (p_pid p) (p_fh p) (p_topic p) (p_payload p) sent (p_created p)
           (p_pf p) (p_pf_flag p) (p_mei p) (strip_alias (p_props p)).

Definition wr_of (a : awr) : wr :=
  match a with
  | ASetClient c => WSet TCL (cr_id c) (SClient c)
  | ADelClient cid => WDel TCL cid
  | ASetSub cid s granted => WSet TSUB (sub_suffix cid (su_filter s)) (SSub (sub_record cid s granted))
  | ADelSub cid filter => WDel TSUB (sub_suffix cid filter)
  | ASetRet cid p => WSet TRET (p_topic p) (SMsg (retained_record cid p))
  | ADelRet topic => WDel TRET topic
  | ASetIfm cid p sent => WSet TIFM (ifm_suffix cid (p_pid p)) (SMsg (inflight_record cid p sent))
  | ADelIfm cid pid => WDel TIFM (ifm_suffix cid pid)
  | ASetSys info => WSet TSYS (type_tag TSYS) (SSys (type_tag TSYS) info)
  end.

(* updateClient: nothing is written for a client whose session was taken over (the stored record
   belongs to the session that took it over) *)
Definition update_client (c : rclient) : list awr :=
  if rc_takenover c then [] else [ASetClient (rc_rec c)].

(* refused filters (reason code >= 0x80) are not persisted *)
Definition sub_awrites (cid : bytes) (subs : list (subscription * N)) : list awr :=
  flat_map (fun sr => let '(s, reason) := sr in
                      if 128 <=? reason then [] else [ASetSub cid s reason]) subs.

Definition hook_awrites (e : event) : list awr :=
  match e with
  | ESessionEstablished c => update_client c
  | EWillSent c => update_client c
  | EDisconnect c expire =>
      update_client c ++
      (if expire && negb (rc_takenover c) then [ADelClient (cr_id (rc_rec c))] else [])
  | ESubscribed cid subs => sub_awrites cid subs
  | EUnsubscribed cid filters => map (ADelSub cid) filters
  | ERetain cid p clear => if clear then [ADelRet (p_topic p)] else [ASetRet cid p]
  | EQosPublish cid p sent => [ASetIfm cid p sent]
  | EQosComplete cid pid => [ADelIfm cid pid]
  | EQosDropped cid pid => [ADelIfm cid pid]
  | ESysTick info => [ASetSys info]
  | ERetainedExpired topic => [ADelRet topic]
  | EClientExpired cid => [ADelClient cid]
  | EAckSent _ _ _ _ => []
  | EProcessed _ => []
  | ESuperseded _ => []
  | ECleanStart _ => []
  end.

Definition awrites_of (evs : list event) : list awr := flat_map hook_awrites evs.

Definition hook_writes (e : event) : list wr := map wr_of (hook_awrites e).

Definition writes_of (evs : list event) : list wr := map wr_of (awrites_of evs).

(* ---------- physical layouts ---------- *)

Inductive backend := Badger | Pebble | Bolt | Redis.

(* the ID field of subscription and message records is the physical storage key *)
Definition with_key (k : bytes) (v : srec) : srec :=
  match v with
  | SSub s => SSub (mkSubRec k (sr_client s) (sr_filter s) (sr_identifier s) (sr_rh s) (sr_qos s)
                             (sr_rap s) (sr_nolocal s))
  | SMsg m => SMsg (mkMsgRec k (mr_client m) (mr_origin m) (mr_pid m) (mr_fh m) (mr_topic m)
                             (mr_payload m) (mr_sent m) (mr_created m) (mr_pf m) (mr_pf_flag m)
                             (mr_mei m) (mr_props m))
  | _ => v
  end.

(* flat key space: "<TYPE>_<suffix>", and "SYS" *)
Definition flat_key (t : rtype) (suffix : bytes) : bytes :=
  match t with
  | TSYS => type_tag TSYS
  | _ => type_tag t ++ underscore :: suffix
  end.

(* largest key the engine accepts (bbolt MaxKeySize, badger maxKeySize); None = no limit in range *)
Definition max_key (b : backend) : option N :=
  match b with Bolt => Some 32768 | Badger => Some 65000 | _ => None end.

Definition key_fits (b : backend) (k : bytes) : bool :=
  match max_key b with Some m => N.of_nat (length k) <=? m | None => true end.

Definition flat_apply (b : backend) (s : kv srec) (w : wr) : kv srec :=
  match w with
  | WSet t suffix v => let k := flat_key t suffix in
                       if key_fits b k then kv_set k (with_key k v) s else s
  | WDel t suffix => kv_del (flat_key t suffix) s
  end.

(* redis: hash "mochi-<TYPE>", field <suffix> *)
Definition hprefix : bytes := tag "mochi-".
Definition hname (t : rtype) : bytes := hprefix ++ type_tag t.

Definition hash_apply (s : hashes srec) (w : wr) : hashes srec :=
  match w with
  | WSet t suffix v => hset (hname t) suffix (with_key suffix v) s
  | WDel t suffix => hdel (hname t) suffix s
  end.

Inductive bstore := FlatStore (s : kv srec) | HashStore (s : hashes srec).

Definition empty_store (b : backend) : bstore :=
  match b with Redis => HashStore [] | _ => FlatStore [] end.

Definition apply_wr (b : backend) (st : bstore) (w : wr) : bstore :=
  match st with
  | FlatStore s => FlatStore (flat_apply b s w)
  | HashStore s => HashStore (hash_apply s w)
  end.

Definition apply_writes (b : backend) (st : bstore) (ws : list wr) : bstore := fold_left (apply_wr b) ws st.

Definition run_awrites (b : backend) (aws : list awr) : bstore := apply_writes b (empty_store b) (map wr_of aws).

Definition run_hooks (b : backend) (evs : list event) : bstore := run_awrites b (awrites_of evs).

(* ---------- read back: Stored* ---------- *)

Record readback := mkReadback {
  rb_clients : list client_rec;
  rb_subs : list sub_rec;
  rb_inflight : list msg_rec;
  rb_retained : list msg_rec;
  rb_sys : option (bytes * val) }.

Definition as_client (v : srec) : option client_rec := match v with SClient c => Some c | _ => None end.
Definition as_sub (v : srec) : option sub_rec := match v with SSub c => Some c | _ => None end.
Definition as_msg (v : srec) : option msg_rec := match v with SMsg c => Some c | _ => None end.
Definition as_sys (v : srec) : option (bytes * val) := match v with SSys i c => Some (i, c) | _ => None end.

Fixpoint filter_map {A B} (f : A -> option B) (l : list A) : list B :=
  match l with
  | [] => []
  | x :: r => match f x with Some y => y :: filter_map f r | None => filter_map f r end
  end.

Definition bind_opt {A B} (o : option A) (f : A -> option B) : option B :=
  match o with Some x => f x | None => None end.

Definition values_of_type (st : bstore) (t : rtype) : list srec :=
  match st with
  | FlatStore s => kv_iter (type_tag t) s          (* iterKv(storage.ClientKey, ...): prefix "CL", "SUB", ... *)
  | HashStore s => hgetall (hname t) s
  end.

Definition sys_value (st : bstore) : option srec :=
  match st with
  | FlatStore s => kv_get (type_tag TSYS) s
  | HashStore s => hget (hname TSYS) (type_tag TSYS) s
  end.

Definition read_back (st : bstore) : readback :=
  mkReadback (filter_map as_client (values_of_type st TCL))
             (filter_map as_sub (values_of_type st TSUB))
             (filter_map as_msg (values_of_type st TIFM))
             (filter_map as_msg (values_of_type st TRET))
             (bind_opt (sys_value st) as_sys).

(* ---------- specification of C22: the same answers, up to order and up to the storage key ---------- *)

Definition erase_sub_key (s : sub_rec) : sub_rec :=
  mkSubRec [] (sr_client s) (sr_filter s) (sr_identifier s) (sr_rh s) (sr_qos s) (sr_rap s) (sr_nolocal s).
Definition erase_msg_key (m : msg_rec) : msg_rec :=
  mkMsgRec [] (mr_client m) (mr_origin m) (mr_pid m) (mr_fh m) (mr_topic m) (mr_payload m) (mr_sent m)
           (mr_created m) (mr_pf m) (mr_pf_flag m) (mr_mei m) (mr_props m).

Definition erase_keys (r : readback) : readback :=
  mkReadback (rb_clients r) (map erase_sub_key (rb_subs r)) (map erase_msg_key (rb_inflight r))
             (map erase_msg_key (rb_retained r)) (rb_sys r).

(* C22: two read-backs are the same clients, subscriptions, in-flight messages, retained messages and
   system info, up to ordering (and up to the record ID of subscriptions and messages, which is the
   back end's own storage key and is read by nothing in the broker) *)
Definition rb_equiv (r1 r2 : readback) : Prop :=
  Permutation (rb_clients r1) (rb_clients r2) /\
  Permutation (map erase_sub_key (rb_subs r1)) (map erase_sub_key (rb_subs r2)) /\
  Permutation (map erase_msg_key (rb_inflight r1)) (map erase_msg_key (rb_inflight r2)) /\
  Permutation (map erase_msg_key (rb_retained r1)) (map erase_msg_key (rb_retained r2)) /\
  rb_sys r1 = rb_sys r2.

(* some key written by the events is longer than what bbolt or badger accepts *)
Definition wr_key_len (w : wr) : N :=
  match w with WSet t s _ => N.of_nat (length (flat_key t s)) | WDel t s => N.of_nat (length (flat_key t s)) end.
Definition is_set (w : wr) : bool := match w with WSet _ _ _ => true | _ => false end.
Definition key_limit_exceeded (aws : list awr) : bool :=
  existsb (fun w => is_set w && (32768 <? wr_key_len w)) (map wr_of aws).
Definition KF_C22_key_limit (evs : list event) : bool := key_limit_exceeded (awrites_of evs).
