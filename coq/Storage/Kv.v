(* Abstract key-value store used to model the four storage back ends (badger, pebble, bbolt: one
   flat ordered key space with prefix iteration; redis: one hash per record type).  A store is an
   association list; [kv_set] replaces in place or appends, so the model's iteration order is
   insertion order.  The real engines iterate in key order (badger/pebble/bbolt) or in no
   particular order (redis HGETALL); every statement about read-back is therefore made up to
   permutation.  No proofs in this file. *)
From MV Require Import Base.Val.
Open Scope N_scope.

Fixpoint has_prefix (p k : bytes) : bool :=
  match p, k with
  | [], _ => true
  | x :: p', y :: k' => (x =? y) && has_prefix p' k'
  | _ :: _, [] => false
  end.

Section KV.
  Context {V : Type}.

  Definition kv := list (bytes * V).

  Fixpoint kv_get (k : bytes) (s : kv) : option V :=
    match s with
    | [] => None
    | (k', v) :: r => if beq_bytes k k' then Some v else kv_get k r
    end.

  Fixpoint kv_set (k : bytes) (v : V) (s : kv) : kv :=
    match s with
    | [] => [(k, v)]
    | (k', v') :: r => if beq_bytes k k' then (k, v) :: r else (k', v') :: kv_set k v r
    end.

  Fixpoint kv_del (k : bytes) (s : kv) : kv :=
    match s with
    | [] => []
    | (k', v') :: r => if beq_bytes k k' then kv_del k r else (k', v') :: kv_del k r
    end.

  (* iterKv(prefix, visit): the values of all keys starting with [p] *)
  Definition kv_iter (p : bytes) (s : kv) : list V :=
    map snd (filter (fun e => has_prefix p (fst e)) s).

  Definition kv_vals (s : kv) : list V := map snd s.
End KV.
Arguments kv V : clear implicits.

(* redis: HSET / HDEL / HGETALL / HGET on named hashes *)
Section HASHES.
  Context {V : Type}.
  Definition hashes := kv (kv V).

  Definition hash_of (h : bytes) (s : hashes) : kv V :=
    match kv_get h s with Some m => m | None => [] end.
  Definition hset (h f : bytes) (v : V) (s : hashes) : hashes := kv_set h (kv_set f v (hash_of h s)) s.
  Definition hdel (h f : bytes) (s : hashes) : hashes :=
    match kv_get h s with Some m => kv_set h (kv_del f m) s | None => s end.
  Definition hgetall (h : bytes) (s : hashes) : list V := kv_vals (hash_of h s).
  Definition hget (h f : bytes) (s : hashes) : option V := kv_get f (hash_of h s).
End HASHES.
Arguments hashes V : clear implicits.
