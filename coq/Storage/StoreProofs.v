(* C22: the flat layout (badger, pebble, bbolt) and the hash-per-type layout (redis) return the same
   records for every sequence of storage hook events, as long as no key exceeds an engine's key-size
   limit.  Proof: a simulation between the flat store and the hashes, preserved by every logical
   write, from which the read-backs are equal (even as lists, in the model's insertion order). *)
From Coq Require Import Permutation Lia.
From MV Require Import Base.Val Storage.Kv Storage.KvProofs Storage.StoreHooks.
Open Scope N_scope.

Definition erase (v : srec) : srec := with_key [] v.

Lemma erase_with_key k v : erase (with_key k v) = erase v.
Proof. destruct v; reflexivity. Qed.

Definition is_main (t : rtype) : bool := match t with TSYS => false | _ => true end.

Definition rtype_eqb (a b : rtype) : bool :=
  match a, b with
  | TCL, TCL | TSUB, TSUB | TRET, TRET | TIFM, TIFM | TSYS, TSYS => true
  | _, _ => false
  end.

Lemma rtype_eqb_eq a b : rtype_eqb a b = true <-> a = b.
Proof. destruct a, b; cbn; split; intro H; try reflexivity; try discriminate. Qed.

(* prefix iteration over "<TYPE>" sees exactly the keys of that type *)
Lemma prefix_flat_key t' t suf : is_main t' = true ->
  has_prefix (type_tag t') (flat_key t suf) = rtype_eqb t' t.
Proof. intro M. destruct t', t; try discriminate M; reflexivity. Qed.

Lemma sys_flat_key t suf : beq_bytes (type_tag TSYS) (flat_key t suf) = rtype_eqb TSYS t.
Proof. destruct t; reflexivity. Qed.

Lemma hname_inj t' t : beq_bytes (hname t') (hname t) = rtype_eqb t' t.
Proof. destruct t', t; vm_compute; reflexivity. Qed.

Definition pfx (t : rtype) (f : bytes) : bytes := type_tag t ++ underscore :: f.

Lemma pfx_inj t a b : beq_bytes (pfx t a) (pfx t b) = beq_bytes a b.
Proof. unfold pfx. rewrite beq_bytes_app. cbn [beq_bytes]. rewrite N.eqb_refl. reflexivity. Qed.

Lemma flat_key_main t suf : is_main t = true -> flat_key t suf = pfx t suf.
Proof. destruct t; try discriminate; reflexivity. Qed.

(* writes on the system info always use the key "SYS" (sysInfoKey()) *)
Definition wf_wr (w : wr) : Prop :=
  match w with
  | WSet TSYS s _ => s = type_tag TSYS
  | WDel TSYS s => s = type_tag TSYS
  | _ => True
  end.

Lemma wr_of_wf a : wf_wr (wr_of a).
Proof. destruct a; cbn [wr_of wf_wr]; exact Logic.I || reflexivity. Qed.

Lemma writes_wf aws w : In w (map wr_of aws) -> wf_wr w.
Proof. intro H. apply in_map_iff in H. destruct H as [a [<- _]]. apply wr_of_wf. Qed.

(* ---------- the simulation ---------- *)

Definition ev (e : bytes * srec) : bytes * srec := (fst e, erase (snd e)).
Definition pv (t : rtype) (e : bytes * srec) : bytes * srec := (pfx t (fst e), erase (snd e)).

Record sim (s : kv srec) (h : hashes srec) : Prop := mkSim {
  sim_main : forall t, is_main t = true ->
    map ev (filter (keyp (has_prefix (type_tag t))) s) = map (pv t) (hash_of (hname t) h);
  sim_sys : option_map erase (kv_get (type_tag TSYS) s) =
            option_map erase (kv_get (type_tag TSYS) (hash_of (hname TSYS) h)) }.

Lemma sim_empty : sim [] [].
Proof. split; [intros t _|]; reflexivity. Qed.

Lemma id_inj (a b : bytes) : beq_bytes ((fun x => x) a) ((fun x => x) b) = beq_bytes a b.
Proof. reflexivity. Qed.

Lemma map_ev_set k v s : map ev (kv_set k v s) = kv_set k (erase v) (map ev s).
Proof. exact (map_kv_set (fun x => x) erase id_inj k v s). Qed.
Lemma map_ev_del k s : map ev (kv_del k s) = kv_del k (map ev s).
Proof. exact (map_kv_del (fun x => x) erase id_inj k s). Qed.
Lemma map_pv_set t k v s : map (pv t) (kv_set k v s) = kv_set (pfx t k) (erase v) (map (pv t) s).
Proof. exact (map_kv_set (pfx t) erase (pfx_inj t) k v s). Qed.
Lemma map_pv_del t k s : map (pv t) (kv_del k s) = kv_del (pfx t k) (map (pv t) s).
Proof. exact (map_kv_del (pfx t) erase (pfx_inj t) k s). Qed.

Lemma option_map_get_set_same k (v : srec) s :
  option_map erase (kv_get k (kv_set k v s)) = Some (erase v).
Proof. rewrite kv_get_set_same. reflexivity. Qed.

Definition wr_fits (b : backend) (w : wr) : Prop :=
  match w with WSet t suf _ => key_fits b (flat_key t suf) = true | WDel _ _ => True end.

Lemma sim_step b s h w : wf_wr w -> wr_fits b w -> sim s h -> sim (flat_apply b s w) (hash_apply h w).
Proof.
  intros WF FIT [SM SS]. destruct w as [t suf v | t suf]; cbn [flat_apply hash_apply].
  - (* set *)
    cbn [wr_fits] in FIT. rewrite FIT. split.
    + intros t' M. pose proof (SM t' M) as IH.
      destruct (rtype_eqb t' t) eqn:E.
      * apply rtype_eqb_eq in E. subst t'.
        rewrite filter_set_in by (rewrite prefix_flat_key by exact M; destruct t; reflexivity || discriminate M).
        rewrite map_ev_set, erase_with_key, IH.
        rewrite hash_of_hset_same, map_pv_set, erase_with_key.
        rewrite flat_key_main by exact M. reflexivity.
      * rewrite filter_set_out by (rewrite prefix_flat_key by exact M; exact E).
        rewrite hash_of_hset_other by (rewrite hname_inj; exact E). exact IH.
    + destruct (rtype_eqb TSYS t) eqn:E.
      * apply rtype_eqb_eq in E. subst t. cbn [wf_wr] in WF. subst suf.
        cbn [flat_key]. rewrite option_map_get_set_same, erase_with_key.
        rewrite hash_of_hset_same, option_map_get_set_same, erase_with_key. reflexivity.
      * rewrite kv_get_set_other by (rewrite sys_flat_key; exact E).
        rewrite hash_of_hset_other by (rewrite hname_inj; exact E). exact SS.
  - (* delete *)
    split.
    + intros t' M. pose proof (SM t' M) as IH.
      rewrite filter_del.
      destruct (rtype_eqb t' t) eqn:E.
      * apply rtype_eqb_eq in E. subst t'.
        rewrite map_ev_del, IH, hash_of_hdel_same, map_pv_del.
        rewrite flat_key_main by exact M. reflexivity.
      * rewrite <- filter_del, filter_del_out by (rewrite prefix_flat_key by exact M; exact E).
        rewrite hash_of_hdel_other by (rewrite hname_inj; exact E). exact IH.
    + destruct (rtype_eqb TSYS t) eqn:E.
      * apply rtype_eqb_eq in E. subst t. cbn [wf_wr] in WF. subst suf.
        cbn [flat_key]. rewrite kv_get_del_same, hash_of_hdel_same, kv_get_del_same. reflexivity.
      * rewrite kv_get_del_other by (rewrite sys_flat_key; exact E).
        rewrite hash_of_hdel_other by (rewrite hname_inj; exact E). exact SS.
Qed.

Lemma sim_run b ws : forall s h,
  (forall w, In w ws -> wf_wr w /\ wr_fits b w) -> sim s h ->
  sim (fold_left (flat_apply b) ws s) (fold_left hash_apply ws h).
Proof.
  induction ws as [|w ws IH]; intros s h H S; cbn [fold_left]; [exact S|].
  apply IH; [intros w' I; apply H; right; exact I|].
  destruct (H w (or_introl eq_refl)) as [WF FIT]. apply sim_step; assumption.
Qed.

(* ---------- from the simulation to the read-backs ---------- *)

Lemma filter_map_map {A B} (f : A -> option B) (g : A -> A) (h : B -> B) (l : list A) :
  (forall x, f (g x) = option_map h (f x)) -> filter_map f (map g l) = map h (filter_map f l).
Proof.
  intro H. induction l as [|x r IH]; cbn [map filter_map]; [reflexivity|].
  rewrite H. destruct (f x); cbn [option_map map]; rewrite IH; reflexivity.
Qed.

Lemma as_client_erase v : as_client (erase v) = option_map (fun c => c) (as_client v).
Proof. destruct v; reflexivity. Qed.
Lemma as_sub_erase v : as_sub (erase v) = option_map erase_sub_key (as_sub v).
Proof. destruct v; reflexivity. Qed.
Lemma as_msg_erase v : as_msg (erase v) = option_map erase_msg_key (as_msg v).
Proof. destruct v; reflexivity. Qed.
Lemma as_sys_erase v : bind_opt (option_map erase v) as_sys = bind_opt v as_sys.
Proof. destruct v as [[]|]; reflexivity. Qed.

Lemma map_id {A} (l : list A) : map (fun c => c) l = l.
Proof. induction l as [|x r IH]; cbn [map]; [reflexivity|]. rewrite IH. reflexivity. Qed.

(* the read-back with storage keys erased, as a function of the erased values per type *)
Definition rb_of (vals : rtype -> list srec) (sys : option srec) : readback :=
  mkReadback (filter_map as_client (vals TCL)) (filter_map as_sub (vals TSUB))
             (filter_map as_msg (vals TIFM)) (filter_map as_msg (vals TRET)) (bind_opt sys as_sys).

Lemma erase_keys_read_back st :
  erase_keys (read_back st) =
  rb_of (fun t => map erase (values_of_type st t)) (option_map erase (sys_value st)).
Proof.
  unfold erase_keys, read_back, rb_of. cbn [rb_clients rb_subs rb_inflight rb_retained rb_sys].
  rewrite (filter_map_map as_client erase (fun c => c) _ as_client_erase), map_id.
  rewrite (filter_map_map as_sub erase erase_sub_key _ as_sub_erase).
  rewrite !(filter_map_map as_msg erase erase_msg_key _ as_msg_erase).
  rewrite as_sys_erase. reflexivity.
Qed.

Lemma map_snd_ev l : map snd (map ev l) = map erase (map snd l).
Proof. rewrite !map_map. reflexivity. Qed.
Lemma map_snd_pv t l : map snd (map (pv t) l) = map erase (map snd l).
Proof. rewrite !map_map. reflexivity. Qed.

Lemma sim_values s h t : is_main t = true -> sim s h ->
  map erase (values_of_type (FlatStore s) t) = map erase (values_of_type (HashStore h) t).
Proof.
  intros M [SM _]. cbn [values_of_type]. unfold kv_iter, hgetall, kv_vals.
  rewrite <- map_snd_ev, <- (map_snd_pv t). f_equal. exact (SM t M).
Qed.

Lemma sim_read_back s h : sim s h ->
  erase_keys (read_back (FlatStore s)) = erase_keys (read_back (HashStore h)).
Proof.
  intro S. rewrite !erase_keys_read_back. unfold rb_of.
  rewrite (sim_values s h TCL eq_refl S), (sim_values s h TSUB eq_refl S),
          (sim_values s h TIFM eq_refl S), (sim_values s h TRET eq_refl S).
  cbn [sys_value]. unfold hget. rewrite (sim_sys _ _ S). reflexivity.
Qed.

(* ---------- the theorem ---------- *)

Lemma key_limit_fits aws : key_limit_exceeded aws = false ->
  forall b w, In w (map wr_of aws) -> wr_fits b w.
Proof.
  intros K b w HI. destruct w as [t suf v|]; [|exact Logic.I]. cbn [wr_fits].
  unfold key_limit_exceeded in K.
  assert (E : (is_set (WSet t suf v) && (32768 <? wr_key_len (WSet t suf v))) = false).
  { destruct (is_set (WSet t suf v) && (32768 <? wr_key_len (WSet t suf v))) eqn:E; [|reflexivity].
    assert (X : existsb (fun w => is_set w && (32768 <? wr_key_len w)) (map wr_of aws) = true)
      by (apply existsb_exists; eexists; split; [exact HI | exact E]).
    rewrite X in K. discriminate. }
  cbn [is_set wr_key_len andb] in E. apply N.ltb_ge in E.
  unfold key_fits. destruct b; cbn [max_key]; try reflexivity; apply N.leb_le; lia.
Qed.

Definition is_flat (b : backend) : bool := match b with Redis => false | _ => true end.

Lemma flat_run b aws : is_flat b = true ->
  run_awrites b aws = FlatStore (fold_left (flat_apply b) (map wr_of aws) []).
Proof.
  intro F. unfold run_awrites, apply_writes.
  assert (G : forall ws s, fold_left (apply_wr b) ws (FlatStore s) = FlatStore (fold_left (flat_apply b) ws s)).
  { induction ws as [|w ws IH]; intro s; cbn [fold_left apply_wr]; [reflexivity | apply IH]. }
  destruct b; try discriminate F; apply G.
Qed.

Lemma hash_run aws : run_awrites Redis aws = HashStore (fold_left hash_apply (map wr_of aws) []).
Proof.
  unfold run_awrites, apply_writes. cbn [empty_store].
  assert (G : forall ws s, fold_left (apply_wr Redis) ws (HashStore s) = HashStore (fold_left hash_apply ws s)).
  { induction ws as [|w ws IH]; intro s; cbn [fold_left apply_wr]; [reflexivity | apply IH]. }
  apply G.
Qed.

(* every back end returns what redis returns, for every sequence of writes within the key limits *)
Lemma same_as_redis aws b : key_limit_exceeded aws = false ->
  erase_keys (read_back (run_awrites b aws)) = erase_keys (read_back (run_awrites Redis aws)).
Proof.
  intro K. destruct (is_flat b) eqn:F; [|destruct b; try discriminate F; reflexivity].
  rewrite (flat_run b aws F), hash_run. apply sim_read_back. apply sim_run; [|exact sim_empty].
  intros w HI. split; [eapply writes_wf; exact HI | eapply key_limit_fits; eauto].
Qed.

Lemma erase_keys_equiv r1 r2 : erase_keys r1 = erase_keys r2 -> rb_equiv r1 r2.
Proof.
  unfold erase_keys. intro H. injection H as H1 H2 H3 H4 H5. unfold rb_equiv.
  rewrite H1, H2, H3, H4, H5. repeat split; apply Permutation_refl.
Qed.

Theorem same_modulo_key_limit : forall evs, KF_C22_key_limit evs = false ->
  forall b1 b2, rb_equiv (read_back (run_hooks b1 evs)) (read_back (run_hooks b2 evs)).
Proof.
  intros evs K b1 b2. apply erase_keys_equiv. unfold run_hooks.
  rewrite (same_as_redis _ b1 K), (same_as_redis _ b2 K). reflexivity.
Qed.

(* the back ends that accept every key in range (pebble, redis) agree on every history *)
Theorem pebble_redis_same : forall evs,
  rb_equiv (read_back (run_hooks Pebble evs)) (read_back (run_hooks Redis evs)).
Proof.
  intro evs. apply erase_keys_equiv. unfold run_hooks.
  rewrite (flat_run Pebble _ eq_refl), hash_run. apply sim_read_back. apply sim_run; [|exact sim_empty].
  intros w HI. split; [eapply writes_wf; exact HI|]. destruct w; [reflexivity | exact Logic.I].
Qed.

(* ---------- the full statement fails: a key longer than bbolt's limit ---------- *)

Definition long_id : bytes := repeat 107 (N.to_nat 32766).   (* "CL_" + 32766 bytes = 32769 > 32768 *)
Definition long_client : rclient :=
  mkRClient (mkClientRec long_id [] [] [] false 4 0 false 0 false (VL []) (VL [])) false.
Definition long_history : list event := [ESessionEstablished long_client].

Lemma long_history_kf : KF_C22_key_limit long_history = true.
Proof. vm_compute. reflexivity. Qed.

Lemma long_history_differs :
  ~ rb_equiv (read_back (run_hooks Bolt long_history)) (read_back (run_hooks Redis long_history)).
Proof.
  intros [H _].
  assert (B : rb_clients (read_back (run_hooks Bolt long_history)) = []) by (vm_compute; reflexivity).
  assert (R : length (rb_clients (read_back (run_hooks Redis long_history))) = 1%nat) by (vm_compute; reflexivity).
  rewrite B in H. apply Permutation_nil in H. rewrite H in R. discriminate.
Qed.
