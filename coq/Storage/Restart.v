(* C20 / C21: the abstract session state defined by the storage writes (what the broker asked the
   store to remember, with structured keys), and the model of the restart path of server.go
   (readStore, loadClients, loadSubscriptions, loadInflight, loadRetained, storage.Message.ToPacket)
   working on what the Stored* methods return.  No proofs in this file. *)
From MV Require Import Base.Val Storage.Kv Storage.StoreHooks.
Open Scope N_scope.

(* ---------- association maps over an arbitrary key type ---------- *)
Section AMAP.
  Context {K V : Type}.
  Variable keqb : K -> K -> bool.
  Definition amap := list (K * V).

  Fixpoint aget (k : K) (m : amap) : option V :=
    match m with [] => None | (k', v) :: r => if keqb k k' then Some v else aget k r end.
  Fixpoint aset (k : K) (v : V) (m : amap) : amap :=
    match m with
    | [] => [(k, v)]
    | (k', v') :: r => if keqb k k' then (k, v) :: r else (k', v') :: aset k v r
    end.
  Fixpoint adel (k : K) (m : amap) : amap :=
    match m with
    | [] => []
    | (k', v') :: r => if keqb k k' then adel k r else (k', v') :: adel k r
    end.
End AMAP.
Arguments amap K V : clear implicits.

Definition sub_key := (bytes * bytes)%type.      (* (client id, filter) *)
Definition ifm_key := (bytes * N)%type.          (* (client id, packet id) *)
Definition sub_key_eqb (a b : sub_key) : bool := beq_bytes (fst a) (fst b) && beq_bytes (snd a) (snd b).
Definition ifm_key_eqb (a b : ifm_key) : bool := beq_bytes (fst a) (fst b) && (snd a =? snd b).

(* ---------- the abstract state defined by the writes ---------- *)

Record astate := mkAState {
  as_cl : amap bytes client_rec;               (* sessions: client id -> client as last written *)
  as_sub : amap sub_key (subscription * N);    (* (client, filter) -> options, granted QoS *)
  as_ret : amap bytes (bytes * pkt);           (* topic -> publishing client, retained publish *)
  as_ifm : amap ifm_key (pkt * N);             (* (client, packet id) -> in-flight packet, time sent *)
  as_sys : option val }.

Definition astate0 : astate := mkAState [] [] [] [] None.

Definition astep (st : astate) (a : awr) : astate :=
  match a with
  | ASetClient c => mkAState (aset beq_bytes (cr_id c) c (as_cl st)) (as_sub st) (as_ret st) (as_ifm st) (as_sys st)
  | ADelClient cid => mkAState (adel beq_bytes cid (as_cl st)) (as_sub st) (as_ret st) (as_ifm st) (as_sys st)
  | ASetSub cid s g =>
      mkAState (as_cl st) (aset sub_key_eqb (cid, su_filter s) (s, g) (as_sub st)) (as_ret st) (as_ifm st) (as_sys st)
  | ADelSub cid f => mkAState (as_cl st) (adel sub_key_eqb (cid, f) (as_sub st)) (as_ret st) (as_ifm st) (as_sys st)
  | ASetRet cid p => mkAState (as_cl st) (as_sub st) (aset beq_bytes (p_topic p) (cid, p) (as_ret st)) (as_ifm st) (as_sys st)
  | ADelRet t => mkAState (as_cl st) (as_sub st) (adel beq_bytes t (as_ret st)) (as_ifm st) (as_sys st)
  | ASetIfm cid p sent =>
      mkAState (as_cl st) (as_sub st) (as_ret st) (aset ifm_key_eqb (cid, p_pid p) (p, sent) (as_ifm st)) (as_sys st)
  | ADelIfm cid pid => mkAState (as_cl st) (as_sub st) (as_ret st) (adel ifm_key_eqb (cid, pid) (as_ifm st)) (as_sys st)
  | ASetSys info => mkAState (as_cl st) (as_sub st) (as_ret st) (as_ifm st) (Some info)
  end.

Definition arun (aws : list awr) : astate := fold_left astep aws astate0.

(* ---------- what a restart has to reproduce (specification) ---------- *)

(* MQTT 3.1.2.4 / 3.1.2.11.2: the session ends with the network connection when the session expiry
   interval is 0 (MQTT 5) or Clean Session was set (MQTT 3); a broker shutdown closes every
   connection *)
Definition ends_on_disconnect (c : client_rec) : bool :=
  ((cr_ver c =? 5) && (cr_sei c =? 0)) || ((cr_ver c <? 5) && cr_clean c).

(* a session as observed: everything persisted about the client except the remote address of the
   connection it last used *)
Definition session_obs (c : client_rec) : client_rec :=
  mkClientRec (cr_id c) (cr_listener c) [] (cr_username c) (cr_clean c) (cr_ver c) (cr_sei c)
              (cr_sei_flag c) (cr_rpi c) (cr_rpi_flag c) (cr_props c) (cr_will c).

(* a subscription as observed: its options with the granted QoS *)
Definition sub_obs (s : subscription) (granted : N) : subscription :=
  mkSub (su_filter s) (su_identifier s) (su_rh s) granted (su_rap s) (su_nolocal s).

(* minimum of the non-zero values (server.go minimum) *)
Definition min_nz (a b : N) : N :=
  if a =? 0 then b else if (b =? 0) || (a <? b) then a else b.

(* the expiry time the broker gives a message created at [created] with message expiry interval
   [mei] under the server's maximum message expiry interval [maxcap] (server.go:888, 994) *)
Definition regular_expiry (maxcap : N) (created mei : N) : Z :=
  let e := min_nz maxcap mei in if e =? 0 then 0%Z else Z.of_N (created + e).

(* the message expiry interval only means something on a PUBLISH (packet type 3); an acknowledgement
   kept in flight merely copies the properties of its PUBLISH *)
Definition fh_type (fh : val) : N := match fh with VL (VN t :: _) => t | _ => 3 end.
Definition eff_mei (fh : val) (mei : N) : N := if fh_type fh =? 3 then mei else 0.

(* a message as observed: content, properties, and its expiry behaviour: the time after which the
   broker drops it (clearExpiredRetainedMessages / ClearExpiredInflights) and the expiry time from
   which the remaining interval sent to receivers is computed (clients.go WritePacket) *)
Record msg_obs := mkMsgObs {
  mo_fh : val; mo_pid : N; mo_topic : bytes; mo_payload : bytes; mo_origin : bytes; mo_created : N;
  mo_deadline : option Z; mo_wire_expiry : Z;
  mo_pf : N; mo_pf_flag : bool; mo_mei : N; mo_props : val }.

Definition min_optz (a b : option Z) : option Z :=
  match a, b with
  | Some x, Some y => Some (Z.min x y)
  | Some x, None => Some x
  | None, y => y
  end.

(* inflight.go heldExpiry: a message held back by flow control carries its expiry time as
   -1 - expiry (so -1 when it has none); held or not, the expiry time is the same *)
Definition unhold (e : Z) : Z := if (e <? 0)%Z then (-1 - e)%Z else e.

Definition deadline (maxcap : N) (p : pkt) : option Z :=
  let e := unhold (p_expiry p) in
  min_optz (if (p_ver p =? 5) && (0 <? e)%Z then Some e else None)
           (if 0 <? maxcap then Some (Z.of_N (p_created p + maxcap)) else None).

(* only a PUBLISH is written with a message expiry interval *)
Definition wire_expiry (p : pkt) : Z :=
  let e := unhold (p_expiry p) in
  if (match p_fh p with VL (VN t :: _) => t | _ => 3 end =? 3) && (0 <? e)%Z then e else 0%Z.

(* the fixed header (type qos dup retain remaining) without the DUP flag: the flag of a stored
   record is never sent as it is (every delivery from the in-flight store sets it, every delivery of
   a retained message clears it) *)
Definition fh_obs (fh : val) : val :=
  match fh with VL [t; q; d; r; rem] => VL [t; q; r; rem] | _ => fh end.

Definition obs_of_pkt (maxcap : N) (p : pkt) : msg_obs :=
  mkMsgObs (fh_obs (p_fh p)) (p_pid p) (p_topic p) (p_payload p) (p_origin p) (p_created p)
           (deadline maxcap p) (wire_expiry p) (p_pf p) (p_pf_flag p) (p_mei p) (strip_alias (p_props p)).

Definition is_nil {A} (l : list A) : bool := match l with [] => true | _ => false end.

Section SPEC.
  Variable maxcap : N.
  Variable st : astate.

  Definition spec_session (cid : bytes) : option client_rec :=
    match aget beq_bytes cid (as_cl st) with
    | Some c => if ends_on_disconnect c then None else Some (session_obs c)
    | None => None
    end.

  Definition has_session (cid : bytes) : bool :=
    match spec_session cid with Some _ => true | None => false end.

  (* subscriptions and in-flight messages belong to a session *)
  Definition spec_sub (k : sub_key) : option subscription :=
    if has_session (fst k)
    then option_map (fun sg => sub_obs (fst sg) (snd sg)) (aget sub_key_eqb k (as_sub st))
    else None.

  Definition spec_ifm (k : ifm_key) : option msg_obs :=
    if has_session (fst k) then option_map (fun ps => obs_of_pkt maxcap (fst ps)) (aget ifm_key_eqb k (as_ifm st)) else None.

  (* a retained publish without payload clears the topic (MQTT 3.3.1.3) *)
  Definition spec_ret (topic : bytes) : option msg_obs :=
    match aget beq_bytes topic (as_ret st) with
    | Some (_, p) => if is_nil (p_payload p) then None
                else Some (obs_of_pkt maxcap (mkPkt (p_fh p) 0 (p_topic p) (p_payload p) (p_origin p) (p_created p)
                                                    (p_expiry p) (p_ver p) (p_pf p) (p_pf_flag p) (p_mei p) (p_props p)))
    | None => None
    end.
End SPEC.

(* ---------- model of the restart path ---------- *)

(* storage.Message.ToPacket followed by Server.restoreExpiry: the expiry time and the protocol
   version are not stored; the expiry time is recomputed from Created and the message expiry
   interval, and the packet marked MQTT 5 so that the expiry checks apply to it *)
Definition to_packet (maxcap : N) (m : msg_rec) : pkt :=
  let e := regular_expiry maxcap (mr_created m) (eff_mei (mr_fh m) (mr_mei m)) in
  mkPkt (mr_fh m) (mr_pid m) (mr_topic m) (mr_payload m) (mr_origin m) (mr_created m)
        e (if (0 <? e)%Z then 5 else 0) (mr_pf m) (mr_pf_flag m) (mr_mei m) (mr_props m).

Record rstate := mkRState {
  rs_cl : amap bytes client_rec;
  rs_sub : amap sub_key subscription;
  rs_ifm : amap ifm_key pkt;
  rs_ret : amap bytes pkt;
  rs_sys : option (bytes * val) }.

(* loadClients: NewClient(nil, listener, id) has no remote address; a client whose session ended
   with its connection is not added *)
Definition load_clients (cs : list client_rec) : amap bytes client_rec :=
  fold_left (fun m c => if ends_on_disconnect c then m else aset beq_bytes (cr_id c) (session_obs c) m) cs [].

Definition has_client (cl : amap bytes client_rec) (cid : bytes) : bool :=
  match aget beq_bytes cid cl with Some _ => true | None => false end.

(* loadSubscriptions: only for restored clients *)
Definition load_subs (cl : amap bytes client_rec) (ss : list sub_rec) : amap sub_key subscription :=
  fold_left (fun m s => if has_client cl (sr_client s)
                        then aset sub_key_eqb (sr_client s, sr_filter s)
                                  (mkSub (sr_filter s) (sr_identifier s) (sr_rh s) (sr_qos s) (sr_rap s) (sr_nolocal s)) m
                        else m) ss [].

(* loadInflight: client.State.Inflight.Set(msg.ToPacket()) for restored clients, keyed by packet id *)
Definition load_inflight (maxcap : N) (cl : amap bytes client_rec) (ms : list msg_rec) : amap ifm_key pkt :=
  fold_left (fun m r => if has_client cl (mr_client r)
                        then aset ifm_key_eqb (mr_client r, mr_pid r) (to_packet maxcap r) m else m) ms [].

(* loadRetained: Topics.RetainMessage(msg.ToPacket()): set when there is a payload, else clear *)
Definition load_retained (maxcap : N) (ms : list msg_rec) : amap bytes pkt :=
  fold_left (fun m r => if is_nil (mr_payload r) then adel beq_bytes (mr_topic r) m
                        else aset beq_bytes (mr_topic r) (to_packet maxcap r) m) ms [].

Definition restart (maxcap : N) (rb : readback) : rstate :=
  let cl := load_clients (rb_clients rb) in
  mkRState cl (load_subs cl (rb_subs rb)) (load_inflight maxcap cl (rb_inflight rb))
           (load_retained maxcap (rb_retained rb)) (rb_sys rb).

(* loadClients also calls OnDisconnect(cl, ErrServerShuttingDown, expire) for every stored client:
   the writes a restart itself makes *)
Definition restart_events (rb : readback) : list event :=
  let cl := load_clients (rb_clients rb) in
  map (fun c => EDisconnect (mkRClient (session_obs c) false) (ends_on_disconnect c)) (rb_clients rb) ++
  (* loadSubscriptions / loadInflight: records of client ids without a restored session are dropped
     from the store through OnUnsubscribed / OnQosDropped *)
  map (fun s => EUnsubscribed (sr_client s) [sr_filter s])
      (filter (fun s => negb (has_client cl (sr_client s))) (rb_subs rb)) ++
  map (fun m => EQosDropped (mr_client m) (mr_pid m))
      (filter (fun m => negb (has_client cl (mr_client m))) (rb_inflight rb)).

(* what is observed of the restored state *)
Section RESTORED.
  Variable maxcap : N.
  Variable rs : rstate.
  Definition rest_session (cid : bytes) : option client_rec := aget beq_bytes cid (rs_cl rs).
  Definition rest_sub (k : sub_key) : option subscription := aget sub_key_eqb k (rs_sub rs).
  Definition rest_ifm (k : ifm_key) : option msg_obs := option_map (obs_of_pkt maxcap) (aget ifm_key_eqb k (rs_ifm rs)).
  Definition rest_ret (t : bytes) : option msg_obs := option_map (obs_of_pkt maxcap) (aget beq_bytes t (rs_ret rs)).
End RESTORED.

(* C20: the restored state is the state the writes describe *)
Definition restores (maxcap : N) (rs : rstate) (st : astate) : Prop :=
  (forall cid, rest_session rs cid = spec_session st cid) /\
  (forall k, rest_sub rs k = spec_sub st k) /\
  (forall k, rest_ifm maxcap rs k = spec_ifm maxcap st k) /\
  (forall t, rest_ret maxcap rs t = spec_ret maxcap st t).

(* ---------- known findings, as predicates on the writes ---------- *)

Fixpoint sub_keys (aws : list awr) : list sub_key :=
  match aws with
  | [] => []
  | ASetSub cid s _ :: r => (cid, su_filter s) :: sub_keys r
  | ADelSub cid f :: r => (cid, f) :: sub_keys r
  | _ :: r => sub_keys r
  end.

(* two different (client id, filter) pairs of the history share the storage key "<id>:<filter>" *)
Definition collide (a b : sub_key) : bool :=
  negb (sub_key_eqb a b) && beq_bytes (sub_suffix (fst a) (snd a)) (sub_suffix (fst b) (snd b)).
Definition KF_C20_sub_key_collision (aws : list awr) : bool :=
  let ks := sub_keys aws in existsb (fun a => existsb (collide a) ks) ks.

(* a stored message whose expiry time is not the one the broker derives from its creation time and
   message expiry interval (set to -1 by the deferral path C25-1, to the due time of a delayed will
   C16-3): it cannot be recomputed after a restart *)
Definition irregular (maxcap : N) (p : pkt) : bool :=
  if fh_type (p_fh p) =? 3
  then negb (unhold (p_expiry p) =? regular_expiry maxcap (p_created p) (eff_mei (p_fh p) (p_mei p)))%Z
       || ((0 <? eff_mei (p_fh p) (p_mei p)) && negb (p_ver p =? 5))   (* an expiry interval on a packet not marked MQTT 5 *)
  else (* an acknowledgement kept in flight: its expiry time only counts if it is marked MQTT 5 *)
       (p_ver p =? 5) && negb (unhold (p_expiry p) =? regular_expiry maxcap (p_created p) 0)%Z.
Definition KF_C20_irregular_expiry (maxcap : N) (aws : list awr) : bool :=
  existsb (fun a => match a with
                    | ASetRet _ p => irregular maxcap p
                    | ASetIfm _ p _ => irregular maxcap p
                    | _ => false
                    end) aws.

(* packet identifiers are 16 bit *)
Definition pids_ok (aws : list awr) : bool :=
  forallb (fun a => match a with
                    | ASetIfm _ p _ => p_pid p <? 65536
                    | ADelIfm _ pid => pid <? 65536
                    | _ => true
                    end) aws.
