(* Generic refinement used by the C20 / C21 proofs: a byte-keyed store that holds records under
   encoded keys, against an association map over the structured keys, under the same sequence of
   set / delete operations; and the effect of loading the stored records back into a map keyed by
   the key each record carries. *)
From Coq Require Import Lia.
From MV Require Import Base.Val Storage.Kv Storage.KvProofs Storage.Restart.
Open Scope N_scope.

(* ---------- association maps ---------- *)
Section AMAP.
  Context {K V : Type}.
  Variable keqb : K -> K -> bool.
  Hypothesis keqb_eq : forall a b, keqb a b = true <-> a = b.

  Lemma keqb_refl a : keqb a a = true.
  Proof. apply keqb_eq. reflexivity. Qed.

  Lemma keqb_neq a b : a <> b -> keqb a b = false.
  Proof. intro H. destruct (keqb a b) eqn:E; [|reflexivity]. apply keqb_eq in E. contradiction. Qed.

  Lemma aget_aset_same k (v : V) m : aget keqb k (aset keqb k v m) = Some v.
  Proof.
    induction m as [|[k' v'] r IH]; cbn [aset aget].
    - rewrite keqb_refl. reflexivity.
    - destruct (keqb k k') eqn:E; cbn [aget]; [rewrite keqb_refl; reflexivity|]. rewrite E. exact IH.
  Qed.

  Lemma aget_aset_other k k' (v : V) m : k <> k' -> aget keqb k (aset keqb k' v m) = aget keqb k m.
  Proof.
    intro N. induction m as [|[k2 v2] r IH]; cbn [aset aget].
    - rewrite keqb_neq by exact N. reflexivity.
    - destruct (keqb k' k2) eqn:E; cbn [aget].
      + apply keqb_eq in E. subst k2. rewrite keqb_neq by exact N. reflexivity.
      + rewrite IH. reflexivity.
  Qed.

  Lemma aget_adel_same k (m : amap K V) : aget keqb k (adel keqb k m) = None.
  Proof.
    induction m as [|[k' v'] r IH]; cbn [adel aget]; [reflexivity|].
    destruct (keqb k k') eqn:E; [exact IH|]. cbn [aget]. rewrite E. exact IH.
  Qed.

  Lemma aget_adel_other k k' (m : amap K V) : k <> k' -> aget keqb k (adel keqb k' m) = aget keqb k m.
  Proof.
    intro N. induction m as [|[k2 v2] r IH]; cbn [adel aget]; [reflexivity|].
    destruct (keqb k' k2) eqn:E.
    - apply keqb_eq in E. subst k2. rewrite keqb_neq by exact N. exact IH.
    - cbn [aget]. rewrite IH. reflexivity.
  Qed.
End AMAP.

(* ---------- facts about the byte-keyed store ---------- *)
Section KVFACTS.
  Context {R : Type}.
  Implicit Types (s : kv R).

  Lemma in_kv_set f r k x s : In (f, r) (kv_set k x s) -> (f, r) = (k, x) \/ In (f, r) s.
  Proof.
    induction s as [|[k' v'] t IH]; cbn [kv_set]; intro H.
    - destruct H as [H|[]]. left. symmetry. exact H.
    - destruct (beq_bytes k k').
      + destruct H as [H|H]; [left; symmetry; exact H | right; right; exact H].
      + destruct H as [H|H]; [right; left; exact H|]. destruct (IH H) as [E|E]; [left; exact E | right; right; exact E].
  Qed.

  Lemma in_kv_del f r k s : In (f, r) (kv_del k s) -> In (f, r) s.
  Proof.
    induction s as [|[k' v'] t IH]; cbn [kv_del]; intro H; [exact H|].
    destruct (beq_bytes k k'); [right; exact (IH H)|].
    destruct H as [H|H]; [left; exact H | right; exact (IH H)].
  Qed.

  Lemma keys_kv_set k x s : forall f, In f (map fst (kv_set k x s)) -> f = k \/ In f (map fst s).
  Proof.
    intros f H. apply in_map_iff in H. destruct H as [[f' r] [E H]]. cbn in E. subst f'.
    destruct (in_kv_set _ _ _ _ _ H) as [X|X].
    - left. congruence.
    - right. apply in_map_iff. exists (f, r). split; [reflexivity | exact X].
  Qed.

  Lemma nodup_kv_set k x s : NoDup (map fst s) -> NoDup (map fst (kv_set k x s)).
  Proof.
    induction s as [|[k' v'] t IH]; cbn [kv_set map fst]; intro H.
    - constructor; [intros [] | constructor].
    - inversion H as [|? ? NI ND]; subst. destruct (beq_bytes k k') eqn:E.
      + apply beq_bytes_eq in E. subst k'. cbn [map fst]. constructor; assumption.
      + cbn [map fst]. constructor; [|apply IH; exact ND].
        intro I. destruct (keys_kv_set _ _ _ _ I) as [X|X]; [|exact (NI X)].
        subst k'. rewrite beq_bytes_refl in E. discriminate.
  Qed.

  Lemma nodup_kv_del k s : NoDup (map fst s) -> NoDup (map fst (kv_del k s)).
  Proof.
    induction s as [|[k' v'] t IH]; cbn [kv_del map fst]; intro H; [constructor|].
    inversion H as [|? ? NI ND]; subst. destruct (beq_bytes k k'); [exact (IH ND)|].
    cbn [map fst]. constructor; [|exact (IH ND)].
    intro I. apply NI. apply in_map_iff in I. destruct I as [[f r] [E I]]. cbn in E. subst f.
    apply in_map_iff. exists (k', r). split; [reflexivity | exact (in_kv_del _ _ _ _ I)].
  Qed.

  Lemma kv_get_none_notin k s : ~ In k (map fst s) -> kv_get k s = None.
  Proof.
    induction s as [|[k' v'] t IH]; cbn [kv_get map fst]; intro H; [reflexivity|].
    destruct (beq_bytes k k') eqn:E.
    - apply beq_bytes_eq in E. subst k'. exfalso. apply H. left. reflexivity.
    - apply IH. intro I. apply H. right. exact I.
  Qed.
End KVFACTS.

(* ---------- the refinement ---------- *)
Section REFINE.
  Context {K V R W : Type}.
  Variable keqb : K -> K -> bool.
  Hypothesis keqb_eq : forall a b, keqb a b = true <-> a = b.
  Variable enc : K -> bytes.           (* the storage key of a structured key *)
  Variable rec_of : K -> V -> R.       (* the record stored for a value under a key *)
  Variable key_of : R -> K.            (* the key a loader derives from a stored record *)
  Hypothesis key_of_rec : forall k v, key_of (rec_of k v) = k.

  Inductive op := OSet (k : K) (v : V) | ODel (k : K).
  Definition op_key (o : op) : K := match o with OSet k _ => k | ODel k => k end.

  Definition sstep (s : kv R) (o : op) : kv R :=
    match o with OSet k v => kv_set (enc k) (rec_of k v) s | ODel k => kv_del (enc k) s end.
  Definition mstep (m : amap K V) (o : op) : amap K V :=
    match o with OSet k v => aset keqb k v m | ODel k => adel keqb k m end.
  Definition srun (ops : list op) : kv R := fold_left sstep ops [].
  Definition mrun (ops : list op) : amap K V := fold_left mstep ops [].

  Definition keys (ops : list op) : list K := map op_key ops.
  Definition inj_on (ks : list K) : Prop := forall a b, In a ks -> In b ks -> enc a = enc b -> a = b.

  Lemma srun_snoc ops o : srun (ops ++ [o]) = sstep (srun ops) o.
  Proof. unfold srun. rewrite fold_left_app. reflexivity. Qed.
  Lemma mrun_snoc ops o : mrun (ops ++ [o]) = mstep (mrun ops) o.
  Proof. unfold mrun. rewrite fold_left_app. reflexivity. Qed.
  Lemma keys_snoc ops o : keys (ops ++ [o]) = keys ops ++ [op_key o].
  Proof. unfold keys. rewrite map_app. reflexivity. Qed.

  Lemma inj_on_snoc ks k : inj_on (ks ++ [k]) -> inj_on ks.
  Proof. intros H a b Ia Ib. apply H; apply in_or_app; left; assumption. Qed.

  (* the store under the encoded key holds the record of what the map holds under the key *)
  Lemma get_refines ops : inj_on (keys ops) -> forall k, In k (keys ops) ->
    kv_get (enc k) (srun ops) = option_map (rec_of k) (aget keqb k (mrun ops)).
  Proof.
    induction ops as [|o ops IH] using rev_ind; intros INJ k Ik; [destruct Ik|].
    rewrite srun_snoc, mrun_snoc. rewrite keys_snoc in INJ, Ik.
    assert (INJ' := inj_on_snoc _ _ INJ).
    assert (DEC : k = op_key o \/ (k <> op_key o /\ In k (keys ops))).
    { destruct (keqb k (op_key o)) eqn:E; [left; apply keqb_eq; exact E|]. right.
      assert (N : k <> op_key o) by (intro X; subst k; rewrite (keqb_refl keqb keqb_eq) in E; discriminate).
      split; [exact N|]. apply in_app_or in Ik. destruct Ik as [I|[I|[]]]; [exact I | congruence]. }
    destruct DEC as [-> | [N I]].
    - destruct o as [k' v | k']; cbn [sstep mstep op_key].
      + rewrite kv_get_set_same, (aget_aset_same keqb keqb_eq). reflexivity.
      + rewrite kv_get_del_same, (aget_adel_same keqb). reflexivity.
    - assert (NE : beq_bytes (enc k) (enc (op_key o)) = false).
      { apply beq_bytes_neq. intro X. apply N. apply INJ; [exact Ik | apply in_or_app; right; left; reflexivity | exact X]. }
      destruct o as [k' v | k']; cbn [sstep mstep op_key] in *.
      + rewrite kv_get_set_other by exact NE. rewrite (aget_aset_other keqb keqb_eq) by exact N. apply IH; assumption.
      + rewrite kv_get_del_other by exact NE. rewrite (aget_adel_other keqb keqb_eq) by exact N. apply IH; assumption.
  Qed.

  (* a key that no operation mentions is absent from the map *)
  Lemma mrun_absent ops k : ~ In k (keys ops) -> aget keqb k (mrun ops) = None.
  Proof.
    induction ops as [|o ops IH] using rev_ind; intro NI; [reflexivity|].
    rewrite mrun_snoc. rewrite keys_snoc in NI.
    assert (N1 : ~ In k (keys ops)) by (intro X; apply NI; apply in_or_app; left; exact X).
    assert (N2 : k <> op_key o) by (intro X; apply NI; apply in_or_app; right; left; symmetry; exact X).
    destruct o as [k' v | k']; cbn [mstep op_key] in *.
    - rewrite (aget_aset_other keqb keqb_eq) by exact N2. exact (IH N1).
    - rewrite (aget_adel_other keqb keqb_eq) by exact N2. exact (IH N1).
  Qed.

  (* a value in the map was put there by a set operation *)
  Lemma mrun_origin ops k v : aget keqb k (mrun ops) = Some v -> In (OSet k v) ops.
  Proof.
    induction ops as [|o ops IH] using rev_ind; intro H; [discriminate H|].
    rewrite mrun_snoc in H. apply in_or_app.
    destruct o as [k' v' | k']; cbn [mstep] in H.
    - destruct (keqb k k') eqn:E.
      + apply keqb_eq in E. subst k'. rewrite (aget_aset_same keqb keqb_eq) in H. injection H as ->.
        right. left. reflexivity.
      + rewrite (aget_aset_other keqb keqb_eq) in H
          by (intro X; subst k'; rewrite (keqb_refl keqb keqb_eq) in E; discriminate).
        left. exact (IH H).
    - destruct (keqb k k') eqn:E.
      + apply keqb_eq in E. subst k'. rewrite (aget_adel_same keqb) in H. discriminate H.
      + rewrite (aget_adel_other keqb keqb_eq) in H
          by (intro X; subst k'; rewrite (keqb_refl keqb keqb_eq) in E; discriminate).
        left. exact (IH H).
  Qed.

  (* every stored entry sits under the encoding of the key its record carries, a key of the history *)
  Lemma entries_wf ops f r : In (f, r) (srun ops) -> f = enc (key_of r) /\ In (key_of r) (keys ops).
  Proof.
    induction ops as [|o ops IH] using rev_ind; intro H; [destruct H|].
    rewrite srun_snoc in H. rewrite keys_snoc.
    destruct o as [k v | k]; cbn [sstep] in H.
    - destruct (in_kv_set _ _ _ _ _ H) as [E|I].
      + injection E as -> ->. rewrite key_of_rec. split; [reflexivity|]. apply in_or_app. right. left. reflexivity.
      + destruct (IH I) as [A B]. split; [exact A | apply in_or_app; left; exact B].
    - destruct (IH (in_kv_del _ _ _ _ H)) as [A B]. split; [exact A | apply in_or_app; left; exact B].
  Qed.

  Lemma srun_nodup ops : NoDup (map fst (srun ops)).
  Proof.
    induction ops as [|o ops IH] using rev_ind; [constructor|].
    rewrite srun_snoc. destruct o; cbn [sstep]; [apply nodup_kv_set | apply nodup_kv_del]; exact IH.
  Qed.

  (* ---------- loading the records back ---------- *)

  (* what a loader does with one record: skip it, clear its key, or set its key *)
  Inductive action := Skip | Clear | Put (w : W).
  Variable act : R -> action.

  Definition lstep (m : amap K W) (r : R) : amap K W :=
    match act r with Skip => m | Clear => adel keqb (key_of r) m | Put w => aset keqb (key_of r) w m end.
  Definition load (rs : list R) : amap K W := fold_left lstep rs [].

  Definition put_of (r : R) : option W := match act r with Put w => Some w | _ => None end.

  Lemma load_snoc rs r : load (rs ++ [r]) = lstep (load rs) r.
  Proof. unfold load. rewrite fold_left_app. reflexivity. Qed.

  Lemma load_absent rs k : ~ In k (map key_of rs) -> aget keqb k (load rs) = None.
  Proof.
    induction rs as [|r rs IH] using rev_ind; intro NI; [reflexivity|].
    rewrite load_snoc. rewrite map_app in NI.
    assert (N1 : ~ In k (map key_of rs)) by (intro X; apply NI; apply in_or_app; left; exact X).
    assert (N2 : k <> key_of r) by (intro X; apply NI; apply in_or_app; right; left; symmetry; exact X).
    unfold lstep. destruct (act r).
    - exact (IH N1).
    - rewrite (aget_adel_other keqb keqb_eq) by exact N2. exact (IH N1).
    - rewrite (aget_aset_other keqb keqb_eq) by exact N2. exact (IH N1).
  Qed.

  (* with distinct keys, the loaded map holds under k what the record carrying k puts *)
  Lemma load_lookup rs r : NoDup (map key_of rs) -> In r rs ->
    aget keqb (key_of r) (load rs) = put_of r.
  Proof.
    induction rs as [|x rs IH] using rev_ind; intros ND I; [destruct I|].
    rewrite load_snoc. rewrite map_app in ND. cbn [map] in ND.
    apply NoDup_remove in ND. rewrite app_nil_r in ND. destruct ND as [ND NI].
    apply in_app_or in I. destruct I as [I | [-> | []]].
    - assert (N : key_of r <> key_of x).
      { intro X. apply NI. rewrite <- X. apply in_map. exact I. }
      unfold lstep. destruct (act x).
      + exact (IH ND I).
      + rewrite (aget_adel_other keqb keqb_eq) by exact N. exact (IH ND I).
      + rewrite (aget_aset_other keqb keqb_eq) by exact N. exact (IH ND I).
    - unfold lstep, put_of. destruct (act r).
      + apply load_absent. exact NI.
      + apply (aget_adel_same keqb).
      + apply (aget_aset_same keqb keqb_eq).
  Qed.

  (* the records of a store built by [srun] carry pairwise different keys *)
  Lemma vals_keys_nodup ops : NoDup (map key_of (kv_vals (srun ops))).
  Proof.
    pose proof (srun_nodup ops) as ND. pose proof (entries_wf ops) as WF.
    induction (srun ops) as [|[f r] s IH]; [constructor|].
    cbn [kv_vals map snd fst] in *. inversion ND as [|? ? NI ND']; subst.
    constructor.
    - intro I. apply NI. apply in_map_iff in I. destruct I as [r' [E I]].
      apply in_map_iff in I. destruct I as [[f' r''] [E' I]]. cbn in E'. subst r''.
      destruct (WF f r (or_introl eq_refl)) as [A _]. destruct (WF f' r' (or_intror I)) as [B _].
      apply in_map_iff. exists (f', r'). split; [|exact I]. cbn. rewrite A, B, E. reflexivity.
    - apply IH; [exact ND' | intros f' r' I; apply WF; right; exact I].
  Qed.

  Lemma in_vals_get ops r : In r (kv_vals (srun ops)) -> kv_get (enc (key_of r)) (srun ops) = Some r.
  Proof.
    pose proof (srun_nodup ops) as ND. pose proof (entries_wf ops) as WF.
    induction (srun ops) as [|[f x] s IH]; intro I; [destruct I|].
    cbn [kv_vals map snd fst kv_get] in *. inversion ND as [|? ? NI ND']; subst.
    destruct I as [-> | I].
    - destruct (WF f r (or_introl eq_refl)) as [A _]. rewrite <- A, beq_bytes_refl. reflexivity.
    - assert (WF' : forall f' r', In (f', r') s -> f' = enc (key_of r') /\ In (key_of r') (keys ops))
        by (intros f' r' J; apply WF; right; exact J).
      destruct (beq_bytes (enc (key_of r)) f) eqn:E.
      + apply beq_bytes_eq in E. exfalso. apply NI. apply in_map_iff in I. destruct I as [[f' r'] [E' I]].
        cbn in E'. subst r'. destruct (WF' f' r I) as [B _]. apply in_map_iff. exists (f', r).
        split; [cbn; congruence | exact I].
      + apply IH; assumption.
  Qed.

  Lemma get_in_vals (s : kv R) f r : kv_get f s = Some r -> In r (kv_vals s).
  Proof.
    induction s as [|[f' x] t IH]; cbn [kv_get kv_vals map snd]; intro H; [discriminate H|].
    destruct (beq_bytes f f'); [injection H as ->; left; reflexivity | right; exact (IH H)].
  Qed.

  (* the theorem: loading what the store holds gives, under every key, what the map prescribes *)
  Theorem load_refines ops : inj_on (keys ops) -> forall k,
    aget keqb k (load (kv_vals (srun ops))) =
    match aget keqb k (mrun ops) with Some v => put_of (rec_of k v) | None => None end.
  Proof.
    intros INJ k.
    assert (DEC : In k (keys ops) \/ ~ In k (keys ops)).
    { destruct (existsb (keqb k) (keys ops)) eqn:EX.
      - apply existsb_exists in EX. destruct EX as [k' [Ik E]]. apply keqb_eq in E. subst k'. left. exact Ik.
      - right. intro I.
        assert (X : existsb (keqb k) (keys ops) = true)
          by (apply existsb_exists; exists k; split; [exact I | apply (keqb_refl keqb keqb_eq)]).
        rewrite X in EX. discriminate EX. }
    destruct DEC as [Ik | Nk].
    - pose proof (get_refines ops INJ k Ik) as G.
      destruct (aget keqb k (mrun ops)) as [v|] eqn:A; cbn [option_map] in G.
      + pose proof (get_in_vals _ _ _ G) as I.
        pose proof (load_lookup _ _ (vals_keys_nodup ops) I) as L. rewrite key_of_rec in L. exact L.
      + apply load_absent. intro I. apply in_map_iff in I. destruct I as [r [E I]].
        pose proof (in_vals_get ops r I) as G'. rewrite E, G in G'. discriminate G'.
    - rewrite (mrun_absent ops k Nk). apply load_absent. intro I. apply in_map_iff in I.
      destruct I as [r [E I]]. apply Nk. subst k.
      apply in_map_iff in I. destruct I as [[f r'] [E' I]]. cbn in E'. subst r'.
      exact (proj2 (entries_wf ops f r I)).
  Qed.
End REFINE.

(* operations on other keys do not change what a map holds under a key *)
Section UNTOUCHED.
  Context {K V : Type}.
  Variable keqb : K -> K -> bool.
  Hypothesis keqb_eq : forall a b, keqb a b = true <-> a = b.

  Lemma mrun_app_untouched (ops1 ops2 : list (@op K V)) k : ~ In k (keys ops2) ->
    aget keqb k (mrun keqb (ops1 ++ ops2)) = aget keqb k (mrun keqb ops1).
  Proof.
    induction ops2 as [|o ops2 IH] using rev_ind; intro NI; [rewrite app_nil_r; reflexivity|].
    rewrite app_assoc, mrun_snoc. rewrite keys_snoc in NI.
    assert (N1 : ~ In k (keys ops2)) by (intro X; apply NI; apply in_or_app; left; exact X).
    assert (N2 : k <> op_key o) by (intro X; apply NI; apply in_or_app; right; left; symmetry; exact X).
    destruct o as [k' v | k']; cbn [mstep op_key] in *.
    - rewrite (aget_aset_other keqb keqb_eq) by exact N2. exact (IH N1).
    - rewrite (aget_adel_other keqb keqb_eq) by exact N2. exact (IH N1).
  Qed.
End UNTOUCHED.
