(* Lemmas about the association-list store of Storage/Kv.v. *)
From MV Require Import Base.Val Storage.Kv.
Open Scope N_scope.

Lemma beq_bytes_eq (a b : bytes) : beq_bytes a b = true <-> a = b.
Proof.
  revert b. induction a as [|x a IH]; intros [|y b]; cbn [beq_bytes]; split; intro H;
    try reflexivity; try discriminate.
  - apply andb_true_iff in H. destruct H as [H1 H2]. apply N.eqb_eq in H1. apply IH in H2. congruence.
  - inversion H; subst. apply andb_true_iff. split; [apply N.eqb_refl | apply IH; reflexivity].
Qed.

Lemma beq_bytes_refl (a : bytes) : beq_bytes a a = true.
Proof. apply beq_bytes_eq. reflexivity. Qed.

Lemma beq_bytes_neq (a b : bytes) : a <> b -> beq_bytes a b = false.
Proof.
  intro H. destruct (beq_bytes a b) eqn:E; [|reflexivity]. apply beq_bytes_eq in E. contradiction.
Qed.

Lemma beq_bytes_false (a b : bytes) : beq_bytes a b = false -> a <> b.
Proof. intros H E. subst. rewrite beq_bytes_refl in H. discriminate. Qed.

Lemma beq_bytes_sym (a b : bytes) : beq_bytes a b = beq_bytes b a.
Proof.
  destruct (beq_bytes a b) eqn:E.
  - apply beq_bytes_eq in E. subst. symmetry. apply beq_bytes_refl.
  - symmetry. apply beq_bytes_neq. intro H. subst. rewrite beq_bytes_refl in E. discriminate.
Qed.

Lemma beq_bytes_app (p a b : bytes) : beq_bytes (p ++ a) (p ++ b) = beq_bytes a b.
Proof.
  induction p as [|x p IH]; cbn [app beq_bytes]; [reflexivity|]. rewrite N.eqb_refl, IH. reflexivity.
Qed.

Lemma has_prefix_app (p r : bytes) : has_prefix p (p ++ r) = true.
Proof.
  induction p as [|x p IH]; cbn [app has_prefix]; [reflexivity|]. rewrite N.eqb_refl, IH. reflexivity.
Qed.

Section KV.
  Context {V : Type}.
  Implicit Types (s : kv V) (k : bytes) (v : V).

  Lemma kv_get_set_same k v s : kv_get k (kv_set k v s) = Some v.
  Proof.
    induction s as [|[k' v'] r IH]; cbn [kv_set kv_get].
    - rewrite beq_bytes_refl. reflexivity.
    - destruct (beq_bytes k k') eqn:E; cbn [kv_get]; [rewrite beq_bytes_refl; reflexivity|].
      rewrite E. exact IH.
  Qed.

  Lemma kv_get_set_other k k' v s : beq_bytes k k' = false -> kv_get k (kv_set k' v s) = kv_get k s.
  Proof.
    intro N. induction s as [|[k2 v2] r IH]; cbn [kv_set kv_get].
    - rewrite N. reflexivity.
    - destruct (beq_bytes k' k2) eqn:E; cbn [kv_get].
      + apply beq_bytes_eq in E. subst k2. rewrite N. reflexivity.
      + rewrite IH. reflexivity.
  Qed.

  Lemma kv_get_del_same k s : kv_get k (kv_del k s) = None.
  Proof.
    induction s as [|[k' v'] r IH]; cbn [kv_del kv_get]; [reflexivity|].
    destruct (beq_bytes k k') eqn:E; [exact IH|]. cbn [kv_get]. rewrite E. exact IH.
  Qed.

  Lemma kv_get_del_other k k' s : beq_bytes k k' = false -> kv_get k (kv_del k' s) = kv_get k s.
  Proof.
    intro N. induction s as [|[k2 v2] r IH]; cbn [kv_del kv_get]; [reflexivity|].
    destruct (beq_bytes k' k2) eqn:E.
    - apply beq_bytes_eq in E. subst k2. rewrite N. exact IH.
    - cbn [kv_get]. rewrite IH. reflexivity.
  Qed.

  (* filtering on a predicate of the key commutes with set / delete *)
  Variable P : bytes -> bool.
  Definition keyp := fun e : bytes * V => P (fst e).

  Lemma filter_set_in k v s : P k = true -> filter keyp (kv_set k v s) = kv_set k v (filter keyp s).
  Proof.
    intro Pk. induction s as [|[k' v'] r IH]; cbn [kv_set filter].
    - unfold keyp. cbn [fst]. rewrite Pk. reflexivity.
    - destruct (beq_bytes k k') eqn:E.
      + apply beq_bytes_eq in E. subst k'. cbn [filter]. unfold keyp. cbn [fst]. rewrite Pk.
        cbn [kv_set]. rewrite beq_bytes_refl. reflexivity.
      + cbn [filter]. unfold keyp in *. cbn [fst]. destruct (P k') eqn:Pk'.
        * cbn [kv_set]. rewrite E, IH. reflexivity.
        * exact IH.
  Qed.

  Lemma filter_set_out k v s : P k = false -> filter keyp (kv_set k v s) = filter keyp s.
  Proof.
    intro Pk. induction s as [|[k' v'] r IH]; cbn [kv_set filter].
    - unfold keyp. cbn [fst]. rewrite Pk. reflexivity.
    - destruct (beq_bytes k k') eqn:E.
      + apply beq_bytes_eq in E. subst k'. cbn [filter]. unfold keyp. cbn [fst]. rewrite Pk. reflexivity.
      + cbn [filter]. unfold keyp in *. cbn [fst]. rewrite IH. reflexivity.
  Qed.

  Lemma filter_del k s : filter keyp (kv_del k s) = kv_del k (filter keyp s).
  Proof.
    induction s as [|[k' v'] r IH]; cbn [kv_del filter]; [reflexivity|].
    unfold keyp in *. cbn [fst].
    destruct (beq_bytes k k') eqn:E.
    - destruct (P k'); [cbn [kv_del]; rewrite E|]; exact IH.
    - cbn [filter fst]. destruct (P k'); [cbn [kv_del]; rewrite E, IH; reflexivity | exact IH].
  Qed.

  Lemma filter_del_out k s : P k = false -> filter keyp (kv_del k s) = filter keyp s.
  Proof.
    intro Pk. induction s as [|[k' v'] r IH]; cbn [kv_del filter]; [reflexivity|].
    unfold keyp in *. cbn [fst].
    destruct (beq_bytes k k') eqn:E.
    - apply beq_bytes_eq in E. subst k'. rewrite Pk. exact IH.
    - cbn [filter fst]. rewrite IH. reflexivity.
  Qed.
End KV.

(* mapping keys through an injection and values through any function commutes with set / delete *)
Section MAP.
  Context {V W : Type}.
  Variable f : bytes -> bytes.
  Variable g : V -> W.
  Hypothesis f_inj : forall a b, beq_bytes (f a) (f b) = beq_bytes a b.
  Let m := fun e : bytes * V => (f (fst e), g (snd e)).

  Lemma map_kv_set k v (s : kv V) : map m (kv_set k v s) = kv_set (f k) (g v) (map m s).
  Proof.
    induction s as [|[k' v'] r IH]; cbn [kv_set map]; [reflexivity|].
    unfold m at 2. cbn [fst snd]. rewrite f_inj. destruct (beq_bytes k k'); cbn [map]; [reflexivity|].
    rewrite IH. reflexivity.
  Qed.

  Lemma map_kv_del k (s : kv V) : map m (kv_del k s) = kv_del (f k) (map m s).
  Proof.
    induction s as [|[k' v'] r IH]; cbn [kv_del map]; [reflexivity|].
    unfold m at 2. cbn [fst snd]. rewrite f_inj. destruct (beq_bytes k k'); cbn [map]; [exact IH|].
    rewrite IH. reflexivity.
  Qed.
End MAP.

(* hashes *)
Section HASHES.
  Context {V : Type}.
  Implicit Types (s : hashes V).

  Lemma hash_of_hset_same h f v s : hash_of h (hset h f v s) = kv_set f v (hash_of h s).
  Proof. unfold hset. unfold hash_of at 1. rewrite kv_get_set_same. reflexivity. Qed.

  Lemma hash_of_hset_other h h' f v s : beq_bytes h' h = false -> hash_of h' (hset h f v s) = hash_of h' s.
  Proof. intro N. unfold hset. unfold hash_of at 1 3. rewrite kv_get_set_other by exact N. reflexivity. Qed.

  Lemma hash_of_hdel_same h f s : hash_of h (hdel h f s) = kv_del f (hash_of h s).
  Proof.
    unfold hdel, hash_of. destruct (kv_get h s) as [m|] eqn:E.
    - rewrite kv_get_set_same. reflexivity.
    - rewrite E. reflexivity.
  Qed.

  Lemma hash_of_hdel_other h h' f s : beq_bytes h' h = false -> hash_of h' (hdel h f s) = hash_of h' s.
  Proof.
    intro N. unfold hdel. destruct (kv_get h s) as [m|] eqn:E; [|reflexivity].
    unfold hash_of. rewrite kv_get_set_other by exact N. reflexivity.
  Qed.
End HASHES.
