(* Proofs for C19 over the hook-chain model: for ALL hook stacks (lists of records of arbitrary
   functions), clients, packets, protocol versions and QoS. *)
From MV Require Import Base.Val Topics.Levels Topics.Match Hooks.Chain.
From Coq Require Import Lia.
Open Scope N_scope.

(* ---------- the hook result class is insensitive to %w wrapping ---------- *)
Lemma classify_wrap (e : rawerr) : e <> RNil -> classify (RWrap e) = classify e.
Proof. destruct e; intro H; try reflexivity. contradiction H; reflexivity. Qed.

Lemma classify_wrapn (n : nat) (e : rawerr) : e <> RNil -> classify (wrapn n e) = classify e.
Proof.
  intro H. induction n as [|k IH]; [reflexivity|]. cbn [wrapn]. rewrite classify_wrap; [exact IH|].
  destruct k; cbn; [exact H | discriminate].
Qed.

Lemma classify_sentinels (n : nat) (c : N) :
  classify (wrapn n RReject) = EReject /\ classify (wrapn n RIgnore) = EIgnore /\
  classify (wrapn n (RCode c)) = ECode c /\ classify (wrapn n RPlain) = EOther.
Proof. repeat split; rewrite classify_wrapn; try reflexivity; discriminate. Qed.

(* ---------- order: registration order, each hook sees the previous output ---------- *)

Lemma publish_from_trace (hs : list hook) (cl : client) (pk0 p : ppkt) :
  pub_trace cl (providers hk_publish hs) p (snd (publish_from hs cl pk0 p)).
Proof.
  revert p; induction hs as [|h r IH]; intro p; cbn [publish_from providers filter].
  - constructor.
  - destruct (hk_publish h) as [f|] eqn:Hf.
    + destruct (snd (f cl p)) eqn:He.
      * specialize (IH (fst (f cl p))). fold (providers hk_publish r).
        destruct (publish_from r cl pk0 (fst (f cl p))) as [[p' e'] lg]. cbn [snd] in *.
        eapply pt_next; eauto.
      * fold (providers hk_publish r). eapply pt_stop; eauto. rewrite He; discriminate.
      * fold (providers hk_publish r). eapply pt_stop; eauto. rewrite He; discriminate.
      * fold (providers hk_publish r). eapply pt_stop; eauto. rewrite He; discriminate.
      * fold (providers hk_publish r). eapply pt_stop; eauto. rewrite He; discriminate.
    + apply IH.
Qed.

(* the chain's result: the composition of all providing hooks if nobody objects, else the ORIGINAL packet *)
Lemma publish_from_result (hs : list hook) (cl : client) (pk0 p : ppkt) :
  let '(p', e, _) := publish_from hs cl pk0 p in
  (e = ENone -> p' = compose_pub hs cl p) /\ (e <> ENone -> p' = pk0).
Proof.
  revert p; induction hs as [|h r IH]; intro p; cbn [publish_from compose_pub].
  - split; [reflexivity | intro H; contradiction H; reflexivity].
  - destruct (hk_publish h) as [f|] eqn:Hf.
    + destruct (snd (f cl p)) eqn:He.
      * specialize (IH (fst (f cl p))).
        destruct (publish_from r cl pk0 (fst (f cl p))) as [[p' e'] lg]. exact IH.
      * split; [discriminate | reflexivity].
      * split; [discriminate | reflexivity].
      * split; [discriminate | reflexivity].
      * split; [discriminate | reflexivity].
    + apply IH.
Qed.

Lemma read_from_trace (hs : list hook) (cl : client) (pk0 p : ppkt) :
  read_trace cl (providers hk_read hs) p (snd (read_from hs cl pk0 p)).
Proof.
  revert p; induction hs as [|h r IH]; intro p; cbn [read_from providers filter].
  - constructor.
  - destruct (hk_read h) as [f|] eqn:Hf.
    + fold (providers hk_read r).
      destruct (snd (f cl p)) eqn:He.
      * specialize (IH (fst (f cl p))).
        destruct (read_from r cl pk0 (fst (f cl p))) as [[p' e'] lg]. cbn [snd] in *.
        eapply rt_next; eauto.
      * eapply rt_stop; eauto.
      * specialize (IH p). destruct (read_from r cl pk0 p) as [[p' e'] lg]. cbn [snd] in *.
        eapply rt_skip; eauto; rewrite He; discriminate.
      * specialize (IH p). destruct (read_from r cl pk0 p) as [[p' e'] lg]. cbn [snd] in *.
        eapply rt_skip; eauto; rewrite He; discriminate.
      * specialize (IH p). destruct (read_from r cl pk0 p) as [[p' e'] lg]. cbn [snd] in *.
        eapply rt_skip; eauto; rewrite He; discriminate.
    + apply IH.
Qed.

(* the read chain reports nothing but nil or ErrRejectPacket, and a rejection returns the original packet *)
Lemma read_from_err (hs : list hook) (cl : client) (pk0 p : ppkt) :
  let '(p', e, _) := read_from hs cl pk0 p in (e = ENone \/ (e = EReject /\ p' = pk0)).
Proof.
  revert p; induction hs as [|h r IH]; intro p; cbn [read_from].
  - left; reflexivity.
  - destruct (hk_read h) as [f|].
    + destruct (snd (f cl p)).
      * specialize (IH (fst (f cl p))). destruct (read_from r cl pk0 (fst (f cl p))) as [[p' e'] lg]. exact IH.
      * right; split; reflexivity.
      * specialize (IH p). destruct (read_from r cl pk0 p) as [[p' e'] lg]. exact IH.
      * specialize (IH p). destruct (read_from r cl pk0 p) as [[p' e'] lg]. exact IH.
      * specialize (IH p). destruct (read_from r cl pk0 p) as [[p' e'] lg]. exact IH.
    + apply IH.
Qed.

Lemma on_subscribe_trace (hs : list hook) (cl : client) (s : spkt) :
  sub_trace cl (providers hk_subscribe hs) s (snd (on_subscribe hs cl s)) /\
  fst (on_subscribe hs cl s) = compose_sub hs cl s.
Proof.
  revert s; induction hs as [|h r IH]; intro s; cbn [on_subscribe providers filter compose_sub].
  - split; [constructor | reflexivity].
  - destruct (hk_subscribe h) as [f|] eqn:Hf.
    + fold (providers hk_subscribe r). specialize (IH (f cl s)).
      destruct (on_subscribe r cl (f cl s)) as [s' lg]. cbn [fst snd] in *.
      destruct IH as [IH1 IH2]. split; [eapply st_next; eauto | exact IH2].
    + apply IH.
Qed.

Theorem chain_order (hs : list hook) (cl : client) (pk : ppkt) (s : spkt) :
  pub_trace cl (providers hk_publish hs) pk (snd (on_publish hs cl pk)) /\
  (snd (fst (on_publish hs cl pk)) = ENone -> fst (fst (on_publish hs cl pk)) = compose_pub hs cl pk) /\
  read_trace cl (providers hk_read hs) pk (snd (on_read hs cl pk)) /\
  sub_trace cl (providers hk_subscribe hs) s (snd (on_subscribe hs cl s)) /\
  fst (on_subscribe hs cl s) = compose_sub hs cl s.
Proof.
  split; [apply publish_from_trace|].
  split.
  { unfold on_publish. pose proof (publish_from_result hs cl pk pk) as H.
    destruct (publish_from hs cl pk pk) as [[p' e] lg]. cbn [fst snd]. tauto. }
  split; [apply read_from_trace|]. apply on_subscribe_trace.
Qed.

(* ---------- any-of ---------- *)

Theorem any_auth (hs : list hook) (cl : client) : fst (on_auth hs cl) = true <-> some_auth hs cl.
Proof.
  unfold some_auth. induction hs as [|h r IH]; cbn [on_auth].
  - split; [discriminate | intros (h & f & [] & _)].
  - destruct (hk_auth h) as [f|] eqn:Hf.
    + destruct (f cl) eqn:Hc.
      * split; [intros _; exists h, f; cbn; auto | reflexivity].
      * destruct (on_auth r cl) as [b lg]. cbn [fst] in *. rewrite IH. split.
        -- intros (h' & f' & Hin & H1 & H2). exists h', f'. cbn. auto.
        -- intros (h' & f' & [->|Hin] & H1 & H2).
           ++ rewrite Hf in H1. injection H1 as <-. congruence.
           ++ exists h', f'; auto.
    + rewrite IH. split.
      * intros (h' & f' & Hin & H1 & H2). exists h', f'. cbn. auto.
      * intros (h' & f' & [->|Hin] & H1 & H2); [congruence | exists h', f'; auto].
Qed.

Theorem any_acl (hs : list hook) (cl : client) (t : bytes) (w : bool) :
  fst (on_acl hs cl t w) = true <-> some_acl hs cl t w.
Proof.
  unfold some_acl. induction hs as [|h r IH]; cbn [on_acl].
  - split; [discriminate | intros (h & f & [] & _)].
  - destruct (hk_acl h) as [f|] eqn:Hf.
    + destruct (f cl t w) eqn:Hc.
      * split; [intros _; exists h, f; cbn; auto | reflexivity].
      * destruct (on_acl r cl t w) as [b lg]. cbn [fst] in *. rewrite IH. split.
        -- intros (h' & f' & Hin & H1 & H2). exists h', f'. cbn. auto.
        -- intros (h' & f' & [->|Hin] & H1 & H2).
           ++ rewrite Hf in H1. injection H1 as <-. congruence.
           ++ exists h', f'; auto.
    + rewrite IH. split.
      * intros (h' & f' & Hin & H1 & H2). exists h', f'. cbn. auto.
      * intros (h' & f' & [->|Hin] & H1 & H2); [congruence | exists h', f'; auto].
Qed.

(* ---------- what the server does with a publish ---------- *)

(* a publish the OnPublish chain objects to (reject / ignore / any error) is neither forwarded nor
   retained — for every protocol version and QoS *)
Lemma process_publish_error (hs : list hook) (ver : N) (cl : client) (pk : ppkt) :
  snd (fst (on_publish hs cl pk)) <> ENone ->
  po_forward (process_publish hs ver cl pk) = None /\ po_retain (process_publish hs ver cl pk) = None.
Proof.
  intro He. unfold process_publish.
  destruct (negb (valid_pub_topic (pp_topic pk))); [split; reflexivity|].
  destruct (on_acl hs cl (pp_topic pk) true) as [okw lg1].
  destruct (negb okw).
  { destruct (pp_qos pk =? 0); [split; reflexivity|]. destruct (negb (ver =? 5)); split; reflexivity. }
  destruct (on_publish hs cl pk) as [[pkx e] lg2]. cbn [fst snd] in He.
  destruct e; try contradiction; try (split; reflexivity).
  - destruct ((pp_qos pk =? 0) || negb (ver =? 5)); split; reflexivity.
  - destruct ((pp_qos pk =? 0) || negb (ver =? 5)); split; reflexivity.
Qed.

(* only a publish that some ACL hook permits is forwarded or retained *)
Lemma process_publish_permitted (hs : list hook) (ver : N) (cl : client) (pk : ppkt) :
  po_forward (process_publish hs ver cl pk) <> None \/ po_retain (process_publish hs ver cl pk) <> None ->
  some_acl hs cl (pp_topic pk) true /\ valid_pub_topic (pp_topic pk) = true.
Proof.
  unfold process_publish.
  destruct (valid_pub_topic (pp_topic pk)) eqn:Hv; cbn [negb].
  2:{ cbn. intros [H|H]; contradiction H; reflexivity. }
  pose proof (any_acl hs cl (pp_topic pk) true) as Ha.
  destruct (on_acl hs cl (pp_topic pk) true) as [okw lg1]. cbn [fst] in Ha.
  destruct okw; cbn [negb].
  - intros _. split; [apply Ha; reflexivity | reflexivity].
  - destruct (pp_qos pk =? 0); [cbn; intros [H|H]; contradiction H; reflexivity|].
    destruct (negb (ver =? 5)); cbn; intros [H|H]; contradiction H; reflexivity.
Qed.

(* a packet rejected on read is not processed: nothing is forwarded, retained or acknowledged, no
   OnPublish / ACL hook is consulted, the connection ends *)
Lemma receive_rejected (hs : list hook) (ver : N) (cl : client) (pk : ppkt) :
  snd (fst (on_read hs cl pk)) = EReject ->
  let o := receive_publish hs ver cl pk in
  po_forward o = None /\ po_retain o = None /\ po_ack o = None /\ po_close o = true /\
  po_log o = snd (on_read hs cl pk).
Proof.
  intro He. unfold receive_publish. destruct (on_read hs cl pk) as [[p' e] lg]. cbn [fst snd] in He. subst e.
  cbn. repeat split; reflexivity.
Qed.

Lemma receive_error (hs : list hook) (ver : N) (cl : client) (pk : ppkt) :
  snd (fst (on_publish hs cl (fst (fst (on_read hs cl pk))))) <> ENone ->
  po_forward (receive_publish hs ver cl pk) = None /\ po_retain (receive_publish hs ver cl pk) = None.
Proof.
  intro He. unfold receive_publish. destruct (on_read hs cl pk) as [[p' e] lg]. cbn [fst] in He.
  destruct e; try (split; reflexivity).
  cbn [po_forward po_retain]. apply process_publish_error. exact He.
Qed.

(* ---------- the same at the level of the broker: no delivery to anybody, retained store unchanged ---------- *)

Definition no_publish_ev (evs : list (client * oev)) : Prop := forall e, In e evs -> is_publish_ev e = false.

Lemma no_publish_app (a b : list (client * oev)) : no_publish_ev a -> no_publish_ev b -> no_publish_ev (a ++ b).
Proof. intros Ha Hb e Hin. apply in_app_or in Hin. destruct Hin; auto. Qed.

Lemma step_quiet (hs : list hook) (ob : bool) (st : bst) (cl : client) (pk : ppkt) (ver : N) :
  assoc cl (b_conn st) = Some ver ->
  po_forward (receive_publish hs ver cl pk) = None -> po_retain (receive_publish hs ver cl pk) = None ->
  let '(st', evs, _) := step hs ob st (OPublish cl pk) in
  no_publish_ev evs /\ b_ret st' = b_ret st.
Proof.
  intros Hc Hf Hr. cbn [step]. rewrite Hc. rewrite Hf, Hr.
  destruct (po_ack (receive_publish hs ver cl pk)) as [[ty rc]|];
  destruct (po_close (receive_publish hs ver cl pk)); cbn; (split; [|reflexivity]);
  intros e Hin; cbn in Hin; repeat (destruct Hin as [<-|Hin]; [reflexivity|]); contradiction.
Qed.

Theorem step_error_never_forwarded (hs : list hook) (ob : bool) (st : bst) (cl : client) (pk : ppkt) (ver : N) :
  assoc cl (b_conn st) = Some ver ->
  snd (fst (on_publish hs cl (fst (fst (on_read hs cl pk))))) <> ENone ->
  let '(st', evs, _) := step hs ob st (OPublish cl pk) in
  no_publish_ev evs /\ b_ret st' = b_ret st.
Proof.
  intros Hc He. destruct (receive_error hs ver cl pk He) as [Hf Hr]. apply (step_quiet hs ob st cl pk ver); assumption.
Qed.

Theorem step_reject_not_processed (hs : list hook) (ob : bool) (st : bst) (cl : client) (pk : ppkt) (ver : N) :
  assoc cl (b_conn st) = Some ver ->
  snd (fst (on_read hs cl pk)) = EReject ->
  let '(st', evs, lg) := step hs ob st (OPublish cl pk) in
  evs = [(cl, VClosed)] /\ b_ret st' = b_ret st /\ lg = snd (on_read hs cl pk) /\
  assoc cl (b_conn st') = None.
Proof.
  intros Hc He. destruct (receive_rejected hs ver cl pk He) as (Hf & Hr & Ha & Hcl & Hl).
  cbn [step]. rewrite Hc, Hf, Hr, Ha, Hcl, Hl. cbn [app b_ret drop_client b_conn].
  repeat split; try reflexivity; try (rewrite app_nil_r; reflexivity).
  clear. induction (b_conn st) as [|[k v] r IH]; cbn; [reflexivity|].
  destruct (beq_bytes cl k) eqn:E; [exact IH|]. cbn. rewrite E. exact IH.
Qed.

(* a client is admitted exactly when some authentication hook allows it *)
Theorem step_any_auth (hs : list hook) (ob : bool) (st : bst) (cl : client) (ver : N) :
  let '(st', evs, _) := step hs ob st (OConnect cl ver) in
  (In (cl, VConnack true) evs <-> some_auth hs cl) /\ (assoc cl (b_conn st') = Some ver <-> some_auth hs cl \/ assoc cl (b_conn st) = Some ver).
Proof.
  cbn [step]. pose proof (any_auth hs cl) as Ha. destruct (on_auth hs cl) as [ok lg]. cbn [fst] in Ha.
  assert (Hrefl : beq_bytes cl cl = true).
  { clear. induction cl as [|x r IH]; cbn; [reflexivity|]. rewrite N.eqb_refl. exact IH. }
  destruct ok.
  - split.
    + split; [intros _; apply Ha; reflexivity | intros _; left; reflexivity].
    + cbn [b_conn assoc]. rewrite Hrefl. split; [intros _; left; apply Ha; reflexivity | reflexivity].
  - assert (Hn : ~ some_auth hs cl) by (intro H; apply Ha in H; discriminate).
    split.
    + split; [|intro H; contradiction].
      cbn. intros [H|[H|[]]]; discriminate.
    + split; [intro H; right; exact H | intros [H|H]; [contradiction | exact H]].
Qed.

(* a subscription to a filter no ACL hook permits is refused with 0x87 (0x80 when obscured or MQTT 3) and
   not created; a permitted valid one is created *)
Lemma sub_filters_spec (hs : list hook) (ver : N) (ob : bool) (cl : client) (fs : list (bytes * N)) :
  let '(codes, gr, _) := sub_filters hs ver ob cl fs in
  length codes = length fs /\
  (forall f q, In (f, q) gr -> In (f, q) fs /\ valid_filter_spec f = true /\ some_acl hs cl f false) /\
  (forall f q, In (f, q) fs -> valid_filter_spec f = true -> some_acl hs cl f false -> In (f, q) gr).
Proof.
  induction fs as [|[f q] r IH]; cbn [sub_filters].
  - repeat split; intros; contradiction.
  - destruct (sub_filters hs ver ob cl r) as [[codes gr] lg]. destruct IH as (IH1 & IH2 & IH3).
    destruct (valid_filter_spec f) eqn:Hv; cbn [negb].
    + pose proof (any_acl hs cl f false) as Ha. destruct (on_acl hs cl f false) as [ok lga]. cbn [fst] in Ha.
      destruct ok; cbn [negb].
      * split; [cbn; lia|]. split.
        -- intros f' q' [E|Hin]; [injection E as <- <-; split; [left; reflexivity | split; [exact Hv | apply Ha; reflexivity]]|].
           destruct (IH2 _ _ Hin) as (A & B & C). split; [right; exact A | split; assumption].
        -- intros f' q' [E|Hin] Hv' Hs; [left; exact E | right; apply IH3; assumption].
      * split; [cbn; lia|]. split.
        -- intros f' q' Hin. destruct (IH2 _ _ Hin) as (A & B & C). split; [right; exact A | split; assumption].
        -- intros f' q' [E|Hin] Hv' Hs; [injection E as <- <-; apply Ha in Hs; discriminate | apply IH3; assumption].
    + split; [cbn; lia|]. split.
      * intros f' q' Hin. destruct (IH2 _ _ Hin) as (A & B & C). split; [right; exact A | split; assumption].
      * intros f' q' [E|Hin] Hv' Hs; [injection E as <- <-; congruence | apply IH3; assumption].
Qed.

(* the refusal code of a valid filter nobody permits *)
Lemma sub_filters_refusal (hs : list hook) (ver : N) (ob : bool) (cl : client) (f : bytes) (q : N) :
  valid_filter_spec f = true -> ~ some_acl hs cl f false ->
  fst (fst (sub_filters hs ver ob cl [(f, q)])) = [if ver <? 5 then 128 else if ob then 128 else 135].
Proof.
  intros Hv Hn. cbn [sub_filters]. rewrite Hv. cbn [negb].
  pose proof (any_acl hs cl f false) as Ha. destruct (on_acl hs cl f false) as [ok lga]. cbn [fst] in Ha.
  destruct ok; [exfalso; apply Hn, Ha; reflexivity|]. cbn [negb fst]. unfold v3map.
  destruct ob; destruct (ver <? 5); reflexivity.
Qed.
