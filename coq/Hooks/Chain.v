(* C19 — hook chain.  Model of hooks.go (the Hooks dispatch methods OnPublish, OnPacketRead,
   OnSubscribe, OnConnectAuthenticate, OnACLCheck: hooks are records of functions, a stack is a list in
   registration order) and of the way server.go uses their results (clients.go ReadPacket/Read for a
   rejected read, processPublish incl. the OnPublish error handling after fix fcb436d, processSubscribe,
   publishToClient's read check, attachClient's authenticate step), a small broker over it that the
   engine replays against the real broker, the specification (trace relations, monitors written from the
   property text) and the engine.  No proofs here (see ChainProofs.v). *)
From MV Require Import Base.Val Topics.Levels Topics.Match.
Open Scope N_scope.

Definition client := bytes.

(* what a hook method returned as its error, as the broker classifies it: nil / an error that IS
   packets.ErrRejectPacket / IS packets.CodeSuccessIgnore / has another packets.Code in its chain / has no
   packets.Code.  This is the UNWRAPPED class: the broker tests with errors.Is / errors.As, which look
   through fmt.Errorf("...%w", err) wrappers, so the model's hook result is insensitive to wrapping
   ([classify] below maps a concrete Go error value, wrappers included, to its class). *)
Inductive herr := ENone | EReject | EIgnore | ECode (c : N) | EOther.

(* concrete Go error values: the sentinels, any other packets.Code, a plain error, and %w wrappers *)
Inductive rawerr := RNil | RReject | RIgnore | RCode (c : N) | RPlain | RWrap (e : rawerr).
Fixpoint is_reject (e : rawerr) : bool :=            (* errors.Is(err, packets.ErrRejectPacket) *)
  match e with RReject => true | RWrap e' => is_reject e' | _ => false end.
Fixpoint is_ignore (e : rawerr) : bool :=            (* errors.Is(err, packets.CodeSuccessIgnore) *)
  match e with RIgnore => true | RWrap e' => is_ignore e' | _ => false end.
Fixpoint as_code (e : rawerr) : option N :=          (* errors.As(err, &code) *)
  match e with
  | RCode c => Some c | RReject => Some 131 | RIgnore => Some 0
  | RWrap e' => as_code e' | _ => None
  end.
Definition classify (e : rawerr) : herr :=
  match e with
  | RNil => ENone
  | _ => if is_reject e then EReject else if is_ignore e then EIgnore
         else match as_code e with Some c => ECode c | None => EOther end
  end.
Fixpoint wrapn (n : nat) (e : rawerr) : rawerr := match n with O => e | S k => RWrap (wrapn k e) end.

(* the part of a PUBLISH / SUBSCRIBE packet that hooks see and may change *)
Record ppkt := mkP { pp_topic : bytes; pp_payload : bytes; pp_qos : N; pp_retain : bool; pp_pid : N }.
Record spkt := mkS { sp_pid : N; sp_filters : list (bytes * N) }.

(* a hook: None = Provides(...) is false for that method *)
Record hook := mkHook {
  hk_id : N;
  hk_auth : option (client -> bool);                         (* OnConnectAuthenticate *)
  hk_acl : option (client -> bytes -> bool -> bool);          (* OnACLCheck cl topic write *)
  hk_read : option (client -> ppkt -> ppkt * herr);           (* OnPacketRead (on PUBLISH packets) *)
  hk_publish : option (client -> ppkt -> ppkt * herr);        (* OnPublish *)
  hk_subscribe : option (client -> spkt -> spkt) }.           (* OnSubscribe *)

(* log of hook invocations: which hook, for which client, what it was given *)
Inductive call :=
| CAuth (h : N) (cl : client)
| CAcl (h : N) (cl : client) (t : bytes) (w : bool)
| CRead (h : N) (cl : client) (p : ppkt)
| CPublish (h : N) (cl : client) (p : ppkt)
| CSubscribe (h : N) (cl : client) (s : spkt).

(* ---------- hooks.go ---------- *)

(* Hooks.OnPublish: every providing hook in order; each sees the previous output; the first error stops
   the chain and the ORIGINAL packet is returned with it *)
Fixpoint publish_from (hs : list hook) (cl : client) (pk0 pkx : ppkt) : ppkt * herr * list call :=
  match hs with
  | [] => (pkx, ENone, [])
  | h :: r =>
      match hk_publish h with
      | None => publish_from r cl pk0 pkx
      | Some f =>
          let c := CPublish (hk_id h) cl pkx in
          match snd (f cl pkx) with
          | ENone => let '(p, e, lg) := publish_from r cl pk0 (fst (f cl pkx)) in (p, e, c :: lg)
          | e => (pk0, e, [c])
          end
      end
  end.
Definition on_publish (hs : list hook) (cl : client) (pk : ppkt) := publish_from hs cl pk pk.

(* Hooks.OnPacketRead: ErrRejectPacket stops the chain (original packet + the error); any other error
   makes the chain skip that hook's output (continue) *)
Fixpoint read_from (hs : list hook) (cl : client) (pk0 pkx : ppkt) : ppkt * herr * list call :=
  match hs with
  | [] => (pkx, ENone, [])
  | h :: r =>
      match hk_read h with
      | None => read_from r cl pk0 pkx
      | Some f =>
          let c := CRead (hk_id h) cl pkx in
          match snd (f cl pkx) with
          | ENone => let '(p, e, lg) := read_from r cl pk0 (fst (f cl pkx)) in (p, e, c :: lg)
          | EReject => (pk0, EReject, [c])
          | _ => let '(p, e, lg) := read_from r cl pk0 pkx in (p, e, c :: lg)
          end
      end
  end.
Definition on_read (hs : list hook) (cl : client) (pk : ppkt) := read_from hs cl pk pk.

(* Hooks.OnSubscribe: plain fold *)
Fixpoint on_subscribe (hs : list hook) (cl : client) (s : spkt) : spkt * list call :=
  match hs with
  | [] => (s, [])
  | h :: r =>
      match hk_subscribe h with
      | None => on_subscribe r cl s
      | Some f => let '(s', lg) := on_subscribe r cl (f cl s) in (s', CSubscribe (hk_id h) cl s :: lg)
      end
  end.

(* Hooks.OnConnectAuthenticate / OnACLCheck: the first providing hook that answers true decides *)
Fixpoint on_auth (hs : list hook) (cl : client) : bool * list call :=
  match hs with
  | [] => (false, [])
  | h :: r =>
      match hk_auth h with
      | None => on_auth r cl
      | Some f => if f cl then (true, [CAuth (hk_id h) cl])
                  else let '(b, lg) := on_auth r cl in (b, CAuth (hk_id h) cl :: lg)
      end
  end.

Fixpoint on_acl (hs : list hook) (cl : client) (t : bytes) (w : bool) : bool * list call :=
  match hs with
  | [] => (false, [])
  | h :: r =>
      match hk_acl h with
      | None => on_acl r cl t w
      | Some f => if f cl t w then (true, [CAcl (hk_id h) cl t w])
                  else let '(b, lg) := on_acl r cl t w in (b, CAcl (hk_id h) cl t w :: lg)
      end
  end.

(* ---------- server.go: what is done with the results ---------- *)

Definition T_PUBACK := 4. Definition T_PUBREC := 5.

Fixpoint prefix (p s : bytes) : bool :=
  match p, s with
  | [], _ => true
  | a :: p', b :: s' => (a =? b) && prefix p' s'
  | _, _ => false
  end.
(* IsValidFilter(topic, true): no wildcard, does not start with $SYS *)
Definition valid_pub_topic (t : bytes) : bool := negb (prefix (tag "$SYS") t) && negb (has 43 t) && negb (has 35 t).

Record pub_out := mkPO {
  po_forward : option ppkt;     (* handed to publishToSubscribers (and not marked Ignore) *)
  po_retain : option ppkt;      (* handed to Topics.RetainMessage *)
  po_ack : option (N * N);      (* (type, reason) written to the publisher *)
  po_close : bool;              (* the publisher is disconnected *)
  po_log : list call }.

Definition ack_ty (qos : N) : N := if qos =? 2 then T_PUBREC else T_PUBACK.
Definition ok_ack (qos : N) : option (N * N) :=
  if qos =? 0 then None else Some (ack_ty qos, 0).
Definition nothing (lg : list call) : pub_out := mkPO None None None false lg.

(* processPublish for a non-inline client with receive quota left and a fresh packet id *)
Definition process_publish (hs : list hook) (ver : N) (cl : client) (pk : ppkt) : pub_out :=
  let qos := pp_qos pk in
  if negb (valid_pub_topic (pp_topic pk)) then
    mkPO None None (if qos =? 0 then None else Some (ack_ty qos, 144)) false []          (* 0x90 *)
  else
    let '(okw, lg1) := on_acl hs cl (pp_topic pk) true in
    if negb okw then
      if qos =? 0 then nothing lg1
      else if negb (ver =? 5) then mkPO None None None true lg1                           (* DisconnectClient *)
      else mkPO None None (Some (ack_ty qos, 135)) false lg1                              (* 0x87 *)
    else
      let '(pkx, e, lg2) := on_publish hs cl pk in
      let lg := lg1 ++ lg2 in
      match e with
      | ENone => mkPO (Some pkx) (if pp_retain pkx then Some pkx else None) (ok_ack (pp_qos pkx)) false lg
      | EReject => nothing lg                                                             (* silent drop *)
      | EIgnore => mkPO None None (ok_ack qos) false lg                                   (* pk.Ignore: acked only *)
      | ECode c => if (qos =? 0) || negb (ver =? 5) then nothing lg
                   else mkPO None None (Some (ack_ty qos, c)) false lg
      | EOther => if (qos =? 0) || negb (ver =? 5) then nothing lg
                  else mkPO None None (Some (ack_ty qos, 128)) false lg                   (* 0x80 *)
      end.

(* clients.go ReadPacket + Read: a rejected read ends the connection, the handler never runs *)
Definition receive_publish (hs : list hook) (ver : N) (cl : client) (pk : ppkt) : pub_out :=
  let '(pk', e, lg) := on_read hs cl pk in
  match e with
  | ENone => let o := process_publish hs ver cl pk' in
             mkPO (po_forward o) (po_retain o) (po_ack o) (po_close o) (lg ++ po_log o)
  | _ => mkPO None None None true lg
  end.

(* processSubscribe: one reason code per filter; granted filters are created *)
Definition v3map (ver c : N) : N := if (2 <? c) && (ver <? 5) then 128 else c.
Fixpoint sub_filters (hs : list hook) (ver : N) (obscure : bool) (cl : client) (fs : list (bytes * N))
  : list N * list (bytes * N) * list call :=
  match fs with
  | [] => ([], [], [])
  | (f, q) :: r =>
      let '(codes, gr, lg) := sub_filters hs ver obscure cl r in
      if negb (valid_filter_spec f) then (v3map ver 143 :: codes, gr, lg)                 (* 0x8F *)
      else
        let '(ok, lga) := on_acl hs cl f false in
        if negb ok then (v3map ver (if obscure then 128 else 135) :: codes, gr, lga ++ lg)
        else (v3map ver q :: codes, (f, q) :: gr, lga ++ lg)
  end.

(* ---------- a small broker over it (clean sessions, no wills) ---------- *)

Record bst := mkB {
  b_conn : list (client * N);          (* connected clients with their protocol version *)
  b_subs : list (client * bytes);      (* the topic index *)
  b_ret : list (bytes * bytes) }.      (* retained: topic -> payload *)
Definition b_init : bst := mkB [] [] [].

Inductive op :=
| OConnect (cl : client) (ver : N)
| OPublish (cl : client) (pk : ppkt)
| OSubscribe (cl : client) (s : spkt).

(* what a connection receives *)
Inductive oev :=
| VConnack (ok : bool)
| VPublish (topic payload : bytes) (retained : bool)
| VAck (ty pid rc : N)
| VSuback (pid : N) (codes : list N)
| VClosed.

Fixpoint assoc {A} (k : bytes) (l : list (bytes * A)) : option A :=
  match l with [] => None | (k', v) :: r => if beq_bytes k k' then Some v else assoc k r end.
Fixpoint remove_key {A} (k : bytes) (l : list (bytes * A)) : list (bytes * A) :=
  match l with [] => [] | (k', v) :: r => if beq_bytes k k' then remove_key k r else (k', v) :: remove_key k r end.
Definition memb (k : bytes) (l : list bytes) : bool := existsb (beq_bytes k) l.

(* Topics.RetainMessage: an empty payload deletes *)
Definition ret_set (ret : list (bytes * bytes)) (t p : bytes) : list (bytes * bytes) :=
  if nilb p then remove_key t ret else (t, p) :: remove_key t ret.

(* publishToSubscribers + publishToClient: one delivery per connected client with a matching
   subscription whom some ACL hook permits to read the topic *)
Fixpoint deliver (hs : list hook) (conn : list (client * N)) (subs : list (client * bytes)) (seen : list client)
         (pk : ppkt) : list (client * oev) * list call :=
  match subs with
  | [] => ([], [])
  | (c, f) :: r =>
      if topic_matches f (pp_topic pk) && negb (memb c seen)
         && match assoc c conn with Some _ => true | None => false end then
        let '(ok, lga) := on_acl hs c (pp_topic pk) false in
        let '(evs, lg) := deliver hs conn r (c :: seen) pk in
        ((if ok then [(c, VPublish (pp_topic pk) (pp_payload pk) false)] else []) ++ evs, lga ++ lg)
      else deliver hs conn r seen pk
  end.

(* publishRetainedToClient for one granted filter *)
Fixpoint replay (hs : list hook) (cl : client) (f : bytes) (ret : list (bytes * bytes)) : list (client * oev) * list call :=
  match ret with
  | [] => ([], [])
  | (t, p) :: r =>
      if topic_matches f t then
        let '(ok, lga) := on_acl hs cl t false in
        let '(evs, lg) := replay hs cl f r in
        ((if ok then [(cl, VPublish t p true)] else []) ++ evs, lga ++ lg)
      else replay hs cl f r
  end.
Fixpoint replay_all (hs : list hook) (cl : client) (fs : list (bytes * N)) (ret : list (bytes * bytes))
  : list (client * oev) * list call :=
  match fs with
  | [] => ([], [])
  | (f, _) :: r => let '(e1, l1) := replay hs cl f ret in
                   let '(e2, l2) := replay_all hs cl r ret in (e1 ++ e2, l1 ++ l2)
  end.

Definition drop_client (cl : client) (st : bst) : bst :=
  mkB (remove_key cl (b_conn st)) (remove_key cl (b_subs st)) (b_ret st).
Fixpoint add_subs (cl : client) (fs : list (bytes * N)) (subs : list (client * bytes)) : list (client * bytes) :=
  match fs with
  | [] => subs
  | (f, _) :: r =>
      let subs' := add_subs cl r subs in
      if existsb (fun e => beq_bytes (fst e) cl && beq_bytes (snd e) f) subs' then subs' else subs' ++ [(cl, f)]
  end.

Definition step (hs : list hook) (obscure : bool) (st : bst) (o : op) : bst * list (client * oev) * list call :=
  match o with
  | OConnect cl ver =>                                       (* attachClient for a client id not connected *)
      let '(ok, lg) := on_auth hs cl in
      if ok then (mkB ((cl, ver) :: remove_key cl (b_conn st)) (b_subs st) (b_ret st), [(cl, VConnack true)], lg)
      else (st, [(cl, VConnack false); (cl, VClosed)], lg)
  | OPublish cl pk =>
      match assoc cl (b_conn st) with
      | None => (st, [], [])
      | Some ver =>
          let o := receive_publish hs ver cl pk in
          let ret' := match po_retain o with Some p => ret_set (b_ret st) (pp_topic p) (pp_payload p) | None => b_ret st end in
          let acks := match po_ack o with Some (ty, rc) => [(cl, VAck ty (pp_pid pk) rc)] | None => [] end in
          let '(dl, lgd) := match po_forward o with
                            | Some p => deliver hs (b_conn st) (b_subs st) [] p
                            | None => ([], []) end in
          let st1 := mkB (b_conn st) (b_subs st) ret' in
          (if po_close o then drop_client cl st1 else st1,
           acks ++ dl ++ (if po_close o then [(cl, VClosed)] else []), po_log o ++ lgd)
      end
  | OSubscribe cl s =>
      match assoc cl (b_conn st) with
      | None => (st, [], [])
      | Some ver =>
          let '(s', lg1) := on_subscribe hs cl s in
          let '(codes, gr, lg2) := sub_filters hs ver obscure cl (sp_filters s') in
          let '(rp, lg3) := replay_all hs cl gr (b_ret st) in
          (mkB (b_conn st) (add_subs cl gr (b_subs st)) (b_ret st),
           (cl, VSuback (sp_pid s') codes) :: rp, lg1 ++ lg2 ++ lg3)
      end
  end.

(* ---------- specification: what the property text demands ---------- *)

(* registration order + "each sees the previous output", as relations between the providing hooks, the
   packet given to the chain and the invocation log *)
Definition providers {A} (sel : hook -> option A) (hs : list hook) : list hook :=
  filter (fun h => match sel h with Some _ => true | None => false end) hs.

Inductive pub_trace (cl : client) : list hook -> ppkt -> list call -> Prop :=
| pt_done : forall p, pub_trace cl [] p []
| pt_next : forall h f r p lg, hk_publish h = Some f -> snd (f cl p) = ENone ->
    pub_trace cl r (fst (f cl p)) lg -> pub_trace cl (h :: r) p (CPublish (hk_id h) cl p :: lg)
| pt_stop : forall h f r p, hk_publish h = Some f -> snd (f cl p) <> ENone ->
    pub_trace cl (h :: r) p [CPublish (hk_id h) cl p].

Inductive read_trace (cl : client) : list hook -> ppkt -> list call -> Prop :=
| rt_done : forall p, read_trace cl [] p []
| rt_next : forall h f r p lg, hk_read h = Some f -> snd (f cl p) = ENone ->
    read_trace cl r (fst (f cl p)) lg -> read_trace cl (h :: r) p (CRead (hk_id h) cl p :: lg)
| rt_skip : forall h f r p lg, hk_read h = Some f -> snd (f cl p) <> ENone -> snd (f cl p) <> EReject ->
    read_trace cl r p lg -> read_trace cl (h :: r) p (CRead (hk_id h) cl p :: lg)
| rt_stop : forall h f r p, hk_read h = Some f -> snd (f cl p) = EReject ->
    read_trace cl (h :: r) p [CRead (hk_id h) cl p].

Inductive sub_trace (cl : client) : list hook -> spkt -> list call -> Prop :=
| st_done : forall s, sub_trace cl [] s []
| st_next : forall h f r s lg, hk_subscribe h = Some f ->
    sub_trace cl r (f cl s) lg -> sub_trace cl (h :: r) s (CSubscribe (hk_id h) cl s :: lg).

(* result of a chain in which nobody objects: the composition of the providing hooks in order *)
Fixpoint compose_pub (hs : list hook) (cl : client) (p : ppkt) : ppkt :=
  match hs with
  | [] => p
  | h :: r => match hk_publish h with Some f => compose_pub r cl (fst (f cl p)) | None => compose_pub r cl p end
  end.
Fixpoint compose_sub (hs : list hook) (cl : client) (s : spkt) : spkt :=
  match hs with
  | [] => s
  | h :: r => match hk_subscribe h with Some f => compose_sub r cl (f cl s) | None => compose_sub r cl s end
  end.

(* any-of *)
Definition some_auth (hs : list hook) (cl : client) : Prop :=
  exists h f, In h hs /\ hk_auth h = Some f /\ f cl = true.
Definition some_acl (hs : list hook) (cl : client) (t : bytes) (w : bool) : Prop :=
  exists h f, In h hs /\ hk_acl h = Some f /\ f cl t w = true.
Definition some_authb (hs : list hook) (cl : client) : bool :=
  existsb (fun h => match hk_auth h with Some f => f cl | None => false end) hs.
Definition some_aclb (hs : list hook) (cl : client) (t : bytes) (w : bool) : bool :=
  existsb (fun h => match hk_acl h with Some f => f cl t w | None => false end) hs.

Definition is_publish_ev (e : client * oev) : bool := match snd e with VPublish _ _ _ => true | _ => false end.
Definition is_pub_call (c : call) : bool := match c with CPublish _ _ _ => true | _ => false end.
Definition is_acl_call (c : call) : bool := match c with CAcl _ _ _ _ => true | _ => false end.

(* ---------- equality on the observables ---------- *)
Definition beq_ppkt (a b : ppkt) : bool :=
  beq_bytes (pp_topic a) (pp_topic b) && beq_bytes (pp_payload a) (pp_payload b) && (pp_qos a =? pp_qos b)
  && Bool.eqb (pp_retain a) (pp_retain b) && (pp_pid a =? pp_pid b).
Fixpoint beq_list {A} (eq : A -> A -> bool) (a b : list A) : bool :=
  match a, b with [], [] => true | x :: a', y :: b' => eq x y && beq_list eq a' b' | _, _ => false end.
Definition beq_fq (a b : bytes * N) : bool := beq_bytes (fst a) (fst b) && (snd a =? snd b).
Definition beq_spkt (a b : spkt) : bool := (sp_pid a =? sp_pid b) && beq_list beq_fq (sp_filters a) (sp_filters b).
Definition beq_call (a b : call) : bool :=
  match a, b with
  | CAuth h c, CAuth h' c' => (h =? h') && beq_bytes c c'
  | CAcl h c t w, CAcl h' c' t' w' => (h =? h') && beq_bytes c c' && beq_bytes t t' && Bool.eqb w w'
  | CRead h c p, CRead h' c' p' => (h =? h') && beq_bytes c c' && beq_ppkt p p'
  | CPublish h c p, CPublish h' c' p' => (h =? h') && beq_bytes c c' && beq_ppkt p p'
  | CSubscribe h c s, CSubscribe h' c' s' => (h =? h') && beq_bytes c c' && beq_spkt s s'
  | _, _ => false
  end.
(* acknowledgements of MQTT 3 carry no reason code; the property only tells positive from negative ones *)
Definition beq_oev (v5 : bool) (a b : oev) : bool :=
  match a, b with
  | VConnack x, VConnack y => Bool.eqb x y
  | VPublish t p r, VPublish t' p' r' => beq_bytes t t' && beq_bytes p p' && Bool.eqb r r'
  | VAck ty pid rc, VAck ty' pid' rc' =>      (* success-class reasons are not told apart *)
      (ty =? ty') && (pid =? pid') && (negb v5 || (rc =? rc') || ((rc <? 128) && (rc' <? 128)))
  | VSuback pid cs, VSuback pid' cs' => (pid =? pid') && beq_bytes cs cs'
  | VClosed, VClosed => true
  | _, _ => false
  end.

(* ---------- scripted hooks (what the harness installs) ---------- *)
Record action := mkA { a_topic : bytes; a_suffix : bytes; a_ret : N; a_res : N; a_code : N; a_wrap : N }.
(* the Go error value a scripted hook returns: bare, or wrapped a_wrap times with %w *)
Definition action_err (a : action) : rawerr :=
  if a_res a =? 0 then RNil
  else wrapn (N.to_nat (a_wrap a))
             (if a_res a =? 1 then RReject else if a_res a =? 2 then RIgnore
              else if a_res a =? 3 then RCode (a_code a) else RPlain).
Definition apply_action (a : action) (p : ppkt) : ppkt * herr :=
  (mkP (if nilb (a_topic a) then pp_topic p else a_topic a) (pp_payload p ++ a_suffix a) (pp_qos p)
       (if a_ret a =? 0 then pp_retain p else if a_ret a =? 1 then false else true) (pp_pid p),
   classify (action_err a)).
Definition table_fn (tbl : list (bytes * action)) : client -> ppkt -> ppkt * herr :=
  fun _ p => match assoc (pp_topic p) tbl with Some a => apply_action a p | None => (p, ENone) end.
Definition sub_fn (tbl : list (bytes * (bytes * N))) : client -> spkt -> spkt :=
  fun _ s => mkS (sp_pid s) (map (fun fq => match assoc (fst fq) tbl with Some x => x | None => fq end) (sp_filters s)).
Definition auth_fn (allowed : list bytes) : client -> bool := fun cl => memb cl allowed.
Definition acl_fn (allowed : list (bytes * (bytes * bool))) : client -> bytes -> bool -> bool :=
  fun cl t w => existsb (fun e => beq_bytes (fst e) cl && beq_bytes (fst (snd e)) t && Bool.eqb (snd (snd e)) w) allowed.

(* ---------- parsing ---------- *)
Definition bind {A B} (o : option A) (f : A -> option B) : option B := match o with Some x => f x | None => None end.
Notation "'do' x <- o ; f" := (bind o (fun x => f)) (at level 200, x pattern, o at level 100, f at level 200).

Definition as_ppkt (v : val) : option ppkt :=
  match v with
  | VL [VB t; VB p; VN q; r; VN pid] => do r' <- as_bool r; Some (mkP t p q r' pid)
  | _ => None
  end.
Definition as_fq (v : val) : option (bytes * N) := match v with VL [VB f; VN q] => Some (f, q) | _ => None end.
Definition as_spkt (v : val) : option spkt :=
  match v with VL [VN pid; VL fs] => do fs' <- map_opt as_fq fs; Some (mkS pid fs') | _ => None end.
Definition as_action (v : val) : option (bytes * action) :=
  match v with
  | VL [VB t; VB nt; VB sfx; VN rm; VN res; VN code; VN wr] => Some (t, mkA nt sfx rm res code wr)
  | _ => None
  end.
Definition as_subrule (v : val) : option (bytes * (bytes * N)) :=
  match v with VL [VB f; VB nf; VN q] => Some (f, (nf, q)) | _ => None end.
Definition as_aclrule (v : val) : option (bytes * (bytes * bool)) :=
  match v with VL [VB c; VB t; w] => do w' <- as_bool w; Some (c, (t, w')) | _ => None end.
(* an optional method: () = not provided, (x) = provided with script x *)
Definition as_optional {A} (f : list val -> option A) (v : val) : option (option A) :=
  match v with
  | VL [] => Some None
  | VL [VL x] => do r <- f x; Some (Some r)
  | _ => None
  end.
Definition as_hookscript (v : val) : option hook :=
  match v with
  | VL [VN id; au; ac; rd; pb; sb] =>
      do au' <- as_optional (map_opt as_B) au;
      do ac' <- as_optional (map_opt as_aclrule) ac;
      do rd' <- as_optional (map_opt as_action) rd;
      do pb' <- as_optional (map_opt as_action) pb;
      do sb' <- as_optional (map_opt as_subrule) sb;
      Some (mkHook id (option_map auth_fn au') (option_map acl_fn ac') (option_map table_fn rd')
                   (option_map table_fn pb') (option_map sub_fn sb'))
  | _ => None
  end.
Definition as_op (v : val) : option op :=
  match v with
  | VL [VN 0; VB cl; VN ver] => Some (OConnect cl ver)
  | VL [VN 1; VB cl; pk] => do pk' <- as_ppkt pk; Some (OPublish cl pk')
  | VL [VN 2; VB cl; s] => do s' <- as_spkt s; Some (OSubscribe cl s')
  | _ => None
  end.
Definition as_call (v : val) : option call :=
  match v with
  | VL [VN 0; VN h; VB cl] => Some (CAuth h cl)
  | VL [VN 1; VN h; VB cl; VB t; w] => do w' <- as_bool w; Some (CAcl h cl t w')
  | VL [VN 2; VN h; VB cl; p] => do p' <- as_ppkt p; Some (CRead h cl p')
  | VL [VN 3; VN h; VB cl; p] => do p' <- as_ppkt p; Some (CPublish h cl p')
  | VL [VN 4; VN h; VB cl; s] => do s' <- as_spkt s; Some (CSubscribe h cl s')
  | _ => None
  end.
Definition as_oev (v : val) : option oev :=
  match v with
  | VL [VN 0; ok] => do ok' <- as_bool ok; Some (VConnack ok')
  | VL [VN 1; VB t; VB p; r] => do r' <- as_bool r; Some (VPublish t p r')
  | VL [VN 2; VN ty; VN pid; VN rc] => Some (VAck ty pid rc)
  | VL [VN 3; VN pid; VB cs] => Some (VSuback pid cs)
  | VL [VN 4] => Some VClosed
  | _ => None
  end.
Definition as_cev (v : val) : option (client * oev) :=
  match v with VL [VB c; e] => do e' <- as_oev e; Some (c, e') | _ => None end.
Definition as_bb (v : val) : option (bytes * bytes) := match v with VL [VB a; VB b] => Some (a, b) | _ => None end.

(* one observed step: the operation, the hook log, what every connection received (in order per
   connection), the retained store and the topic index after the step *)
Record ostep := mkO { os_op : op; os_log : list call; os_evs : list (client * oev);
                      os_ret : list (bytes * bytes); os_subs : list (bytes * bytes) }.
Definition as_ostep (v : val) : option ostep :=
  match v with
  | VL [o; VL lg; VL evs; VL ret; VL subs] =>
      do o' <- as_op o; do lg' <- map_opt as_call lg; do evs' <- map_opt as_cev evs;
      do ret' <- map_opt as_bb ret; do subs' <- map_opt as_bb subs;
      Some (mkO o' lg' evs' ret' subs')
  | _ => None
  end.

(* ---------- monitors: the property text evaluated on what the real broker did ---------- *)

Definition evs_of (cl : client) (evs : list (client * oev)) : list oev :=
  map snd (filter (fun e => beq_bytes (fst e) cl) evs).
Definition incl_b {A} (eq : A -> A -> bool) (a b : list A) : bool := forallb (fun x => existsb (eq x) b) a.
Definition beq_bb (a b : bytes * bytes) : bool := beq_bytes (fst a) (fst b) && beq_bytes (snd a) (snd b).
Definition same_set (a b : list (bytes * bytes)) : bool := incl_b beq_bb a b && incl_b beq_bb b a.

(* the message of a publish is identified by the first payload byte (hooks only append) *)
Definition msg_id (p : bytes) : option N := match p with x :: _ => Some x | [] => None end.
Definition same_msg (id : N) (p : bytes) : bool := match p with x :: _ => x =? id | [] => false end.

(* order: the observed calls of one chain kind are exactly the trace the scripts prescribe *)
Fixpoint pub_trace_b (hs : list hook) (cl : client) (p : ppkt) (lg : list call) : bool :=
  match hs with
  | [] => nilb lg
  | h :: r =>
      match hk_publish h with
      | None => pub_trace_b r cl p lg
      | Some f =>
          match lg with
          | c :: lg' =>
              beq_call c (CPublish (hk_id h) cl p) &&
              match snd (f cl p) with ENone => pub_trace_b r cl (fst (f cl p)) lg' | _ => nilb lg' end
          | [] => false
          end
      end
  end.
Fixpoint read_trace_b (hs : list hook) (cl : client) (p : ppkt) (lg : list call) : bool :=
  match hs with
  | [] => nilb lg
  | h :: r =>
      match hk_read h with
      | None => read_trace_b r cl p lg
      | Some f =>
          match lg with
          | c :: lg' =>
              beq_call c (CRead (hk_id h) cl p) &&
              match snd (f cl p) with
              | ENone => read_trace_b r cl (fst (f cl p)) lg'
              | EReject => nilb lg'
              | _ => read_trace_b r cl p lg'
              end
          | [] => false
          end
      end
  end.
Fixpoint sub_trace_b (hs : list hook) (cl : client) (s : spkt) (lg : list call) : bool :=
  match hs with
  | [] => nilb lg
  | h :: r =>
      match hk_subscribe h with
      | None => sub_trace_b r cl s lg
      | Some f => match lg with
                  | c :: lg' => beq_call c (CSubscribe (hk_id h) cl s) && sub_trace_b r cl (f cl s) lg'
                  | [] => false
                  end
      end
  end.

Definition reads_of (lg : list call) := filter (fun c => match c with CRead _ _ _ => true | _ => false end) lg.
Definition pubs_of (lg : list call) := filter is_pub_call lg.
Definition subs_of (lg : list call) := filter (fun c => match c with CSubscribe _ _ _ => true | _ => false end) lg.

(* the packet the OnPublish chain starts from: the read chain's result as the scripts prescribe *)
Definition after_read (hs : list hook) (cl : client) (pk : ppkt) : ppkt * herr :=
  let '(p, e, _) := on_read hs cl pk in (p, e).

(* did a reached hook object?  (by script, on the packet it was actually given) *)
Definition objected (hs : list hook) (lg : list call) : bool :=
  existsb (fun c => match c with
                    | CPublish h cl p =>
                        existsb (fun k => (hk_id k =? h) &&
                                  match hk_publish k with
                                  | Some f => match snd (f cl p) with ENone => false | _ => true end
                                  | None => false end) hs
                    | CRead h cl p =>
                        existsb (fun k => (hk_id k =? h) &&
                                  match hk_read k with
                                  | Some f => match snd (f cl p) with EReject => true | _ => false end
                                  | None => false end) hs
                    | _ => false
                    end) lg.

(* a message with this id is neither delivered to anybody nor newly present in the retained store *)
Definition not_forwarded (id : N) (evs : list (client * oev)) : bool :=
  negb (existsb (fun e => match snd e with VPublish _ p _ => same_msg id p | _ => false end) evs).
Definition not_retained (id : N) (ret : list (bytes * bytes)) : bool :=
  negb (existsb (fun e => same_msg id (snd e)) ret).

(* verdict of the monitors on one step: 0 = fine, otherwise the number of the violated clause
     1 order / each sees the previous output   2 rejected on read but processed
     3 hook error but forwarded or retained    4 any-of authentication   5 any-of access control *)
Definition monitor_step (hs : list hook) (s : ostep) : N :=
  match os_op s with
  | OConnect cl _ =>
      let admitted := existsb (fun e => match e with VConnack true => true | _ => false end) (evs_of cl (os_evs s)) in
      if Bool.eqb admitted (some_authb hs cl) then 0 else 4
  | OPublish cl pk =>
      let lg := os_log s in
      let '(pk', er) := after_read hs cl pk in
      if negb (read_trace_b hs cl pk (reads_of lg)) then 1
      else if negb (match pubs_of lg with [] => true | _ => pub_trace_b hs cl pk' (pubs_of lg) end) then 1
      else
        match msg_id (pp_payload pk) with
        | None => 0
        | Some id =>
            let quiet := not_forwarded id (os_evs s) && not_retained id (os_ret s) in
            let acked := existsb (fun e => match e with VAck _ _ _ => true | _ => false end) (evs_of cl (os_evs s)) in
            match er with
            | EReject => if quiet && negb acked && nilb (pubs_of lg) then 0 else 2
            | _ =>
                if objected hs lg && negb quiet then 3
                else if negb (some_aclb hs cl (pp_topic pk') true) && negb quiet then 5
                else 0
            end
        end
  | OSubscribe cl sp =>
      if negb (sub_trace_b hs cl sp (subs_of (os_log s))) then 1
      else
        (* a filter nobody permits is not in the index afterwards (filters of the chain's result) *)
        let sp' := compose_sub hs cl sp in
        if existsb (fun fq => negb (some_aclb hs cl (fst fq) false) &&
                              existsb (fun e => beq_bytes (fst e) cl && beq_bytes (snd e) (fst fq)) (os_subs s))
                   (sp_filters sp') then 5
        else 0
  end.

(* ---------- engine ----------
   case = (obscure hooks steps)      hooks = list of (id auth acl read publish subscribe)
   step = (op log events retained subs) *)
Definition ver_of (st : bst) (cl : client) : N := match assoc cl (b_conn st) with Some v => v | None => 0 end.

Definition evs_match (st : bst) (model obs : list (client * oev)) : bool :=
  let clients := map fst model ++ map fst obs in
  forallb (fun c => beq_list (beq_oev (ver_of st c =? 5)) (evs_of c model) (evs_of c obs)) clients.

Definition step_matches (st st' : bst) (evs : list (client * oev)) (lg : list call) (s : ostep) : bool :=
  beq_list beq_call lg (os_log s) &&
  evs_match (match os_op s with OConnect cl ver => mkB ((cl, ver) :: b_conn st) [] [] | _ => st end) evs (os_evs s) &&
  same_set (b_ret st') (os_ret s) && same_set (b_subs st') (os_subs s).

(* first step (1-based) on which a monitor fails / the model differs, with the clause number *)
Fixpoint run (hs : list hook) (obscure : bool) (st : bst) (n : N) (steps : list ostep) : N * N * N :=
  match steps with
  | [] => (0, 0, 0)
  | s :: r =>
      let m := monitor_step hs s in
      if negb (m =? 0) then (1, n, m)
      else
        let '(st', evs, lg) := step hs obscure st (os_op s) in
        if negb (step_matches st st' evs lg s) then (2, n, 0)
        else run hs obscure st' (n + 1) r
  end.

Definition interesting (hs : list hook) (steps : list ostep) : bool :=
  existsb (fun s => negb (nilb (pubs_of (os_log s))) || negb (nilb (subs_of (os_log s)))) steps.

(* ENGINE hooks Hooks.Chain.hooks_engine *)
Definition hooks_engine (v : val) : val :=
  match v with
  | VL [obscure; VL hooks; VL steps] =>
      match as_bool obscure, map_opt as_hookscript hooks, map_opt as_ostep steps with
      | Some ob, Some hs, Some ss =>
          let '(code, n, clause) := run hs ob b_init 1 ss in
          verdict code (if code =? 0 then tag "history" else if code =? 1 then tag "monitor" else tag "model")
                  (interesting hs ss) (if code =? 0 then [] else [VN n; VN clause])
      | _, _, _ => bad_case
      end
  | _ => bad_case
  end.
