(* WIP *)
(* C26, re-encode direction: every packet the decoder model returns is well-formed (wf_packet), so the
   encoder accepts it (apart from the refused identifier 0) and the round trip theorem applies.
   The proof follows every decoder with a postcondition that records the ranges of the decoded
   values, the offsets consumed, and a size account showing that re-encoding does not need more
   bytes than were read. *)
From MV Require Import Base.Val Base.Bytes Codec.Vbi Codec.VbiProofs Codec.Wire Codec.Props Codec.MochiCodec
  Codec.SpecCodec Codec.SpecBridge Codec.CodecTotal Codec.CodecRT Codec.CodecEnc Codec.CodecNorm.
From Coq Require Import Lia ZifyBool ZifyN ZifyNat.
Ltac Zify.zify_post_hook ::= Z.div_mod_to_equations.
Open Scope N_scope.
Set Warnings "-unused-intro-pattern".

Arguments N.mul : simpl never.
Arguments N.add : simpl never.
Arguments N.sub : simpl never.
Arguments N.div : simpl never.
Arguments N.modulo : simpl never.
Arguments N.shiftl : simpl never.
Arguments N.shiftr : simpl never.
Arguments N.lor : simpl never.
Arguments N.land : simpl never.
Arguments N.ltb : simpl never.
Arguments N.leb : simpl never.
Arguments N.eqb : simpl never.
Arguments N.of_nat : simpl never.
Arguments N.to_nat : simpl never.
Arguments N.pow : simpl never.

Ltac split_and :=
  repeat match goal with
  | H : _ && _ = true |- _ => apply andb_prop in H; destruct H
  end.
Ltac join_and := repeat match goal with |- _ && _ = true => apply andb_true_intro; split end.

(* ---------- bytes of sub-slices ---------- *)

Notation wfb := Vbi.wf_bytes.

Lemma wfb_iff bs : wfb bs <-> Vbi.wf_bytesb bs = true.
Proof.
  unfold wfb. induction bs as [|b r IH]; cbn [Vbi.wf_bytesb].
  - split; [reflexivity | constructor].
  - rewrite andb_true_iff, <- IH. split.
    + intro H. inversion H; subst. split; [lia | assumption].
    + intros [H1 H2]. constructor; [lia | assumption].
Qed.

Lemma wfb_firstn n bs : wfb bs -> wfb (firstn n bs).
Proof.
  unfold wfb. intro H. apply Forall_forall. intros x Hx. rewrite Forall_forall in H. apply H.
  rewrite <- (firstn_skipn n bs). apply in_or_app. left. exact Hx.
Qed.

Lemma wfb_skipn n bs : wfb bs -> wfb (skipn n bs).
Proof.
  unfold wfb. intro H. apply Forall_forall. intros x Hx. rewrite Forall_forall in H. apply H.
  rewrite <- (firstn_skipn n bs). apply in_or_app. right. exact Hx.
Qed.

Lemma wfb_nth bs i b : wfb bs -> nth_error bs i = Some b -> b < 256.
Proof. unfold wfb. intros H E. rewrite Forall_forall in H. apply H. eapply nth_error_In. exact E. Qed.

(* ---------- the field decoders: ranges and offsets ---------- *)

Lemma index_val buf i : wfb buf -> i < blen buf -> post (index buf i) (fun b => b < 256).
Proof.
  intros W H. unfold index. destruct (nth_error buf (N.to_nat i)) eqn:E; cbn.
  - eapply wfb_nth; eassumption.
  - apply nth_error_None in E. unfold blen in H. lia.
Qed.

Lemma slice_val buf lo hi : wfb buf -> lo <= hi -> hi <= blen buf ->
  post (slice buf lo hi) (fun s => blen s = hi - lo /\ wfb s).
Proof.
  intros W H1 H2. unfold slice.
  replace ((lo <=? hi) && (hi <=? blen buf)) with true by lia. cbn. split.
  - unfold blen in *. rewrite firstn_length, skipn_length. lia.
  - apply wfb_firstn. apply wfb_skipn. exact W.
Qed.

Lemma slice_from_val buf lo : wfb buf -> lo <= blen buf ->
  post (slice_from buf lo) (fun s => blen s = blen buf - lo /\ wfb s).
Proof. intros W H. apply slice_val; [exact W | lia | lia]. Qed.

Lemma decodeByte_val buf off : wfb buf ->
  post (decodeByte buf off) (fun '(b, o) => o = off + 1 /\ o <= blen buf /\ b < 256).
Proof.
  intro W. unfold decodeByte. destruct (blen buf <=? off) eqn:E; [exact I|].
  eapply post_bind; [apply index_val; [exact W | lia]|]. intros b Hb. cbv beta in Hb. cbn. lia.
Qed.

Lemma decodeByteBool_val buf off : wfb buf ->
  post (decodeByteBool buf off) (fun '(_, o) => o = off + 1 /\ o <= blen buf).
Proof.
  intro W. unfold decodeByteBool. destruct (blen buf <=? off) eqn:E; [exact I|].
  eapply post_bind; [apply index_val; [exact W | lia]|]. intros b Hb. cbv beta in Hb. cbn. lia.
Qed.

Lemma be_uint16_val s : wfb s -> blen s = 2 -> post (be_uint16 s) (fun v => v < 65536).
Proof.
  intros Ws Hs. unfold be_uint16.
  eapply post_bind; [apply index_val; [exact Ws | lia]|]. intros b1 H1.
  eapply post_bind; [apply index_val; [exact Ws | lia]|]. intros b0 H0. cbv beta in *. cbn. lia.
Qed.

Lemma be_uint32_val s : wfb s -> blen s = 4 -> post (be_uint32 s) (fun v => v <= 4294967295).
Proof.
  intros Ws Hs. unfold be_uint32.
  eapply post_bind; [apply index_val; [exact Ws | lia]|]. intros b3 H3.
  eapply post_bind; [apply index_val; [exact Ws | lia]|]. intros b0 H0.
  eapply post_bind; [apply index_val; [exact Ws | lia]|]. intros b1 H1.
  eapply post_bind; [apply index_val; [exact Ws | lia]|]. intros b2 H2. cbv beta in *. cbn. lia.
Qed.

Lemma decodeUint16_val buf off : wfb buf ->
  post (decodeUint16 buf off) (fun '(v, o) => o = off + 2 /\ o <= blen buf /\ v < 65536).
Proof.
  intro W. unfold decodeUint16. destruct (blen buf <? off + 2) eqn:E; [exact I|].
  eapply post_bind; [apply slice_val; [exact W | lia | lia]|]. intros s [Hs Ws].
  eapply post_bind; [apply be_uint16_val; [exact Ws | lia]|]. intros v Hv. cbv beta in *. cbn. lia.
Qed.

Lemma decodeUint32_val buf off : wfb buf ->
  post (decodeUint32 buf off) (fun '(v, o) => o = off + 4 /\ o <= blen buf /\ v <= 4294967295).
Proof.
  intro W. unfold decodeUint32. destruct (blen buf <? off + 4) eqn:E; [exact I|].
  eapply post_bind; [apply slice_val; [exact W | lia | lia]|]. intros s [Hs Ws].
  eapply post_bind; [apply be_uint32_val; [exact Ws | lia]|]. intros v Hv. cbv beta in *. cbn. lia.
Qed.

Lemma decodeBytes_val buf off : wfb buf ->
  post (decodeBytes buf off) (fun '(s, o) => o = off + 2 + blen s /\ o <= blen buf /\ bin_fits s = true /\ wfb s).
Proof.
  intro W. unfold decodeBytes.
  eapply post_bind; [apply decodeUint16_val; exact W|]. intros [len next] (H1 & H2 & H3).
  destruct (blen buf <? next + len) eqn:E; [exact I|].
  eapply post_bind; [apply slice_val; [exact W | lia | lia]|]. intros s [Hs Ws]. cbv beta in *.
  cbn. unfold bin_fits. repeat split; try lia. exact Ws.
Qed.

Lemma decodeString_val buf off : wfb buf ->
  post (decodeString buf off) (fun '(s, o) => o = off + 2 + blen s /\ o <= blen buf /\ str_fits s = true /\ wfb s).
Proof.
  intro W. unfold decodeString.
  eapply post_bind; [apply decodeBytes_val; exact W|]. intros [s o] (H1 & H2 & H3 & H4).
  destruct (valid_utf8 s) eqn:U; cbn [negb]; [|exact I]. cbn. unfold str_fits, bin_fits in *. rewrite U.
  repeat split; try lia; try assumption; try (rewrite H3; reflexivity).
Qed.

Lemma vbi_decode_val s n bu r : wfb s -> vbi_decode s = VOk n bu r ->
  n <= 268435455 /\ vbi_min_len n <= bu /\ bu + blen r = blen s /\ wfb r.
Proof.
  intros W E. pose proof (decoded_bounded s n bu r W E) as (B1 & B2 & B3).
  pose proof (decode_refines_spec s W) as D. rewrite B3 in D. destruct D as [D _].
  rewrite E in D. injection D as Dbu.
  pose proof (min_len_minimal s n r W B3) as M.
  pose proof (vbi_decode_len s n bu r E) as [L _].
  repeat split; try lia.
  - unfold vbi_max in B1. lia.
  - (* r is a suffix of s *)
    clear - W E. unfold vbi_decode in E. revert E. generalize 0 at 1. generalize 0 at 1. generalize 1.
    induction s as [|b t IH]; intros bu0 v0 m0 E; [discriminate|].
    cbn [vbi_decode_loop] in E.
    destruct (268435455 <? _); [discriminate|].
    destruct (N.land b 128 =? 0).
    + injection E as <- <- <-. apply wf_cons_r in W. exact W.
    + destruct (bu0 =? 4); [discriminate|]. apply (IH (wf_cons_r _ _ W) _ _ _ E).
Qed.

(* ---------- size account of a Properties struct: an upper bound of what Properties.Encode can write ---------- *)

Definition tflag (k : N) (f : bool) : N := if f then k else 0.
Definition tnum (k : N) (n : N) : N := if 0 <? n then k else 0.
Definition tstr (s : bytes) : N := if nonempty s then 3 + blen s else 0.
Fixpoint tsub (l : list N) : N :=
  match l with [] => 0 | v :: r => (if 0 <? v then 1 + vbi_min_len v else 0) + tsub r end.
Fixpoint tuser (l : list (bytes * bytes)) : N :=
  match l with [] => 0 | kv :: r => 5 + blen (fst kv) + blen (snd kv) + tuser r end.

Definition psize (p : props) : N :=
  tflag 2 (p_payload_format_flag p) + tnum 5 (p_message_expiry p) + tstr (p_content_type p)
  + tstr (p_response_topic p) + tstr (p_correlation_data p) + tsub (p_sub_ids p)
  + tflag 5 (p_session_expiry_flag p) + tstr (p_assigned_client_id p) + tflag 3 (p_server_keep_alive_flag p)
  + tstr (p_auth_method p) + tstr (p_auth_data p) + tflag 2 (p_request_problem_info_flag p)
  + tnum 5 (p_will_delay p) + tnum 2 (p_request_response_info p) + tstr (p_response_info p)
  + tstr (p_server_reference p) + tstr (p_reason_string p) + tnum 3 (p_receive_maximum p)
  + tnum 3 (p_topic_alias_maximum p) + tflag 3 (p_topic_alias_flag p) + tflag 2 (p_maximum_qos_flag p)
  + tflag 2 (p_retain_available_flag p) + tuser (p_user p) + tnum 5 (p_maximum_packet_size p)
  + tflag 2 (p_wildcard_sub_available_flag p) + tflag 2 (p_sub_id_available_flag p)
  + tflag 2 (p_shared_sub_available_flag p).

Lemma tflag_le k f : tflag k f <= k. Proof. destruct f; cbn; lia. Qed.
Lemma tnum_le k n : tnum k n <= k. Proof. unfold tnum. destruct (0 <? n); lia. Qed.
Lemma tstr_le s : tstr s <= 3 + blen s. Proof. unfold tstr. destruct (nonempty s); lia. Qed.
Lemma tsub_app l n : tsub (l ++ [n]) <= tsub l + 1 + vbi_min_len n.
Proof. induction l as [|a l IH]; cbn [app tsub]; [destruct (0 <? n); lia | lia]. Qed.
Lemma tuser_app l k v : tuser (l ++ [(k, v)]) = tuser l + 5 + blen k + blen v.
Proof. induction l as [|a l IH]; cbn [app tuser fst snd]; lia. Qed.

Ltac pred := cbn [p_payload_format p_payload_format_flag p_message_expiry p_content_type p_response_topic p_correlation_data p_sub_ids p_session_expiry p_session_expiry_flag p_assigned_client_id p_server_keep_alive p_server_keep_alive_flag p_auth_method p_auth_data p_request_problem_info p_request_problem_info_flag p_will_delay p_request_response_info p_response_info p_server_reference p_reason_string p_receive_maximum p_topic_alias_maximum p_topic_alias p_topic_alias_flag p_maximum_qos p_maximum_qos_flag p_retain_available p_retain_available_flag p_user p_maximum_packet_size p_wildcard_sub_available p_wildcard_sub_available_flag p_sub_id_available p_sub_id_available_flag p_shared_sub_available p_shared_sub_available_flag set_payload_format set_payload_format_flag set_message_expiry set_content_type set_response_topic set_correlation_data set_sub_ids set_session_expiry set_session_expiry_flag set_assigned_client_id set_server_keep_alive set_server_keep_alive_flag set_auth_method set_auth_data set_request_problem_info set_request_problem_info_flag set_will_delay set_request_response_info set_response_info set_server_reference set_reason_string set_receive_maximum set_topic_alias_maximum set_topic_alias set_topic_alias_flag set_maximum_qos set_maximum_qos_flag set_retain_available set_retain_available_flag set_user set_maximum_packet_size set_wildcard_sub_available set_wildcard_sub_available_flag set_sub_id_available set_sub_id_available_flag set_shared_sub_available set_shared_sub_available_flag].

Lemma psize0 : psize props0 = 0.
Proof. reflexivity. Qed.

Ltac bounds :=
  repeat match goal with
  | |- context [tstr ?s] => lazymatch goal with H : tstr s <= _ |- _ => fail | _ => pose proof (tstr_le s) end
  | |- context [tnum ?k ?n] => lazymatch goal with H : tnum k n <= _ |- _ => fail | _ => pose proof (tnum_le k n) end
  | |- context [tflag ?k ?f] => lazymatch goal with H : tflag k f <= _ |- _ => fail | _ => pose proof (tflag_le k f) end
  end.

Definition prop_inv (bt : bytes) (off : N) (p : props) : props * N -> Prop :=
  fun '(p', o) => wf_props p' = true /\ off <= o /\ o <= blen bt /\ psize p' + off <= psize p + o + 1.

Ltac wfp_goal := unfold wf_props in *; pred; split_and; join_and; try assumption; try lia.
Ltac psz_goal := unfold psize; pred; bounds; cbn [tflag]; lia.

Lemma prop_case_inv k bt off p : wfb bt -> off <= blen bt -> wf_props p = true ->
  post (prop_case k bt off p) (prop_inv bt off p).
Proof.
  intros W Hoff Wp.
  assert (Hdef : post (Ok (p, off) : res (props * N)) (prop_inv bt off p)).
  { cbn. repeat split; try assumption; lia. }
  unfold prop_case.
  case6 k; try exact Hdef;
  try (eapply post_bind; [first [apply decodeByte_val | apply decodeUint16_val | apply decodeUint32_val
                                 | apply decodeString_val | apply decodeBytes_val]; exact W|];
       intros [v o] Hv; cbv beta iota in Hv; decompose [and] Hv; clear Hv; unfold prop_inv; cbn beta iota;
       split; [wfp_goal|split; [lia|split; [lia|psz_goal]]]).
  - (* 11: subscription identifier *)
    eapply post_bind; [apply slice_from_val; [exact W | exact Hoff]|]. intros s [Hs Ws].
    destruct (vbi_decode s) as [n bu r| |] eqn:E; [|exact I|exact I].
    destruct (vbi_decode_val s n bu r Ws E) as (V1 & V2 & V3 & V4).
    unfold prop_inv. cbn beta iota. split; [|split; [lia|split; [lia|]]].
    + unfold wf_props in *. pred. split_and. join_and; try assumption.
      rewrite forallb_app. cbn [forallb]. apply andb_true_intro. split; [assumption|]. lia.
    + unfold psize. pred. pose proof (tsub_app (p_sub_ids p) n). lia.
  - (* 38: user property *)
    eapply post_bind; [apply decodeString_val; exact W|]. intros [key o] (K1 & K2 & K3 & K4).
    eapply post_bind; [apply decodeString_val; exact W|]. intros [v o'] (V1 & V2 & V3 & V4).
    unfold prop_inv. cbn beta iota. split; [|split; [lia|split; [lia|]]].
    + unfold wf_props in *. pred. split_and. join_and; try assumption.
      rewrite forallb_app. cbn [forallb fst snd]. rewrite K3, V3.
      match goal with H : forallb _ (p_user p) = true |- _ => rewrite H end. reflexivity.
    + unfold psize. pred. rewrite tuser_app. lia.
Qed.

(* one property never spans more than this many bytes after its identifier *)
Definition PMAX : N := 131074.

Lemma prop_case_span k bt off p : wfb bt -> off <= blen bt ->
  post (prop_case k bt off p) (fun '(_, o) => o <= off + PMAX).
Proof.
  intros W Hoff. unfold PMAX.
  assert (Hdef : post (Ok (p, off) : res (props * N)) (fun '(_, o) => o <= off + 131074)) by (cbn; lia).
  unfold prop_case.
  case6 k; try exact Hdef;
  try (eapply post_bind; [first [apply decodeByte_val | apply decodeUint16_val | apply decodeUint32_val
                                 | apply decodeString_val | apply decodeBytes_val]; exact W|];
       intros [v o] Hv; cbv beta iota in Hv; decompose [and] Hv; clear Hv; cbn beta iota;
       try (match goal with H : str_fits _ = true |- _ => unfold str_fits in H; apply andb_prop in H; destruct H end);
       try (match goal with H : bin_fits _ = true |- _ => unfold bin_fits in H end); cbn; lia).
  - eapply post_bind; [apply slice_from_val; [exact W | exact Hoff]|]. intros s [Hs Ws].
    destruct (vbi_decode s) as [n bu r| |] eqn:E; [|exact I|exact I].
    pose proof (decoded_bounded s n bu r Ws E) as (_ & B & _). cbn. lia.
  - eapply post_bind; [apply decodeString_val; exact W|]. intros [key o] (K1 & K2 & K3 & K4).
    eapply post_bind; [apply decodeString_val; exact W|]. intros [v o'] (V1 & V2 & V3 & V4).
    unfold str_fits in *. split_and. cbn. lia.
Qed.

Lemma post_and {A} (r : res A) (P Q : A -> Prop) : post r P -> post r Q -> post r (fun a => P a /\ Q a).
Proof. destruct r; cbn; tauto. Qed.

Lemma props_loop_inv fuel : forall pkt bt n off p,
  wfb bt -> off <= blen bt -> blen bt < off + N.of_nat fuel -> wf_props p = true ->
  post (props_loop fuel pkt bt n off p)
       (fun p' => wf_props p' = true /\ psize p' + off <= psize p + (N.max off (n + PMAX))).
Proof.
  induction fuel as [|f IH]; intros pkt bt n off p W H1 H2 Wp; [lia|].
  cbn [props_loop]. destruct (n <=? off) eqn:E; [cbn; split; [exact Wp | lia]|].
  eapply post_bind; [apply decodeByte_val; exact W|]. intros [k o1] (K1 & K2 & K3).
  destruct (negb (valid_prop k pkt)); [exact I|].
  eapply post_bind.
  { apply post_and; [apply (prop_case_inv k bt o1 p W K2 Wp) | apply (prop_case_span k bt o1 p W K2)]. }
  intros [p' o2] [(I1 & I2 & I3 & I4) I5].
  eapply post_weaken; [apply (IH pkt bt n o2 p' W I3 ltac:(lia) I1)|].
  intros q [Q1 Q2]. split; [exact Q1|]. unfold PMAX in *. lia.
Qed.

Lemma props_decode_inv pkt p b : wfb b -> wf_props p = true ->
  post (props_decode pkt p b)
       (fun '(nn, p') => wf_props p' = true /\ nn <= blen b /\ 1 <= nn /\ psize p' + 1 <= psize p + nn + PMAX).
Proof.
  intros W Wp. unfold props_decode.
  destruct (vbi_decode b) as [n bu bt| |] eqn:E; [|exact I|exact I].
  destruct (vbi_decode_val b n bu bt W E) as (V1 & V2 & V3 & V4).
  assert (1 <= bu) by (unfold vbi_min_len in V2; destruct (n <? 128); [lia|]; destruct (n <? 16384); [lia|]; destruct (n <? 2097152); lia).
  destruct (n =? 0) eqn:E0; [cbn; unfold PMAX; repeat split; try assumption; lia|].
  eapply post_bind.
  { apply post_and; [apply (props_loop_inv (S (length bt)) pkt bt n 0 p V4); [lia | unfold blen; lia | exact Wp]
                    | apply (props_loop_post (S (length bt)) pkt bt n 0 p); [lia | unfold blen; lia]]. }
  intros p' [[Q1 Q2] Q3]. cbn. unfold PMAX in *. repeat split; try assumption; lia.
Qed.

(* ---------- what Properties.Encode writes for a struct is at most its size account ---------- *)

Lemma len_app' (a b : bytes) : len (a ++ b) = len a + len b.
Proof. unfold len. rewrite app_length. lia. Qed.

Lemma ppb_app' a b : put_props_body (a ++ b) = put_props_body a ++ put_props_body b.
Proof. unfold put_props_body. rewrite map_app, concat_app. reflexivity. Qed.

Lemma ppb_optl_len c x : len (put_props_body (optl c x)) = if c then len (put_prop x) else 0.
Proof. destruct c; cbn [optl put_props_body map concat]; [rewrite app_nil_r|]; reflexivity. Qed.

Lemma seg_flag (c f : bool) x k : (c = true -> f = true) -> len (put_prop x) = k ->
  len (put_props_body (optl c x)) <= tflag k f.
Proof. intros H L. rewrite ppb_optl_len. unfold tflag. destruct c; [rewrite (H eq_refl), L; lia | destruct f; lia]. Qed.

Lemma seg_num (c : bool) x k n : (c = true -> (0 <? n) = true) -> len (put_prop x) = k ->
  len (put_props_body (optl c x)) <= tnum k n.
Proof. intros H L. rewrite ppb_optl_len. unfold tnum. destruct c; [rewrite (H eq_refl), L; lia | destruct (0 <? n); lia]. Qed.

Lemma seg_str (c : bool) x s : (c = true -> nonempty s = true) -> len (put_prop x) = 3 + blen s ->
  len (put_props_body (optl c x)) <= tstr s.
Proof. intros H L. rewrite ppb_optl_len. unfold tstr. destruct c; [rewrite (H eq_refl), L; lia | destruct (nonempty s); lia]. Qed.

Lemma len_subid v : v <= 268435455 -> len (put_prop (SubscriptionId v)) = 1 + vbi_min_len v.
Proof.
  intro H. rewrite <- (blen_put_vbi v H). unfold len, blen, put_prop. cbn [prop_id length]. lia.
Qed.

Lemma len_user k v : len (put_prop (UserProperty k v)) = 5 + blen k + blen v.
Proof.
  unfold len, blen, put_prop, put_str, put_bin, put_u16. cbn [prop_id length app]. rewrite !app_length. cbn [length]. lia.
Qed.

Lemma sub_ids_len l : forallb (fun v => v <=? 268435455) l = true ->
  len (put_props_body (map SubscriptionId (filter (fun v => 0 <? v) l))) <= tsub l.
Proof.
  induction l as [|v r IH]; intro H; [cbv; discriminate|].
  cbn [forallb] in H. apply andb_prop in H. destruct H as [Hv Hr]. cbn [filter tsub].
  destruct (0 <? v); [|specialize (IH Hr); lia].
  cbn [map]. change (put_props_body (SubscriptionId v :: ?x)) with (put_prop (SubscriptionId v) ++ put_props_body x).
  rewrite len_app', (len_subid v) by lia. specialize (IH Hr). lia.
Qed.

Lemma users_len (l : list (bytes * bytes)) :
  len (put_props_body (map (fun kv => UserProperty (fst kv) (snd kv)) l)) = tuser l.
Proof.
  induction l as [|[k v] r IH]; [reflexivity|].
  cbn [map tuser fst snd]. change (put_props_body (UserProperty k v :: ?x)) with (put_prop (UserProperty k v) ++ put_props_body x).
  rewrite len_app', IH, len_user. lia.
Qed.

Lemma andb_l a b : a && b = true -> a = true. Proof. destruct a; [reflexivity|discriminate]. Qed.
Lemma andb_r a b : a && b = true -> b = true. Proof. destruct a; [cbn; auto|discriminate]. Qed.

Lemma entries_size pkt m p n : wf_props p = true ->
  len (put_props_body (entries pkt m p n)) <= psize p.
Proof.
  intro W. unfold entries, psize. cbv zeta. rewrite !ppb_app', !len_app'.
  assert (Hs : forallb (fun v => v <=? 268435455) (p_sub_ids p) = true) by (unfold wf_props in W; split_and; assumption).
  rewrite <- !N.add_assoc. repeat apply N.add_le_mono.
  all: try (apply seg_flag; [intro Hc; split_and; assumption | reflexivity]).
  all: try (apply seg_str; [intro Hc; split_and; assumption
                           | unfold len, blen, put_prop, put_str, put_bin, put_u16; cbn [prop_id length app]; rewrite ?app_length; cbn [length]; lia]).
  - destruct (valid_prop 11 pkt); [apply sub_ids_len; exact Hs | change (len (put_props_body [])) with 0; lia].
  - match goal with |- context [if ?c then _ else _] => destruct c end; [rewrite users_len; lia|].
    change (len (put_props_body [])) with 0. lia.
Qed.

Lemma forallb_optl (f : sprop -> bool) c x : forallb f (optl c x) = (negb c || f x).
Proof. destruct c; cbn [optl forallb negb orb]; [apply andb_true_r | reflexivity]. Qed.

Lemma forallb_map_const {A} (f : sprop -> bool) (g : A -> sprop) (l : list A) :
  (forall a, In a l -> f (g a) = true) -> forallb f (map g l) = true.
Proof. intro H. rewrite forallb_forall. intros x Hx. apply in_map_iff in Hx. destruct Hx as (a & <- & Ha). apply H. exact Ha. Qed.

Lemma entries_fits pkt m p n : wf_props p = true -> forallb prop_fits (entries pkt m p n) = true.
Proof.
  intro W. unfold wf_props in W. split_and. unfold entries. cbv zeta.
  rewrite !forallb_app, !forallb_optl. cbn [prop_fits].
  join_and;
    try (match goal with |- negb ?c || _ = true => destruct c; cbn [negb orb]; [assumption | reflexivity] end);
    try (match goal with |- negb ?c || true = true => destruct c; reflexivity end).
  - destruct (valid_prop 11 pkt); [|reflexivity]. apply forallb_map_const. intros a Ha. cbn [prop_fits].
    apply filter_In in Ha. destruct Ha as [Ha _].
    match goal with Hs : forallb _ (p_sub_ids p) = true |- _ => rewrite forallb_forall in Hs; apply Hs; exact Ha end.
  - match goal with |- forallb _ (if ?c then _ else _) = true => destruct c; [|reflexivity] end.
    apply forallb_map_const. intros a Ha. cbn [prop_fits].
    match goal with Hs : forallb _ (p_user p) = true |- _ => rewrite forallb_forall in Hs; apply (Hs a Ha) end.
Qed.

Lemma entries_valid pkt m p n : props_valid_for pkt (entries pkt m p n) = true.
Proof.
  unfold props_valid_for, entries. cbv zeta.
  rewrite !forallb_app, !forallb_optl. cbn [prop_id].
  join_and;
    try (match goal with |- negb ?c || _ = true => destruct c eqn:Hc; cbn [negb orb]; [split_and; assumption | reflexivity] end).
  - destruct (valid_prop 11 pkt) eqn:E; [|reflexivity]. apply forallb_map_const. intros a _. exact E.
  - match goal with |- forallb _ (if ?c then _ else _) = true => destruct c eqn:Hc; [|reflexivity] end.
    apply forallb_map_const. intros a _. cbn [prop_id]. split_and. assumption.
Qed.

Lemma entries_plist pkt m p n : wf_props p = true -> psize p <= 268435455 ->
  plist_fits pkt (entries pkt m p n) = true.
Proof.
  intros W S. unfold plist_fits. rewrite (entries_fits pkt m p n W), (entries_valid pkt m p n). cbn [andb].
  pose proof (entries_size pkt m p n W). lia.
Qed.

(* re-encoding the properties needs at most 4 bytes of length plus the size account *)
Lemma put_props_size ps : len (put_props ps) <= 4 + len (put_props_body ps).
Proof.
  unfold put_props. rewrite len_app'. unfold put_vbi.
  repeat match goal with |- context [if ?c then _ else _] => destruct c end; unfold len; cbn [length]; lia.
Qed.
