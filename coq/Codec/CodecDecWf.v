(* C26, re-encode direction: every packet the decoder model returns is well-formed (wf_packet), so the
   encoder accepts it (apart from the refused identifier 0) and the round trip theorem applies.
   The proof follows every decoder with a postcondition that records the ranges of the decoded
   values, the offsets consumed, and a size account showing that re-encoding does not need more
   bytes than were read. *)
From MV Require Import Base.Val Base.Bytes Codec.Vbi Codec.VbiProofs Codec.Wire Codec.Props Codec.MochiCodec
  Codec.SpecCodec Codec.SpecBridge Codec.CodecTotal Codec.CodecRT Codec.CodecEnc Codec.CodecNorm.
From Coq Require Import Lia ZifyBool ZifyN ZifyNat.
Ltac Zify.zify_post_hook ::= Z.div_mod_to_equations.
Open Scope N_scope.
Set Warnings "-unused-intro-pattern".

Arguments N.mul : simpl never.
Arguments N.add : simpl never.
Arguments N.sub : simpl never.
Arguments N.div : simpl never.
Arguments N.modulo : simpl never.
Arguments N.shiftl : simpl never.
Arguments N.shiftr : simpl never.
Arguments N.lor : simpl never.
Arguments N.land : simpl never.
Arguments N.ltb : simpl never.
Arguments N.leb : simpl never.
Arguments N.eqb : simpl never.
Arguments N.of_nat : simpl never.
Arguments N.to_nat : simpl never.
Arguments N.pow : simpl never.

Ltac split_and :=
  repeat match goal with
  | H : _ && _ = true |- _ => apply andb_prop in H; destruct H
  end.
Ltac join_and := repeat match goal with |- _ && _ = true => apply andb_true_intro; split end.

(* ---------- bytes of sub-slices ---------- *)

Notation wfb := Vbi.wf_bytes.

Lemma wfb_iff bs : wfb bs <-> Vbi.wf_bytesb bs = true.
Proof.
  unfold wfb. induction bs as [|b r IH]; cbn [Vbi.wf_bytesb].
  - split; [reflexivity | constructor].
  - rewrite andb_true_iff, <- IH. split.
    + intro H. inversion H; subst. split; [lia | assumption].
    + intros [H1 H2]. constructor; [lia | assumption].
Qed.

Lemma wfb_firstn n bs : wfb bs -> wfb (firstn n bs).
Proof.
  unfold wfb. intro H. apply Forall_forall. intros x Hx. rewrite Forall_forall in H. apply H.
  rewrite <- (firstn_skipn n bs). apply in_or_app. left. exact Hx.
Qed.

Lemma wfb_skipn n bs : wfb bs -> wfb (skipn n bs).
Proof.
  unfold wfb. intro H. apply Forall_forall. intros x Hx. rewrite Forall_forall in H. apply H.
  rewrite <- (firstn_skipn n bs). apply in_or_app. right. exact Hx.
Qed.

Lemma wfb_nth bs i b : wfb bs -> nth_error bs i = Some b -> b < 256.
Proof. unfold wfb. intros H E. rewrite Forall_forall in H. apply H. eapply nth_error_In. exact E. Qed.

(* ---------- the field decoders: ranges and offsets ---------- *)

Lemma index_val buf i : wfb buf -> i < blen buf -> post (index buf i) (fun b => b < 256).
Proof.
  intros W H. unfold index. destruct (nth_error buf (N.to_nat i)) eqn:E; cbn.
  - eapply wfb_nth; eassumption.
  - apply nth_error_None in E. unfold blen in H. lia.
Qed.

Lemma slice_val buf lo hi : wfb buf -> lo <= hi -> hi <= blen buf ->
  post (slice buf lo hi) (fun s => blen s = hi - lo /\ wfb s).
Proof.
  intros W H1 H2. unfold slice.
  replace ((lo <=? hi) && (hi <=? blen buf)) with true by lia. cbn. split.
  - unfold blen in *. rewrite firstn_length, skipn_length. lia.
  - apply wfb_firstn. apply wfb_skipn. exact W.
Qed.

Lemma slice_from_val buf lo : wfb buf -> lo <= blen buf ->
  post (slice_from buf lo) (fun s => blen s = blen buf - lo /\ wfb s).
Proof. intros W H. apply slice_val; [exact W | lia | lia]. Qed.

Lemma decodeByte_val buf off : wfb buf ->
  post (decodeByte buf off) (fun '(b, o) => o = off + 1 /\ o <= blen buf /\ b < 256).
Proof.
  intro W. unfold decodeByte. destruct (blen buf <=? off) eqn:E; [exact I|].
  eapply post_bind; [apply index_val; [exact W | lia]|]. intros b Hb. cbv beta in Hb. cbn. lia.
Qed.

Lemma decodeByteBool_val buf off : wfb buf ->
  post (decodeByteBool buf off) (fun '(_, o) => o = off + 1 /\ o <= blen buf).
Proof.
  intro W. unfold decodeByteBool. destruct (blen buf <=? off) eqn:E; [exact I|].
  eapply post_bind; [apply index_val; [exact W | lia]|]. intros b Hb. cbv beta in Hb. cbn. lia.
Qed.

Lemma be_uint16_val s : wfb s -> blen s = 2 -> post (be_uint16 s) (fun v => v < 65536).
Proof.
  intros Ws Hs. unfold be_uint16.
  eapply post_bind; [apply index_val; [exact Ws | lia]|]. intros b1 H1.
  eapply post_bind; [apply index_val; [exact Ws | lia]|]. intros b0 H0. cbv beta in *. cbn. lia.
Qed.

Lemma be_uint32_val s : wfb s -> blen s = 4 -> post (be_uint32 s) (fun v => v <= 4294967295).
Proof.
  intros Ws Hs. unfold be_uint32.
  eapply post_bind; [apply index_val; [exact Ws | lia]|]. intros b3 H3.
  eapply post_bind; [apply index_val; [exact Ws | lia]|]. intros b0 H0.
  eapply post_bind; [apply index_val; [exact Ws | lia]|]. intros b1 H1.
  eapply post_bind; [apply index_val; [exact Ws | lia]|]. intros b2 H2. cbv beta in *. cbn. lia.
Qed.

Lemma decodeUint16_val buf off : wfb buf ->
  post (decodeUint16 buf off) (fun '(v, o) => o = off + 2 /\ o <= blen buf /\ v < 65536).
Proof.
  intro W. unfold decodeUint16. destruct (blen buf <? off + 2) eqn:E; [exact I|].
  eapply post_bind; [apply slice_val; [exact W | lia | lia]|]. intros s [Hs Ws].
  eapply post_bind; [apply be_uint16_val; [exact Ws | lia]|]. intros v Hv. cbv beta in *. cbn. lia.
Qed.

Lemma decodeUint32_val buf off : wfb buf ->
  post (decodeUint32 buf off) (fun '(v, o) => o = off + 4 /\ o <= blen buf /\ v <= 4294967295).
Proof.
  intro W. unfold decodeUint32. destruct (blen buf <? off + 4) eqn:E; [exact I|].
  eapply post_bind; [apply slice_val; [exact W | lia | lia]|]. intros s [Hs Ws].
  eapply post_bind; [apply be_uint32_val; [exact Ws | lia]|]. intros v Hv. cbv beta in *. cbn. lia.
Qed.

Lemma decodeBytes_val buf off : wfb buf ->
  post (decodeBytes buf off) (fun '(s, o) => o = off + 2 + blen s /\ o <= blen buf /\ bin_fits s = true /\ wfb s).
Proof.
  intro W. unfold decodeBytes.
  eapply post_bind; [apply decodeUint16_val; exact W|]. intros [len next] (H1 & H2 & H3).
  destruct (blen buf <? next + len) eqn:E; [exact I|].
  eapply post_bind; [apply slice_val; [exact W | lia | lia]|]. intros s [Hs Ws]. cbv beta in *.
  cbn. unfold bin_fits. repeat split; try lia. exact Ws.
Qed.

Lemma decodeString_val buf off : wfb buf ->
  post (decodeString buf off) (fun '(s, o) => o = off + 2 + blen s /\ o <= blen buf /\ str_fits s = true /\ wfb s).
Proof.
  intro W. unfold decodeString.
  eapply post_bind; [apply decodeBytes_val; exact W|]. intros [s o] (H1 & H2 & H3 & H4).
  destruct (valid_utf8 s) eqn:U; cbn [negb]; [|exact I]. cbn. unfold str_fits, bin_fits in *. rewrite U.
  repeat split; try lia; try assumption; try (rewrite H3; reflexivity).
Qed.

Lemma vbi_decode_val s n bu r : wfb s -> vbi_decode s = VOk n bu r ->
  n <= 268435455 /\ vbi_min_len n <= bu /\ bu + blen r = blen s /\ wfb r.
Proof.
  intros W E. pose proof (decoded_bounded s n bu r W E) as (B1 & B2 & B3).
  pose proof (decode_refines_spec s W) as D. rewrite B3 in D. destruct D as [D _].
  rewrite E in D. injection D as Dbu.
  pose proof (min_len_minimal s n r W B3) as M.
  pose proof (vbi_decode_len s n bu r E) as [L _].
  repeat split; try lia.
  - unfold vbi_max in B1. lia.
  - (* r is a suffix of s *)
    clear - W E. unfold vbi_decode in E. revert E. generalize 0 at 1. generalize 0 at 1. generalize 1.
    induction s as [|b t IH]; intros bu0 v0 m0 E; [discriminate|].
    cbn [vbi_decode_loop] in E.
    destruct (268435455 <? _); [discriminate|].
    destruct (N.land b 128 =? 0).
    + injection E as <- <- <-. apply wf_cons_r in W. exact W.
    + destruct (bu0 =? 4); [discriminate|]. apply (IH (wf_cons_r _ _ W) _ _ _ E).
Qed.

(* ---------- size account of a Properties struct: an upper bound of what Properties.Encode can write ---------- *)

Definition tflag (k : N) (f : bool) : N := if f then k else 0.
Definition tnum (k : N) (n : N) : N := if 0 <? n then k else 0.
Definition tstr (s : bytes) : N := if nonempty s then 3 + blen s else 0.
Fixpoint tsub (l : list N) : N :=
  match l with [] => 0 | v :: r => (if 0 <? v then 1 + vbi_min_len v else 0) + tsub r end.
Fixpoint tuser (l : list (bytes * bytes)) : N :=
  match l with [] => 0 | kv :: r => 5 + blen (fst kv) + blen (snd kv) + tuser r end.

Definition psize (p : props) : N :=
  tflag 2 (p_payload_format_flag p) + tnum 5 (p_message_expiry p) + tstr (p_content_type p)
  + tstr (p_response_topic p) + tstr (p_correlation_data p) + tsub (p_sub_ids p)
  + tflag 5 (p_session_expiry_flag p) + tstr (p_assigned_client_id p) + tflag 3 (p_server_keep_alive_flag p)
  + tstr (p_auth_method p) + tstr (p_auth_data p) + tflag 2 (p_request_problem_info_flag p)
  + tnum 5 (p_will_delay p) + tnum 2 (p_request_response_info p) + tstr (p_response_info p)
  + tstr (p_server_reference p) + tstr (p_reason_string p) + tnum 3 (p_receive_maximum p)
  + tnum 3 (p_topic_alias_maximum p) + tflag 3 (p_topic_alias_flag p) + tflag 2 (p_maximum_qos_flag p)
  + tflag 2 (p_retain_available_flag p) + tuser (p_user p) + tnum 5 (p_maximum_packet_size p)
  + tflag 2 (p_wildcard_sub_available_flag p) + tflag 2 (p_sub_id_available_flag p)
  + tflag 2 (p_shared_sub_available_flag p).

Lemma tflag_le k f : tflag k f <= k. Proof. destruct f; cbn; lia. Qed.
Lemma tnum_le k n : tnum k n <= k. Proof. unfold tnum. destruct (0 <? n); lia. Qed.
Lemma tstr_le s : tstr s <= 3 + blen s. Proof. unfold tstr. destruct (nonempty s); lia. Qed.
Lemma tsub_app l n : tsub (l ++ [n]) <= tsub l + 1 + vbi_min_len n.
Proof. induction l as [|a l IH]; cbn [app tsub]; [destruct (0 <? n); lia | lia]. Qed.
Lemma tuser_app l k v : tuser (l ++ [(k, v)]) = tuser l + 5 + blen k + blen v.
Proof. induction l as [|a l IH]; cbn [app tuser fst snd]; lia. Qed.

Ltac pred := cbn [p_payload_format p_payload_format_flag p_message_expiry p_content_type p_response_topic p_correlation_data p_sub_ids p_session_expiry p_session_expiry_flag p_assigned_client_id p_server_keep_alive p_server_keep_alive_flag p_auth_method p_auth_data p_request_problem_info p_request_problem_info_flag p_will_delay p_request_response_info p_response_info p_server_reference p_reason_string p_receive_maximum p_topic_alias_maximum p_topic_alias p_topic_alias_flag p_maximum_qos p_maximum_qos_flag p_retain_available p_retain_available_flag p_user p_maximum_packet_size p_wildcard_sub_available p_wildcard_sub_available_flag p_sub_id_available p_sub_id_available_flag p_shared_sub_available p_shared_sub_available_flag set_payload_format set_payload_format_flag set_message_expiry set_content_type set_response_topic set_correlation_data set_sub_ids set_session_expiry set_session_expiry_flag set_assigned_client_id set_server_keep_alive set_server_keep_alive_flag set_auth_method set_auth_data set_request_problem_info set_request_problem_info_flag set_will_delay set_request_response_info set_response_info set_server_reference set_reason_string set_receive_maximum set_topic_alias_maximum set_topic_alias set_topic_alias_flag set_maximum_qos set_maximum_qos_flag set_retain_available set_retain_available_flag set_user set_maximum_packet_size set_wildcard_sub_available set_wildcard_sub_available_flag set_sub_id_available set_sub_id_available_flag set_shared_sub_available set_shared_sub_available_flag].

Lemma psize0 : psize props0 = 0.
Proof. reflexivity. Qed.

Ltac bounds :=
  repeat match goal with
  | |- context [tstr ?s] => lazymatch goal with H : tstr s <= _ |- _ => fail | _ => pose proof (tstr_le s) end
  | |- context [tnum ?k ?n] => lazymatch goal with H : tnum k n <= _ |- _ => fail | _ => pose proof (tnum_le k n) end
  | |- context [tflag ?k ?f] => lazymatch goal with H : tflag k f <= _ |- _ => fail | _ => pose proof (tflag_le k f) end
  end.

Definition prop_inv (bt : bytes) (off : N) (p : props) : props * N -> Prop :=
  fun '(p', o) => wf_props p' = true /\ off <= o /\ o <= blen bt /\ psize p' + off <= psize p + o + 1.

Ltac wfp_goal := unfold wf_props in *; pred; split_and; join_and; try assumption; try lia.
Ltac psz_goal := unfold psize; pred; bounds; cbn [tflag]; lia.

Lemma prop_case_inv k bt off p : wfb bt -> off <= blen bt -> wf_props p = true ->
  post (prop_case k bt off p) (prop_inv bt off p).
Proof.
  intros W Hoff Wp.
  assert (Hdef : post (Ok (p, off) : res (props * N)) (prop_inv bt off p)).
  { cbn. repeat split; try assumption; lia. }
  unfold prop_case.
  case6 k; try exact Hdef;
  try (eapply post_bind; [first [apply decodeByte_val | apply decodeUint16_val | apply decodeUint32_val
                                 | apply decodeString_val | apply decodeBytes_val]; exact W|];
       intros [v o] Hv; cbv beta iota in Hv; decompose [and] Hv; clear Hv; unfold prop_inv; cbn beta iota;
       split; [wfp_goal|split; [lia|split; [lia|psz_goal]]]).
  - (* 11: subscription identifier *)
    eapply post_bind; [apply slice_from_val; [exact W | exact Hoff]|]. intros s [Hs Ws].
    destruct (vbi_decode s) as [n bu r| |] eqn:E; [|exact I|exact I].
    destruct (vbi_decode_val s n bu r Ws E) as (V1 & V2 & V3 & V4).
    unfold prop_inv. cbn beta iota. split; [|split; [lia|split; [lia|]]].
    + unfold wf_props in *. pred. split_and. join_and; try assumption.
      rewrite forallb_app. cbn [forallb]. apply andb_true_intro. split; [assumption|]. lia.
    + unfold psize. pred. pose proof (tsub_app (p_sub_ids p) n). lia.
  - (* 38: user property *)
    eapply post_bind; [apply decodeString_val; exact W|]. intros [key o] (K1 & K2 & K3 & K4).
    eapply post_bind; [apply decodeString_val; exact W|]. intros [v o'] (V1 & V2 & V3 & V4).
    unfold prop_inv. cbn beta iota. split; [|split; [lia|split; [lia|]]].
    + unfold wf_props in *. pred. split_and. join_and; try assumption.
      rewrite forallb_app. cbn [forallb fst snd]. rewrite K3, V3.
      match goal with H : forallb _ (p_user p) = true |- _ => rewrite H end. reflexivity.
    + unfold psize. pred. rewrite tuser_app. lia.
Qed.

(* one property never spans more than this many bytes after its identifier *)
Definition PMAX : N := 131074.

Lemma prop_case_span k bt off p : wfb bt -> off <= blen bt ->
  post (prop_case k bt off p) (fun '(_, o) => o <= off + PMAX).
Proof.
  intros W Hoff. unfold PMAX.
  assert (Hdef : post (Ok (p, off) : res (props * N)) (fun '(_, o) => o <= off + 131074)) by (cbn; lia).
  unfold prop_case.
  case6 k; try exact Hdef;
  try (eapply post_bind; [first [apply decodeByte_val | apply decodeUint16_val | apply decodeUint32_val
                                 | apply decodeString_val | apply decodeBytes_val]; exact W|];
       intros [v o] Hv; cbv beta iota in Hv; decompose [and] Hv; clear Hv; cbn beta iota;
       try (match goal with H : str_fits _ = true |- _ => unfold str_fits in H; apply andb_prop in H; destruct H end);
       try (match goal with H : bin_fits _ = true |- _ => unfold bin_fits in H end); cbn; lia).
  - eapply post_bind; [apply slice_from_val; [exact W | exact Hoff]|]. intros s [Hs Ws].
    destruct (vbi_decode s) as [n bu r| |] eqn:E; [|exact I|exact I].
    pose proof (decoded_bounded s n bu r Ws E) as (_ & B & _). cbn. lia.
  - eapply post_bind; [apply decodeString_val; exact W|]. intros [key o] (K1 & K2 & K3 & K4).
    eapply post_bind; [apply decodeString_val; exact W|]. intros [v o'] (V1 & V2 & V3 & V4).
    unfold str_fits in *. split_and. cbn. lia.
Qed.

Lemma post_and {A} (r : res A) (P Q : A -> Prop) : post r P -> post r Q -> post r (fun a => P a /\ Q a).
Proof. destruct r; cbn; tauto. Qed.

Lemma props_loop_inv fuel : forall pkt bt n off p,
  wfb bt -> off <= blen bt -> blen bt < off + N.of_nat fuel -> wf_props p = true ->
  post (props_loop fuel pkt bt n off p)
       (fun p' => wf_props p' = true /\ psize p' + off <= psize p + (N.max off (n + PMAX))).
Proof.
  induction fuel as [|f IH]; intros pkt bt n off p W H1 H2 Wp; [lia|].
  cbn [props_loop]. destruct (n <=? off) eqn:E; [cbn; split; [exact Wp | lia]|].
  eapply post_bind; [apply decodeByte_val; exact W|]. intros [k o1] (K1 & K2 & K3).
  destruct (negb (valid_prop k pkt)); [exact I|].
  eapply post_bind.
  { apply post_and; [apply (prop_case_inv k bt o1 p W K2 Wp) | apply (prop_case_span k bt o1 p W K2)]. }
  intros [p' o2] [(I1 & I2 & I3 & I4) I5].
  eapply post_weaken; [apply (IH pkt bt n o2 p' W I3 ltac:(lia) I1)|].
  intros q [Q1 Q2]. split; [exact Q1|]. unfold PMAX in *. lia.
Qed.

Lemma props_decode_inv pkt p b : wfb b -> wf_props p = true ->
  post (props_decode pkt p b)
       (fun '(nn, p') => wf_props p' = true /\ nn <= blen b /\ 1 <= nn /\ psize p' + 1 <= psize p + nn + PMAX).
Proof.
  intros W Wp. unfold props_decode.
  destruct (vbi_decode b) as [n bu bt| |] eqn:E; [|exact I|exact I].
  destruct (vbi_decode_val b n bu bt W E) as (V1 & V2 & V3 & V4).
  assert (1 <= bu) by (unfold vbi_min_len in V2; destruct (n <? 128); [lia|]; destruct (n <? 16384); [lia|]; destruct (n <? 2097152); lia).
  destruct (n =? 0) eqn:E0; [cbn; unfold PMAX; repeat split; try assumption; lia|].
  eapply post_bind.
  { apply post_and; [apply (props_loop_inv (S (length bt)) pkt bt n 0 p V4); [lia | unfold blen; lia | exact Wp]
                    | apply (props_loop_post (S (length bt)) pkt bt n 0 p); [lia | unfold blen; lia]]. }
  intros p' [[Q1 Q2] Q3]. cbn. unfold PMAX in *. repeat split; try assumption; lia.
Qed.

(* ---------- what Properties.Encode writes for a struct is at most its size account ---------- *)

Lemma len_app' (a b : bytes) : len (a ++ b) = len a + len b.
Proof. unfold len. rewrite app_length. lia. Qed.

Lemma ppb_app' a b : put_props_body (a ++ b) = put_props_body a ++ put_props_body b.
Proof. unfold put_props_body. rewrite map_app, concat_app. reflexivity. Qed.

Lemma ppb_optl_len c x : len (put_props_body (optl c x)) = if c then len (put_prop x) else 0.
Proof. destruct c; cbn [optl put_props_body map concat]; [rewrite app_nil_r|]; reflexivity. Qed.

Lemma seg_flag (c f : bool) x k : (c = true -> f = true) -> len (put_prop x) = k ->
  len (put_props_body (optl c x)) <= tflag k f.
Proof. intros H L. rewrite ppb_optl_len. unfold tflag. destruct c; [rewrite (H eq_refl), L; lia | destruct f; lia]. Qed.

Lemma seg_num (c : bool) x k n : (c = true -> (0 <? n) = true) -> len (put_prop x) = k ->
  len (put_props_body (optl c x)) <= tnum k n.
Proof. intros H L. rewrite ppb_optl_len. unfold tnum. destruct c; [rewrite (H eq_refl), L; lia | destruct (0 <? n); lia]. Qed.

Lemma seg_str (c : bool) x s : (c = true -> nonempty s = true) -> len (put_prop x) = 3 + blen s ->
  len (put_props_body (optl c x)) <= tstr s.
Proof. intros H L. rewrite ppb_optl_len. unfold tstr. destruct c; [rewrite (H eq_refl), L; lia | destruct (nonempty s); lia]. Qed.

Lemma len_subid v : v <= 268435455 -> len (put_prop (SubscriptionId v)) = 1 + vbi_min_len v.
Proof.
  intro H. rewrite <- (blen_put_vbi v H). unfold len, blen, put_prop. cbn [prop_id length]. lia.
Qed.

Lemma len_user k v : len (put_prop (UserProperty k v)) = 5 + blen k + blen v.
Proof.
  unfold len, blen, put_prop, put_str, put_bin, put_u16. cbn [prop_id length app]. rewrite !app_length. cbn [length]. lia.
Qed.

Lemma sub_ids_len l : forallb (fun v => v <=? 268435455) l = true ->
  len (put_props_body (map SubscriptionId (filter (fun v => 0 <? v) l))) <= tsub l.
Proof.
  induction l as [|v r IH]; intro H; [cbv; discriminate|].
  cbn [forallb] in H. apply andb_prop in H. destruct H as [Hv Hr]. cbn [filter tsub].
  destruct (0 <? v); [|specialize (IH Hr); lia].
  cbn [map]. change (put_props_body (SubscriptionId v :: ?x)) with (put_prop (SubscriptionId v) ++ put_props_body x).
  rewrite len_app', (len_subid v) by lia. specialize (IH Hr). lia.
Qed.

Lemma users_len (l : list (bytes * bytes)) :
  len (put_props_body (map (fun kv => UserProperty (fst kv) (snd kv)) l)) = tuser l.
Proof.
  induction l as [|[k v] r IH]; [reflexivity|].
  cbn [map tuser fst snd]. change (put_props_body (UserProperty k v :: ?x)) with (put_prop (UserProperty k v) ++ put_props_body x).
  rewrite len_app', IH, len_user. lia.
Qed.

Lemma andb_l a b : a && b = true -> a = true. Proof. destruct a; [reflexivity|discriminate]. Qed.
Lemma andb_r a b : a && b = true -> b = true. Proof. destruct a; [cbn; auto|discriminate]. Qed.

Lemma entries_size pkt m p n : wf_props p = true ->
  len (put_props_body (entries pkt m p n)) <= psize p.
Proof.
  intro W. unfold entries, psize. cbv zeta. rewrite !ppb_app', !len_app'.
  assert (Hs : forallb (fun v => v <=? 268435455) (p_sub_ids p) = true) by (unfold wf_props in W; split_and; assumption).
  rewrite <- !N.add_assoc. repeat apply N.add_le_mono.
  all: try (apply seg_flag; [intro Hc; split_and; assumption | reflexivity]).
  all: try (apply seg_str; [intro Hc; split_and; assumption
                           | unfold len, blen, put_prop, put_str, put_bin, put_u16; cbn [prop_id length app]; rewrite ?app_length; cbn [length]; lia]).
  - destruct (valid_prop 11 pkt); [apply sub_ids_len; exact Hs | change (len (put_props_body [])) with 0; lia].
  - match goal with |- context [if ?c then _ else _] => destruct c end; [rewrite users_len; lia|].
    change (len (put_props_body [])) with 0. lia.
Qed.

Lemma forallb_optl (f : sprop -> bool) c x : forallb f (optl c x) = (negb c || f x).
Proof. destruct c; cbn [optl forallb negb orb]; [apply andb_true_r | reflexivity]. Qed.

Lemma forallb_map_const {A} (f : sprop -> bool) (g : A -> sprop) (l : list A) :
  (forall a, In a l -> f (g a) = true) -> forallb f (map g l) = true.
Proof. intro H. rewrite forallb_forall. intros x Hx. apply in_map_iff in Hx. destruct Hx as (a & <- & Ha). apply H. exact Ha. Qed.

Lemma entries_fits pkt m p n : wf_props p = true -> forallb prop_fits (entries pkt m p n) = true.
Proof.
  intro W. unfold wf_props in W. split_and. unfold entries. cbv zeta.
  rewrite !forallb_app, !forallb_optl. cbn [prop_fits].
  join_and;
    try (match goal with |- negb ?c || _ = true => destruct c; cbn [negb orb]; [assumption | reflexivity] end);
    try (match goal with |- negb ?c || true = true => destruct c; reflexivity end).
  - destruct (valid_prop 11 pkt); [|reflexivity]. apply forallb_map_const. intros a Ha. cbn [prop_fits].
    apply filter_In in Ha. destruct Ha as [Ha _].
    match goal with Hs : forallb _ (p_sub_ids p) = true |- _ => rewrite forallb_forall in Hs; apply Hs; exact Ha end.
  - match goal with |- forallb _ (if ?c then _ else _) = true => destruct c; [|reflexivity] end.
    apply forallb_map_const. intros a Ha. cbn [prop_fits].
    match goal with Hs : forallb _ (p_user p) = true |- _ => rewrite forallb_forall in Hs; apply (Hs a Ha) end.
Qed.

Lemma entries_valid pkt m p n : props_valid_for pkt (entries pkt m p n) = true.
Proof.
  unfold props_valid_for, entries. cbv zeta.
  rewrite !forallb_app, !forallb_optl. cbn [prop_id].
  join_and;
    try (match goal with |- negb ?c || _ = true => destruct c eqn:Hc; cbn [negb orb]; [split_and; assumption | reflexivity] end).
  - destruct (valid_prop 11 pkt) eqn:E; [|reflexivity]. apply forallb_map_const. intros a _. exact E.
  - match goal with |- forallb _ (if ?c then _ else _) = true => destruct c eqn:Hc; [|reflexivity] end.
    apply forallb_map_const. intros a _. cbn [prop_id]. split_and. assumption.
Qed.

Lemma entries_plist pkt m p n : wf_props p = true -> psize p <= 268435455 ->
  plist_fits pkt (entries pkt m p n) = true.
Proof.
  intros W S. unfold plist_fits. rewrite (entries_fits pkt m p n W), (entries_valid pkt m p n). cbn [andb].
  pose proof (entries_size pkt m p n W). lia.
Qed.

(* re-encoding the properties needs at most 4 bytes of length plus the size account *)
Lemma put_props_size ps : len (put_props ps) <= 4 + len (put_props_body ps).
Proof.
  unfold put_props. rewrite len_app'. unfold put_vbi.
  repeat match goal with |- context [if ?c then _ else _] => destruct c end; unfold len; cbn [length]; lia.
Qed.

(* the decoded-input size for which the re-encoding is guaranteed to fit: Properties.Decode lets the
   last property of a block run past the declared block length, so a re-encoding can be up to one
   property (PMAX bytes) per block longer than the accepted input *)
Definition IN_MAX : N := 268000000.

Lemma len_put_str s : len (put_str s) = 2 + blen s.
Proof. unfold len, blen, put_str, put_bin, put_u16. rewrite app_length. cbn [length]. lia. Qed.
Lemma len_put_u16 n : len (put_u16 n) = 2.
Proof. reflexivity. Qed.
Lemma len_cons a (l : bytes) : len (a :: l) = 1 + len l.
Proof. unfold len. cbn [length]. lia. Qed.
Lemma len_nil : len (@nil N) = 0. Proof. reflexivity. Qed.

(* properties at a position of the packet body *)
Definition props_step (pk : packet) (buf : bytes) (off : N) : packet * N -> Prop :=
  fun '(pk', o) => exists p', pk' = set_pk_props p' pk /\ wf_props p' = true /\ off <= o /\ o <= blen buf /\
    (if pk_version pk =? 5 then psize p' + 1 <= psize (pk_props pk) + (o - off) + PMAX /\ off < o
     else p' = pk_props pk /\ o = off).

Lemma decode_props_at_inv pk buf off : wfb buf -> off <= blen buf -> wf_props (pk_props pk) = true ->
  post (decode_props_at pk buf off)
       (fun '(n, pk') => exists p', pk' = set_pk_props p' pk /\ wf_props p' = true /\ off + n <= blen buf /\ 1 <= n /\
                                    psize p' + 1 <= psize (pk_props pk) + n + PMAX).
Proof.
  intros W H Wp. unfold decode_props_at.
  eapply post_bind; [apply slice_from_val; [exact W | exact H]|]. intros s [Hs Ws].
  eapply post_bind_err; [apply (props_decode_inv _ _ s Ws Wp)|]. intros [n p'] (Q1 & Q2 & Q3 & Q4).
  cbn. exists p'. repeat split; try assumption; lia.
Qed.

Lemma props_if_v5_inv pk buf off : wfb buf -> off <= blen buf -> wf_props (pk_props pk) = true ->
  post (props_if_v5 pk buf off) (props_step pk buf off).
Proof.
  intros W H Wp. unfold props_if_v5, props_step. destruct (pk_version pk =? 5) eqn:E5.
  - eapply post_bind; [apply (decode_props_at_inv pk buf off W H Wp)|].
    intros [n pk'] (p' & -> & Q1 & Q2 & Q3 & Q4). cbn. exists p'.
    repeat split; try assumption; lia.
  - cbn. exists (pk_props pk). repeat split; try assumption; try lia. destruct pk; reflexivity.
Qed.

Ltac pkred_in H :=
  cbn [fresh_packet packet0 pk_connect pk_props pk_payload pk_reason_codes pk_filters pk_topic pk_fh pk_mods
       pk_packet_id pk_version pk_session_present pk_reason_code pk_reserved_bit
       set_pk_connect set_pk_props set_pk_payload set_pk_reason_codes set_pk_filters set_pk_topic set_pk_fh
       set_pk_mods set_pk_packet_id set_pk_version set_pk_session_present set_pk_reason_code set_pk_reserved_bit
       fh_remaining fh_type fh_qos fh_dup fh_retain upd_connect] in H.

Ltac connred :=
  cbn [c_will_flag c_username_flag c_password_flag c_will_props pk_connect set_c_protocol_name set_c_username_flag
       set_c_password_flag set_c_will_retain set_c_will_qos set_c_will_flag set_c_clean set_c_keepalive set_c_client_id
       set_c_will_props set_c_will_topic set_c_will_payload set_c_username set_c_password conn0
       c_password c_username c_protocol_name c_will_payload c_client_id c_will_topic c_keepalive c_will_qos c_will_retain c_clean].

Ltac easy_wf :=
  try reflexivity; try (unfold is_byte; lia); try assumption; try (apply wfb_iff; assumption).

Ltac vstep L := first [eapply post_bind | eapply post_bind_err]; [L|]; cbv beta.

Lemma publish_wf v m qos dup retain buf : v < 256 -> wfb buf -> blen buf <= IN_MAX -> qos <= 2 ->
  (qos = 0 -> dup = false) ->
  post (publish_decode (fresh_packet v (mkfh (blen buf) 3 qos dup retain)) buf)
       (fun pk => wf_packet (set_pk_mods m pk) = true).
Proof.
  intros Hv W Hmax Hq Hd. unfold publish_decode.
  vstep ltac:(apply decodeString_val; exact W). intros [topic o1] (T1 & T2 & T3 & T4). pkred.
  eapply post_bind with (Q := fun '(pk, o) => exists id, pk = set_pk_packet_id id (set_pk_topic topic (fresh_packet v (mkfh (blen buf) 3 qos dup retain)))
                               /\ id < 65536 /\ o <= blen buf /\ o = o1 + (if 0 <? qos then 2 else 0) /\ (qos = 0 -> id = 0)).
  { destruct (0 <? qos) eqn:Eq.
    - vstep ltac:(apply decodeUint16_val; exact W). intros [id o2] (I1 & I2 & I3). cbn. exists id.
      repeat split; try assumption; lia.
    - cbn. exists 0. repeat split; try lia. }
  intros [pk1 o2] (id & -> & I1 & I2 & I3 & I4).
  vstep ltac:(apply props_if_v5_inv; [exact W | exact I2 | reflexivity]).
  intros [pk2 o3] (p' & -> & P1 & P2 & P3 & P4). pkred.
  vstep ltac:(apply slice_from_val; [exact W | exact P3]). intros payload [Y1 Y2].
  cbn [post]. pkred_in P4.
  unfold wf_packet, abs. pkred. cbv zeta. cbv iota. connred. join_and; easy_wf.
  - (* enc_ok *)
    cbn [enc_ok]. unfold plist_v. join_and; try lia; try assumption.
    + destruct dup; [|apply orb_true_r]. destruct (N.eq_dec qos 0) as [Z|Z]; [specialize (Hd Z); discriminate|].
      replace (1 <=? qos) with true by lia. reflexivity.
    + destruct (v =? 5); [|reflexivity]. apply entries_plist; [exact P1|]. unfold PMAX, IN_MAX in *. rewrite psize0 in P4. lia.
    + destruct (0 <? qos) eqn:Eq; [replace (1 <=? qos) with true by lia; reflexivity|].
      rewrite N.eqb_refl. apply orb_true_r.
  - (* size *)
    cbn [full_body]. unfold put_props_v, v5. rewrite !len_app', len_put_str.
    change (len payload) with (blen payload).
    rewrite psize0 in P4.
    destruct (qos =? 0) eqn:E0; [replace (0 <? qos) with false in * by lia | replace (0 <? qos) with true in * by lia];
      destruct (v =? 5) eqn:E5; rewrite ?len_put_u16; change (len (@nil N)) with 0;
      try (match goal with |- context [len (put_props ?e)] => pose proof (put_props_size e) end;
           match goal with H : len (put_props (entries ?a ?b ?c ?d)) <= _ |- _ => pose proof (entries_size a b c d P1) end);
      unfold PMAX, IN_MAX in *; lia.
Qed.

Ltac lens := repeat (rewrite len_app' || rewrite len_put_str || rewrite len_put_u16 || rewrite len_cons); change (len (@nil N)) with 0.

Ltac fin_wf := unfold wf_packet, abs; pkred; cbv zeta; cbv iota; connred; join_and; easy_wf.

Ltac props_bounds P1 :=
  repeat match goal with |- context [len (put_props ?e)] =>
    lazymatch goal with H : len (put_props e) <= _ |- _ => fail | _ => pose proof (put_props_size e) end end;
  repeat match goal with H : len (put_props (entries ?a ?b ?c ?d)) <= _ |- _ =>
    lazymatch goal with H2 : len (put_props_body (entries a b c d)) <= _ |- _ => fail
    | _ => pose proof (entries_size a b c d P1) end end.

Lemma connack_wf v m buf : v < 256 -> wfb buf -> blen buf <= IN_MAX ->
  post (connack_decode (fresh_packet v (mkfh (blen buf) 2 0 false false)) buf)
       (fun pk => wf_packet (set_pk_mods m pk) = true).
Proof.
  intros Hv W Hmax. unfold connack_decode.
  vstep ltac:(apply decodeByteBool_val; exact W). intros [sp o1] (S1 & S2). pkred.
  vstep ltac:(apply decodeByte_val; exact W). intros [rc o2] (R1 & R2 & R3). pkred.
  destruct (v =? 5) eqn:E5.
  - vstep ltac:(apply decode_props_at_inv; [exact W | exact R2 | reflexivity]).
    intros [n pk2] (p' & -> & P1 & P2 & P3 & P4). pkred_in P4. rewrite psize0 in P4. cbn [post].
    fin_wf.
    + cbn [enc_ok]. unfold plist_v. pkred. rewrite E5. apply entries_plist; [exact P1|]. unfold PMAX, IN_MAX in *. lia.
    + cbn [full_body]. unfold put_props_v, v5. pkred. rewrite E5. lens. props_bounds P1.
      unfold PMAX, IN_MAX in *. lia.
  - cbn [post]. fin_wf.
    + cbn [enc_ok]. unfold plist_v. pkred. rewrite E5. reflexivity.
    + cbn [full_body]. unfold put_props_v, v5. pkred. rewrite E5. reflexivity.
Qed.

Lemma ack_wf v m ty buf : v < 256 -> wfb buf -> blen buf <= IN_MAX -> ty = 4 \/ ty = 5 \/ ty = 6 \/ ty = 7 ->
  post (ack_decode (fresh_packet v (mkfh (blen buf) ty (if ty =? 6 then 1 else 0) false false)) buf)
       (fun pk => wf_packet (set_pk_mods m pk) = true).
Proof.
  intros Hv W Hmax Hty. unfold ack_decode.
  vstep ltac:(apply decodeUint16_val; exact W). intros [id o1] (I1 & I2 & I3). pkred.
  destruct ((v =? 5) && (2 <? blen buf)) eqn:Ec.
  - apply andb_prop in Ec. destruct Ec as [E5 Er].
    vstep ltac:(apply decodeByte_val; exact W). intros [rc o2] (R1 & R2 & R3). pkred.
    destruct (3 <? blen buf) eqn:E3.
    + vstep ltac:(apply decode_props_at_inv; [exact W | exact R2 | reflexivity]).
      intros [n pk2] (p' & -> & P1 & P2 & P3 & P4). pkred_in P4. rewrite psize0 in P4. cbn [post].
      destruct Hty as [->|[->|[->| ->]]]; fin_wf;
        try (cbn [enc_ok ack_kind_of ack_type]; unfold plist_v; pkred; rewrite E5; cbn [orb]; rewrite andb_true_r;
             apply entries_plist; [exact P1|]; unfold PMAX, IN_MAX in *; lia);
        try (cbn [full_body ack_kind_of]; unfold v5; pkred; rewrite E5; lens; props_bounds P1; unfold PMAX, IN_MAX in *; lia).
    + cbn [post].
      destruct Hty as [->|[->|[->| ->]]]; fin_wf;
        try (cbn [enc_ok ack_kind_of ack_type]; unfold plist_v; pkred; rewrite E5; cbn [orb]; rewrite andb_true_r;
             apply entries_plist; [reflexivity|]; rewrite psize0; lia);
        try (cbn [full_body ack_kind_of]; unfold v5; pkred; rewrite E5; lens;
             match goal with |- context [len (put_props ?e)] => pose proof (put_props_size e) end;
             match goal with H : len (put_props (entries ?a ?b ?c ?d)) <= _ |- _ => pose proof (entries_size a b c d eq_refl) end;
             rewrite psize0 in *; lia).
  - cbn [post].
    destruct (v =? 5) eqn:E5.
    + destruct Hty as [->|[->|[->| ->]]]; fin_wf;
        try (cbn [enc_ok ack_kind_of ack_type]; unfold plist_v; pkred; rewrite E5; cbn [orb]; rewrite andb_true_r;
             apply entries_plist; [reflexivity|]; rewrite psize0; lia);
        try (cbn [full_body ack_kind_of]; unfold v5; pkred; rewrite E5; lens;
             match goal with |- context [len (put_props ?e)] => pose proof (put_props_size e) end;
             match goal with H : len (put_props (entries ?a ?b ?c ?d)) <= _ |- _ => pose proof (entries_size a b c d eq_refl) end;
             rewrite psize0 in *; lia).
    + destruct Hty as [->|[->|[->| ->]]]; fin_wf;
        try (cbn [enc_ok ack_kind_of ack_type]; unfold plist_v; pkred; rewrite E5; reflexivity);
        try (cbn [full_body ack_kind_of]; unfold v5; pkred; rewrite E5; reflexivity).
Qed.

Ltac v5_plist P1 P4 := unfold plist_v; pkred; apply entries_plist; [exact P1|]; unfold PMAX, IN_MAX in *; lia.

Lemma suback_wf v m buf : v < 256 -> wfb buf -> blen buf <= IN_MAX ->
  post (suback_decode (fresh_packet v (mkfh (blen buf) 9 0 false false)) buf)
       (fun pk => wf_packet (set_pk_mods m pk) = true).
Proof.
  intros Hv W Hmax. unfold suback_decode.
  vstep ltac:(apply decodeUint16_val; exact W). intros [id o1] (I1 & I2 & I3). pkred.
  vstep ltac:(apply props_if_v5_inv; [exact W | exact I2 | reflexivity]).
  intros [pk2 o3] (p' & -> & P1 & P2 & P3 & P4). pkred. pkred_in P4. rewrite psize0 in P4.
  vstep ltac:(apply slice_from_val; [exact W | exact P3]). intros codes [Y1 Y2]. cbn [post].
  fin_wf.
  - cbn [enc_ok]. unfold plist_v. destruct (v =? 5); [|reflexivity].
    apply entries_plist; [exact P1|]. unfold PMAX, IN_MAX in *. lia.
  - cbn [full_body]. unfold put_props_v, v5, codes_of. lens. change (len codes) with (blen codes).
    destruct (v =? 5); [props_bounds P1|]; change (len (@nil N)) with 0; unfold PMAX, IN_MAX in *; lia.
Qed.

Lemma unsuback_wf v m buf : v < 256 -> wfb buf -> blen buf <= IN_MAX ->
  post (unsuback_decode (fresh_packet v (mkfh (blen buf) 11 0 false false)) buf)
       (fun pk => wf_packet (set_pk_mods m pk) = true).
Proof.
  intros Hv W Hmax. unfold unsuback_decode.
  vstep ltac:(apply decodeUint16_val; exact W). intros [id o1] (I1 & I2 & I3). pkred.
  destruct (v =? 5) eqn:E5.
  - vstep ltac:(apply decode_props_at_inv; [exact W | exact I2 | reflexivity]).
    intros [n pk2] (p' & -> & P1 & P2 & P3 & P4). pkred_in P4. rewrite psize0 in P4.
    vstep ltac:(apply slice_from_val; [exact W | exact P2]). intros codes [Y1 Y2]. cbn [post].
    fin_wf.
    + cbn [enc_ok]. unfold plist_v. pkred. rewrite E5. cbn [orb]. rewrite andb_true_r.
      apply entries_plist; [exact P1|]. unfold PMAX, IN_MAX in *. lia.
    + cbn [full_body]. unfold put_props_v, v5, codes_of. pkred. rewrite E5. lens. change (len codes) with (blen codes).
      props_bounds P1. unfold PMAX, IN_MAX in *. lia.
  - cbn [post]. fin_wf.
    + cbn [enc_ok]. unfold plist_v. pkred. rewrite E5. reflexivity.
    + cbn [full_body]. unfold put_props_v, v5. pkred. rewrite E5. reflexivity.
Qed.

Lemma disconnect_wf v m buf : v < 256 -> wfb buf -> blen buf <= IN_MAX ->
  post (disconnect_decode (fresh_packet v (mkfh (blen buf) 14 0 false false)) buf)
       (fun pk => wf_packet (set_pk_mods m pk) = true).
Proof.
  intros Hv W Hmax. unfold disconnect_decode. pkred.
  destruct ((v =? 5) && (0 <? blen buf)) eqn:Ec.
  - apply andb_prop in Ec. destruct Ec as [E5 Er].
    vstep ltac:(apply decodeByte_val; exact W). intros [rc o2] (R1 & R2 & R3). pkred.
    destruct (1 <? blen buf) eqn:E3.
    + vstep ltac:(apply decode_props_at_inv; [exact W | exact R2 | reflexivity]).
      intros [n pk2] (p' & -> & P1 & P2 & P3 & P4). pkred_in P4. rewrite psize0 in P4. cbn [post].
      fin_wf.
      * cbn [enc_ok]. unfold plist_v. pkred. rewrite E5. cbn [orb]. rewrite andb_true_r.
        apply entries_plist; [exact P1|]. unfold PMAX, IN_MAX in *. lia.
      * cbn [full_body]. unfold v5. pkred. rewrite E5. lens. props_bounds P1. unfold PMAX, IN_MAX in *. lia.
    + cbn [post]. fin_wf.
      * cbn [enc_ok]. unfold plist_v. pkred. rewrite E5. cbn [orb]. rewrite andb_true_r.
        apply entries_plist; [reflexivity|]. rewrite psize0. lia.
      * cbn [full_body]. unfold v5. pkred. rewrite E5. lens.
        match goal with |- context [len (put_props ?e)] => pose proof (put_props_size e) end.
        match goal with H : len (put_props (entries ?a ?b ?c ?d)) <= _ |- _ => pose proof (entries_size a b c d eq_refl) end.
        rewrite psize0 in *. lia.
  - cbn [post]. destruct (v =? 5) eqn:E5.
    + fin_wf.
      * cbn [enc_ok]. unfold plist_v. pkred. rewrite E5. cbn [orb]. rewrite andb_true_r.
        apply entries_plist; [reflexivity|]. rewrite psize0. lia.
      * cbn [full_body]. unfold v5. pkred. rewrite E5. lens.
        match goal with |- context [len (put_props ?e)] => pose proof (put_props_size e) end.
        match goal with H : len (put_props (entries ?a ?b ?c ?d)) <= _ |- _ => pose proof (entries_size a b c d eq_refl) end.
        rewrite psize0 in *. lia.
    + fin_wf.
      * cbn [enc_ok]. unfold plist_v. pkred. rewrite E5. reflexivity.
      * cbn [full_body]. unfold v5. pkred. rewrite E5. reflexivity.
Qed.

Lemma auth_wf v m buf : v < 256 -> wfb buf -> blen buf <= IN_MAX ->
  post (auth_decode (fresh_packet v (mkfh (blen buf) 15 0 false false)) buf)
       (fun pk => wf_packet (set_pk_mods m pk) = true).
Proof.
  intros Hv W Hmax. unfold auth_decode. pkred.
  destruct (blen buf =? 0) eqn:E0.
  - cbn [post]. fin_wf.
    + cbn [enc_ok]. apply entries_plist; [reflexivity|]. rewrite psize0. lia.
    + cbn [full_body]. lens.
      match goal with |- context [len (put_props ?e)] => pose proof (put_props_size e) end.
      match goal with H : len (put_props (entries ?a ?b ?c ?d)) <= _ |- _ => pose proof (entries_size a b c d eq_refl) end.
      rewrite psize0 in *. lia.
  - vstep ltac:(apply decodeByte_val; exact W). intros [rc o2] (R1 & R2 & R3). pkred.
    destruct (1 <? blen buf) eqn:E3.
    + vstep ltac:(apply decode_props_at_inv; [exact W | exact R2 | reflexivity]).
      intros [n pk2] (p' & -> & P1 & P2 & P3 & P4). pkred_in P4. rewrite psize0 in P4. cbn [post].
      fin_wf.
      * cbn [enc_ok]. apply entries_plist; [exact P1|]. unfold PMAX, IN_MAX in *. lia.
      * cbn [full_body]. lens. props_bounds P1. unfold PMAX, IN_MAX in *. lia.
    + cbn [post]. fin_wf.
      * cbn [enc_ok]. apply entries_plist; [reflexivity|]. rewrite psize0. lia.
      * cbn [full_body]. lens.
        match goal with |- context [len (put_props ?e)] => pose proof (put_props_size e) end.
        match goal with H : len (put_props (entries ?a ?b ?c ?d)) <= _ |- _ => pose proof (entries_size a b c d eq_refl) end.
        rewrite psize0 in *. lia.
Qed.

Lemma ping_wf v m ty rem : v < 256 -> ty = 12 \/ ty = 13 ->
  wf_packet (set_pk_mods m (fresh_packet v (mkfh rem ty 0 false false))) = true.
Proof.
  intros Hv [-> | ->]; fin_wf.
Qed.

(* ---------- SUBSCRIBE / UNSUBSCRIBE payloads ---------- *)

Definition filt_ok (s : subscription) : bool :=
  str_fits (s_filter s) && (s_qos s <=? 2) && (s_retain_handling s <? 4).
Fixpoint fsize (k : N) (l : list subscription) : N :=
  match l with [] => 0 | s :: r => k + blen (s_filter s) + fsize k r end.

Lemma fsize_app k a b : fsize k (a ++ b) = fsize k a + fsize k b.
Proof. induction a as [|s a IH]; cbn [app fsize]; lia. Qed.

Lemma land3_lt x : N.land 3 x < 4.
Proof. rewrite N.land_comm. change 3 with (N.ones 2). rewrite N.land_ones. change (2 ^ 2) with 4. lia. Qed.

Lemma subscribe_loop_inv fuel : forall v5 ids buf off acc,
  wfb buf -> off <= blen buf -> blen buf < off + N.of_nat fuel ->
  post (subscribe_loop fuel v5 ids buf off acc)
       (fun fs => exists fs', fs = acc ++ fs' /\ forallb filt_ok fs' = true /\ fsize 3 fs' + off = blen buf).
Proof.
  induction fuel as [|f IH]; intros v5 ids buf off acc W H1 H2; [lia|].
  cbn [subscribe_loop]. destruct (blen buf <=? off) eqn:E.
  { cbn. exists []. rewrite app_nil_r. repeat split. cbn [fsize]. lia. }
  vstep ltac:(apply decodeString_val; exact W). intros [flt o1] (F1 & F2 & F3 & F4).
  vstep ltac:(apply decodeByte_val; exact W). intros [opt o2] (O1 & O2 & O3).
  match goal with |- context [2 <? s_qos ?s] => set (sub := s) end.
  destruct (2 <? s_qos sub) eqn:Eq; [exact I|].
  eapply post_weaken; [apply (IH v5 ids buf o2 (acc ++ [sub]) W O2 ltac:(lia))|].
  intros fs (fs' & -> & G1 & G2). exists (sub :: fs'). split; [rewrite <- app_assoc; reflexivity|]. split.
  - cbn [forallb]. rewrite G1, andb_true_r. unfold filt_ok.
    assert (Hs : s_filter sub = flt /\ s_retain_handling sub < 4).
    { unfold sub. destruct v5; destruct ids; cbn; split; try reflexivity; try apply land3_lt; lia. }
    destruct Hs as [Hf Hr]. rewrite Hf, F3. cbn [andb]. apply andb_true_intro. split; lia.
  - cbn [fsize]. assert (Hf : s_filter sub = flt) by (unfold sub; destruct v5; destruct ids; reflexivity).
    rewrite Hf. lia.
Qed.

Lemma unsubscribe_loop_inv fuel : forall buf off acc,
  wfb buf -> off <= blen buf -> blen buf < off + N.of_nat fuel ->
  post (unsubscribe_loop fuel buf off acc)
       (fun fs => exists fs', fs = acc ++ fs' /\ forallb filt_ok fs' = true /\ fsize 2 fs' + off = blen buf).
Proof.
  induction fuel as [|f IH]; intros buf off acc W H1 H2; [lia|].
  cbn [unsubscribe_loop]. destruct (blen buf <=? off) eqn:E.
  { cbn. exists []. rewrite app_nil_r. repeat split. cbn [fsize]. lia. }
  vstep ltac:(apply decodeString_val; exact W). intros [flt o1] (F1 & F2 & F3 & F4).
  eapply post_weaken; [apply (IH buf o1 (acc ++ [set_s_filter flt sub0]) W F2 ltac:(lia))|].
  intros fs (fs' & -> & G1 & G2). exists (set_s_filter flt sub0 :: fs'). split; [rewrite <- app_assoc; reflexivity|]. split.
  - cbn [forallb]. rewrite G1. unfold filt_ok. cbn [s_filter set_s_filter s_qos s_retain_handling sub0]. rewrite F3. reflexivity.
  - cbn [fsize s_filter set_s_filter]. lia.
Qed.

Lemma filters_len v (fs : list subscription) :
  len (concat (map (put_filter v) (map (filter_of (v =? 5)) fs))) = fsize 3 fs.
Proof.
  induction fs as [|s r IH]; [reflexivity|]. cbn [map concat fsize]. rewrite len_app', IH.
  unfold put_filter. rewrite len_app', len_put_str, len_cons. change (len (@nil N)) with 0.
  destruct (v =? 5); cbn [filter_of f_filter]; lia.
Qed.

Lemma unsub_filters_len (fs : list subscription) :
  len (concat (map put_str (map s_filter fs))) = fsize 2 fs.
Proof.
  induction fs as [|s r IH]; [reflexivity|]. cbn [map concat fsize]. rewrite len_app', IH, len_put_str. lia.
Qed.

Lemma subscribe_wf v m buf : v < 256 -> wfb buf -> blen buf <= IN_MAX ->
  post (subscribe_decode (fresh_packet v (mkfh (blen buf) 8 1 false false)) buf)
       (fun pk => wf_packet (set_pk_mods m pk) = true).
Proof.
  intros Hv W Hmax. unfold subscribe_decode.
  vstep ltac:(apply decodeUint16_val; exact W). intros [id o1] (I1 & I2 & I3). pkred.
  vstep ltac:(apply props_if_v5_inv; [exact W | exact I2 | reflexivity]).
  intros [pk2 o3] (p' & -> & P1 & P2 & P3 & P4). pkred. pkred_in P4. rewrite psize0 in P4.
  vstep ltac:(apply subscribe_loop_inv; [exact W | exact P3 | unfold blen; lia]).
  intros fs (fs' & -> & G1 & G2). cbn [app post].
  fin_wf.
  - cbn [enc_ok]. apply andb_true_intro. split.
    + unfold plist_v. destruct (v =? 5); [|reflexivity].
      apply entries_plist; [exact P1|]. unfold PMAX, IN_MAX in *. lia.
    + rewrite forallb_forall. intros f Hf. apply in_map_iff in Hf. destruct Hf as (s & <- & Hs).
      rewrite forallb_forall in G1. specialize (G1 s Hs). unfold filt_ok in G1. split_and.
      unfold filter_fits. destruct (v =? 5); cbn [filter_of f_filter f_qos f_no_local f_retain_as_published f_retain_handling];
        join_and; try assumption; reflexivity.
  - cbn [full_body]. unfold put_props_v, v5. lens. rewrite filters_len.
    destruct (v =? 5); [props_bounds P1|]; change (len (@nil N)) with 0; unfold PMAX, IN_MAX in *; lia.
  - rewrite forallb_forall. intros s Hs. rewrite forallb_forall in G1. specialize (G1 s Hs).
    unfold filt_ok in G1. split_and. join_and; assumption.
Qed.

Lemma unsubscribe_wf v m buf : v < 256 -> wfb buf -> blen buf <= IN_MAX ->
  post (unsubscribe_decode (fresh_packet v (mkfh (blen buf) 10 1 false false)) buf)
       (fun pk => wf_packet (set_pk_mods m pk) = true).
Proof.
  intros Hv W Hmax. unfold unsubscribe_decode.
  vstep ltac:(apply decodeUint16_val; exact W). intros [id o1] (I1 & I2 & I3). pkred.
  vstep ltac:(apply props_if_v5_inv; [exact W | exact I2 | reflexivity]).
  intros [pk2 o3] (p' & -> & P1 & P2 & P3 & P4). pkred. pkred_in P4. rewrite psize0 in P4.
  vstep ltac:(apply unsubscribe_loop_inv; [exact W | exact P3 | unfold blen; lia]).
  intros fs (fs' & -> & G1 & G2). cbn [app post].
  fin_wf.
  - cbn [enc_ok]. apply andb_true_intro. split.
    + unfold plist_v. destruct (v =? 5); [|reflexivity].
      apply entries_plist; [exact P1|]. unfold PMAX, IN_MAX in *. lia.
    + rewrite forallb_forall. intros f Hf. apply in_map_iff in Hf. destruct Hf as (s & <- & Hs).
      rewrite forallb_forall in G1. specialize (G1 s Hs). unfold filt_ok in G1. split_and. assumption.
  - cbn [full_body]. unfold put_props_v, v5. lens. rewrite unsub_filters_len.
    destruct (v =? 5); [props_bounds P1|]; change (len (@nil N)) with 0; unfold PMAX, IN_MAX in *; lia.
  - rewrite forallb_forall. intros s Hs. rewrite forallb_forall in G1. specialize (G1 s Hs).
    unfold filt_ok in G1. split_and. join_and; assumption.
Qed.

(* ---------- CONNECT ---------- *)

Definition connect_standard (pk : packet) : bool :=
  let v := pk_version pk in
  let c := pk_connect pk in
  ((v =? 3) || (v =? 4) || (v =? 5))
  && beq_bytes (c_protocol_name c) (if v =? 3 then bytes_of_string "MQIsdp" else bytes_of_string "MQTT")
  && (c_will_flag c || ((c_will_qos c =? 0) && negb (c_will_retain c))).

Lemma will_props_if_v5_inv pk buf off : wfb buf -> off <= blen buf -> wf_props (c_will_props (pk_connect pk)) = true ->
  post (will_props_if_v5 pk buf off)
       (fun '(pk', o) => exists p', pk' = upd_connect (set_c_will_props p') pk /\ wf_props p' = true /\ off <= o /\ o <= blen buf /\
          (if pk_version pk =? 5 then psize p' + 1 <= psize (c_will_props (pk_connect pk)) + (o - off) + PMAX /\ off < o
           else p' = c_will_props (pk_connect pk) /\ o = off)).
Proof.
  intros W H Wp. unfold will_props_if_v5. destruct (pk_version pk =? 5) eqn:E5.
  - eapply post_bind; [apply slice_from_val; [exact W | exact H]|]. intros s [Hs Ws].
    eapply post_bind_err; [apply (props_decode_inv _ _ s Ws Wp)|]. intros [n p'] (Q1 & Q2 & Q3 & Q4).
    cbn. exists p'. repeat split; try assumption; lia.
  - cbn. exists (c_will_props (pk_connect pk)). repeat split; try assumption; try lia.
    destruct pk as [c ? ? ? ? ? ? ? ? ? ? ? ?]. destruct c. reflexivity.
Qed.

Lemma bind_bind {A B C} (r : res A) (f : A -> res B) (g : B -> res C) :
  bind (bind r f) g = bind r (fun a => bind (f a) g).
Proof. destruct r; reflexivity. Qed.
Lemma bind_bind_err {A B C} (r : res A) e (f : A -> res B) (g : B -> res C) :
  bind (bind_err r e f) g = bind_err r e (fun a => bind (f a) g).
Proof. destruct r; reflexivity. Qed.
Ltac flat := repeat (rewrite bind_bind || rewrite bind_bind_err); cbn beta iota delta [bind bind_err].

Lemma beq_bytes_eq'' a : forall b, beq_bytes a b = true -> a = b.
Proof.
  induction a as [|x a IH]; destruct b as [|y b]; cbn [beq_bytes]; intro H; try discriminate; [reflexivity|].
  apply andb_prop in H. destruct H as [H1 H2]. apply N.eqb_eq in H1. subst y. f_equal. apply IH. exact H2.
Qed.

Lemma connect_wf v m buf : wfb buf -> blen buf <= IN_MAX ->
  post (connect_decode (fresh_packet v (mkfh (blen buf) 1 0 false false)) buf)
       (fun pk => fh_type (pk_fh pk) = 1 /\ (connect_standard pk = true -> wf_packet (set_pk_mods m pk) = true)).
Proof.
  intros W Hmax. unfold connect_decode.
  vstep ltac:(apply decodeBytes_val; exact W). intros [name o1] (N1 & N2 & N3 & N4). pkred.
  vstep ltac:(apply decodeByte_val; exact W). intros [ver o2] (V1 & V2 & V3). pkred.
  vstep ltac:(apply decodeByte_val; exact W). intros [flags o3] (F1 & F2 & F3). pkred.
  vstep ltac:(apply decodeUint16_val; exact W). intros [ka o4] (K1 & K2 & K3). pkred.
  vstep ltac:(apply props_if_v5_inv; [exact W | exact K2 | reflexivity]).
  intros [pk2 o5] (p' & -> & P1 & P2 & P3 & P4). pkred. pkred_in P4. rewrite psize0 in P4.
  vstep ltac:(apply decodeString_val; exact W). intros [cid o6] (C1 & C2 & C3 & C4). pkred. connred.
  pose proof (land3_lt (N.shiftr flags 3)) as Hwq.
  set (wq := N.land 3 (N.shiftr flags 3)) in *. set (wr := Wire.bit flags 5). set (cl := Wire.bit flags 1).
  set (rb := N.land 1 flags).
  destruct (Wire.bit flags 2) eqn:Bw; destruct (Wire.bit flags 7) eqn:Bu; destruct (Wire.bit flags 6) eqn:Bp;
    cbv iota; flat.
  all: try (vstep ltac:(apply will_props_if_v5_inv; [exact W | exact C2 | reflexivity]);
            intros [pk3 o7] (wp' & -> & Q1 & Q2 & Q3 & Q4); pkred; connred; pkred_in Q4; cbn [c_will_props pk_connect set_pk_connect set_c_client_id set_c_keepalive set_c_username_flag set_c_password_flag set_c_will_retain set_c_will_qos set_c_will_flag set_c_clean set_c_protocol_name conn0 packet0 fresh_packet set_pk_fh set_pk_version set_pk_reserved_bit set_pk_props upd_connect] in Q4;
            rewrite psize0 in Q4; flat;
            vstep ltac:(apply decodeString_val; exact W); intros [wt o8] (T1 & T2 & T3 & T4); flat;
            vstep ltac:(apply decodeBytes_val; exact W); intros [wpl o9] (Y1 & Y2 & Y3 & Y4); flat; pkred; connred).
  all: flat; pkred; connred; cbv iota; flat.
  all: try (match goal with |- post (bind (if blen ?b <=? ?o then _ else _) _) _ => destruct (blen b <=? o); [exact I|] end; flat;
            vstep ltac:(apply decodeBytes_val; exact W); intros [un oA] (U1 & U2 & U3 & U4); flat; pkred; connred).
  all: flat; pkred; connred; cbv iota; flat.
  all: try (vstep ltac:(apply decodeBytes_val; exact W); intros [pw oB] (X1 & X2 & X3 & X4); flat; pkred; connred).
  all: cbn [post]; split; [reflexivity|]; intro Hstd; unfold connect_standard in Hstd; pkred_in Hstd;
       cbn [c_will_flag c_protocol_name c_will_qos c_will_retain pk_connect set_c_password set_c_username set_c_will_payload set_c_will_topic set_c_will_props set_c_client_id set_c_keepalive set_c_username_flag set_c_password_flag set_c_will_retain set_c_will_qos set_c_will_flag set_c_clean set_c_protocol_name conn0] in Hstd;
       split_and.
  all: match goal with Hn : beq_bytes ?nm _ = true |- _ => pose proof (beq_bytes_eq'' _ _ Hn) as Ename end.
  all: match goal with HP : (if ?vv =? 5 then _ else _) |- _ => destruct (vv =? 5) eqn:E5 end;
       repeat match goal with Hc : _ /\ _ |- _ => destruct Hc end;
       repeat match goal with He : ?x = props0 |- _ => subst x end.
  all: fin_wf.
  all: try (cbn [enc_ok opt_ok]; unfold will_fits, plist_v; cbn [will_props will_topic will_payload will_qos];
            repeat match goal with E : (_ =? 5) = _ |- _ => rewrite E end;
            join_and; try assumption; try reflexivity; try lia;
            apply entries_plist; first [assumption | unfold PMAX, IN_MAX in *; lia]).
  all: try (change (1 =? 1) with true; cbv iota; join_and; try assumption; try reflexivity; lia).
  all: cbn [full_body will_props will_topic will_payload]; unfold put_props_v, v5;
       repeat match goal with E : (_ =? 5) = _ |- _ => rewrite E end;
       match goal with En : _ = (if _ =? 3 then _ else _) |- _ => rewrite <- En end; lens; unfold put_bin; lens;
       repeat match goal with |- context [len (put_props ?e)] =>
         lazymatch goal with H : len (put_props e) <= _ |- _ => fail | _ => pose proof (put_props_size e) end end;
       repeat match goal with H : len (put_props (entries ?a ?b ?c ?d)) <= _ |- _ =>
         lazymatch goal with H2 : len (put_props_body (entries a b c d)) <= _ |- _ => fail
         | _ => pose proof (entries_size a b c d ltac:(assumption)) end end;
       unfold PMAX, IN_MAX, len, blen in *; lia.
Qed.

(* ---------- the fixed header ---------- *)

Definition fh_check (hb : N) : bool :=
  match fh_decode fh0 hb with
  | Ok fh =>
      (fh_remaining fh =? 0) && (fh_type fh <=? 15) &&
      (if fh_type fh =? 3
       then (fh_qos fh <=? 2) && (negb (fh_qos fh =? 0) || negb (fh_dup fh))
       else negb (fh_dup fh) && negb (fh_retain fh)
            && (fh_qos fh =? (if (fh_type fh =? 6) || (fh_type fh =? 8) || (fh_type fh =? 10) then 1 else 0)))
  | Err _ => true
  | _ => false
  end.

Lemma fh_check_all hb : hb < 256 -> fh_check hb = true.
Proof.
  intro H.
  assert (S : forallb fh_check (rangeN 256) = true) by (vm_compute; reflexivity).
  exact (forall_below _ 256 S hb H).
Qed.

Lemma post_ok {A} (r : res A) Q a : post r Q -> r = Ok a -> Q a.
Proof. intros P E. rewrite E in P. exact P. Qed.

Lemma blen_firstn n (l : bytes) : n <= blen l -> blen (firstn (N.to_nat n) l) = n.
Proof. unfold blen. intro H. rewrite firstn_length. lia. Qed.

(* EVERY PACKET THE DECODER RETURNS IS WELL-FORMED (for re-encoding with any Mods), provided a
   CONNECT has the standard protocol name / level and no will bits without a will flag (which
   ConnectValidate requires as well), and the input is not within 0.4 MB of the protocol's maximum *)
Theorem decoded_wf v bs pk rest m : v < 256 -> wfb bs -> blen bs <= IN_MAX ->
  mochi_decode_packet v bs = Ok (pk, rest) ->
  (fh_type (pk_fh pk) = 1 -> connect_standard pk = true) ->
  wf_packet (set_pk_mods m pk) = true.
Proof.
  intros Hv W Hmax E Hstd. unfold mochi_decode_packet in E.
  destruct bs as [|hb r]; [discriminate|].
  assert (Hhb : hb < 256) by (inversion W; assumption).
  pose proof (fh_check_all hb Hhb) as C. unfold fh_check in C.
  destruct (fh_decode fh0 hb) as [fh| | |]; try discriminate. cbn beta iota delta [bind] in E.
  apply wf_cons_r in W.
  destruct (vbi_decode r) as [n bu r'| |] eqn:Ev; try discriminate.
  destruct (vbi_decode_val r n bu r' W Ev) as (V1 & V2 & V3 & V4).
  destruct (blen r' <? n) eqn:En; [discriminate|].
  set (body := firstn (N.to_nat n) r') in *.
  assert (Wb : wfb body) by (apply wfb_firstn; exact V4).
  assert (Lb : blen body = n) by (apply blen_firstn; lia).
  assert (Mb : blen body <= IN_MAX) by (rewrite blen_cons in Hmax; lia).
  destruct (mochi_decode_body v (set_fh_remaining n fh) body) as [pk'| | |] eqn:Eb; try discriminate.
  cbn beta iota delta [bind] in E. injection E as <- <-.
  destruct fh as [rem ty qos dup retain]. cbn [fh_remaining fh_type fh_qos fh_dup fh_retain set_fh_remaining] in *.
  apply andb_prop in C. destruct C as [C C3]. apply andb_prop in C. destruct C as [_ C2].
  unfold mochi_decode_body, decode_body in Eb. cbn [fresh_packet pk_fh set_pk_fh fh_type] in Eb.
  rewrite <- Lb in Eb.
  assert (T : ty = 0 \/ ty = 1 \/ ty = 2 \/ ty = 3 \/ ty = 4 \/ ty = 5 \/ ty = 6 \/ ty = 7 \/ ty = 8 \/ ty = 9 \/
              ty = 10 \/ ty = 11 \/ ty = 12 \/ ty = 13 \/ ty = 14 \/ ty = 15) by lia.
  destruct T as [->|[->|[->|[->|[->|[->|[->|[->|[->|[->|[->|[->|[->|[->|[->| ->]]]]]]]]]]]]]]];
    try discriminate Eb;
    repeat match goal with Hx : context [N.eqb (Npos ?a) (Npos ?b)] |- _ =>
      let rr := eval vm_compute in (N.eqb (Npos a) (Npos b)) in change (N.eqb (Npos a) (Npos b)) with rr in Hx end;
    cbv iota in C3; cbn [orb] in C3; split_and;
    try (destruct dup; [discriminate|]); try (destruct retain; [discriminate|]);
    try (match goal with Hq : (qos =? _) = true |- _ => apply N.eqb_eq in Hq; subst qos end).
  - (* connect *)
    pose proof (post_ok _ _ _ (connect_wf v m body Wb Mb) Eb) as [P1 P2]. apply P2. apply Hstd. exact P1.
  - apply (post_ok _ _ _ (connack_wf v m body Hv Wb Mb) Eb).
  - apply (post_ok _ _ _ (publish_wf v m qos dup retain body Hv Wb Mb ltac:(lia) ltac:(intro Z; subst qos; destruct dup; [discriminate|reflexivity])) Eb).
  - apply (post_ok _ _ _ (ack_wf v m 4 body Hv Wb Mb ltac:(auto)) Eb).
  - apply (post_ok _ _ _ (ack_wf v m 5 body Hv Wb Mb ltac:(auto)) Eb).
  - apply (post_ok _ _ _ (ack_wf v m 6 body Hv Wb Mb ltac:(auto)) Eb).
  - apply (post_ok _ _ _ (ack_wf v m 7 body Hv Wb Mb ltac:(auto)) Eb).
  - apply (post_ok _ _ _ (subscribe_wf v m body Hv Wb Mb) Eb).
  - apply (post_ok _ _ _ (suback_wf v m body Hv Wb Mb) Eb).
  - apply (post_ok _ _ _ (unsubscribe_wf v m body Hv Wb Mb) Eb).
  - apply (post_ok _ _ _ (unsuback_wf v m body Hv Wb Mb) Eb).
  - injection Eb as <-. apply ping_wf; auto.
  - injection Eb as <-. apply ping_wf; auto.
  - apply (post_ok _ _ _ (disconnect_wf v m body Hv Wb Mb) Eb).
  - apply (post_ok _ _ _ (auth_wf v m body Hv Wb Mb) Eb).
Qed.
