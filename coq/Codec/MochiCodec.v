(* Model of packets/fixedheader.go, the per-type Decode/Encode methods of packets/packets.go (after
   the fixes: commits de482bb, 1a5113d, a924969, bdb97b6, 46da5a3) and the dispatch of clients.go ReadPacket.
   Same case splits, same order of reads, same unchecked indexing as the Go code.  A method that
   mutates the receiver becomes a function returning the updated packet.  No proofs in this file. *)
From MV Require Import Base.Val Codec.Vbi Codec.Wire Codec.Props.
Open Scope N_scope.

(* ---------- types (packets.go:123-182, fixedheader.go:12-18); codec-relevant fields only ---------- *)
Record fixedheader := mkfh {
  fh_remaining : N;
  fh_type : N;
  fh_qos : N;
  fh_dup : bool;
  fh_retain : bool
}.
Definition set_fh_remaining (x : N) (r : fixedheader) : fixedheader := mkfh x (fh_type r) (fh_qos r) (fh_dup r) (fh_retain r).
Definition set_fh_type (x : N) (r : fixedheader) : fixedheader := mkfh (fh_remaining r) x (fh_qos r) (fh_dup r) (fh_retain r).
Definition set_fh_qos (x : N) (r : fixedheader) : fixedheader := mkfh (fh_remaining r) (fh_type r) x (fh_dup r) (fh_retain r).
Definition set_fh_dup (x : bool) (r : fixedheader) : fixedheader := mkfh (fh_remaining r) (fh_type r) (fh_qos r) x (fh_retain r).
Definition set_fh_retain (x : bool) (r : fixedheader) : fixedheader := mkfh (fh_remaining r) (fh_type r) (fh_qos r) (fh_dup r) x.

Record connectparams := mkconn {
  c_will_props : props;
  c_password : bytes;
  c_username : bytes;
  c_protocol_name : bytes;
  c_will_payload : bytes;
  c_client_id : bytes;
  c_will_topic : bytes;
  c_keepalive : N;
  c_password_flag : bool;
  c_username_flag : bool;
  c_will_qos : N;
  c_will_flag : bool;
  c_will_retain : bool;
  c_clean : bool
}.
Definition set_c_will_props (x : props) (r : connectparams) : connectparams := mkconn x (c_password r) (c_username r) (c_protocol_name r) (c_will_payload r) (c_client_id r) (c_will_topic r) (c_keepalive r) (c_password_flag r) (c_username_flag r) (c_will_qos r) (c_will_flag r) (c_will_retain r) (c_clean r).
Definition set_c_password (x : bytes) (r : connectparams) : connectparams := mkconn (c_will_props r) x (c_username r) (c_protocol_name r) (c_will_payload r) (c_client_id r) (c_will_topic r) (c_keepalive r) (c_password_flag r) (c_username_flag r) (c_will_qos r) (c_will_flag r) (c_will_retain r) (c_clean r).
Definition set_c_username (x : bytes) (r : connectparams) : connectparams := mkconn (c_will_props r) (c_password r) x (c_protocol_name r) (c_will_payload r) (c_client_id r) (c_will_topic r) (c_keepalive r) (c_password_flag r) (c_username_flag r) (c_will_qos r) (c_will_flag r) (c_will_retain r) (c_clean r).
Definition set_c_protocol_name (x : bytes) (r : connectparams) : connectparams := mkconn (c_will_props r) (c_password r) (c_username r) x (c_will_payload r) (c_client_id r) (c_will_topic r) (c_keepalive r) (c_password_flag r) (c_username_flag r) (c_will_qos r) (c_will_flag r) (c_will_retain r) (c_clean r).
Definition set_c_will_payload (x : bytes) (r : connectparams) : connectparams := mkconn (c_will_props r) (c_password r) (c_username r) (c_protocol_name r) x (c_client_id r) (c_will_topic r) (c_keepalive r) (c_password_flag r) (c_username_flag r) (c_will_qos r) (c_will_flag r) (c_will_retain r) (c_clean r).
Definition set_c_client_id (x : bytes) (r : connectparams) : connectparams := mkconn (c_will_props r) (c_password r) (c_username r) (c_protocol_name r) (c_will_payload r) x (c_will_topic r) (c_keepalive r) (c_password_flag r) (c_username_flag r) (c_will_qos r) (c_will_flag r) (c_will_retain r) (c_clean r).
Definition set_c_will_topic (x : bytes) (r : connectparams) : connectparams := mkconn (c_will_props r) (c_password r) (c_username r) (c_protocol_name r) (c_will_payload r) (c_client_id r) x (c_keepalive r) (c_password_flag r) (c_username_flag r) (c_will_qos r) (c_will_flag r) (c_will_retain r) (c_clean r).
Definition set_c_keepalive (x : N) (r : connectparams) : connectparams := mkconn (c_will_props r) (c_password r) (c_username r) (c_protocol_name r) (c_will_payload r) (c_client_id r) (c_will_topic r) x (c_password_flag r) (c_username_flag r) (c_will_qos r) (c_will_flag r) (c_will_retain r) (c_clean r).
Definition set_c_password_flag (x : bool) (r : connectparams) : connectparams := mkconn (c_will_props r) (c_password r) (c_username r) (c_protocol_name r) (c_will_payload r) (c_client_id r) (c_will_topic r) (c_keepalive r) x (c_username_flag r) (c_will_qos r) (c_will_flag r) (c_will_retain r) (c_clean r).
Definition set_c_username_flag (x : bool) (r : connectparams) : connectparams := mkconn (c_will_props r) (c_password r) (c_username r) (c_protocol_name r) (c_will_payload r) (c_client_id r) (c_will_topic r) (c_keepalive r) (c_password_flag r) x (c_will_qos r) (c_will_flag r) (c_will_retain r) (c_clean r).
Definition set_c_will_qos (x : N) (r : connectparams) : connectparams := mkconn (c_will_props r) (c_password r) (c_username r) (c_protocol_name r) (c_will_payload r) (c_client_id r) (c_will_topic r) (c_keepalive r) (c_password_flag r) (c_username_flag r) x (c_will_flag r) (c_will_retain r) (c_clean r).
Definition set_c_will_flag (x : bool) (r : connectparams) : connectparams := mkconn (c_will_props r) (c_password r) (c_username r) (c_protocol_name r) (c_will_payload r) (c_client_id r) (c_will_topic r) (c_keepalive r) (c_password_flag r) (c_username_flag r) (c_will_qos r) x (c_will_retain r) (c_clean r).
Definition set_c_will_retain (x : bool) (r : connectparams) : connectparams := mkconn (c_will_props r) (c_password r) (c_username r) (c_protocol_name r) (c_will_payload r) (c_client_id r) (c_will_topic r) (c_keepalive r) (c_password_flag r) (c_username_flag r) (c_will_qos r) (c_will_flag r) x (c_clean r).
Definition set_c_clean (x : bool) (r : connectparams) : connectparams := mkconn (c_will_props r) (c_password r) (c_username r) (c_protocol_name r) (c_will_payload r) (c_client_id r) (c_will_topic r) (c_keepalive r) (c_password_flag r) (c_username_flag r) (c_will_qos r) (c_will_flag r) (c_will_retain r) x.

Record subscription := mksub {
  s_filter : bytes;
  s_identifier : N;
  s_retain_handling : N;
  s_qos : N;
  s_rap : bool;
  s_no_local : bool
}.
Definition set_s_filter (x : bytes) (r : subscription) : subscription := mksub x (s_identifier r) (s_retain_handling r) (s_qos r) (s_rap r) (s_no_local r).
Definition set_s_identifier (x : N) (r : subscription) : subscription := mksub (s_filter r) x (s_retain_handling r) (s_qos r) (s_rap r) (s_no_local r).
Definition set_s_retain_handling (x : N) (r : subscription) : subscription := mksub (s_filter r) (s_identifier r) x (s_qos r) (s_rap r) (s_no_local r).
Definition set_s_qos (x : N) (r : subscription) : subscription := mksub (s_filter r) (s_identifier r) (s_retain_handling r) x (s_rap r) (s_no_local r).
Definition set_s_rap (x : bool) (r : subscription) : subscription := mksub (s_filter r) (s_identifier r) (s_retain_handling r) (s_qos r) x (s_no_local r).
Definition set_s_no_local (x : bool) (r : subscription) : subscription := mksub (s_filter r) (s_identifier r) (s_retain_handling r) (s_qos r) (s_rap r) x.

Record packet := mkpk {
  pk_connect : connectparams;
  pk_props : props;
  pk_payload : bytes;
  pk_reason_codes : bytes;
  pk_filters : list subscription;
  pk_topic : bytes;
  pk_fh : fixedheader;
  pk_mods : mods;
  pk_packet_id : N;
  pk_version : N;
  pk_session_present : bool;
  pk_reason_code : N;
  pk_reserved_bit : N
}.
Definition set_pk_connect (x : connectparams) (r : packet) : packet := mkpk x (pk_props r) (pk_payload r) (pk_reason_codes r) (pk_filters r) (pk_topic r) (pk_fh r) (pk_mods r) (pk_packet_id r) (pk_version r) (pk_session_present r) (pk_reason_code r) (pk_reserved_bit r).
Definition set_pk_props (x : props) (r : packet) : packet := mkpk (pk_connect r) x (pk_payload r) (pk_reason_codes r) (pk_filters r) (pk_topic r) (pk_fh r) (pk_mods r) (pk_packet_id r) (pk_version r) (pk_session_present r) (pk_reason_code r) (pk_reserved_bit r).
Definition set_pk_payload (x : bytes) (r : packet) : packet := mkpk (pk_connect r) (pk_props r) x (pk_reason_codes r) (pk_filters r) (pk_topic r) (pk_fh r) (pk_mods r) (pk_packet_id r) (pk_version r) (pk_session_present r) (pk_reason_code r) (pk_reserved_bit r).
Definition set_pk_reason_codes (x : bytes) (r : packet) : packet := mkpk (pk_connect r) (pk_props r) (pk_payload r) x (pk_filters r) (pk_topic r) (pk_fh r) (pk_mods r) (pk_packet_id r) (pk_version r) (pk_session_present r) (pk_reason_code r) (pk_reserved_bit r).
Definition set_pk_filters (x : list subscription) (r : packet) : packet := mkpk (pk_connect r) (pk_props r) (pk_payload r) (pk_reason_codes r) x (pk_topic r) (pk_fh r) (pk_mods r) (pk_packet_id r) (pk_version r) (pk_session_present r) (pk_reason_code r) (pk_reserved_bit r).
Definition set_pk_topic (x : bytes) (r : packet) : packet := mkpk (pk_connect r) (pk_props r) (pk_payload r) (pk_reason_codes r) (pk_filters r) x (pk_fh r) (pk_mods r) (pk_packet_id r) (pk_version r) (pk_session_present r) (pk_reason_code r) (pk_reserved_bit r).
Definition set_pk_fh (x : fixedheader) (r : packet) : packet := mkpk (pk_connect r) (pk_props r) (pk_payload r) (pk_reason_codes r) (pk_filters r) (pk_topic r) x (pk_mods r) (pk_packet_id r) (pk_version r) (pk_session_present r) (pk_reason_code r) (pk_reserved_bit r).
Definition set_pk_mods (x : mods) (r : packet) : packet := mkpk (pk_connect r) (pk_props r) (pk_payload r) (pk_reason_codes r) (pk_filters r) (pk_topic r) (pk_fh r) x (pk_packet_id r) (pk_version r) (pk_session_present r) (pk_reason_code r) (pk_reserved_bit r).
Definition set_pk_packet_id (x : N) (r : packet) : packet := mkpk (pk_connect r) (pk_props r) (pk_payload r) (pk_reason_codes r) (pk_filters r) (pk_topic r) (pk_fh r) (pk_mods r) x (pk_version r) (pk_session_present r) (pk_reason_code r) (pk_reserved_bit r).
Definition set_pk_version (x : N) (r : packet) : packet := mkpk (pk_connect r) (pk_props r) (pk_payload r) (pk_reason_codes r) (pk_filters r) (pk_topic r) (pk_fh r) (pk_mods r) (pk_packet_id r) x (pk_session_present r) (pk_reason_code r) (pk_reserved_bit r).
Definition set_pk_session_present (x : bool) (r : packet) : packet := mkpk (pk_connect r) (pk_props r) (pk_payload r) (pk_reason_codes r) (pk_filters r) (pk_topic r) (pk_fh r) (pk_mods r) (pk_packet_id r) (pk_version r) x (pk_reason_code r) (pk_reserved_bit r).
Definition set_pk_reason_code (x : N) (r : packet) : packet := mkpk (pk_connect r) (pk_props r) (pk_payload r) (pk_reason_codes r) (pk_filters r) (pk_topic r) (pk_fh r) (pk_mods r) (pk_packet_id r) (pk_version r) (pk_session_present r) x (pk_reserved_bit r).
Definition set_pk_reserved_bit (x : N) (r : packet) : packet := mkpk (pk_connect r) (pk_props r) (pk_payload r) (pk_reason_codes r) (pk_filters r) (pk_topic r) (pk_fh r) (pk_mods r) (pk_packet_id r) (pk_version r) (pk_session_present r) (pk_reason_code r) x.

Definition fh0 : fixedheader := mkfh 0 0 0 false false.
Definition conn0 : connectparams := mkconn props0 [] [] [] [] [] [] 0 false false 0 false false false.
Definition sub0 : subscription := mksub [] 0 0 0 false false.
Definition packet0 : packet := mkpk conn0 props0 [] [] [] [] fh0 mods0 0 0 false 0 0.
Definition upd_connect (f : connectparams -> connectparams) (pk : packet) : packet :=
  set_pk_connect (f (pk_connect pk)) pk.

(* ---------- FixedHeader.Decode (fixedheader.go:27-63) ---------- *)
Definition fh_decode (fh : fixedheader) (hb : N) : res fixedheader :=
  let ty := N.shiftr hb 4 in
  let fh := set_fh_type ty fh in
  let* fh :=
    (if ty =? PUBLISH then
       if (0 <? N.land (N.shiftr hb 1) 1) && (0 <? N.land (N.shiftr hb 1) 2) then Err EQosOutOfRange
       else Ok (set_fh_retain (bit hb 0) (set_fh_qos (N.land (N.shiftr hb 1) 3) (set_fh_dup (bit hb 3) fh)))
     else if (ty =? PUBREL) || (ty =? SUBSCRIBE) || (ty =? UNSUBSCRIBE) then
       if bit hb 0 || negb (bit hb 1) || bit hb 2 || bit hb 3 then Err EFlags
       else Ok (set_fh_qos (N.land (N.shiftr hb 1) 3) fh)
     else
       if bit hb 0 || bit hb 1 || bit hb 2 || bit hb 3 then Err EFlags else Ok fh) in
  if (fh_qos fh =? 0) && fh_dup fh then Err EDupNoQos else Ok fh.

(* FixedHeader.Encode (fixedheader.go:21-24); byte arithmetic *)
Definition fh_byte (fh : fixedheader) : N :=
  byte (N.lor (N.lor (N.lor (N.shiftl (fh_type fh) 4) (N.shiftl (encodeBool (fh_dup fh)) 3))
                     (N.shiftl (fh_qos fh) 1)) (encodeBool (fh_retain fh))).
Definition fh_encode (fh : fixedheader) : res bytes :=
  let* l := encodeLength (fh_remaining fh) in Ok (fh_byte fh :: l).

(* ---------- Subscription.encode / decode (packets.go:277-299) ---------- *)
Definition sub_encode (s : subscription) : N :=
  byte (N.lor (N.lor (N.lor (s_qos s) (if s_no_local s then 4 else 0)) (if s_rap s then 8 else 0))
              (N.shiftl (s_retain_handling s) 4)).
Definition sub_decode (b : N) (s : subscription) : subscription :=
  set_s_retain_handling (N.land 3 (N.shiftr b 4))
    (set_s_rap (bit b 3) (set_s_no_local (bit b 2) (set_s_qos (N.land b 3) s))).

(* pk.Properties.Decode(pk.FixedHeader.Type, bytes.NewBuffer(buf[offset:])) -> (n, updated packet) *)
Definition decode_props_at (pk : packet) (buf : bytes) (offset : N) : res (N * packet) :=
  let* s := slice_from buf offset in
  let* (n, pr) := props_decode (fh_type (pk_fh pk)) (pk_props pk) s onerr EProperties in
  Ok (n, set_pk_props pr pk).

(* the recurring idiom
     if pk.ProtocolVersion == 5 { n, err := pk.Properties.Decode(...buf[offset:]); ...; offset += n } *)
Definition props_if_v5 (pk : packet) (buf : bytes) (offset : N) : res (packet * N) :=
  if pk_version pk =? 5 then
    let* (n, pk') := decode_props_at pk buf offset in Ok (pk', offset + n)
  else Ok (pk, offset).

(* the same for the will properties of CONNECT (packets.go:403-409) *)
Definition will_props_if_v5 (pk : packet) (buf : bytes) (offset : N) : res (packet * N) :=
  if pk_version pk =? 5 then
    let* s := slice_from buf offset in
    let* (n, wp) := props_decode WILLPROPS (c_will_props (pk_connect pk)) s onerr EWillProperties in
    Ok (upd_connect (set_c_will_props wp) pk, offset + n)
  else Ok (pk, offset).

(* ---------- ConnectDecode (packets.go:357-441) ---------- *)
Definition connect_decode (pk : packet) (buf : bytes) : res packet :=
  let* (pn, offset) := decodeBytes buf 0 onerr EProtocolName in
  let pk := upd_connect (set_c_protocol_name pn) pk in
  let* (ver, offset) := decodeByte buf offset onerr EProtocolVersion in
  let pk := set_pk_version ver pk in
  let* (flags, offset) := decodeByte buf offset onerr EFlags in
  let pk := set_pk_reserved_bit (N.land 1 flags) pk in
  let pk := upd_connect (fun c =>
              set_c_username_flag (bit flags 7) (set_c_password_flag (bit flags 6)
              (set_c_will_retain (bit flags 5) (set_c_will_qos (N.land 3 (N.shiftr flags 3))
              (set_c_will_flag (bit flags 2) (set_c_clean (bit flags 1) c)))))) pk in
  let* (ka, offset) := decodeUint16 buf offset onerr EKeepalive in
  let pk := upd_connect (set_c_keepalive ka) pk in
  let* (pk, offset) := props_if_v5 pk buf offset in
  let* (cid, offset) := decodeString buf offset onerr EClientIdentifierNotValid in
  let pk := upd_connect (set_c_client_id cid) pk in
  let* (pk, offset) :=
    (if c_will_flag (pk_connect pk) then
       let* (pk, offset) := will_props_if_v5 pk buf offset in
       let* (wt, offset) := decodeString buf offset onerr EWillTopic in
       let pk := upd_connect (set_c_will_topic wt) pk in
       let* (wp, offset) := decodeBytes buf offset onerr EWillPayload in
       Ok (upd_connect (set_c_will_payload wp) pk, offset)
     else Ok (pk, offset)) in
  let* (pk, offset) :=
    (if c_username_flag (pk_connect pk) then
       if blen buf <=? offset then Err EFlagNoUsername
       else let* (u, offset) := decodeBytes buf offset onerr EUsername in
            Ok (upd_connect (set_c_username u) pk, offset)
     else Ok (pk, offset)) in
  if c_password_flag (pk_connect pk) then
    let* (pw, _) := decodeBytes buf offset onerr EPassword in
    Ok (upd_connect (set_c_password pw) pk)
  else Ok pk.

(* ---------- ConnackDecode (packets.go:521-543) ---------- *)
Definition connack_decode (pk : packet) (buf : bytes) : res packet :=
  let* (sp, offset) := decodeByteBool buf 0 onerr ESessionPresent in
  let pk := set_pk_session_present sp pk in
  let* (rc, offset) := decodeByte buf offset onerr EReasonCode in
  let pk := set_pk_reason_code rc pk in
  if pk_version pk =? 5 then
    let* (_, pk) := decode_props_at pk buf offset in Ok pk
  else Ok pk.

(* ---------- DisconnectDecode (packets.go:567-585, fixed) ---------- *)
Definition disconnect_decode (pk : packet) (buf : bytes) : res packet :=
  if (pk_version pk =? 5) && (0 <? fh_remaining (pk_fh pk)) then
    let* (rc, offset) := decodeByte buf 0 onerr EReasonCode in
    let pk := set_pk_reason_code rc pk in
    if 1 <? fh_remaining (pk_fh pk) then
      let* (_, pk) := decode_props_at pk buf offset in Ok pk
    else Ok pk
  else Ok pk.

(* ---------- PublishDecode (packets.go:639-667) ---------- *)
Definition publish_decode (pk : packet) (buf : bytes) : res packet :=
  let* (topic, offset) := decodeString buf 0 onerr ETopic in
  let pk := set_pk_topic topic pk in
  let* (pk, offset) :=
    (if 0 <? fh_qos (pk_fh pk) then
       let* (id, offset) := decodeUint16 buf offset onerr EPacketID in
       Ok (set_pk_packet_id id pk, offset)
     else Ok (pk, offset)) in
  let* (pk, offset) := props_if_v5 pk buf offset in
  let* payload := slice_from buf offset in
  Ok (set_pk_payload payload pk).

(* ---------- decodePubAckRelRecComp (packets.go:728-751) ---------- *)
Definition ack_decode (pk : packet) (buf : bytes) : res packet :=
  let* (id, offset) := decodeUint16 buf 0 onerr EPacketID in
  let pk := set_pk_packet_id id pk in
  if (pk_version pk =? 5) && (2 <? fh_remaining (pk_fh pk)) then
    let* (rc, offset) := decodeByte buf offset onerr EReasonCode in
    let pk := set_pk_reason_code rc pk in
    if 3 <? fh_remaining (pk_fh pk) then
      let* (_, pk) := decode_props_at pk buf offset in Ok pk
    else Ok pk
  else Ok pk.

(* ---------- SubackDecode (packets.go:868-888) ---------- *)
Definition suback_decode (pk : packet) (buf : bytes) : res packet :=
  let* (id, offset) := decodeUint16 buf 0 onerr EPacketID in
  let pk := set_pk_packet_id id pk in
  let* (pk, offset) := props_if_v5 pk buf offset in
  let* codes := slice_from buf offset in
  Ok (set_pk_reason_codes codes pk).

(* ---------- SubscribeDecode (packets.go:928-981, fixed) ---------- *)
Fixpoint subscribe_loop (fuel : nat) (v5 : bool) (ids : list N) (buf : bytes) (offset : N)
         (acc : list subscription) : res (list subscription) :=
  if blen buf <=? offset then Ok acc                    (* for offset < len(buf) *)
  else match fuel with
       | O => Fuel
       | S f =>
           let* (filter, offset) := decodeString buf offset onerr ETopic in
           let sub := set_s_filter filter sub0 in
           let* (option, offset) := decodeByte buf offset onerr EQos in
           let sub := if v5 then sub_decode option sub else set_s_qos option sub in
           let sub := match ids with i :: _ => set_s_identifier i sub | [] => sub end in
           if 2 <? s_qos sub then Err EQosOutOfRange
           else subscribe_loop f v5 ids buf offset (acc ++ [sub])
       end.

Definition subscribe_decode (pk : packet) (buf : bytes) : res packet :=
  let* (id, offset) := decodeUint16 buf 0 onerr EPacketID in
  let pk := set_pk_packet_id id pk in
  let* (pk, offset) := props_if_v5 pk buf offset in
  let* fs := subscribe_loop (S (length buf)) (pk_version pk =? 5) (p_sub_ids (pk_props pk)) buf offset [] in
  Ok (set_pk_filters fs pk).

(* ---------- UnsubackDecode (packets.go:1024-1045) ---------- *)
Definition unsuback_decode (pk : packet) (buf : bytes) : res packet :=
  let* (id, offset) := decodeUint16 buf 0 onerr EPacketID in
  let pk := set_pk_packet_id id pk in
  if pk_version pk =? 5 then
    let* (n, pk) := decode_props_at pk buf offset in
    let* codes := slice_from buf (offset + n) in
    Ok (set_pk_reason_codes codes pk)
  else Ok pk.

(* ---------- UnsubscribeDecode (packets.go:1080-1108) ---------- *)
Fixpoint unsubscribe_loop (fuel : nat) (buf : bytes) (offset : N) (acc : list subscription)
  : res (list subscription) :=
  if blen buf <=? offset then Ok acc
  else match fuel with
       | O => Fuel
       | S f =>
           let* (filter, offset) := decodeString buf offset onerr ETopic in
           unsubscribe_loop f buf offset (acc ++ [set_s_filter filter sub0])
       end.

Definition unsubscribe_decode (pk : packet) (buf : bytes) : res packet :=
  let* (id, offset) := decodeUint16 buf 0 onerr EPacketID in
  let pk := set_pk_packet_id id pk in
  let* (pk, offset) := props_if_v5 pk buf offset in
  let* fs := unsubscribe_loop (S (length buf)) buf offset [] in
  Ok (set_pk_filters fs pk).

(* ---------- AuthDecode (packets.go:1141-1163, fixed) ---------- *)
Definition auth_decode (pk : packet) (buf : bytes) : res packet :=
  if fh_remaining (pk_fh pk) =? 0 then Ok pk
  else
    let* (rc, offset) := decodeByte buf 0 onerr EReasonCode in
    let pk := set_pk_reason_code rc pk in
    if 1 <? fh_remaining (pk_fh pk) then
      let* (_, pk) := decode_props_at pk buf offset in Ok pk
    else Ok pk.

(* ---------- the switch of Client.ReadPacket (clients.go:481-515) ---------- *)
Definition decode_body (pk : packet) (px : bytes) : res packet :=
  match fh_type (pk_fh pk) with
  | 1 => connect_decode pk px
  | 14 => disconnect_decode pk px
  | 2 => connack_decode pk px
  | 3 => publish_decode pk px
  | 4 | 5 | 6 | 7 => ack_decode pk px
  | 8 => subscribe_decode pk px
  | 9 => suback_decode pk px
  | 10 => unsubscribe_decode pk px
  | 11 => unsuback_decode pk px
  | 12 | 13 => Ok pk
  | 15 => auth_decode pk px
  | _ => Err EInvalidPacketType
  end.

(* a fresh packet as ReadPacket builds it: protocol version of the client, the decoded header *)
Definition fresh_packet (v : N) (fh : fixedheader) : packet := set_pk_fh fh (set_pk_version v packet0).

Definition mochi_decode_body (v : N) (fh : fixedheader) (buf : bytes) : res packet :=
  decode_body (fresh_packet v fh) buf.

(* ReadFixedHeader + ReadPacket on a byte stream: header byte, remaining length, exactly that many
   body bytes (io.ReadFull into a fresh buffer), body decoder.  Result: packet and unread bytes. *)
Definition mochi_decode_packet (v : N) (bs : bytes) : res (packet * bytes) :=
  match bs with
  | [] => Err EEOF
  | hb :: r =>
      let* fh := fh_decode fh0 hb in
      match vbi_decode r with
      | VErrEOF _ => Err EEOF
      | VErrMalformed _ => Err EVariableByteInteger
      | VOk n _ r' =>
          if blen r' <? n then Err EShortRead
          else let* pk := mochi_decode_body v (set_fh_remaining n fh) (firstn (N.to_nat n) r') in
               Ok (pk, skipn (N.to_nat n) r')
      end
  end.

(* =====================================  encoders  ===================================== *)

(* pk.FixedHeader.Remaining = len; pk.FixedHeader.Encode(buf); buf.Write(body) *)
Definition finish (pk : packet) (body : bytes) : res bytes :=
  let* h := fh_encode (set_fh_remaining (blen body) (pk_fh pk)) in Ok (h ++ body).

Definition enc_props (pk : packet) (n : N) : res bytes :=
  props_encode (fh_type (pk_fh pk)) (pk_mods pk) (pk_props pk) n.

(* ConnectEncode (packets.go:302-354) *)
Definition connect_flags (c : connectparams) : N :=
  byte (N.lor (N.lor (N.lor (N.lor (N.lor
    (N.shiftl (encodeBool (c_clean c)) 1)
    (N.shiftl (encodeBool (c_will_flag c)) 2))
    (N.shiftl (c_will_qos c) 3))
    (N.shiftl (encodeBool (c_will_retain c)) 5))
    (N.shiftl (encodeBool (c_password_flag c)) 6))
    (N.shiftl (encodeBool (c_username_flag c)) 7)).

Definition connect_encode (pk : packet) : res bytes :=
  let c := pk_connect pk in
  let* pb := (if pk_version pk =? 5 then enc_props pk 0 else Ok []) in
  let* wb := (if c_will_flag c then
                let* wpb := (if pk_version pk =? 5
                             then props_encode WILLPROPS (pk_mods pk) (c_will_props c) 0 else Ok []) in
                Ok (wpb ++ encodeString (c_will_topic c) ++ encodeBytes (c_will_payload c))
              else Ok []) in
  finish pk (encodeBytes (c_protocol_name c) ++ [pk_version pk] ++ [connect_flags c]
             ++ encodeUint16 (c_keepalive c) ++ pb ++ encodeString (c_client_id c) ++ wb
             ++ when (c_username_flag c) (encodeBytes (c_username c))
             ++ when (c_password_flag c) (encodeBytes (c_password c))).

(* ConnackEncode (packets.go:500-518) *)
Definition connack_encode (pk : packet) : res bytes :=
  let nb := [encodeBool (pk_session_present pk); pk_reason_code pk] in
  let* pb := (if pk_version pk =? 5 then enc_props pk (blen nb + 2) else Ok []) in
  finish pk (nb ++ pb).

(* DisconnectEncode (packets.go:546-564) *)
Definition disconnect_encode (pk : packet) : res bytes :=
  if pk_version pk =? 5 then
    let* pb := enc_props pk 1 in finish pk (pk_reason_code pk :: pb)
  else finish pk [].

(* PingreqEncode / PingrespEncode (packets.go:588-604, fixed): Remaining = 0, then the header *)
Definition ping_encode (pk : packet) : res bytes := fh_encode (set_fh_remaining 0 (pk_fh pk)).

(* PublishEncode (packets.go:610-636) *)
Definition publish_encode (pk : packet) : res bytes :=
  let nb0 := encodeString (pk_topic pk) in
  let* nb := (if 0 <? fh_qos (pk_fh pk) then
                if pk_packet_id pk =? 0 then Err ENoPacketID
                else Ok (nb0 ++ encodeUint16 (pk_packet_id pk))
              else Ok nb0) in
  let* pb := (if pk_version pk =? 5 then enc_props pk (blen nb + blen (pk_payload pk)) else Ok []) in
  finish pk ((nb ++ pb) ++ pk_payload pk).

(* encodePubAckRelRecComp (packets.go:703-725, fixed) *)
Definition ack_encode (pk : packet) : res bytes :=
  let nb := encodeUint16 (pk_packet_id pk) in
  if pk_version pk =? 5 then
    let* pb := enc_props pk (blen nb) in
    finish pk (nb ++ when (negb (pk_reason_code pk =? 0) || (1 <? blen pb)) [pk_reason_code pk]
                  ++ when (1 <? blen pb) pb)
  else finish pk nb.

(* SubackEncode (packets.go:846-865) *)
Definition suback_encode (pk : packet) : res bytes :=
  let nb := encodeUint16 (pk_packet_id pk) in
  let* pb := (if pk_version pk =? 5 then enc_props pk (blen nb + blen (pk_reason_codes pk)) else Ok []) in
  finish pk (nb ++ pb ++ pk_reason_codes pk).

(* SubscribeEncode (packets.go:891-925) *)
Fixpoint enc_filters (v5 : bool) (l : list subscription) : bytes :=
  match l with
  | [] => []
  | s :: r => encodeString (s_filter s) ++ [if v5 then sub_encode s else s_qos s] ++ enc_filters v5 r
  end.

Definition subscribe_encode (pk : packet) : res bytes :=
  if pk_packet_id pk =? 0 then Err ENoPacketID
  else
    let nb := encodeUint16 (pk_packet_id pk) in
    let xb := enc_filters (pk_version pk =? 5) (pk_filters pk) in
    let* pb := (if pk_version pk =? 5 then enc_props pk (blen nb + blen xb) else Ok []) in
    finish pk (nb ++ pb ++ xb).

(* UnsubackEncode (packets.go:1003-1021) *)
Definition unsuback_encode (pk : packet) : res bytes :=
  let nb := encodeUint16 (pk_packet_id pk) in
  if pk_version pk =? 5 then
    let* pb := enc_props pk (blen nb) in finish pk (nb ++ pb ++ pk_reason_codes pk)
  else finish pk nb.

(* UnsubscribeEncode (packets.go:1048-1077) *)
Fixpoint enc_unsub_filters (l : list subscription) : bytes :=
  match l with [] => [] | s :: r => encodeString (s_filter s) ++ enc_unsub_filters r end.

Definition unsubscribe_encode (pk : packet) : res bytes :=
  if pk_packet_id pk =? 0 then Err ENoPacketID
  else
    let nb := encodeUint16 (pk_packet_id pk) in
    let xb := enc_unsub_filters (pk_filters pk) in
    let* pb := (if pk_version pk =? 5 then enc_props pk (blen nb + blen xb) else Ok []) in
    finish pk (nb ++ pb ++ xb).

(* AuthEncode (packets.go:1124-1138) *)
Definition auth_encode (pk : packet) : res bytes :=
  let* pb := enc_props pk 1 in finish pk (pk_reason_code pk :: pb).

(* the switch of Client.WritePacket (clients.go:560-592) *)
Definition mochi_encode (pk : packet) : res bytes :=
  match fh_type (pk_fh pk) with
  | 1 => connect_encode pk
  | 2 => connack_encode pk
  | 3 => publish_encode pk
  | 4 | 5 | 6 | 7 => ack_encode pk
  | 8 => subscribe_encode pk
  | 9 => suback_encode pk
  | 10 => unsubscribe_encode pk
  | 11 => unsuback_encode pk
  | 12 | 13 => ping_encode pk
  | 14 => disconnect_encode pk
  | 15 => auth_encode pk
  | _ => Err EInvalidPacketType
  end.
