(* Model of packets/codec.go: the primitive field decoders/encoders.  Go slices are [bytes] with an
   explicit integer offset exactly as in the Go code; the only ways to look into a buffer are
   [index] (Go: buf[i]) and [slice] (Go: buf[lo:hi]), and both yield [Panic] when Go would panic
   with an index/slice bounds error.  No proofs in this file. *)
From MV Require Import Base.Val Codec.Vbi.
Open Scope N_scope.

(* ---------- outcomes ---------- *)

(* the Go error values the codec returns; only the class (error / no error) is compared with the
   implementation, the names document which return statement is modelled *)
Inductive err :=
| EOffsetUintOutOfRange | EOffsetBytesOutOfRange | EOffsetByteOutOfRange | EOffsetBoolOutOfRange
| EInvalidUTF8 | EVariableByteInteger | EEOF
| EProtocolName | EProtocolVersion | EFlags | EKeepalive | EPacketID | ETopic | EWillTopic
| EWillPayload | EUsername | EPassword | EQos | EProperties | EWillProperties | EReasonCode
| ESessionPresent | EClientIdentifierNotValid | EFlagNoUsername | EUnsupportedProperty
| EQosOutOfRange | EDupNoQos | ENoPacketID | EInvalidPacketType | EShortRead.

Inductive res (A : Type) : Type :=
| Ok (a : A)
| Err (e : err)
| Panic          (* Go run-time panic: index or slice bounds out of range *)
| Fuel.          (* a modelled loop ran out of fuel (excluded by the theorems) *)
Arguments Ok {A} a.
Arguments Err {A} e.
Arguments Panic {A}.
Arguments Fuel {A}.

Definition bind {A B} (r : res A) (f : A -> res B) : res B :=
  match r with Ok a => f a | Err e => Err e | Panic => Panic | Fuel => Fuel end.

(* the errors that mean "a declared length or a fixed-size field reaches past the supplied bytes" *)
Definition is_bounds (e : err) : bool :=
  match e with
  | EOffsetUintOutOfRange | EOffsetBytesOutOfRange | EOffsetByteOutOfRange | EOffsetBoolOutOfRange
  | EEOF | EShortRead => true
  | _ => false
  end.

(* Go: [x, err := f(); if err != nil { return E }]  (or fmt.Errorf("%s: %w", err, E)).  Only the class
   "error" is compared with the implementation; the model keeps an out-of-bounds cause visible under
   the wrapping so that the engine can tell "rejected because a length exceeds the input" apart *)
Definition bind_err {A B} (r : res A) (e : err) (f : A -> res B) : res B :=
  match r with
  | Ok a => f a
  | Err e0 => Err (if is_bounds e0 then e0 else e)
  | Panic => Panic
  | Fuel => Fuel
  end.

Notation "'let*' x ':=' r 'in' k" := (bind r (fun x => k))
  (at level 200, x pattern, r at level 100, k at level 200, right associativity).
Notation "'let*' x ':=' r 'onerr' e 'in' k" := (bind_err r e (fun x => k))
  (at level 200, x pattern, r at level 100, e at level 0, k at level 200, right associativity).

(* ---------- the access primitives ---------- *)

Definition blen (b : bytes) : N := N.of_nat (length b).

(* Go: buf[i] *)
Definition index (buf : bytes) (i : N) : res N :=
  match nth_error buf (N.to_nat i) with Some b => Ok b | None => Panic end.

(* Go: buf[lo:hi]  (0 <= lo <= hi <= len(buf), otherwise a run-time panic; the harness allocates
   every buffer with cap = len, so cap and len coincide) *)
Definition slice (buf : bytes) (lo hi : N) : res bytes :=
  if (lo <=? hi) && (hi <=? blen buf)
  then Ok (firstn (N.to_nat (hi - lo)) (skipn (N.to_nat lo) buf))
  else Panic.

(* Go: buf[lo:] *)
Definition slice_from (buf : bytes) (lo : N) : res bytes := slice buf lo (blen buf).

(* ---------- UTF-8 (unicode/utf8.Valid, modelled: Unicode table 3-7) ---------- *)

Definition in_range (b lo hi : N) : bool := (lo <=? b) && (b <=? hi).
Definition cont (b : N) : bool := in_range b 128 191.

Fixpoint utf8_valid (bs : bytes) : bool :=
  match bs with
  | [] => true
  | b0 :: r0 =>
      if b0 <? 128 then utf8_valid r0
      else if in_range b0 194 223 then
        match r0 with
        | b1 :: r1 => cont b1 && utf8_valid r1
        | _ => false
        end
      else if in_range b0 224 239 then
        match r0 with
        | b1 :: b2 :: r2 =>
            in_range b1 (if b0 =? 224 then 160 else 128) (if b0 =? 237 then 159 else 191)
            && cont b2 && utf8_valid r2
        | _ => false
        end
      else if in_range b0 240 244 then
        match r0 with
        | b1 :: b2 :: b3 :: r3 =>
            in_range b1 (if b0 =? 240 then 144 else 128) (if b0 =? 244 then 143 else 191)
            && cont b2 && cont b3 && utf8_valid r3
        | _ => false
        end
      else false
  end.

(* codec.go validUTF8: utf8.Valid(b) && bytes.IndexByte(b, 0) == -1 *)
Definition valid_utf8 (b : bytes) : bool := utf8_valid b && negb (existsb (N.eqb 0) b).

(* ---------- decoders (codec.go:22-86) ---------- *)

(* encoding/binary BigEndian.Uint16(b): _ = b[1]; uint16(b[1]) | uint16(b[0])<<8 *)
Definition be_uint16 (b : bytes) : res N :=
  let* b1 := index b 1 in
  let* b0 := index b 0 in
  Ok (b0 * 256 + b1).

Definition be_uint32 (b : bytes) : res N :=
  let* b3 := index b 3 in
  let* b0 := index b 0 in
  let* b1 := index b 1 in
  let* b2 := index b 2 in
  Ok (((b0 * 256 + b1) * 256 + b2) * 256 + b3).

Definition decodeUint16 (buf : bytes) (offset : N) : res (N * N) :=
  if blen buf <? offset + 2 then Err EOffsetUintOutOfRange
  else let* s := slice buf offset (offset + 2) in
       let* v := be_uint16 s in
       Ok (v, offset + 2).

Definition decodeUint32 (buf : bytes) (offset : N) : res (N * N) :=
  if blen buf <? offset + 4 then Err EOffsetUintOutOfRange
  else let* s := slice buf offset (offset + 4) in
       let* v := be_uint32 s in
       Ok (v, offset + 4).

Definition decodeBytes (buf : bytes) (offset : N) : res (bytes * N) :=
  let* (length, next) := decodeUint16 buf offset in
  if blen buf <? next + length then Err EOffsetBytesOutOfRange
  else let* s := slice buf next (next + length) in
       Ok (s, next + length).

Definition decodeString (buf : bytes) (offset : N) : res (bytes * N) :=
  let* (b, n) := decodeBytes buf offset in
  if negb (valid_utf8 b) then Err EInvalidUTF8
  else Ok (b, n).

Definition decodeByte (buf : bytes) (offset : N) : res (N * N) :=
  if blen buf <=? offset then Err EOffsetByteOutOfRange
  else let* b := index buf offset in Ok (b, offset + 1).

Definition decodeByteBool (buf : bytes) (offset : N) : res (bool * N) :=
  if blen buf <=? offset then Err EOffsetBoolOutOfRange
  else let* b := index buf offset in Ok (0 <? N.land 1 b, offset + 1).

(* ---------- encoders (codec.go:88-127) ---------- *)

Definition encodeBool (b : bool) : N := if b then 1 else 0.

(* PutUint16(buf, uint16(v)) *)
Definition encodeUint16 (v : N) : bytes := [(v / 256) mod 256; v mod 256].
Definition encodeUint32 (v : N) : bytes :=
  [(v / 16777216) mod 256; (v / 65536) mod 256; (v / 256) mod 256; v mod 256].

(* encodeBytes / encodeString: the length prefix is uint16(len(val)), i.e. truncated modulo 2^16 *)
Definition encodeBytes (val : bytes) : bytes := encodeUint16 (blen val mod 65536) ++ val.
Definition encodeString (val : bytes) : bytes := encodeBytes val.

(* encodeLength (Vbi.v): the loop is modelled with fuel there *)
Definition encodeLength (n : N) : res bytes :=
  match vbi_encode n with Some e => Ok e | None => Fuel end.

(* ---------- byte arithmetic helpers (Go byte = uint8) ---------- *)
Definition byte (x : N) : N := x mod 256.
Definition bit (b : N) (i : N) : bool := 0 <? N.land 1 (N.shiftr b i).   (* 1&(b>>i) > 0 *)
