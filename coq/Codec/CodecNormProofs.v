(* C26: the Properties struct decoded from what Properties.Encode wrote is the explicit normal
   form [norm_props]: every property valid for the packet type and not suppressed is preserved. *)
From MV Require Import Base.Val Codec.Vbi Codec.Wire Codec.Props Codec.MochiCodec Codec.SpecCodec
  Codec.SpecBridge Codec.CodecOrder Codec.CodecRT Codec.CodecEnc Codec.CodecNorm.
From Coq Require Import Lia ZifyBool ZifyN ZifyNat.
Open Scope N_scope.

Lemma filter_optl k c x : filter (has_id k) (optl c x) = if has_id k x then optl c x else [].
Proof. destruct c; cbn [optl filter]; destruct (has_id k x); reflexivity. Qed.

Lemma filter_if {A} (f : A -> bool) (c : bool) l : filter f (if c then l else []) = if c then filter f l else [].
Proof. destruct c; reflexivity. Qed.

Lemma filter_subids k l : filter (has_id k) (map SubscriptionId l) = if 11 =? k then map SubscriptionId l else [].
Proof.
  unfold has_id. induction l as [|a l IH]; [destruct (11 =? k); reflexivity|].
  cbn [map filter prop_id]. rewrite IH. destruct (11 =? k); reflexivity.
Qed.

Lemma filter_users k (l : list (bytes * bytes)) :
  filter (has_id k) (map (fun kv => UserProperty (fst kv) (snd kv)) l)
  = if 38 =? k then map (fun kv => UserProperty (fst kv) (snd kv)) l else [].
Proof.
  unfold has_id. induction l as [|a l IH]; [destruct (38 =? k); reflexivity|].
  cbn [map filter prop_id]. rewrite IH. destruct (38 =? k); reflexivity.
Qed.

Lemma fold_subids l acc : fold_left (fun s c => sstore c s) (map SubscriptionId l) (SL acc) = SL (acc ++ l).
Proof.
  revert acc. induction l as [|a l IH]; intro acc; [cbn; rewrite app_nil_r; reflexivity|].
  cbn [map fold_left sstore]. rewrite IH, <- app_assoc. reflexivity.
Qed.

Lemma fold_users (l : list (bytes * bytes)) acc :
  fold_left (fun s c => sstore c s) (map (fun kv => UserProperty (fst kv) (snd kv)) l) (SU acc) = SU (acc ++ l).
Proof.
  revert acc. induction l as [|[a b] l IH]; intro acc; [cbn; rewrite app_nil_r; reflexivity|].
  cbn [map fold_left sstore fst snd]. rewrite IH, <- app_assoc. reflexivity.
Qed.

Lemma if_same {A} (c : bool) (x : A) : (if c then x else x) = x.
Proof. destruct c; reflexivity. Qed.

Lemma props_of_entries pkt m p n : props_of (entries pkt m p n) = norm_props pkt m p n.
Proof.
  apply slot_ext. intros k Hin. unfold props_of. rewrite (slot_store_all k Hin).
  unfold entries. cbv zeta. rewrite !filter_app, !filter_optl, !filter_if, filter_subids, filter_users.
  unfold all_ids in Hin.
  repeat (destruct Hin as [<-|Hin]; [
    cbv beta iota delta [has_id prop_id];
    repeat match goal with |- context [N.eqb (Npos ?a) (Npos ?b)] =>
      let r := eval vm_compute in (N.eqb (Npos a) (Npos b)) in change (N.eqb (Npos a) (Npos b)) with r end;
    cbv iota; cbn [app];
    try match goal with |- context [optl ?c _] => destruct c eqn:? end;
    cbn [optl fold_left sstore slot props0 norm_props app
         p_payload_format p_payload_format_flag p_message_expiry p_content_type p_response_topic
         p_correlation_data p_sub_ids p_session_expiry p_session_expiry_flag p_assigned_client_id p_server_keep_alive
         p_server_keep_alive_flag p_auth_method p_auth_data p_request_problem_info p_request_problem_info_flag
         p_will_delay p_request_response_info p_response_info p_server_reference p_reason_string p_receive_maximum
         p_topic_alias_maximum p_topic_alias p_topic_alias_flag p_maximum_qos p_maximum_qos_flag p_retain_available
         p_retain_available_flag p_user p_maximum_packet_size p_wildcard_sub_available p_wildcard_sub_available_flag
         p_sub_id_available p_sub_id_available_flag p_shared_sub_available p_shared_sub_available_flag];
    idtac |]).
  all: try contradiction.
  all: repeat match goal with |- context [if ?c then @nil ?A else @nil ?A] => replace (if c then @nil A else @nil A) with (@nil A) by (destruct c; reflexivity) end.
  all: cbn [app fold_left].
  all: try (match goal with H : ?c = _ |- context [?c] => rewrite H end; reflexivity).
  - destruct (valid_prop 11 pkt); [|reflexivity]. rewrite app_nil_r, fold_subids. reflexivity.
  - destruct ((negb (m_disallow_problem_info m) || (pkt =? PUBLISH)) && valid_prop 38 pkt &&
              ((m_max_size m =? 0) || (uint32 (n + blen (enc_user (p_user p)) + 1) <? m_max_size m)));
      [|reflexivity]. rewrite app_nil_r, fold_users. reflexivity.
Qed.

Ltac split_and :=
  repeat match goal with
  | H : _ && _ = true |- _ => apply andb_prop in H; destruct H
  end.

Lemma beq_bytes_eq' a : forall b, beq_bytes a b = true -> a = b.
Proof.
  induction a as [|x a IH]; destruct b as [|y b]; cbn [beq_bytes]; intro H; try discriminate; [reflexivity|].
  apply andb_prop in H. destruct H as [H1 H2]. apply N.eqb_eq in H1. subst y. f_equal. apply IH. exact H2.
Qed.

Theorem norm_preserves pk rem : wf_packet pk = true ->
  let q := norm pk rem in
  pk_version q = pk_version pk /\
  fh_type (pk_fh q) = fh_type (pk_fh pk) /\ fh_qos (pk_fh q) = fh_qos (pk_fh pk) /\
  fh_dup (pk_fh q) = fh_dup (pk_fh pk) /\ fh_retain (pk_fh q) = fh_retain (pk_fh pk) /\
  fh_remaining (pk_fh q) = rem /\
  same_fields pk q /\
  ((pk_version pk = 5 \/ fh_type (pk_fh pk) = 15) -> fh_type (pk_fh pk) <> 12 -> fh_type (pk_fh pk) <> 13 ->
   exists n, pk_props q = norm_props (fh_type (pk_fh pk)) (pk_mods pk) (pk_props pk) n).
Proof.
  intro W. cbv zeta.
  assert (T : 1 <= fh_type (pk_fh pk) <= 15).
  { unfold wf_packet in W. cbv zeta in W. split_and. lia. }
  remember (fh_type (pk_fh pk)) as ty eqn:Ety. symmetry in Ety.
  assert (C : ty = 1 \/ ty = 2 \/ ty = 3 \/ ty = 4 \/ ty = 5 \/ ty = 6 \/ ty = 7 \/ ty = 8 \/ ty = 9 \/
              ty = 10 \/ ty = 11 \/ ty = 12 \/ ty = 13 \/ ty = 14 \/ ty = 15) by lia.
  unfold wf_packet in W. rewrite Ety in W. cbv zeta in W.
  unfold same_fields, norm, abs. rewrite Ety.
  destruct C as [->|[->|[->|[->|[->|[->|[->|[->|[->|[->|[->|[->|[->|[->| ->]]]]]]]]]]]]]]; split_and.
  all: repeat match goal with Hx : context [N.eqb (Npos ?a) (Npos ?b)] |- _ =>
         let r := eval vm_compute in (N.eqb (Npos a) (Npos b)) in change (N.eqb (Npos a) (Npos b)) with r in Hx end.
  all: cbv iota in *; cbn [orb] in *; split_and.
  all: try (destruct (fh_dup (pk_fh pk)); [discriminate|]).
  all: try (destruct (fh_retain (pk_fh pk)); [discriminate|]).
  all: cbn [expected ack_type ack_kind_of]; pkred.
  all: repeat match goal with |- _ /\ _ => split end.
  all: try (intros; match goal with |- ?a = ?a => reflexivity end).
  all: try (match goal with |- _ = _ => fail 1 | |- _ -> _ => fail 1 | |- _ => lia end).
  all: try (intros [E5|E5] _ _; [|discriminate E5]; rewrite E5; change (5 =? 5) with true; cbv iota;
            eexists; apply props_of_entries).
  all: try (intros _ _ _; eexists; apply props_of_entries).
  all: try (intros E5; rewrite E5; change (5 =? 5) with true; cbv iota; match goal with |- ?a = ?a => reflexivity end).
  all: try (match goal with |- _ = fh_qos _ => lia end).
  all: try (intros _ Hc1 Hc2; exfalso; first [apply Hc1; reflexivity | apply Hc2; reflexivity]).
  all: unfold codes_of.
  all: try (match goal with |- ?a = ?a => reflexivity end).
  all: try (intros E5; rewrite E5; change (5 =? 5) with true; cbv iota; match goal with |- ?a = ?a => reflexivity end).
  all: try (intro Hq; replace (0 <? fh_qos (pk_fh pk)) with true by lia; reflexivity).
  all: try (rewrite !map_map; apply map_ext; intro s0; destruct (pk_version pk =? 5); reflexivity).
  all: try (intros E5; rewrite E5; change (5 =? 5) with true; cbv iota; repeat split; rewrite !map_map; apply map_ext; intro s0; reflexivity).
  all: connred.
  all: try (match goal with |- ?a = ?a => reflexivity end).
  all: first
    [ symmetry; apply beq_bytes_eq'; assumption
    | destruct (c_will_flag (pk_connect pk)); reflexivity
    | destruct (c_username_flag (pk_connect pk)); reflexivity
    | destruct (c_password_flag (pk_connect pk)); reflexivity
    | intro Hwf; rewrite Hwf; cbn [will_topic will_payload will_qos will_retain will_props];
      repeat split; intro E5; rewrite E5; change (5 =? 5) with true; cbv iota; apply props_of_entries
    | intro Hf; rewrite Hf; reflexivity
    | idtac ].
Qed.
