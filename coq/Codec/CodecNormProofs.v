(* C26: the Properties struct decoded from what Properties.Encode wrote is the explicit normal
   form [norm_props]: every property valid for the packet type and not suppressed is preserved. *)
From MV Require Import Base.Val Codec.Vbi Codec.Wire Codec.Props Codec.MochiCodec Codec.SpecCodec
  Codec.SpecBridge Codec.CodecOrder Codec.CodecRT Codec.CodecEnc Codec.CodecNorm.
From Coq Require Import Lia ZifyBool ZifyN ZifyNat.
Open Scope N_scope.

Lemma filter_optl k c x : filter (has_id k) (optl c x) = if has_id k x then optl c x else [].
Proof. destruct c; cbn [optl filter]; destruct (has_id k x); reflexivity. Qed.

Lemma filter_if {A} (f : A -> bool) (c : bool) l : filter f (if c then l else []) = if c then filter f l else [].
Proof. destruct c; reflexivity. Qed.

Lemma filter_subids k l : filter (has_id k) (map SubscriptionId l) = if 11 =? k then map SubscriptionId l else [].
Proof.
  unfold has_id. induction l as [|a l IH]; [destruct (11 =? k); reflexivity|].
  cbn [map filter prop_id]. rewrite IH. destruct (11 =? k); reflexivity.
Qed.

Lemma filter_users k (l : list (bytes * bytes)) :
  filter (has_id k) (map (fun kv => UserProperty (fst kv) (snd kv)) l)
  = if 38 =? k then map (fun kv => UserProperty (fst kv) (snd kv)) l else [].
Proof.
  unfold has_id. induction l as [|a l IH]; [destruct (38 =? k); reflexivity|].
  cbn [map filter prop_id]. rewrite IH. destruct (38 =? k); reflexivity.
Qed.

Lemma fold_subids l acc : fold_left (fun s c => sstore c s) (map SubscriptionId l) (SL acc) = SL (acc ++ l).
Proof.
  revert acc. induction l as [|a l IH]; intro acc; [cbn; rewrite app_nil_r; reflexivity|].
  cbn [map fold_left sstore]. rewrite IH, <- app_assoc. reflexivity.
Qed.

Lemma fold_users (l : list (bytes * bytes)) acc :
  fold_left (fun s c => sstore c s) (map (fun kv => UserProperty (fst kv) (snd kv)) l) (SU acc) = SU (acc ++ l).
Proof.
  revert acc. induction l as [|[a b] l IH]; intro acc; [cbn; rewrite app_nil_r; reflexivity|].
  cbn [map fold_left sstore fst snd]. rewrite IH, <- app_assoc. reflexivity.
Qed.

Lemma if_same {A} (c : bool) (x : A) : (if c then x else x) = x.
Proof. destruct c; reflexivity. Qed.

Lemma props_of_entries pkt m p n : props_of (entries pkt m p n) = norm_props pkt m p n.
Proof.
  apply slot_ext. intros k Hin. unfold props_of. rewrite (slot_store_all k Hin).
  unfold entries. cbv zeta. rewrite !filter_app, !filter_optl, !filter_if, filter_subids, filter_users.
  unfold all_ids in Hin.
  repeat (destruct Hin as [<-|Hin]; [
    cbv beta iota delta [has_id prop_id];
    repeat match goal with |- context [N.eqb (Npos ?a) (Npos ?b)] =>
      let r := eval vm_compute in (N.eqb (Npos a) (Npos b)) in change (N.eqb (Npos a) (Npos b)) with r end;
    cbv iota; cbn [app];
    try match goal with |- context [optl ?c _] => destruct c eqn:? end;
    cbn [optl fold_left sstore slot props0 norm_props app
         p_payload_format p_payload_format_flag p_message_expiry p_content_type p_response_topic
         p_correlation_data p_sub_ids p_session_expiry p_session_expiry_flag p_assigned_client_id p_server_keep_alive
         p_server_keep_alive_flag p_auth_method p_auth_data p_request_problem_info p_request_problem_info_flag
         p_will_delay p_request_response_info p_response_info p_server_reference p_reason_string p_receive_maximum
         p_topic_alias_maximum p_topic_alias p_topic_alias_flag p_maximum_qos p_maximum_qos_flag p_retain_available
         p_retain_available_flag p_user p_maximum_packet_size p_wildcard_sub_available p_wildcard_sub_available_flag
         p_sub_id_available p_sub_id_available_flag p_shared_sub_available p_shared_sub_available_flag];
    idtac |]).
  all: try contradiction.
  all: repeat match goal with |- context [if ?c then @nil ?A else @nil ?A] => replace (if c then @nil A else @nil A) with (@nil A) by (destruct c; reflexivity) end.
  all: cbn [app fold_left].
  all: try (match goal with H : ?c = _ |- context [?c] => rewrite H end; reflexivity).
  - destruct (valid_prop 11 pkt); [|reflexivity]. rewrite app_nil_r, fold_subids. reflexivity.
  - destruct ((negb (m_disallow_problem_info m) || (pkt =? PUBLISH)) && valid_prop 38 pkt &&
              ((m_max_size m =? 0) || (uint32 (n + blen (enc_user (p_user p)) + 1) <? m_max_size m)));
      [|reflexivity]. rewrite app_nil_r, fold_users. reflexivity.
Qed.
