(* C42: the order of properties does not matter.  The Properties struct that results from storing a
   property list is the same for every reordering that keeps the repeatable properties (user
   properties, subscription identifiers) in sequence, provided no other property occurs twice. *)
From MV Require Import Base.Val Codec.Vbi Codec.Wire Codec.Props Codec.MochiCodec
  Codec.SpecCodec Codec.SpecBridge.
From Coq Require Import Lia ZifyBool ZifyN ZifyNat Permutation.
Open Scope N_scope.

(* ---------- the field group ("slot") a property identifier owns in the struct ---------- *)

Inductive sv :=
| SN (n : N) (flag : bool)
| SB (b : bytes)
| SL (l : list N)
| SU (l : list (bytes * bytes))
| SNone.

Definition slot (k : N) (p : props) : sv :=
  match k with
  | 1 => SN (p_payload_format p) (p_payload_format_flag p)
  | 2 => SN (p_message_expiry p) false
  | 3 => SB (p_content_type p)
  | 8 => SB (p_response_topic p)
  | 9 => SB (p_correlation_data p)
  | 11 => SL (p_sub_ids p)
  | 17 => SN (p_session_expiry p) (p_session_expiry_flag p)
  | 18 => SB (p_assigned_client_id p)
  | 19 => SN (p_server_keep_alive p) (p_server_keep_alive_flag p)
  | 21 => SB (p_auth_method p)
  | 22 => SB (p_auth_data p)
  | 23 => SN (p_request_problem_info p) (p_request_problem_info_flag p)
  | 24 => SN (p_will_delay p) false
  | 25 => SN (p_request_response_info p) false
  | 26 => SB (p_response_info p)
  | 28 => SB (p_server_reference p)
  | 31 => SB (p_reason_string p)
  | 33 => SN (p_receive_maximum p) false
  | 34 => SN (p_topic_alias_maximum p) false
  | 35 => SN (p_topic_alias p) (p_topic_alias_flag p)
  | 36 => SN (p_maximum_qos p) (p_maximum_qos_flag p)
  | 37 => SN (p_retain_available p) (p_retain_available_flag p)
  | 38 => SU (p_user p)
  | 39 => SN (p_maximum_packet_size p) false
  | 40 => SN (p_wildcard_sub_available p) (p_wildcard_sub_available_flag p)
  | 41 => SN (p_sub_id_available p) (p_sub_id_available_flag p)
  | 42 => SN (p_shared_sub_available p) (p_shared_sub_available_flag p)
  | _ => SNone
  end.

Definition all_ids : list N :=
  [1; 2; 3; 8; 9; 11; 17; 18; 19; 21; 22; 23; 24; 25; 26; 28; 31; 33; 34; 35; 36; 37; 38; 39; 40; 41; 42].

Ltac inids := unfold all_ids; repeat (first [left; reflexivity | right]).

Lemma slot_ext p q : (forall k, In k all_ids -> slot k p = slot k q) -> p = q.
Proof.
  intro H. destruct p, q.
  assert (H1 := H 1 ltac:(inids)). assert (H2 := H 2 ltac:(inids)).
  assert (H3 := H 3 ltac:(inids)). assert (H8 := H 8 ltac:(inids)).
  assert (H9 := H 9 ltac:(inids)). assert (H11 := H 11 ltac:(inids)).
  assert (H17 := H 17 ltac:(inids)). assert (H18 := H 18 ltac:(inids)).
  assert (H19 := H 19 ltac:(inids)). assert (H21 := H 21 ltac:(inids)).
  assert (H22 := H 22 ltac:(inids)). assert (H23 := H 23 ltac:(inids)).
  assert (H24 := H 24 ltac:(inids)). assert (H25 := H 25 ltac:(inids)).
  assert (H26 := H 26 ltac:(inids)). assert (H28 := H 28 ltac:(inids)).
  assert (H31 := H 31 ltac:(inids)). assert (H33 := H 33 ltac:(inids)).
  assert (H34 := H 34 ltac:(inids)). assert (H35 := H 35 ltac:(inids)).
  assert (H36 := H 36 ltac:(inids)). assert (H37 := H 37 ltac:(inids)).
  assert (H38 := H 38 ltac:(inids)). assert (H39 := H 39 ltac:(inids)).
  assert (H40 := H 40 ltac:(inids)). assert (H41 := H 41 ltac:(inids)).
  assert (H42 := H 42 ltac:(inids)).
  clear H. cbn in *.
  repeat match goal with
  | H : SN _ _ = SN _ _ |- _ => injection H; clear H; intros; subst
  | H : SB _ = SB _ |- _ => injection H; clear H; intros; subst
  | H : SL _ = SL _ |- _ => injection H; clear H; intros; subst
  | H : SU _ = SU _ |- _ => injection H; clear H; intros; subst
  end.
  reflexivity.
Qed.

(* what storing a property does to the slot it owns *)
Definition sstore (c : sprop) (s : sv) : sv :=
  match c with
  | PayloadFormat b | RequestProblemInfo b | MaximumQoS b | RetainAvailable b
  | WildcardSubAvailable b | SubIdAvailable b | SharedSubAvailable b => SN b true
  | SessionExpiry n | ServerKeepAlive n | TopicAlias n => SN n true
  | MessageExpiry n | WillDelay n | ReceiveMaximum n | TopicAliasMaximum n | MaximumPacketSize n => SN n false
  | RequestResponseInfo b => SN b false
  | ContentType x | ResponseTopic x | CorrelationData x | AssignedClientId x | AuthMethod x | AuthData x
  | ResponseInfo x | ServerReference x | ReasonString x => SB x
  | SubscriptionId n => match s with SL l => SL (l ++ [n]) | _ => s end
  | UserProperty k v => match s with SU l => SU (l ++ [(k, v)]) | _ => s end
  end.

Lemma slot_own c p : slot (prop_id c) (store c p) = sstore c (slot (prop_id c) p).
Proof. destruct c; destruct p; reflexivity. Qed.

Lemma slot_other c k p : In k all_ids -> prop_id c <> k -> slot k (store c p) = slot k p.
Proof.
  intros Hin Hne. destruct p. unfold all_ids in Hin.
  repeat (destruct Hin as [<-|Hin]; [destruct c; try reflexivity; exfalso; apply Hne; reflexivity|]).
  destruct Hin.
Qed.

Lemma store_all_cons_eq c cs p : store_all (c :: cs) p = store_all cs (store c p).
Proof. reflexivity. Qed.

Definition has_id (k : N) (c : sprop) : bool := prop_id c =? k.

Lemma slot_store_all k : In k all_ids -> forall ps p,
  slot k (store_all ps p) = fold_left (fun s c => sstore c s) (filter (has_id k) ps) (slot k p).
Proof.
  intros Hin ps. induction ps as [|c ps IH]; intro p; [reflexivity|].
  rewrite store_all_cons_eq. cbn [filter]. unfold has_id at 1.
  destruct (prop_id c =? k) eqn:E.
  - apply N.eqb_eq in E. subst k. cbn [fold_left]. rewrite IH, slot_own. reflexivity.
  - rewrite IH, slot_other; [reflexivity | exact Hin | lia].
Qed.

(* ---------- filtering by identifier is invariant under the permitted reorderings ---------- *)

Lemma perm_filter {A} (f : A -> bool) l l' : Permutation l l' -> Permutation (filter f l) (filter f l').
Proof.
  induction 1 as [|a l l' H IH|a b l|l l' l'' H1 IH1 H2 IH2].
  - constructor.
  - cbn [filter]. destruct (f a); [constructor|]; exact IH.
  - cbn [filter]. destruct (f a); destruct (f b); try apply Permutation_refl. apply perm_swap.
  - eapply Permutation_trans; eassumption.
Qed.

Lemma filter_sub {A} (f g : A -> bool) l : (forall c, f c = true -> g c = true) ->
  filter f (filter g l) = filter f l.
Proof.
  intro H. induction l as [|a l IH]; [reflexivity|]. cbn [filter].
  destruct (g a) eqn:G; cbn [filter]; destruct (f a) eqn:F; try rewrite IH; try reflexivity.
  rewrite (H a F) in G. discriminate.
Qed.

Lemma repeatable_ids x c : repeatable x c = true -> prop_id c = 11 \/ prop_id c = 38.
Proof. destruct c; destruct x; cbn; intro H; try discriminate; tauto. Qed.

Lemma no_dup_single x : forall ps seen k, k <> 11 -> k <> 38 -> no_dup_ids x seen ps = true ->
  (existsb (N.eqb k) seen = true -> filter (has_id k) ps = []) /\ (length (filter (has_id k) ps) <= 1)%nat.
Proof.
  induction ps as [|c r IH]; intros seen k K1 K2 H; [split; [reflexivity | cbn; lia]|].
  cbn [no_dup_ids] in H. cbn [filter]. change (has_id k c) with (prop_id c =? k).
  destruct (repeatable x c) eqn:R.
  - apply repeatable_ids in R. replace (prop_id c =? k) with false by lia. apply IH; assumption.
  - apply andb_prop in H. destruct H as [H1 H2].
    destruct (prop_id c =? k) eqn:E.
    + apply N.eqb_eq in E. subst k.
      destruct (IH (prop_id c :: seen) (prop_id c) K1 K2 H2) as [I1 I2].
      assert (F : filter (has_id (prop_id c)) r = []).
      { apply I1. cbn [existsb]. rewrite N.eqb_refl. reflexivity. }
      rewrite F. split; [|cbn; lia].
      intro Hs. rewrite Hs in H1. discriminate.
    + destruct (IH (prop_id c :: seen) k K1 K2 H2) as [I1 I2]. split; [|exact I2].
      intro Hs. apply I1. cbn [existsb]. rewrite Hs. apply orb_true_r.
Qed.

Lemma perm_short_eq {A} (l l' : list A) : Permutation l l' -> (length l <= 1)%nat -> l = l'.
Proof.
  intros P L. destruct l as [|a [|b t]]; [ | | cbn in L; lia].
  - apply Permutation_nil in P. symmetry. exact P.
  - apply Permutation_length_1_inv in P. symmetry. exact P.
Qed.

Lemma filter_reorder x ps ps' k : no_dup_ids x [] ps = true -> reorder ps ps' ->
  filter (has_id k) ps = filter (has_id k) ps'.
Proof.
  intros Hn [P F].
  destruct (N.eq_dec k 11) as [->|K1]; [|destruct (N.eq_dec k 38) as [->|K2]].
  - rewrite <- (filter_sub (has_id 11) can_repeat ps), <- (filter_sub (has_id 11) can_repeat ps').
    + rewrite F. reflexivity.
    + intro c. destruct c; cbn; intro; try discriminate; reflexivity.
    + intro c. destruct c; cbn; intro; try discriminate; reflexivity.
  - rewrite <- (filter_sub (has_id 38) can_repeat ps), <- (filter_sub (has_id 38) can_repeat ps').
    + rewrite F. reflexivity.
    + intro c. destruct c; cbn; intro; try discriminate; reflexivity.
    + intro c. destruct c; cbn; intro; try discriminate; reflexivity.
  - apply perm_short_eq; [apply perm_filter; exact P|].
    apply (no_dup_single x ps [] k K1 K2 Hn).
Qed.

(* the order of properties does not matter *)
Theorem props_of_reorder x ps ps' : no_dup_ids x [] ps = true -> reorder ps ps' ->
  props_of ps' = props_of ps.
Proof.
  intros Hn R. apply slot_ext. intros k Hin. unfold props_of.
  rewrite !(slot_store_all k Hin). rewrite (filter_reorder x ps ps' k Hn R). reflexivity.
Qed.
