(* WIP *)
(* C26: the mochi encoder model writes one of the reference forms of the packet [abs pk]; hence the
   decoder model returns [norm pk] for it (CodecEnc.form_decodes). *)
From MV Require Import Base.Val Base.Bytes Codec.Vbi Codec.VbiProofs Codec.Wire Codec.Props Codec.MochiCodec
  Codec.SpecCodec Codec.SpecBridge Codec.CodecTotal Codec.CodecRT Codec.CodecEnc Codec.CodecNorm.
From Coq Require Import Lia ZifyBool ZifyN ZifyNat.
Ltac Zify.zify_post_hook ::= Z.div_mod_to_equations.
Open Scope N_scope.
Set Warnings "-unused-intro-pattern".

Arguments N.mul : simpl never.
Arguments N.add : simpl never.
Arguments N.sub : simpl never.
Arguments N.div : simpl never.
Arguments N.modulo : simpl never.
Arguments N.shiftl : simpl never.
Arguments N.shiftr : simpl never.
Arguments N.lor : simpl never.
Arguments N.land : simpl never.
Arguments N.ltb : simpl never.
Arguments N.leb : simpl never.
Arguments N.eqb : simpl never.
Arguments N.of_nat : simpl never.
Arguments N.to_nat : simpl never.
Arguments N.pow : simpl never.

Ltac split_and :=
  repeat match goal with
  | H : _ && _ = true |- _ => apply andb_prop in H; destruct H
  end.

(* ---------- the field encoders of codec.go write the reference encodings ---------- *)

Lemma encodeUint16_put v : v < 65536 -> encodeUint16 v = put_u16 v.
Proof. intro H. unfold encodeUint16, put_u16. f_equal. lia. Qed.

Lemma encodeUint32_put v : v <= 4294967295 -> encodeUint32 v = put_u32 v.
Proof. intro H. unfold encodeUint32, put_u32. f_equal. lia. Qed.

Lemma encodeBytes_put d : bin_fits d = true -> encodeBytes d = put_bin d.
Proof.
  unfold bin_fits. intro H. unfold encodeBytes, put_bin. change (len d) with (blen d).
  rewrite N.mod_small by lia. rewrite encodeUint16_put by lia. reflexivity.
Qed.

Lemma encodeString_put s : str_fits s = true -> encodeString s = put_str s.
Proof.
  unfold str_fits. intro H. apply andb_prop in H. destruct H as [H _].
  apply encodeBytes_put. exact H.
Qed.

(* ---------- Properties.Encode writes the reference encoding of [entries] ---------- *)

Lemma ppb_app a b : put_props_body (a ++ b) = put_props_body a ++ put_props_body b.
Proof. unfold put_props_body. rewrite map_app, concat_app. reflexivity. Qed.

Lemma ppb_optl c x : put_props_body (optl c x) = when c (put_prop x).
Proof. destruct c; [apply app_nil_r | reflexivity]. Qed.

Lemma enc_sub_ids_put l : forallb (fun v => v <=? 268435455) l = true ->
  enc_sub_ids l = Ok (put_props_body (map SubscriptionId (filter (fun v => 0 <? v) l))).
Proof.
  induction l as [|v r IH]; intro H; [reflexivity|].
  cbn [forallb] in H. apply andb_prop in H. destruct H as [Hv Hr].
  cbn [enc_sub_ids filter]. rewrite (IH Hr). cbn beta iota delta [bind].
  destruct (0 <? v); [|reflexivity].
  rewrite encodeLength_put by lia. reflexivity.
Qed.

Lemma enc_user_put l : forallb (fun kv => str_fits (fst kv) && str_fits (snd kv)) l = true ->
  enc_user l = put_props_body (map (fun kv => UserProperty (fst kv) (snd kv)) l).
Proof.
  induction l as [|[k v] r IH]; intro H; [reflexivity|].
  cbn [forallb fst snd] in H. split_and.
  cbn [enc_user map fst snd]. rewrite IH by assumption.
  rewrite !encodeString_put by assumption.
  change (put_props_body (UserProperty k v :: ?x)) with (put_prop (UserProperty k v) ++ put_props_body x).
  cbn [put_prop prop_id app]. rewrite <- app_assoc. reflexivity.
Qed.

Lemma props_body_entries pkt m p n : wf_props p = true ->
  props_body pkt m p n = Ok (put_props_body (entries pkt m p n)).
Proof.
  intro W. unfold wf_props in W. split_and.
  unfold props_body, entries. cbv zeta.
  assert (S : (if valid_prop 11 pkt && negb match p_sub_ids p with [] => true | _ => false end
               then enc_sub_ids (p_sub_ids p) else Ok [])
              = Ok (put_props_body (if valid_prop 11 pkt
                                    then map SubscriptionId (filter (fun v => 0 <? v) (p_sub_ids p)) else []))).
  { destruct (valid_prop 11 pkt); [|reflexivity]. cbn [andb].
    destruct (p_sub_ids p) eqn:E; [reflexivity|]. cbn [negb]. rewrite <- E in *.
    apply enc_sub_ids_put. assumption. }
  rewrite S. cbn beta iota delta [bind]. f_equal.
  rewrite !ppb_app, !ppb_optl.
  rewrite (enc_user_put (p_user p)) by assumption.
  repeat match goal with Hs : str_fits ?s = true |- context [encodeString ?s] => rewrite (encodeString_put s Hs) end.
  repeat match goal with Hs : bin_fits ?s = true |- context [encodeBytes ?s] => rewrite (encodeBytes_put s Hs) end.
  repeat match goal with |- context [encodeUint32 ?x] => rewrite (encodeUint32_put x) by lia end.
  repeat match goal with |- context [encodeUint16 ?x] => rewrite (encodeUint16_put x) by lia end.
  repeat f_equal.
  destruct ((negb (m_disallow_problem_info m) || (pkt =? PUBLISH)) && valid_prop 38 pkt &&
            ((m_max_size m =? 0) || (uint32 (n + blen (put_props_body (map (fun kv => UserProperty (fst kv) (snd kv)) (p_user p))) + 1) <? m_max_size m)));
    reflexivity.
Qed.

Lemma props_encode_entries pkt m p n : wf_props p = true ->
  len (put_props_body (entries pkt m p n)) <= 268435455 ->
  props_encode pkt m p n = Ok (put_props (entries pkt m p n)).
Proof.
  intros W L. unfold props_encode. rewrite (props_body_entries pkt m p n W).
  cbn beta iota delta [bind]. change (blen ?x) with (len x).
  rewrite encodeLength_put by exact L. reflexivity.
Qed.

Lemma plist_v_len v pkt ps : plist_v v pkt ps = true -> len (put_props_body ps) <= 268435455.
Proof.
  unfold plist_v. destruct (v =? 5); intro H.
  - apply plist_fits_parts in H. tauto.
  - apply no_props_nil in H. subst ps. change (0 <= 268435455). lia.
Qed.

(* pk.FixedHeader.Remaining = len(body); pk.FixedHeader.Encode(buf); buf.Write(body) *)
Lemma finish_frame pk body hb : blen body <= 268435455 -> fh_byte (pk_fh pk) = hb ->
  finish pk body = Ok (hb :: put_vbi (len body) ++ body).
Proof.
  intros L H. unfold finish, fh_encode. destruct (pk_fh pk) as [rem ty q d r] eqn:E.
  cbn [set_fh_remaining fh_remaining fh_type fh_qos fh_dup fh_retain].
  rewrite encodeLength_put by exact L. cbn beta iota delta [bind].
  unfold fh_byte in *. cbn [set_fh_remaining fh_remaining fh_type fh_qos fh_dup fh_retain] in *. rewrite H. reflexivity.
Qed.

Definition encodes_as_form (pk : packet) (bs : bytes) : Prop :=
  exists body, bs = frame (abs pk) body /\ In body (bodies (pk_version pk) (abs pk)) /\
               len body <= 268435455.
