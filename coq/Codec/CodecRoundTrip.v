(* C26: the mochi encoder model writes one of the reference forms of the packet [abs pk]; hence the
   decoder model returns [norm pk] for it (CodecEnc.form_decodes). *)
From MV Require Import Base.Val Base.Bytes Codec.Vbi Codec.VbiProofs Codec.Wire Codec.Props Codec.MochiCodec
  Codec.SpecCodec Codec.SpecBridge Codec.CodecTotal Codec.CodecRT Codec.CodecEnc Codec.CodecNorm.
From Coq Require Import Lia ZifyBool ZifyN ZifyNat.
Ltac Zify.zify_post_hook ::= Z.div_mod_to_equations.
Open Scope N_scope.
Set Warnings "-unused-intro-pattern".

Arguments N.mul : simpl never.
Arguments N.add : simpl never.
Arguments N.sub : simpl never.
Arguments N.div : simpl never.
Arguments N.modulo : simpl never.
Arguments N.shiftl : simpl never.
Arguments N.shiftr : simpl never.
Arguments N.lor : simpl never.
Arguments N.land : simpl never.
Arguments N.ltb : simpl never.
Arguments N.leb : simpl never.
Arguments N.eqb : simpl never.
Arguments N.of_nat : simpl never.
Arguments N.to_nat : simpl never.
Arguments N.pow : simpl never.

Ltac split_and :=
  repeat match goal with
  | H : _ && _ = true |- _ => apply andb_prop in H; destruct H
  end.

(* ---------- the field encoders of codec.go write the reference encodings ---------- *)

Lemma encodeUint16_put v : v < 65536 -> encodeUint16 v = put_u16 v.
Proof. intro H. unfold encodeUint16, put_u16. f_equal. lia. Qed.

Lemma encodeUint32_put v : v <= 4294967295 -> encodeUint32 v = put_u32 v.
Proof. intro H. unfold encodeUint32, put_u32. f_equal. lia. Qed.

Lemma encodeBytes_put d : bin_fits d = true -> encodeBytes d = put_bin d.
Proof.
  unfold bin_fits. intro H. unfold encodeBytes, put_bin. change (len d) with (blen d).
  rewrite N.mod_small by lia. rewrite encodeUint16_put by lia. reflexivity.
Qed.

Lemma encodeString_put s : str_fits s = true -> encodeString s = put_str s.
Proof.
  unfold str_fits. intro H. apply andb_prop in H. destruct H as [H _].
  apply encodeBytes_put. exact H.
Qed.

(* ---------- Properties.Encode writes the reference encoding of [entries] ---------- *)

Lemma ppb_app a b : put_props_body (a ++ b) = put_props_body a ++ put_props_body b.
Proof. unfold put_props_body. rewrite map_app, concat_app. reflexivity. Qed.

Lemma ppb_optl c x : put_props_body (optl c x) = when c (put_prop x).
Proof. destruct c; [apply app_nil_r | reflexivity]. Qed.

Lemma enc_sub_ids_put l : forallb (fun v => v <=? 268435455) l = true ->
  enc_sub_ids l = Ok (put_props_body (map SubscriptionId (filter (fun v => 0 <? v) l))).
Proof.
  induction l as [|v r IH]; intro H; [reflexivity|].
  cbn [forallb] in H. apply andb_prop in H. destruct H as [Hv Hr].
  cbn [enc_sub_ids filter]. rewrite (IH Hr). cbn beta iota delta [bind].
  destruct (0 <? v); [|reflexivity].
  rewrite encodeLength_put by lia. reflexivity.
Qed.

Lemma enc_user_put l : forallb (fun kv => str_fits (fst kv) && str_fits (snd kv)) l = true ->
  enc_user l = put_props_body (map (fun kv => UserProperty (fst kv) (snd kv)) l).
Proof.
  induction l as [|[k v] r IH]; intro H; [reflexivity|].
  cbn [forallb fst snd] in H. split_and.
  cbn [enc_user map fst snd]. rewrite IH by assumption.
  rewrite !encodeString_put by assumption.
  change (put_props_body (UserProperty k v :: ?x)) with (put_prop (UserProperty k v) ++ put_props_body x).
  cbn [put_prop prop_id app]. rewrite <- app_assoc. reflexivity.
Qed.

Lemma props_body_entries pkt m p n : wf_props p = true ->
  props_body pkt m p n = Ok (put_props_body (entries pkt m p n)).
Proof.
  intro W. unfold wf_props in W. split_and.
  unfold props_body, entries. cbv zeta.
  assert (S : (if valid_prop 11 pkt && negb match p_sub_ids p with [] => true | _ => false end
               then enc_sub_ids (p_sub_ids p) else Ok [])
              = Ok (put_props_body (if valid_prop 11 pkt
                                    then map SubscriptionId (filter (fun v => 0 <? v) (p_sub_ids p)) else []))).
  { destruct (valid_prop 11 pkt); [|reflexivity]. cbn [andb].
    destruct (p_sub_ids p) eqn:E; [reflexivity|]. cbn [negb]. rewrite <- E in *.
    apply enc_sub_ids_put. assumption. }
  rewrite S. cbn beta iota delta [bind]. f_equal.
  rewrite !ppb_app, !ppb_optl.
  rewrite (enc_user_put (p_user p)) by assumption.
  repeat match goal with Hs : str_fits ?s = true |- context [encodeString ?s] => rewrite (encodeString_put s Hs) end.
  repeat match goal with Hs : bin_fits ?s = true |- context [encodeBytes ?s] => rewrite (encodeBytes_put s Hs) end.
  repeat match goal with |- context [encodeUint32 ?x] => rewrite (encodeUint32_put x) by lia end.
  repeat match goal with |- context [encodeUint16 ?x] => rewrite (encodeUint16_put x) by lia end.
  repeat f_equal.
  destruct ((negb (m_disallow_problem_info m) || (pkt =? PUBLISH)) && valid_prop 38 pkt &&
            ((m_max_size m =? 0) || (uint32 (n + blen (put_props_body (map (fun kv => UserProperty (fst kv) (snd kv)) (p_user p))) + 1) <? m_max_size m)));
    reflexivity.
Qed.

Lemma props_encode_entries pkt m p n : wf_props p = true ->
  len (put_props_body (entries pkt m p n)) <= 268435455 ->
  props_encode pkt m p n = Ok (put_props (entries pkt m p n)).
Proof.
  intros W L. unfold props_encode. rewrite (props_body_entries pkt m p n W).
  cbn beta iota delta [bind]. change (blen ?x) with (len x).
  rewrite encodeLength_put by exact L. reflexivity.
Qed.

Lemma plist_v_len v pkt ps : plist_v v pkt ps = true -> len (put_props_body ps) <= 268435455.
Proof.
  unfold plist_v. destruct (v =? 5); intro H.
  - apply plist_fits_parts in H. tauto.
  - apply no_props_nil in H. subst ps. change (0 <= 268435455). lia.
Qed.

(* pk.FixedHeader.Remaining = len(body); pk.FixedHeader.Encode(buf); buf.Write(body) *)
Lemma finish_frame pk body hb : blen body <= 268435455 -> fh_byte (pk_fh pk) = hb ->
  finish pk body = Ok (hb :: put_vbi (len body) ++ body).
Proof.
  intros L H. unfold finish, fh_encode. destruct (pk_fh pk) as [rem ty q d r] eqn:E.
  cbn [set_fh_remaining fh_remaining fh_type fh_qos fh_dup fh_retain].
  rewrite encodeLength_put by exact L. cbn beta iota delta [bind].
  unfold fh_byte in *. cbn [set_fh_remaining fh_remaining fh_type fh_qos fh_dup fh_retain] in *. rewrite H. reflexivity.
Qed.

Definition encodes_as_form (pk : packet) (bs : bytes) : Prop :=
  exists body, bs = frame (abs pk) body /\ In body (bodies (pk_version pk) (abs pk)) /\
               len body <= 268435455.

(* the encoder succeeds and writes a reference form *)
Definition encode_ok (pk : packet) : Prop :=
  exists body, mochi_encode pk = Ok (frame (abs pk) body) /\ In body (bodies (pk_version pk) (abs pk)) /\
               len body <= 268435455.

(* ---------- per type: the encoder writes a reference form of [abs pk] ---------- *)

Lemma publish_byte dup qos retain : qos <= 2 ->
  byte (N.lor (N.lor (N.lor (N.shiftl 3 4) (N.shiftl (encodeBool dup) 3)) (N.shiftl qos 1)) (encodeBool retain))
  = 3 * 16 + (bool_bit dup 3 + 2 * qos + bool_bit retain 0).
Proof.
  intro H. assert (Q : qos = 0 \/ qos = 1 \/ qos = 2) by lia.
  destruct Q as [->|[->| ->]]; destruct dup; destruct retain; vm_compute; reflexivity.
Qed.

Ltac wf_open W Ety :=
  unfold wf_packet in W; rewrite Ety in W; cbv zeta in W; split_and.

Lemma fh_byte_eq fh : fh_byte fh =
  byte (N.lor (N.lor (N.lor (N.shiftl (fh_type fh) 4) (N.shiftl (encodeBool (fh_dup fh)) 3))
                     (N.shiftl (fh_qos fh) 1)) (encodeBool (fh_retain fh))).
Proof. reflexivity. Qed.

Lemma publish_encode_ok pk : wf_packet pk = true -> fh_type (pk_fh pk) = 3 -> KF_C26_pid0 pk = false ->
  encode_ok pk.
Proof.
  intros W Ety K. unfold encode_ok, mochi_encode. rewrite Ety. unfold publish_encode.
  wf_open W Ety.
  assert (Ea : abs pk = SPublish (fh_dup (pk_fh pk)) (fh_qos (pk_fh pk)) (fh_retain (pk_fh pk)) (pk_topic pk)
                 (if 0 <? fh_qos (pk_fh pk) then pk_packet_id pk else 0)
                 (if pk_version pk =? 5
                  then entries 3 (pk_mods pk) (pk_props pk)
                         (blen (encodeString (pk_topic pk)) + (if 0 <? fh_qos (pk_fh pk) then 2 else 0) + blen (pk_payload pk))
                  else []) (pk_payload pk))
    by (unfold abs; rewrite Ety; reflexivity).
  rewrite Ea in *. clear Ea.
  match goal with Hok : enc_ok _ _ = true |- _ => cbn [enc_ok] in Hok end. split_and.
  match goal with |- context [frame ?x _] => set (sp := x) in * end.
  exists (full_body (pk_version pk) sp).
  assert (Hl : len (full_body (pk_version pk) sp) <= 268435455) by lia.
  split; [|split; [unfold bodies; destruct (negb (v5 (pk_version pk))); left; reflexivity | exact Hl]].
  assert (Hb : fh_byte (pk_fh pk) = ptype sp * 16 + pflags sp).
  { rewrite fh_byte_eq, Ety. unfold sp. cbn [ptype pflags]. apply publish_byte. lia. }
  match goal with Hp : plist_v _ PUBLISH _ = true |- _ => pose proof (plist_v_len _ _ _ Hp) as Lp end.
  unfold sp in Hl |- *. cbn [full_body] in Hl |- *. unfold put_props_v, v5 in Hl |- *.
  match goal with Hs : str_fits (pk_topic pk) = true |- _ => rewrite (encodeString_put _ Hs) in * end.
  destruct (0 <? fh_qos (pk_fh pk)) eqn:Eq.
  - destruct (pk_packet_id pk =? 0) eqn:Ep; [exfalso; unfold KF_C26_pid0 in K; rewrite Ep, Ety in K; try rewrite Eq in K; discriminate K|]. cbn beta iota delta [bind] .
    replace (fh_qos (pk_fh pk) =? 0) with false in * by lia.
    rewrite encodeUint16_put by lia.
    destruct (pk_version pk =? 5) eqn:E5.
    + unfold enc_props . rewrite Ety . rewrite blen_app . change (blen (put_u16 _)) with 2 .
      rewrite props_encode_entries by assumption. cbn beta iota delta [bind] .
      rewrite <- !app_assoc .
      rewrite (finish_frame pk _ _ Hl Hb) . reflexivity.
    + cbn beta iota delta [bind] . rewrite <- !app_assoc .
      rewrite (finish_frame pk _ _ Hl Hb) . reflexivity.
  - cbn beta iota delta [bind] .
    replace (fh_qos (pk_fh pk) =? 0) with true in * by lia.
    destruct (pk_version pk =? 5) eqn:E5.
    + unfold enc_props . rewrite Ety . rewrite N.add_0_r in *.
      rewrite props_encode_entries by assumption. cbn beta iota delta [bind] .
      rewrite <- ?app_assoc . cbn [app] in Hl |- *.
      rewrite (finish_frame pk _ _ Hl Hb) . reflexivity.
    + cbn beta iota delta [bind] . rewrite <- ?app_assoc . cbn [app] in Hl |- *.
      rewrite (finish_frame pk _ _ Hl Hb) . reflexivity.
Qed.

Ltac bindE E := cbn beta iota delta [bind] in E.
Ltac setsp := match goal with |- context [frame ?x _] => set (sp := x) in * end.
Ltac full_form sp :=
  split; [|split; [unfold bodies; destruct (negb (v5 _)); try (left; reflexivity); unfold sp; left; reflexivity | assumption]].

Lemma simple_byte ty q : ty <= 15 -> q <= 1 ->
  byte (N.lor (N.lor (N.lor (N.shiftl ty 4) (N.shiftl (encodeBool false) 3)) (N.shiftl q 1)) (encodeBool false))
  = ty * 16 + 2 * q.
Proof.
  intros H1 H2. assert (Q : q = 0 \/ q = 1) by lia.
  assert (T : ty = 0 \/ ty = 1 \/ ty = 2 \/ ty = 3 \/ ty = 4 \/ ty = 5 \/ ty = 6 \/ ty = 7 \/ ty = 8 \/ ty = 9 \/
              ty = 10 \/ ty = 11 \/ ty = 12 \/ ty = 13 \/ ty = 14 \/ ty = 15) by lia.
  destruct Q as [->| ->]; repeat (destruct T as [->|T]; [vm_compute; reflexivity|]); subst; vm_compute; reflexivity.
Qed.

(* header byte of every type but PUBLISH, from the flag conditions of wf_packet *)
Lemma plain_header pk ty q : fh_type (pk_fh pk) = ty -> ty <= 15 -> q <= 1 ->
  negb (fh_dup (pk_fh pk)) && negb (fh_retain (pk_fh pk)) && (fh_qos (pk_fh pk) =? q) = true ->
  fh_byte (pk_fh pk) = ty * 16 + 2 * q.
Proof.
  intros Ety Hty Hq H. split_and. rewrite fh_byte_eq, Ety.
  destruct (fh_dup (pk_fh pk)); [discriminate|]. destruct (fh_retain (pk_fh pk)); [discriminate|].
  replace (fh_qos (pk_fh pk)) with q by lia. apply simple_byte; assumption.
Qed.

Lemma connack_encode_ok pk : wf_packet pk = true -> fh_type (pk_fh pk) = 2 -> KF_C26_pid0 pk = false ->
  encode_ok pk.
Proof.
  intros W Ety K. unfold encode_ok, mochi_encode. rewrite Ety. unfold connack_encode.
  wf_open W Ety.
  assert (Ea : abs pk = SConnack (pk_session_present pk) (pk_reason_code pk)
                 (if pk_version pk =? 5 then entries 2 (pk_mods pk) (pk_props pk) 4 else []))
    by (unfold abs; rewrite Ety; reflexivity).
  rewrite Ea in *. clear Ea.
  match goal with Hok : enc_ok _ _ = true |- _ => cbn [enc_ok] in Hok end.
  setsp. exists (full_body (pk_version pk) sp).
  assert (Hl : len (full_body (pk_version pk) sp) <= 268435455) by lia.
  full_form sp.
  assert (Hb : fh_byte (pk_fh pk) = ptype sp * 16 + pflags sp).
  { unfold sp. cbn [ptype pflags]. rewrite (plain_header pk 2 0 Ety); try lia. assumption. }
  match goal with Hp : plist_v _ CONNACK _ = true |- _ => pose proof (plist_v_len _ _ _ Hp) as Lp end.
  unfold sp in Hl |- *. cbn [full_body] in Hl |- *. unfold put_props_v, v5 in Hl |- *.
  change (blen [encodeBool (pk_session_present pk); pk_reason_code pk] + 2) with 4 . unfold encodeBool .
  destruct (pk_version pk =? 5) eqn:E5.
  - unfold enc_props . rewrite Ety .
    rewrite props_encode_entries by assumption. cbn beta iota delta [bind].
    rewrite (finish_frame pk _ _ Hl Hb) . reflexivity.
  - cbn beta iota delta [bind]. rewrite (finish_frame pk _ _ Hl Hb) . reflexivity.
Qed.

Lemma put_props_nil_len : blen (put_props []) = 1.
Proof. reflexivity. Qed.

Lemma put_props_cons_len c cs : 2 <= blen (put_props (c :: cs)).
Proof.
  unfold put_props. rewrite blen_app.
  assert (1 <= blen (put_props_body (c :: cs))).
  { rewrite put_props_body_cons, blen_app. pose proof (put_prop_nonempty c). unfold blen. lia. }
  assert (1 <= blen (put_vbi (len (put_props_body (c :: cs))))).
  { unfold put_vbi. repeat match goal with |- context [if ?c then _ else _] => destruct c end;
      unfold blen; cbn [length]; lia. }
  lia.
Qed.

Lemma ack_encode_ok pk ty : wf_packet pk = true -> fh_type (pk_fh pk) = ty ->
  ty = 4 \/ ty = 5 \/ ty = 6 \/ ty = 7 -> encode_ok pk.
Proof.
  intros W Ety Hty. unfold encode_ok.
  assert (Em : mochi_encode pk = ack_encode pk).
  { unfold mochi_encode. rewrite Ety. destruct Hty as [->|[->|[->| ->]]]; reflexivity. }
  rewrite Em. clear Em. unfold ack_encode.
  assert (Ea : abs pk = SAck (ack_kind_of ty) (pk_packet_id pk) (if pk_version pk =? 5 then pk_reason_code pk else 0)
                 (if pk_version pk =? 5 then entries ty (pk_mods pk) (pk_props pk) 2 else [])).
  { unfold abs. rewrite Ety. destruct Hty as [->|[->|[->| ->]]]; reflexivity. }
  assert (Hflags : negb (fh_dup (pk_fh pk)) && negb (fh_retain (pk_fh pk))
                   && (fh_qos (pk_fh pk) =? (if ty =? 6 then 1 else 0)) = true).
  { unfold wf_packet in W. rewrite Ety in W. cbv zeta in W. split_and.
    destruct Hty as [->|[->|[->| ->]]]; assumption. }
  assert (Hb : fh_byte (pk_fh pk) = ptype (abs pk) * 16 + pflags (abs pk)).
  { rewrite Ea. cbn [ptype pflags].
    destruct Hty as [->|[->|[->| ->]]]; cbn [ack_kind_of ack_type];
      [rewrite (plain_header pk 4 0 Ety) | rewrite (plain_header pk 5 0 Ety)
      | rewrite (plain_header pk 6 1 Ety) | rewrite (plain_header pk 7 0 Ety)]; try lia; try exact Hflags; reflexivity. }
  unfold wf_packet in W. rewrite Ety in W. cbv zeta in W. split_and.
  rewrite Ea in *. clear Ea.
  match goal with Hok : enc_ok _ _ = true |- _ => cbn [enc_ok] in Hok end. split_and.
  rewrite encodeUint16_put by lia.
  assert (Eat : ack_type (ack_kind_of ty) = ty) by (destruct Hty as [->|[->|[->| ->]]]; reflexivity).
  rewrite Eat in *.
  unfold bodies, v5. cbn [full_body]. unfold v5.
  match goal with Hf : (len (full_body _ _) <=? _) = true |- _ => cbn [full_body] in Hf; unfold v5 in Hf end.
  destruct (pk_version pk =? 5) eqn:E5; cbn [negb].
  - match goal with Hp : plist_v _ _ _ = true |- _ => pose proof (plist_v_len _ _ _ Hp) as Lp end.
    unfold enc_props. rewrite Ety.
    change (blen (put_u16 (pk_packet_id pk))) with 2.
    rewrite props_encode_entries by assumption. cbn beta iota delta [bind].
    destruct (entries ty (pk_mods pk) (pk_props pk) 2) as [|c cs] eqn:Een.
    + change (1 <? blen (put_props [])) with false. cbn [when orb]. rewrite app_nil_r.
      cbn [no_props andb].
      destruct (pk_reason_code pk =? 0) eqn:Er; cbn [negb orb when].
      * exists (put_u16 (pk_packet_id pk)). rewrite app_nil_r.
        rewrite (finish_frame pk (put_u16 (pk_packet_id pk)) _ ltac:(change (2 <= 268435455); lia) Hb).
        split; [reflexivity|]. split; [|change (2 <= 268435455); lia].
        right. right. left. reflexivity.
      * exists (put_u16 (pk_packet_id pk) ++ [pk_reason_code pk]).
        rewrite (finish_frame pk (put_u16 (pk_packet_id pk) ++ [pk_reason_code pk]) _ ltac:(change (3 <= 268435455); lia) Hb).
        split; [reflexivity|]. split; [|change (3 <= 268435455); lia].
        right. left. reflexivity.
    + pose proof (put_props_cons_len c cs) as L2.
      replace (1 <? blen (put_props (c :: cs))) with true by lia.
      rewrite orb_true_r. cbn [when].
      exists (put_u16 (pk_packet_id pk) ++ pk_reason_code pk :: put_props (c :: cs)).
      assert (Hl : len (put_u16 (pk_packet_id pk) ++ pk_reason_code pk :: put_props (c :: cs)) <= 268435455) by lia.
      change ([pk_reason_code pk] ++ put_props (c :: cs)) with (pk_reason_code pk :: put_props (c :: cs)).
      rewrite (finish_frame pk _ _ Hl Hb).
      split; [reflexivity|]. split; [left; reflexivity | exact Hl].
  - exists (put_u16 (pk_packet_id pk) ++ []).
    rewrite (finish_frame pk (put_u16 (pk_packet_id pk)) _ ltac:(change (2 <= 268435455); lia) Hb).
    split; [rewrite app_nil_r; reflexivity|]. split; [left; reflexivity | change (2 <= 268435455); lia].
Qed.

Ltac join_flags := repeat match goal with Hx : ?a = true |- context [?a] => rewrite Hx end; reflexivity.

Ltac norm_len :=
  match goal with Hf : (len (full_body _ _) <=? _) = true |- _ => cbn [full_body] in Hf; unfold put_props_v, v5 in Hf end.

Lemma suback_encode_ok pk : wf_packet pk = true -> fh_type (pk_fh pk) = 9 -> KF_C26_pid0 pk = false ->
  encode_ok pk.
Proof.
  intros W Ety K. unfold encode_ok, mochi_encode. rewrite Ety. unfold suback_encode.
  wf_open W Ety.
  assert (Ea : abs pk = SSuback (pk_packet_id pk)
                 (if pk_version pk =? 5 then entries 9 (pk_mods pk) (pk_props pk) (2 + blen (pk_reason_codes pk)) else [])
                 (pk_reason_codes pk))
    by (unfold abs; rewrite Ety; reflexivity).
  rewrite Ea in *. clear Ea.
  match goal with Hok : enc_ok _ _ = true |- _ => cbn [enc_ok] in Hok end.
  setsp. exists (full_body (pk_version pk) sp).
  assert (Hl : len (full_body (pk_version pk) sp) <= 268435455) by lia.
  full_form sp.
  assert (Hb : fh_byte (pk_fh pk) = ptype sp * 16 + pflags sp).
  { unfold sp. cbn [ptype pflags]. rewrite (plain_header pk 9 0 Ety); try lia. assumption. }
  match goal with Hp : plist_v _ SUBACK _ = true |- _ => pose proof (plist_v_len _ _ _ Hp) as Lp end.
  unfold sp in Hl |- *. cbn [full_body] in Hl |- *. unfold put_props_v, v5 in Hl |- *.
  rewrite encodeUint16_put by lia. change (blen (put_u16 (pk_packet_id pk))) with 2 .
  destruct (pk_version pk =? 5) eqn:E5.
  - unfold enc_props . rewrite Ety .
    rewrite props_encode_entries by assumption. cbn beta iota delta [bind].
    rewrite (finish_frame pk _ _ Hl Hb) . reflexivity.
  - cbn beta iota delta [bind]. rewrite (finish_frame pk _ _ Hl Hb) . reflexivity.
Qed.

Lemma unsuback_encode_ok pk : wf_packet pk = true -> fh_type (pk_fh pk) = 11 -> KF_C26_pid0 pk = false ->
  encode_ok pk.
Proof.
  intros W Ety K. unfold encode_ok, mochi_encode. rewrite Ety. unfold unsuback_encode.
  wf_open W Ety.
  assert (Ea : abs pk = SUnsuback (pk_packet_id pk)
                 (if pk_version pk =? 5 then entries 11 (pk_mods pk) (pk_props pk) 2 else [])
                 (if pk_version pk =? 5 then pk_reason_codes pk else []))
    by (unfold abs; rewrite Ety; reflexivity).
  rewrite Ea in *. clear Ea.
  match goal with Hok : enc_ok _ _ = true |- _ => cbn [enc_ok] in Hok end. split_and.
  setsp. exists (full_body (pk_version pk) sp).
  assert (Hl : len (full_body (pk_version pk) sp) <= 268435455) by lia.
  full_form sp.
  assert (Hb : fh_byte (pk_fh pk) = ptype sp * 16 + pflags sp).
  { unfold sp. cbn [ptype pflags]. rewrite (plain_header pk 11 0 Ety); try lia. assumption. }
  match goal with Hp : plist_v _ UNSUBACK _ = true |- _ => pose proof (plist_v_len _ _ _ Hp) as Lp end.
  unfold sp in Hl |- *. cbn [full_body] in Hl |- *. unfold put_props_v, v5 in Hl |- *.
  rewrite encodeUint16_put by lia. change (blen (put_u16 (pk_packet_id pk))) with 2 .
  destruct (pk_version pk =? 5) eqn:E5.
  - unfold enc_props . rewrite Ety .
    rewrite props_encode_entries by assumption. cbn beta iota delta [bind].
    rewrite (finish_frame pk _ _ Hl Hb) . reflexivity.
  - cbn [app] in Hl |- *. rewrite app_nil_r in Hl |- *.
    rewrite (finish_frame pk _ _ Hl Hb) . reflexivity.
Qed.

Lemma disconnect_encode_ok pk : wf_packet pk = true -> fh_type (pk_fh pk) = 14 -> KF_C26_pid0 pk = false ->
  encode_ok pk.
Proof.
  intros W Ety K. unfold encode_ok, mochi_encode. rewrite Ety. unfold disconnect_encode.
  wf_open W Ety.
  assert (Ea : abs pk = SDisconnect (if pk_version pk =? 5 then pk_reason_code pk else 0)
                 (if pk_version pk =? 5 then entries 14 (pk_mods pk) (pk_props pk) 1 else []))
    by (unfold abs; rewrite Ety; reflexivity).
  rewrite Ea in *. clear Ea.
  match goal with Hok : enc_ok _ _ = true |- _ => cbn [enc_ok] in Hok end. split_and.
  setsp. exists (full_body (pk_version pk) sp).
  assert (Hl : len (full_body (pk_version pk) sp) <= 268435455) by lia.
  split; [|split; [unfold bodies; destruct (negb (v5 _)); left; reflexivity | assumption]].
  assert (Hb : fh_byte (pk_fh pk) = ptype sp * 16 + pflags sp).
  { unfold sp. cbn [ptype pflags]. rewrite (plain_header pk 14 0 Ety); try lia. assumption. }
  match goal with Hp : plist_v _ DISCONNECT _ = true |- _ => pose proof (plist_v_len _ _ _ Hp) as Lp end.
  unfold sp in Hl |- *. cbn [full_body] in Hl |- *. unfold v5 in Hl |- *.
  destruct (pk_version pk =? 5) eqn:E5.
  - unfold enc_props . rewrite Ety .
    rewrite props_encode_entries by assumption. cbn beta iota delta [bind].
    rewrite (finish_frame pk _ _ Hl Hb) . reflexivity.
  - rewrite (finish_frame pk _ _ Hl Hb) . reflexivity.
Qed.

Lemma auth_encode_ok pk : wf_packet pk = true -> fh_type (pk_fh pk) = 15 -> KF_C26_pid0 pk = false ->
  encode_ok pk.
Proof.
  intros W Ety K. unfold encode_ok, mochi_encode. rewrite Ety. unfold auth_encode.
  wf_open W Ety.
  assert (Ea : abs pk = SAuth (pk_reason_code pk) (entries 15 (pk_mods pk) (pk_props pk) 1))
    by (unfold abs; rewrite Ety; reflexivity).
  rewrite Ea in *. clear Ea.
  match goal with Hok : enc_ok _ _ = true |- _ => cbn [enc_ok] in Hok end.
  setsp. exists (full_body (pk_version pk) sp).
  assert (Hl : len (full_body (pk_version pk) sp) <= 268435455) by lia.
  split; [|split; [unfold bodies; destruct (negb (v5 _)); left; reflexivity | assumption]].
  assert (Hb : fh_byte (pk_fh pk) = ptype sp * 16 + pflags sp).
  { unfold sp. cbn [ptype pflags]. rewrite (plain_header pk 15 0 Ety); try lia. assumption. }
  match goal with Hp : plist_fits AUTH _ = true |- _ => pose proof (plist_fits_parts _ _ Hp) as (_ & _ & Lp) end.
  unfold sp in Hl |- *. cbn [full_body] in Hl |- *.
  unfold enc_props . rewrite Ety .
  rewrite props_encode_entries by assumption. cbn beta iota delta [bind].
  rewrite (finish_frame pk _ _ Hl Hb) . reflexivity.
Qed.

Lemma ping_encode_ok pk ty : wf_packet pk = true -> fh_type (pk_fh pk) = ty -> ty = 12 \/ ty = 13 ->
  encode_ok pk.
Proof.
  intros W Ety Hty. unfold encode_ok.
  assert (Em : mochi_encode pk = ping_encode pk).
  { unfold mochi_encode. rewrite Ety. destruct Hty as [->| ->]; reflexivity. }
  rewrite Em. clear Em. unfold ping_encode, fh_encode.
  assert (Ea : abs pk = if ty =? 12 then SPingreq else SPingresp).
  { unfold abs. rewrite Ety. destruct Hty as [->| ->]; reflexivity. }
  unfold wf_packet in W. rewrite Ety in W. cbv zeta in W. split_and.
  assert (Hb : fh_byte (pk_fh pk) = ty * 16 + 2 * 0).
  { apply plain_header; try lia. destruct Hty as [->| ->]; assumption. }
  assert (Hb' : fh_byte (set_fh_remaining 0 (pk_fh pk)) = ty * 16 + 2 * 0)
    by (rewrite <- Hb; destruct (pk_fh pk); reflexivity).
  rewrite Hb'. replace (fh_remaining (set_fh_remaining 0 (pk_fh pk))) with 0 by (destruct (pk_fh pk); reflexivity).
  cbn beta iota delta [bind].
  exists []. rewrite Ea.
  destruct Hty as [->| ->]; (split; [reflexivity|split; [unfold bodies; destruct (negb (v5 _)); left; reflexivity | change (0 <= 268435455); lia]]).
Qed.

Lemma sub_encode_put s : s_qos s <= 2 -> s_retain_handling s < 4 ->
  sub_encode s = s_qos s + bool_bit (s_no_local s) 2 + bool_bit (s_rap s) 3 + 16 * s_retain_handling s.
Proof.
  destruct s as [f i rh q rap nl]. cbn [s_qos s_retain_handling s_no_local s_rap]. intros Hq Hr.
  unfold sub_encode. cbn [s_qos s_retain_handling s_no_local s_rap].
  assert (Q : q = 0 \/ q = 1 \/ q = 2) by lia.
  assert (R : rh = 0 \/ rh = 1 \/ rh = 2 \/ rh = 3) by lia.
  destruct Q as [->|[->| ->]]; destruct R as [->|[->|[->| ->]]]; destruct nl; destruct rap; vm_compute; reflexivity.
Qed.

Lemma enc_filters_put v l :
  forallb (fun s => (s_qos s <=? 2) && (s_retain_handling s <? 4)) l = true ->
  forallb (filter_fits v) (map (filter_of (v =? 5)) l) = true ->
  enc_filters (v =? 5) l = concat (map (put_filter v) (map (filter_of (v =? 5)) l)).
Proof.
  induction l as [|s r IH]; intros H1 H2; [reflexivity|].
  cbn [forallb map] in H1, H2. split_and.
  cbn [enc_filters map concat]. rewrite IH by assumption.
  unfold put_filter at 2. rewrite <- app_assoc. unfold filter_fits in *. split_and.
  destruct (v =? 5) eqn:E5; cbn [filter_of f_filter f_qos f_no_local f_retain_as_published f_retain_handling] in *.
  - rewrite encodeString_put by assumption. rewrite sub_encode_put by lia. reflexivity.
  - rewrite encodeString_put by assumption. cbn [bool_bit].
    replace (s_qos s + 0 + 0 + 16 * 0) with (s_qos s) by lia. reflexivity.
Qed.

Lemma enc_unsub_filters_put l : forallb str_fits (map s_filter l) = true ->
  enc_unsub_filters l = concat (map put_str (map s_filter l)).
Proof.
  induction l as [|s r IH]; intro H; [reflexivity|].
  cbn [forallb map] in H. split_and. cbn [enc_unsub_filters map concat].
  rewrite IH by assumption. rewrite encodeString_put by assumption. reflexivity.
Qed.

Lemma subscribe_encode_ok pk : wf_packet pk = true -> fh_type (pk_fh pk) = 8 -> KF_C26_pid0 pk = false ->
  encode_ok pk.
Proof.
  intros W Ety K. unfold encode_ok, mochi_encode. rewrite Ety. unfold subscribe_encode.
  wf_open W Ety.
  assert (Ea : abs pk = SSubscribe (pk_packet_id pk)
                 (if pk_version pk =? 5
                  then entries 8 (pk_mods pk) (pk_props pk) (2 + blen (enc_filters (pk_version pk =? 5) (pk_filters pk))) else [])
                 (map (filter_of (pk_version pk =? 5)) (pk_filters pk)))
    by (unfold abs; rewrite Ety; reflexivity).
  rewrite Ea in *. clear Ea.
  match goal with Hok : enc_ok _ _ = true |- _ => cbn [enc_ok] in Hok end. split_and.
  setsp. exists (full_body (pk_version pk) sp).
  assert (Hl : len (full_body (pk_version pk) sp) <= 268435455) by lia.
  full_form sp.
  assert (Hb : fh_byte (pk_fh pk) = ptype sp * 16 + pflags sp).
  { unfold sp. cbn [ptype pflags]. rewrite (plain_header pk 8 1 Ety); try lia. assumption. }
  match goal with Hp : plist_v _ SUBSCRIBE _ = true |- _ => pose proof (plist_v_len _ _ _ Hp) as Lp end.
  unfold sp in Hl |- *. cbn [full_body] in Hl |- *. unfold put_props_v, v5 in Hl |- *.
  destruct (pk_packet_id pk =? 0) eqn:Ep; [exfalso; unfold KF_C26_pid0 in K; rewrite Ep, Ety in K; try rewrite Eq in K; discriminate K|].
  rewrite encodeUint16_put by lia. change (blen (put_u16 (pk_packet_id pk))) with 2 .
  rewrite <- (enc_filters_put (pk_version pk) (pk_filters pk)) in Hl |- * by assumption.
  destruct (pk_version pk =? 5) eqn:E5.
  - unfold enc_props . rewrite Ety .
    rewrite props_encode_entries by assumption. cbn beta iota delta [bind].
    rewrite (finish_frame pk _ _ Hl Hb) . reflexivity.
  - cbn beta iota delta [bind]. rewrite (finish_frame pk _ _ Hl Hb) . reflexivity.
Qed.

Lemma unsubscribe_encode_ok pk : wf_packet pk = true -> fh_type (pk_fh pk) = 10 -> KF_C26_pid0 pk = false ->
  encode_ok pk.
Proof.
  intros W Ety K. unfold encode_ok, mochi_encode. rewrite Ety. unfold unsubscribe_encode.
  wf_open W Ety.
  assert (Ea : abs pk = SUnsubscribe (pk_packet_id pk)
                 (if pk_version pk =? 5
                  then entries 10 (pk_mods pk) (pk_props pk) (2 + blen (enc_unsub_filters (pk_filters pk))) else [])
                 (map s_filter (pk_filters pk)))
    by (unfold abs; rewrite Ety; reflexivity).
  rewrite Ea in *. clear Ea.
  match goal with Hok : enc_ok _ _ = true |- _ => cbn [enc_ok] in Hok end. split_and.
  setsp. exists (full_body (pk_version pk) sp).
  assert (Hl : len (full_body (pk_version pk) sp) <= 268435455) by lia.
  full_form sp.
  assert (Hb : fh_byte (pk_fh pk) = ptype sp * 16 + pflags sp).
  { unfold sp. cbn [ptype pflags]. rewrite (plain_header pk 10 1 Ety); try lia. assumption. }
  match goal with Hp : plist_v _ UNSUBSCRIBE _ = true |- _ => pose proof (plist_v_len _ _ _ Hp) as Lp end.
  unfold sp in Hl |- *. cbn [full_body] in Hl |- *. unfold put_props_v, v5 in Hl |- *.
  destruct (pk_packet_id pk =? 0) eqn:Ep; [exfalso; unfold KF_C26_pid0 in K; rewrite Ep, Ety in K; try rewrite Eq in K; discriminate K|].
  rewrite encodeUint16_put by lia. change (blen (put_u16 (pk_packet_id pk))) with 2 .
  rewrite <- (enc_unsub_filters_put (pk_filters pk)) in Hl |- * by assumption.
  destruct (pk_version pk =? 5) eqn:E5.
  - unfold enc_props . rewrite Ety .
    rewrite props_encode_entries by assumption. cbn beta iota delta [bind].
    rewrite (finish_frame pk _ _ Hl Hb) . reflexivity.
  - cbn beta iota delta [bind]. rewrite (finish_frame pk _ _ Hl Hb) . reflexivity.
Qed.

Lemma beq_bytes_eq a : forall b, beq_bytes a b = true -> a = b.
Proof.
  induction a as [|x a IH]; destruct b as [|y b]; cbn [beq_bytes]; intro H; try discriminate; [reflexivity|].
  apply andb_prop in H. destruct H as [H1 H2]. apply N.eqb_eq in H1. subst y. f_equal. apply IH. exact H2.
Qed.

Lemma connect_flags_put clean wf wq wr pf uf : wq < 4 -> (wf = true \/ (wq = 0 /\ wr = false)) ->
  byte (N.lor (N.lor (N.lor (N.lor (N.lor
    (N.shiftl (encodeBool clean) 1) (N.shiftl (encodeBool wf) 2)) (N.shiftl wq 3))
    (N.shiftl (encodeBool wr) 5)) (N.shiftl (encodeBool pf) 6)) (N.shiftl (encodeBool uf) 7))
  = bool_bit clean 1 + (if wf then 4 + 8 * wq + bool_bit wr 5 else 0) + bool_bit pf 6 + bool_bit uf 7.
Proof.
  intros Hq Hw. assert (Q : wq = 0 \/ wq = 1 \/ wq = 2 \/ wq = 3) by lia.
  destruct Hw as [->|[-> ->]].
  - destruct Q as [->|[->|[->| ->]]]; destruct clean; destruct wr; destruct pf; destruct uf; vm_compute; reflexivity.
  - destruct wf; destruct clean; destruct pf; destruct uf; vm_compute; reflexivity.
Qed.

Lemma connect_encode_ok pk : wf_packet pk = true -> fh_type (pk_fh pk) = 1 -> KF_C26_pid0 pk = false ->
  encode_ok pk.
Proof.
  intros W Ety K. unfold encode_ok, mochi_encode. rewrite Ety. unfold connect_encode.
  wf_open W Ety. cbv zeta.
  set (c := pk_connect pk) in *. set (v := pk_version pk) in *.
  assert (Ea : abs pk = SConnect v (c_clean c) (c_keepalive c)
                 (if v =? 5 then entries 1 (pk_mods pk) (pk_props pk) 0 else []) (c_client_id c)
                 (if c_will_flag c
                  then Some (mkwill (if v =? 5 then entries WILLPROPS (pk_mods pk) (c_will_props c) 0 else [])
                                    (c_will_topic c) (c_will_payload c) (c_will_qos c) (c_will_retain c))
                  else None)
                 (if c_username_flag c then Some (c_username c) else None)
                 (if c_password_flag c then Some (c_password c) else None))
    by (unfold abs; rewrite Ety; reflexivity).
  rewrite Ea in *. clear Ea.
  match goal with Hok : enc_ok _ _ = true |- _ => cbn [enc_ok] in Hok end. split_and.
  setsp. exists (full_body v sp).
  assert (Hl : len (full_body v sp) <= 268435455) by lia.
  full_form sp.
  assert (Hb : fh_byte (pk_fh pk) = ptype sp * 16 + pflags sp).
  { unfold sp. cbn [ptype pflags]. rewrite (plain_header pk 1 0 Ety); try lia. assumption. }
  match goal with Hc : (if 1 =? 1 then _ else true) = true |- _ => change (1 =? 1) with true in Hc; cbv iota in Hc end.
  split_and.
  match goal with Hn : beq_bytes _ _ = true |- _ => apply beq_bytes_eq in Hn end.
  match goal with Hp : plist_v _ CONNECT _ = true |- _ => pose proof (plist_v_len _ _ _ Hp) as Lp end.
  assert (Hwq : c_will_qos c < 4 /\ (c_will_flag c = true \/ (c_will_qos c = 0 /\ c_will_retain c = false))).
  { destruct (c_will_flag c) eqn:Ew.
    - cbn [opt_ok] in *. match goal with Hw : will_fits _ _ = true |- _ => unfold will_fits in Hw; cbn [will_qos] in Hw end.
      split_and. split; [lia | left; reflexivity].
    - cbn [orb] in *. split_and. destruct (c_will_retain c); [discriminate|]. split; [lia|right; split; [lia|reflexivity]]. }
  destruct Hwq as [Hq Hwc].
  assert (Hfl : connect_flags c = connect_flags_of (c_clean c)
                 (if c_will_flag c
                  then Some (mkwill (if v =? 5 then entries WILLPROPS (pk_mods pk) (c_will_props c) 0 else [])
                                    (c_will_topic c) (c_will_payload c) (c_will_qos c) (c_will_retain c))
                  else None)
                 (if c_username_flag c then Some (c_username c) else None)
                 (if c_password_flag c then Some (c_password c) else None)).
  { unfold connect_flags, connect_flags_of. rewrite (connect_flags_put _ _ _ _ _ _ Hq Hwc).
    destruct (c_will_flag c); destruct (c_username_flag c); destruct (c_password_flag c); reflexivity. }
  unfold sp in Hl |- *. cbn [full_body] in Hl |- *. unfold put_props_v, v5 in Hl |- *.
  rewrite <- Hfl in Hl |- *. clear Hfl.
  match goal with Hn : c_protocol_name _ = _ |- _ => rewrite <- Hn in Hl |- * end.
  assert (Hnf : bin_fits (c_protocol_name c) = true).
  { match goal with Hn : c_protocol_name _ = _ |- _ => rewrite Hn end. destruct (v =? 3); reflexivity. }
  rewrite (encodeBytes_put _ Hnf) .
  rewrite encodeUint16_put by lia.
  match goal with Hs : str_fits (c_client_id c) = true |- _ => rewrite (encodeString_put _ Hs) end.
  unfold enc_props . rewrite Ety .
  destruct (v =? 5) eqn:E5; destruct (c_will_flag c) eqn:Ew; destruct (c_username_flag c) eqn:Eu;
    destruct (c_password_flag c) eqn:Ep; cbn [opt_ok when will_props will_topic will_payload will_qos will_retain] in *;
    repeat match goal with Hw : will_fits _ _ = true |- _ =>
      unfold will_fits in Hw; cbn [will_props will_topic will_payload will_qos] in Hw; split_and end;
    repeat match goal with Hp : plist_v _ WILLPROPS _ = true |- _ => apply plist_v_len in Hp end;
    repeat (rewrite props_encode_entries by assumption);
    repeat match goal with Hs : str_fits ?x = true |- _ => rewrite (encodeString_put x Hs) end;
    repeat match goal with Hs : bin_fits ?x = true |- _ => rewrite (encodeBytes_put x Hs) end;
    cbn beta iota delta [bind]; match goal with |- finish pk ?b = _ => rewrite (finish_frame pk b _ Hl Hb) end;
    reflexivity.
Qed.

(* the encoder succeeds on every well-formed packet whose packet identifier is not the refused 0
   (known finding KF_C26_pid0), and what it writes is a reference form of [abs pk] *)
Theorem encode_total pk : wf_packet pk = true -> KF_C26_pid0 pk = false -> encode_ok pk.
Proof.
  intros W K.
  assert (T : 1 <= fh_type (pk_fh pk) <= 15).
  { unfold wf_packet in W. cbv zeta in W. split_and. lia. }
  remember (fh_type (pk_fh pk)) as ty eqn:Ety. symmetry in Ety.
  assert (C : ty = 1 \/ ty = 2 \/ ty = 3 \/ ty = 4 \/ ty = 5 \/ ty = 6 \/ ty = 7 \/ ty = 8 \/ ty = 9 \/
              ty = 10 \/ ty = 11 \/ ty = 12 \/ ty = 13 \/ ty = 14 \/ ty = 15) by lia.
  destruct C as [->|[->|[->|[->|[->|[->|[->|[->|[->|[->|[->|[->|[->|[->| ->]]]]]]]]]]]]]].
  - apply connect_encode_ok; assumption.
  - apply connack_encode_ok; assumption.
  - apply publish_encode_ok; assumption.
  - apply (ack_encode_ok pk 4); auto.
  - apply (ack_encode_ok pk 5); auto.
  - apply (ack_encode_ok pk 6); auto.
  - apply (ack_encode_ok pk 7); auto.
  - apply subscribe_encode_ok; assumption.
  - apply suback_encode_ok; assumption.
  - apply unsubscribe_encode_ok; assumption.
  - apply unsuback_encode_ok; assumption.
  - apply (ping_encode_ok pk 12); auto.
  - apply (ping_encode_ok pk 13); auto.
  - apply disconnect_encode_ok; assumption.
  - apply auth_encode_ok; assumption.
Qed.

(* the only error the encoder returns for a well-formed packet is the refused identifier 0 *)
Lemma encode_pid0 pk : wf_packet pk = true -> KF_C26_pid0 pk = true -> mochi_encode pk = Err ENoPacketID.
Proof.
  intros W K. unfold KF_C26_pid0 in K. apply andb_prop in K. destruct K as [Hp Ht].
  unfold mochi_encode.
  apply orb_prop in Ht. destruct Ht as [Ht|Ht]; [apply orb_prop in Ht; destruct Ht as [Ht|Ht]|].
  - apply andb_prop in Ht. destruct Ht as [Ht Hq]. apply N.eqb_eq in Ht. rewrite Ht.
    unfold publish_encode. rewrite Hq, Hp. reflexivity.
  - apply N.eqb_eq in Ht. rewrite Ht. unfold subscribe_encode. rewrite Hp. reflexivity.
  - apply N.eqb_eq in Ht. rewrite Ht. unfold unsubscribe_encode. rewrite Hp. reflexivity.
Qed.

Theorem encode_is_form pk bs : wf_packet pk = true -> mochi_encode pk = Ok bs -> encodes_as_form pk bs.
Proof.
  intros W E. destruct (KF_C26_pid0 pk) eqn:K.
  - rewrite (encode_pid0 pk W K) in E. discriminate E.
  - destruct (encode_total pk W K) as (body & Eb & Hin & Hl). rewrite Eb in E. injection E as <-.
    exists body. split; [reflexivity|]. split; assumption.
Qed.

(* round trip: what the encoder writes for a well-formed packet, followed by anything, is decoded
   (same protocol version) as the normal form of the packet, leaving the rest unread; the remaining
   length in the fixed header is the number of bytes that follow it *)
Theorem roundtrip pk bs rest :
  wf_packet pk = true -> mochi_encode pk = Ok bs -> Vbi.wf_bytes (bs ++ rest) ->
  exists rem, mochi_decode_packet (pk_version pk) (bs ++ rest) = Ok (norm pk rem, rest) /\
              exists hb body, bs = hb :: put_vbi rem ++ body /\ blen body = rem /\ rem <= 268435455.
Proof.
  intros W E Hw. destruct (encode_is_form pk bs W E) as (body & -> & Hin & Hl).
  exists (len body). split.
  - apply form_decodes; try assumption.
    unfold wf_packet in W. cbv zeta in W. split_and. assumption.
  - exists (ptype (abs pk) * 16 + pflags (abs pk)), body. split; [reflexivity|]. split; [reflexivity | exact Hl].
Qed.
