(* C27: the packet decoders are total.  Every decoder of Wire.v / Props.v / MochiCodec.v ends in
   Ok or Err — never in Panic (an unchecked index or slice out of range) and never out of fuel —
   and every offset it returns lies inside the buffer. *)
From MV Require Import Base.Val Base.Bytes Codec.Vbi Codec.Wire Codec.Props Codec.MochiCodec.
From Coq Require Import Lia ZifyBool ZifyN ZifyNat.
Ltac Zify.zify_post_hook ::= Z.div_mod_to_equations.
Open Scope N_scope.
Set Warnings "-unused-intro-pattern".


Arguments N.mul : simpl never.
Arguments N.add : simpl never.
Arguments N.sub : simpl never.
Arguments N.div : simpl never.
Arguments N.modulo : simpl never.
Arguments N.shiftl : simpl never.
Arguments N.shiftr : simpl never.
Arguments N.lor : simpl never.
Arguments N.land : simpl never.
Arguments N.ltb : simpl never.
Arguments N.leb : simpl never.
Arguments N.eqb : simpl never.
Arguments N.of_nat : simpl never.
Arguments N.to_nat : simpl never.

(* ---------- postconditions ---------- *)

(* [post r Q]: r is not Panic / Fuel, and if it is Ok a then Q a *)
Definition post {A} (r : res A) (Q : A -> Prop) : Prop :=
  match r with Ok a => Q a | Err _ => True | Panic => False | Fuel => False end.

Lemma post_bind {A B} (r : res A) (f : A -> res B) (Q : A -> Prop) (R : B -> Prop) :
  post r Q -> (forall a, Q a -> post (f a) R) -> post (bind r f) R.
Proof. destruct r; cbn; auto; contradiction. Qed.

Lemma post_bind_err {A B} (r : res A) e (f : A -> res B) (Q : A -> Prop) (R : B -> Prop) :
  post r Q -> (forall a, Q a -> post (f a) R) -> post (bind_err r e f) R.
Proof. destruct r; cbn; auto; contradiction. Qed.

Lemma post_weaken {A} (r : res A) (Q R : A -> Prop) :
  post r Q -> (forall a, Q a -> R a) -> post r R.
Proof. destruct r; cbn; auto. Qed.

Lemma post_safe {A} (r : res A) Q : post r Q -> r <> Panic /\ r <> Fuel.
Proof. destruct r; cbn; intro H; try contradiction; split; discriminate. Qed.

(* ---------- access primitives ---------- *)

Lemma blen_nil : blen [] = 0.
Proof. reflexivity. Qed.

Lemma blen_cons a (l : bytes) : blen (a :: l) = blen l + 1.
Proof. unfold blen. cbn [length]. lia. Qed.

Lemma blen_app (a b : bytes) : blen (a ++ b) = blen a + blen b.
Proof. unfold blen. rewrite app_length. lia. Qed.

Lemma index_post (buf : bytes) i : i < blen buf -> post (index buf i) (fun _ => True).
Proof.
  unfold index, blen. intro H.
  destruct (nth_error buf (N.to_nat i)) eqn:E; cbn; [trivial|].
  apply nth_error_None in E. lia.
Qed.

Lemma slice_post (buf : bytes) lo hi : lo <= hi -> hi <= blen buf ->
  post (slice buf lo hi) (fun s => blen s = hi - lo).
Proof.
  unfold slice. intros H1 H2.
  replace ((lo <=? hi) && (hi <=? blen buf)) with true by lia. cbn.
  unfold blen in *. rewrite firstn_length, skipn_length. lia.
Qed.

Lemma slice_from_post (buf : bytes) lo : lo <= blen buf ->
  post (slice_from buf lo) (fun s => blen s = blen buf - lo).
Proof. intro H. apply slice_post; lia. Qed.

(* ---------- codec.go decoders: never Panic, offsets stay inside the buffer ---------- *)

Definition adv {A} (buf : bytes) (off k : N) : A * N -> Prop :=
  fun '(_, o) => o = off + k /\ o <= blen buf.

Lemma be_uint16_post s : blen s = 2 -> post (be_uint16 s) (fun _ => True).
Proof.
  intro H. unfold be_uint16.
  eapply post_bind; [apply index_post; lia|]. intros b1 _.
  eapply post_bind; [apply index_post; lia|]. intros b0 _. exact I.
Qed.

Lemma be_uint32_post s : blen s = 4 -> post (be_uint32 s) (fun _ => True).
Proof.
  intro H. unfold be_uint32.
  eapply post_bind; [apply index_post; lia|]. intros b3 _.
  eapply post_bind; [apply index_post; lia|]. intros b0 _.
  eapply post_bind; [apply index_post; lia|]. intros b1 _.
  eapply post_bind; [apply index_post; lia|]. intros b2 _. exact I.
Qed.

Lemma decodeUint16_post buf off : post (decodeUint16 buf off) (adv buf off 2).
Proof.
  unfold decodeUint16. destruct (blen buf <? off + 2) eqn:E; [exact I|].
  eapply post_bind; [apply slice_post; lia|]. intros s Hs; cbv beta in Hs.
  eapply post_bind; [apply be_uint16_post; lia|]. intros v _.
  cbn. lia.
Qed.

Lemma decodeUint32_post buf off : post (decodeUint32 buf off) (adv buf off 4).
Proof.
  unfold decodeUint32. destruct (blen buf <? off + 4) eqn:E; [exact I|].
  eapply post_bind; [apply slice_post; lia|]. intros s Hs; cbv beta in Hs.
  eapply post_bind; [apply be_uint32_post; lia|]. intros v _.
  cbn. lia.
Qed.

(* the declared length is checked against the buffer: the returned slice has exactly the declared
   length and ends inside the buffer *)
Lemma decodeBytes_post buf off :
  post (decodeBytes buf off) (fun '(s, o) => o = off + 2 + blen s /\ o <= blen buf).
Proof.
  unfold decodeBytes.
  eapply post_bind; [apply decodeUint16_post|]. intros [len next] [H1 H2].
  destruct (blen buf <? next + len) eqn:E; [exact I|].
  eapply post_bind; [apply slice_post; lia|]. intros s Hs; cbv beta in Hs.
  cbn. lia.
Qed.

Lemma decodeString_post buf off :
  post (decodeString buf off) (fun '(s, o) => o = off + 2 + blen s /\ o <= blen buf).
Proof.
  unfold decodeString.
  eapply post_bind; [apply decodeBytes_post|]. intros [s o] H.
  destruct (negb (valid_utf8 s)); [exact I|]. exact H.
Qed.

Lemma decodeByte_post buf off : post (decodeByte buf off) (adv buf off 1).
Proof.
  unfold decodeByte. destruct (blen buf <=? off) eqn:E; [exact I|].
  eapply post_bind; [apply index_post; lia|]. intros b _. cbn. lia.
Qed.

Lemma decodeByteBool_post buf off : post (decodeByteBool buf off) (adv buf off 1).
Proof.
  unfold decodeByteBool. destruct (blen buf <=? off) eqn:E; [exact I|].
  eapply post_bind; [apply index_post; lia|]. intros b _. cbn. lia.
Qed.

(* weaker, uniform shape: the offset moves forward by at least one and stays inside *)
Definition fwd {A} (buf : bytes) (off : N) : A * N -> Prop :=
  fun '(_, o) => off < o /\ o <= blen buf.

Lemma decodeUint16_fwd buf off : post (decodeUint16 buf off) (fwd buf off).
Proof. eapply post_weaken; [apply decodeUint16_post|]. intros [v o]; cbn; lia. Qed.
Lemma decodeUint32_fwd buf off : post (decodeUint32 buf off) (fwd buf off).
Proof. eapply post_weaken; [apply decodeUint32_post|]. intros [v o]; cbn; lia. Qed.
Lemma decodeBytes_fwd buf off : post (decodeBytes buf off) (fwd buf off).
Proof. eapply post_weaken; [apply decodeBytes_post|]. intros [v o]; cbn; lia. Qed.
Lemma decodeString_fwd buf off : post (decodeString buf off) (fwd buf off).
Proof. eapply post_weaken; [apply decodeString_post|]. intros [v o]; cbn; lia. Qed.
Lemma decodeByte_fwd buf off : post (decodeByte buf off) (fwd buf off).
Proof. eapply post_weaken; [apply decodeByte_post|]. intros [v o]; cbn; lia. Qed.
Lemma decodeByteBool_fwd buf off : post (decodeByteBool buf off) (fwd buf off).
Proof. eapply post_weaken; [apply decodeByteBool_post|]. intros [v o]; cbn; lia. Qed.

(* ---------- variable byte integer: bytes used = bytes consumed ---------- *)

Lemma vbi_loop_len bs : forall mult value bu n bu' r, 1 <= bu ->
  vbi_decode_loop bs mult value bu = VOk n bu' r ->
  bu' + blen r = bu - 1 + blen bs /\ bu <= bu'.
Proof.
  induction bs as [|eb t IH]; intros mult value bu n bu' r Hbu H; [discriminate|].
  cbn [vbi_decode_loop] in H.
  destruct (268435455 <? _); [discriminate|].
  destruct (N.land eb 128 =? 0).
  - injection H as <- <- <-. rewrite blen_cons. lia.
  - destruct (bu =? 4); [discriminate|].
    apply IH in H; [|lia]. rewrite blen_cons. lia.
Qed.

Lemma vbi_decode_len bs n bu r : vbi_decode bs = VOk n bu r -> bu + blen r = blen bs /\ 1 <= bu.
Proof. unfold vbi_decode. intro H. apply vbi_loop_len in H; lia. Qed.

(* ---------- Properties.Decode ---------- *)

(* case analysis on a byte-sized N used as a [match] scrutinee with numeral patterns below 64 *)
Ltac case_pos q n :=
  match n with
  | O => idtac
  | S ?m => destruct q as [q|q|]; [case_pos q m | case_pos q m | idtac]
  end.
Ltac case6 k := let q := fresh "q" in destruct k as [|q]; [|case_pos q 6%nat].
Ltac case4 k := let q := fresh "q" in destruct k as [|q]; [|case_pos q 4%nat].


Ltac pstep L := first [eapply post_bind | eapply post_bind_err]; [L|]; cbv beta.

(* one value decoder followed by a store: offset moves forward, stays inside *)
Lemma store_after {A} (d : res (A * N)) (g : A * N -> res (props * N)) bt off :
  post d (fwd bt off) ->
  (forall v o, g (v, o) = Ok (fst (match g (v, o) with Ok x => x | _ => (props0, 0) end), o)) ->
  post (bind d g) (fun '(_, o) => off <= o /\ o <= blen bt).
Proof.
  intros Hd Hg. eapply post_bind; [exact Hd|]. intros [v o] [H1 H2]. rewrite Hg. cbn. lia.
Qed.

Lemma prop_case_post k bt off p : off <= blen bt ->
  post (prop_case k bt off p) (fun '(_, o) => off <= o /\ o <= blen bt).
Proof.
  intro Hoff.
  assert (Hdef : post (Ok (p, off) : res (props * N)) (fun '(_, o) => off <= o /\ o <= blen bt))
    by (cbn; lia).
  unfold prop_case.
  case6 k; try exact Hdef;
  try (apply store_after;
       [ first [apply decodeByte_fwd | apply decodeUint16_fwd | apply decodeUint32_fwd
               | apply decodeString_fwd | apply decodeBytes_fwd]
       | intros v o; reflexivity ]).
  - (* 11: subscription identifier *)
    pstep ltac:(apply slice_from_post; exact Hoff). intros s Hs.
    destruct (vbi_decode s) as [n bu r| |] eqn:E; [|exact I|exact I].
    apply vbi_decode_len in E. cbn. lia.
  - (* 38: user property *)
    pstep ltac:(apply decodeString_fwd). intros [key o] [H1 H2].
    pstep ltac:(apply decodeString_fwd). intros [v o'] [H3 H4].
    cbn. lia.
Qed.

Lemma props_loop_post fuel : forall pkt bt n off p,
  off <= blen bt -> blen bt < off + N.of_nat fuel ->
  post (props_loop fuel pkt bt n off p) (fun _ => n <= blen bt).
Proof.
  induction fuel as [|f IH]; intros pkt bt n off p H1 H2.
  - lia.
  - cbn [props_loop]. destruct (n <=? off) eqn:E; [cbn; lia|].
    pstep ltac:(apply decodeByte_fwd). intros [k o1] [H3 H4].
    destruct (negb (valid_prop k pkt)); [exact I|].
    pstep ltac:(apply prop_case_post; exact H4). intros [p' o2] [H5 H6].
    apply IH; lia.
Qed.

(* Properties.Decode: on success the number of bytes reported as consumed (n + bu) does not exceed
   the bytes supplied, and the declared property length n fits in what follows the length field *)
Lemma props_decode_post pkt p b :
  post (props_decode pkt p b) (fun '(n, _) => n <= blen b).
Proof.
  unfold props_decode.
  destruct (vbi_decode b) as [n bu bt| |] eqn:E; [|exact I|exact I].
  apply vbi_decode_len in E.
  destruct (n =? 0) eqn:E0; [cbn; lia|].
  pstep ltac:(apply props_loop_post with (off := 0); unfold blen in *; lia). intros p' Hn.
  cbn. lia.
Qed.

(* ---------- per-type decoders ---------- *)

Definition inside {A} (buf : bytes) : A * N -> Prop := fun '(_, o) => o <= blen buf.

Lemma decode_props_at_post pk buf off : off <= blen buf ->
  post (decode_props_at pk buf off) (fun '(n, _) => off + n <= blen buf).
Proof.
  intro H. unfold decode_props_at.
  pstep ltac:(apply slice_from_post; exact H). intros s Hs.
  pstep ltac:(apply props_decode_post). intros [n pr] Hn. cbn. lia.
Qed.

Lemma props_if_v5_post pk buf off : off <= blen buf ->
  post (props_if_v5 pk buf off) (inside buf).
Proof.
  intro H. unfold props_if_v5. destruct (pk_version pk =? 5); [|cbn; lia].
  pstep ltac:(apply decode_props_at_post; exact H). intros [n pk'] Hn. cbn. lia.
Qed.

Ltac known :=
  first [ apply decodeBytes_fwd | apply decodeString_fwd | apply decodeByte_fwd
        | apply decodeByteBool_fwd | apply decodeUint16_fwd | apply decodeUint32_fwd
        | apply props_if_v5_post; lia | apply decode_props_at_post; lia
        | apply slice_from_post; lia ].
Ltac kstep := pstep known; let a := fresh "a" in let H := fresh "H" in
  intros a H; try (destruct a as [? ?]); unfold fwd, inside in H; cbn beta iota in H;
  match type of H with _ /\ _ => destruct H as [? ?] | _ => idtac end; cbv zeta.

Definition total {A} (r : res A) : Prop := post r (fun _ => True).

Lemma connect_total pk buf : total (connect_decode pk buf).
Proof.
  unfold total, connect_decode.
  kstep. kstep. kstep. kstep. kstep. kstep.
  (* will block *)
  eapply post_bind with (Q := inside buf).
  { destruct (c_will_flag _); [|cbn; lia].
    eapply post_bind with (Q := inside buf).
    { unfold will_props_if_v5. destruct (pk_version _ =? 5); [|cbn; lia].
      kstep. pstep ltac:(apply props_decode_post). intros [nw wpw] Hnw. cbn in *. lia. }
    intros [pk1 o1] Ho1. cbn in Ho1. kstep. kstep. cbn. lia. }
  intros [pk2 o2] Ho2. cbn in Ho2.
  (* username block *)
  eapply post_bind with (Q := inside buf).
  { destruct (c_username_flag _); [|cbn; lia].
    destruct (blen buf <=? o2); [exact I|]. kstep. cbn. lia. }
  intros [pk3 o3] Ho3. cbn in Ho3.
  destruct (c_password_flag _); [|exact I]. kstep. exact I.
Qed.

Lemma connack_total pk buf : total (connack_decode pk buf).
Proof.
  unfold total, connack_decode. kstep. kstep.
  destruct (pk_version _ =? 5); [|exact I]. kstep. exact I.
Qed.

Lemma disconnect_total pk buf : total (disconnect_decode pk buf).
Proof.
  unfold total, disconnect_decode. destruct (_ && _); [|exact I]. kstep.
  destruct (1 <? _); [|exact I]. kstep. exact I.
Qed.

Lemma publish_total pk buf : total (publish_decode pk buf).
Proof.
  unfold total, publish_decode. kstep.
  eapply post_bind with (Q := inside buf).
  { destruct (0 <? _); [|cbn; lia]. kstep. cbn. lia. }
  intros [pk1 o1] Ho1. cbn in Ho1. kstep. kstep. exact I.
Qed.

Lemma ack_total pk buf : total (ack_decode pk buf).
Proof.
  unfold total, ack_decode. kstep. destruct (_ && _); [|exact I]. kstep.
  destruct (3 <? _); [|exact I]. kstep. exact I.
Qed.

Lemma suback_total pk buf : total (suback_decode pk buf).
Proof. unfold total, suback_decode. kstep. kstep. kstep. exact I. Qed.

Lemma subscribe_loop_total fuel : forall v5 ids buf off acc,
  off <= blen buf -> blen buf < off + N.of_nat fuel ->
  total (subscribe_loop fuel v5 ids buf off acc).
Proof.
  induction fuel as [|f IH]; intros v5 ids buf off acc H1 H2; [lia|].
  cbn [subscribe_loop]. destruct (blen buf <=? off); [exact I|].
  kstep. kstep. destruct (2 <? _); [exact I|]. apply IH; lia.
Qed.

Lemma subscribe_total pk buf : total (subscribe_decode pk buf).
Proof.
  unfold total, subscribe_decode. kstep. kstep.
  pstep ltac:(apply subscribe_loop_total; unfold blen in *; lia). intros fs _. exact I.
Qed.

Lemma unsubscribe_loop_total fuel : forall buf off acc,
  off <= blen buf -> blen buf < off + N.of_nat fuel ->
  total (unsubscribe_loop fuel buf off acc).
Proof.
  induction fuel as [|f IH]; intros buf off acc H1 H2; [lia|].
  cbn [unsubscribe_loop]. destruct (blen buf <=? off); [exact I|].
  kstep. apply IH; lia.
Qed.

Lemma unsubscribe_total pk buf : total (unsubscribe_decode pk buf).
Proof.
  unfold total, unsubscribe_decode. kstep. kstep.
  pstep ltac:(apply unsubscribe_loop_total; unfold blen in *; lia). intros fs _. exact I.
Qed.

Lemma unsuback_total pk buf : total (unsuback_decode pk buf).
Proof.
  unfold total, unsuback_decode. kstep. destruct (pk_version _ =? 5); [|exact I].
  kstep. kstep. exact I.
Qed.

Lemma auth_total pk buf : total (auth_decode pk buf).
Proof.
  unfold total, auth_decode. destruct (_ =? 0); [exact I|]. kstep.
  destruct (1 <? _); [|exact I]. kstep. exact I.
Qed.

Lemma decode_body_total pk px : total (decode_body pk px).
Proof.
  unfold decode_body. generalize (fh_type (pk_fh pk)) as ty. intro ty.
  case4 ty; try exact I;
  first [ apply connect_total | apply connack_total | apply disconnect_total | apply publish_total
        | apply ack_total | apply suback_total | apply subscribe_total | apply unsubscribe_total
        | apply unsuback_total | apply auth_total ].
Qed.

(* ---------- main statements ---------- *)

Theorem decode_body_never_panics v fh buf :
  mochi_decode_body v fh buf <> Panic /\ mochi_decode_body v fh buf <> Fuel.
Proof. eapply post_safe. apply decode_body_total. Qed.

Lemma fh_decode_total fh hb : total (fh_decode fh hb).
Proof.
  unfold total, fh_decode. cbv zeta.
  eapply post_bind with (Q := fun _ => True).
  - repeat match goal with |- post (if ?c then _ else _) _ => destruct c end; exact I.
  - intros fh' _. destruct (_ && _); exact I.
Qed.

Theorem decode_packet_never_panics v bs :
  mochi_decode_packet v bs <> Panic /\ mochi_decode_packet v bs <> Fuel.
Proof.
  eapply post_safe with (Q := fun _ => True). unfold mochi_decode_packet.
  destruct bs as [|hb r]; [exact I|].
  pstep ltac:(apply fh_decode_total). intros fh _.
  destruct (vbi_decode r) as [n bu r'| |]; [|exact I|exact I].
  destruct (blen r' <? n); [exact I|].
  pstep ltac:(apply decode_body_total). intros pk _. exact I.
Qed.

(* every declared length is checked against the bytes that remain *)
Theorem declared_length_checked buf off len o :
  decodeUint16 buf off = Ok (len, o) -> blen buf < o + len ->
  decodeBytes buf off = Err EOffsetBytesOutOfRange /\ decodeString buf off = Err EOffsetBytesOutOfRange.
Proof.
  intros H1 H2. unfold decodeString, decodeBytes. rewrite H1. cbn.
  replace (blen buf <? o + len) with true by lia. split; reflexivity.
Qed.

Theorem decoded_bytes_inside buf off s o :
  decodeBytes buf off = Ok (s, o) ->
  o = off + 2 + blen s /\ o <= blen buf /\
  s = firstn (N.to_nat (blen s)) (skipn (N.to_nat (off + 2)) buf).
Proof.
  intro H. pose proof (decodeBytes_post buf off) as P. rewrite H in P. cbn in P.
  destruct P as [P1 P2]. split; [exact P1|]. split; [exact P2|].
  unfold decodeBytes in H.
  pose proof (decodeUint16_post buf off) as Q.
  destruct (decodeUint16 buf off) as [[len next]| | |]; try discriminate.
  cbn in Q. destruct Q as [Q1 Q2]. cbn in H.
  destruct (blen buf <? next + len); [discriminate|].
  unfold slice in H.
  destruct ((next <=? next + len) && (next + len <=? blen buf)) eqn:E; [|discriminate].
  cbn in H. injection H as H3 H4. subst o next.
  assert (L : blen s = len).
  { rewrite <- H3. unfold blen. rewrite firstn_length, skipn_length. unfold blen in *. lia. }
  rewrite L. rewrite <- H3 at 1. f_equal. f_equal. lia.
Qed.

(* a property length that exceeds the bytes following it is rejected *)
Theorem declared_property_length_checked pkt p b n bu bt :
  vbi_decode b = VOk n bu bt -> blen bt < n -> exists e, props_decode pkt p b = Err e.
Proof.
  intros E H. pose proof (props_decode_post pkt p b) as P.
  unfold props_decode in *. rewrite E in *.
  destruct (n =? 0) eqn:E0; [lia|].
  pose proof (props_loop_post (S (length bt)) pkt bt n 0 p) as L.
  destruct (props_loop (S (length bt)) pkt bt n 0 p) as [p'|e| |].
  - cbn in L. unfold blen in *. lia.
  - exists e. reflexivity.
  - cbn in L. unfold blen in *. lia.
  - cbn in L. unfold blen in *. lia.
Qed.
