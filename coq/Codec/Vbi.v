(* Model of packets/codec.go: encodeLength and DecodeLength (variable byte integers), and the
   specification from MQTT 5 section 1.5.5.  No proofs in this file. *)
From MV Require Import Base.Val.
Open Scope N_scope.

(* ---------- model of encodeLength (codec.go:130) ----------
   for { eb := byte(length % 128); length /= 128; if length > 0 { eb |= 0x80 }; write eb;
         if length == 0 { break } }
   The loop is modelled with explicit fuel; [None] = fuel exhausted (excluded by the theorems:
   fuel 10 suffices for every non-negative int64). *)
Fixpoint vbi_encode_fuel (fuel : nat) (n : N) : option bytes :=
  match fuel with
  | O => None
  | S f =>
      let eb := n mod 128 in
      let q := n / 128 in
      if 0 <? q then
        match vbi_encode_fuel f q with
        | Some r => Some (N.lor eb 128 :: r)
        | None => None
        end
      else Some [eb]
  end.

Definition vbi_encode (n : N) : option bytes := vbi_encode_fuel 10 n.

(* ---------- model of DecodeLength (codec.go:146) ----------
   value and multiplier are uint32: the shift is performed modulo 2^32 (a shift count >= 32
   yields 0 in Go, which [mod 2^32] of the unbounded shift reproduces). *)
Inductive vbi_res :=
| VOk (n : N) (bu : N) (rest : bytes)
| VErrEOF (bu : N)            (* the reader ran out of bytes *)
| VErrMalformed (bu : N).     (* ErrMalformedVariableByteInteger *)

Definition u32 (x : N) : N := x mod 4294967296.

Fixpoint vbi_decode_loop (bs : bytes) (mult value bu : N) : vbi_res :=
  match bs with
  | [] => VErrEOF bu
  | eb :: r =>
      let value' := N.lor value (u32 (N.shiftl (N.land eb 127) mult)) in
      if 268435455 <? value' then VErrMalformed bu
      else if N.land eb 128 =? 0 then VOk value' bu r
      else if bu =? 4 then VErrMalformed bu
      else vbi_decode_loop r (mult + 7) value' (bu + 1)
  end.

Definition vbi_decode (bs : bytes) : vbi_res := vbi_decode_loop bs 0 0 1.

(* ---------- specification (MQTT 5, 1.5.5), written from the standard ---------- *)

(* minimal number of bytes for a value *)
Definition vbi_min_len (n : N) : N :=
  if n <? 128 then 1 else if n <? 16384 then 2 else if n <? 2097152 then 3 else 4.

Definition vbi_max : N := 268435455.

(* value denoted by a complete encoding (little-endian base 128), None if not a complete
   encoding of at most 4 bytes *)
Fixpoint spec_value (k : nat) (bs : bytes) : option (N * bytes) :=
  match k, bs with
  | O, _ => None                         (* more than 4 bytes: malformed *)
  | _, [] => None
  | S k', b :: r =>
      if b <? 128 then Some (b, r)
      else match spec_value k' r with
           | Some (v, r') => Some ((b - 128) + 128 * v, r')
           | None => None
           end
  end.

Definition spec_decode (bs : bytes) : option (N * bytes) := spec_value 4 bs.

(* complete = a prefix of bs is a terminated group (some byte < 128 within the first 4 bytes) *)
Fixpoint terminated (k : nat) (bs : bytes) : bool :=
  match k, bs with
  | O, _ => false
  | _, [] => false
  | S k', b :: r => if b <? 128 then true else terminated k' r
  end.

Definition wf_bytes (bs : bytes) : Prop := Forall (fun b => b < 256) bs.
Fixpoint wf_bytesb (bs : bytes) : bool :=
  match bs with [] => true | b :: r => (b <? 256) && wf_bytesb r end.

(* ---------- engine: compare an implementation observation with model and spec ----------
   case = VL [VN 0; VN n; VB enc]                       encodeLength observation
        | VL [VN 1; VB input; VN kind; VN value; VN bu] DecodeLength observation
          kind: 0 = ok, 1 = io error (EOF), 2 = malformed *)
Definition check_enc (n : N) (enc : bytes) : val :=
  let nontriv := 127 <? n in
  match vbi_encode n with
  | None => verdict 2 (tag "enc-fuel") nontriv []
  | Some m =>
      (* spec: minimal length, <= 4 bytes, decodes (by the spec decoder) to n *)
      let spec_ok := (N.of_nat (length enc) =? vbi_min_len n) &&
                     match spec_decode enc with Some (v, []) => v =? n | _ => false end in
      if negb (n <=? vbi_max) then
        (* outside the property's range: only correspondence is checked *)
        if beq_bytes m enc then verdict 0 (tag "enc-big") nontriv [] else verdict 2 (tag "enc-big") nontriv [VB m]
      else if negb spec_ok then verdict 1 (tag "enc") nontriv [VB m]
      else if beq_bytes m enc then verdict 0 (tag "enc") nontriv []
      else verdict 2 (tag "enc") nontriv [VB m]
  end.

Definition res_kind (r : vbi_res) : N :=
  match r with VOk _ _ _ => 0 | VErrEOF _ => 1 | VErrMalformed _ => 2 end.
Definition res_val (r : vbi_res) : N := match r with VOk n _ _ => n | _ => 0 end.
Definition res_bu (r : vbi_res) : N :=
  match r with VOk _ bu _ => bu | VErrEOF bu => bu | VErrMalformed bu => bu end.

Definition check_dec (input : bytes) (kind value bu : N) : val :=
  let m := vbi_decode input in
  let nontriv := 1 <? N.of_nat (length input) in
  (* spec on the observation: accepted iff the spec decoder accepts, with the same value and
     number of bytes consumed; a terminated group that the spec rejects must be an error;
     an unterminated input of fewer than 4 continuation bytes is an I/O error (more bytes needed) *)
  let spec_ok :=
    match spec_decode input with
    | Some (v, rest) =>
        (kind =? 0) && (value =? v) && (N.of_nat (length input - length rest) =? bu)
    | None => negb (kind =? 0)
    end in
  let tg := match kind with 0 => tag "dec-ok" | 1 => tag "dec-eof" | _ => tag "dec-malformed" end in
  if negb spec_ok then verdict 1 tg nontriv [VN (res_kind m); VN (res_val m); VN (res_bu m)]
  else if (res_kind m =? kind) &&
          (negb (kind =? 0) || ((res_val m =? value) && (res_bu m =? bu)))   (* bu/value are unspecified on error *)
  then verdict 0 tg nontriv []
  else verdict 2 tg nontriv [VN (res_kind m); VN (res_val m); VN (res_bu m)].

(* ENGINE vbi Codec.Vbi.vbi_engine *)
Definition vbi_engine (c : val) : val :=
  match c with
  | VL [VN 0; VN n; VB enc] => check_enc n enc
  | VL [VN 1; VB input; VN kind; VN value; VN bu] =>
      if wf_bytesb input then check_dec input kind value bu else bad_case
  | _ => bad_case
  end.
