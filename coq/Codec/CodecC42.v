(* C42: every encoding the standard permits for a valid packet — any permitted omission, the
   properties in any permitted order — is decoded by the mochi model as the packet the sender meant. *)
From MV Require Import Base.Val Base.Bytes Codec.Vbi Codec.Wire Codec.Props Codec.MochiCodec
  Codec.SpecCodec Codec.SpecBridge Codec.CodecTotal Codec.CodecRT Codec.CodecEnc Codec.CodecOrder.
From Coq Require Import Lia ZifyBool ZifyN ZifyNat Permutation.
Open Scope N_scope.

Ltac split_and :=
  repeat match goal with
  | H : _ && _ = true |- _ => apply andb_prop in H; destruct H
  end.
Ltac join_and := repeat match goal with |- _ && _ = true => apply andb_true_intro; split end.

(* ---------- a packet valid by the standard can be read back by the decoder ---------- *)

Definition ctx_table : list (pctx * N) :=
  [(XConnect, 1); (XConnack, 2); (XPublish, 3); (XAck, 4); (XAck, 5); (XAck, 6); (XAck, 7);
   (XSubscribe, 8); (XSuback, 9); (XUnsubscribe, 10); (XUnsuback, 11); (XDisconnect, 14);
   (XAuth, 15); (XWill, 99)].

Lemma allowed_valid x pkt c : In (x, pkt) ctx_table -> prop_allowed x c = true ->
  valid_prop (prop_id c) pkt = true.
Proof.
  intro H. unfold ctx_table in H.
  repeat (destruct H as [H|H]; [injection H as <- <-; destruct c; intro A; try discriminate A; reflexivity|]).
  destruct H.
Qed.

Lemma forallb_imp {A} (f g : A -> bool) l : (forall a, f a = true -> g a = true) ->
  forallb f l = true -> forallb g l = true.
Proof.
  intros H F. rewrite forallb_forall in *. intros a Ha. apply H. apply F. exact Ha.
Qed.

Lemma props_ok_fits x pkt ps : In (x, pkt) ctx_table -> props_ok x ps = true -> plist_fits pkt ps = true.
Proof.
  intros Hx H. unfold props_ok in H. split_and. unfold plist_fits. join_and.
  - apply (forallb_imp prop_value_ok prop_fits); [apply prop_value_ok_fits | assumption].
  - unfold props_valid_for. apply (forallb_imp (prop_allowed x)); [|assumption]. intros c. apply allowed_valid. exact Hx.
  - assumption.
Qed.

Lemma props_for_fits v x pkt ps : In (x, pkt) ctx_table -> props_for v x ps = true -> plist_v v pkt ps = true.
Proof.
  unfold props_for, plist_v, v5. intros Hx H. destruct (v =? 5); [|exact H].
  eapply props_ok_fits; eassumption.
Qed.

Ltac intable := unfold ctx_table; repeat (first [left; reflexivity | right]).

Lemma bin_ok_fits d : bin_ok d = true -> bin_fits d = true.
Proof. intro H. exact H. Qed.

Lemma str_ok_bin_fits s : str_ok s = true -> bin_fits s = true.
Proof. unfold str_ok. intro H. apply andb_prop in H. destruct H as [H _]. exact H. Qed.

Lemma valid_enc_ok v p : valid_packet v p = true -> enc_ok v p = true.
Proof.
  destruct p; cbn [valid_packet enc_ok]; intro H; split_and.
  - (* connect *)
    join_and.
    + eapply props_for_fits; [|eassumption]. intable.
    + apply str_ok_fits. assumption.
    + destruct will as [w|]; [|reflexivity]. cbn [opt_ok] in *.
      match goal with Hw : will_ok _ _ = true |- _ => unfold will_ok in Hw end. split_and.
      unfold will_fits. join_and.
      * unfold plist_v, v5 in *. destruct (level =? 5); [|assumption].
        eapply props_ok_fits; [|eassumption]. intable.
      * apply str_ok_fits. assumption.
      * assumption.
      * lia.
    + destruct username; [|reflexivity]. cbn [opt_ok] in *. apply str_ok_bin_fits. assumption.
    + destruct password; [|reflexivity]. cbn [opt_ok] in *. assumption.
  - eapply props_for_fits; [|eassumption]. intable.
  - (* publish *)
    join_and; try assumption.
    + apply str_ok_fits. assumption.
    + eapply props_for_fits; [|eassumption]. intable.
    + match goal with Hq : (if qos =? 0 then _ else _) = true |- _ => destruct (qos =? 0) eqn:E in Hq end; lia.
  - (* acks *)
    join_and.
    + eapply props_for_fits; [|eassumption]. destruct kind; intable.
    + unfold v5 in *. destruct (v =? 5); [reflexivity|]. cbn [orb]. assumption.
  - (* subscribe *)
    join_and.
    + eapply props_for_fits; [|eassumption]. intable.
    + destruct filters; [discriminate|].
      eapply forallb_imp; [|eassumption]. intros f Hf. unfold filter_ok in Hf. split_and.
      unfold filter_fits. join_and.
      * apply str_ok_fits. assumption.
      * assumption.
      * unfold v5 in *. destruct (v =? 5); [lia|assumption].
  - eapply props_for_fits; [|eassumption]. intable.
  - (* unsubscribe *)
    join_and.
    + eapply props_for_fits; [|eassumption]. intable.
    + destruct filters; [discriminate|].
      eapply forallb_imp; [|eassumption]. intros f Hf. cbv beta in Hf. split_and. apply str_ok_fits. assumption.
  - (* unsuback *)
    join_and.
    + eapply props_for_fits; [|eassumption]. intable.
    + unfold v5 in *. destruct (v =? 5); [reflexivity|]. cbn [orb]. assumption.
  - reflexivity.
  - reflexivity.
  - (* disconnect *)
    unfold v5, plist_v in *. destruct (v =? 5); split_and; join_and.
    + eapply props_ok_fits; [|eassumption]. intable.
    + reflexivity.
    + assumption.
    + cbn [orb]. assumption.
  - eapply props_ok_fits; [|eassumption]. intable.
Qed.

(* ---------- reordering the properties ---------- *)

Lemma forallb_perm {A} (f : A -> bool) l l' : Permutation l l' -> forallb f l = forallb f l'.
Proof.
  induction 1 as [|a l l' H IH|a b l|l l' l'' H1 IH1 H2 IH2]; cbn [forallb].
  - reflexivity.
  - rewrite IH. reflexivity.
  - destruct (f a); destruct (f b); reflexivity.
  - rewrite IH1. exact IH2.
Qed.

Lemma body_len_perm ps ps' : Permutation ps ps' -> len (put_props_body ps) = len (put_props_body ps').
Proof.
  unfold len, put_props_body.
  induction 1 as [|a l l' H IH|a b l|l l' l'' H1 IH1 H2 IH2]; cbn [map concat]; rewrite ?app_length in *; lia.
Qed.

Lemma plist_fits_perm pkt ps ps' : Permutation ps ps' -> plist_fits pkt ps = plist_fits pkt ps'.
Proof.
  intro P. unfold plist_fits, props_valid_for.
  rewrite (forallb_perm _ _ _ P), (forallb_perm (fun c => valid_prop (prop_id c) pkt) _ _ P), (body_len_perm _ _ P).
  reflexivity.
Qed.

Lemma plist_v_reorder v pkt ps ps' : reorder ps ps' -> plist_v v pkt ps = true -> plist_v v pkt ps' = true.
Proof.
  intros [P _] H. unfold plist_v in *. destruct (v =? 5).
  - rewrite <- (plist_fits_perm pkt ps ps' P). exact H.
  - apply no_props_nil in H. subst ps. apply Permutation_nil in P. subst ps'. reflexivity.
Qed.

Lemma same_packet_enc_ok v p p' : same_packet p p' -> enc_ok v p = true -> enc_ok v p' = true.
Proof.
  intros S H. destruct S; cbn [enc_ok] in *; split_and; join_and;
    try assumption; try (eapply plist_v_reorder; eassumption).
  - (* connect with will *)
    cbn [opt_ok] in *. unfold will_fits in *. cbn [will_props will_topic will_payload will_qos] in *.
    split_and. join_and; try assumption. eapply plist_v_reorder; eassumption.
  - (* auth *)
    destruct H0 as [P _]. rewrite <- (plist_fits_perm AUTH ps ps' P). exact H.
Qed.

Lemma props_for_reorder v x ps ps' : props_for v x ps = true -> reorder ps ps' -> props_of ps' = props_of ps.
Proof.
  unfold props_for. intros H R. destruct (v5 v).
  - unfold props_ok in H. split_and. eapply props_of_reorder; eassumption.
  - apply no_props_nil in H. subst ps. destruct R as [P _]. apply Permutation_nil in P. subst ps'. reflexivity.
Qed.

Lemma same_packet_expected v p p' rem : same_packet p p' -> valid_packet v p = true ->
  expected v p' rem = expected v p rem.
Proof.
  intros S H. destruct S; cbn [valid_packet] in H; split_and; cbn [expected];
    try reflexivity;
    try (erewrite (props_for_reorder _ _ ps ps') by eassumption; reflexivity).
  - (* connect with will *)
    cbn [opt_ok] in *.
    match goal with Hw : will_ok _ _ = true |- _ => unfold will_ok in Hw; cbn [will_props] in Hw end. split_and.
    cbn [will_props will_topic will_payload will_qos will_retain].
    erewrite (props_for_reorder _ _ ps ps') by eassumption.
    assert (E : props_of wps' = props_of wps).
    { unfold v5 in *. destruct (lvl =? 5) eqn:E5.
      - match goal with Hp : props_ok XWill wps = true |- _ => unfold props_ok in Hp end. split_and.
        eapply props_of_reorder; eassumption.
      - match goal with Hp : no_props wps = true |- _ => apply no_props_nil in Hp; subst wps end.
        match goal with R : reorder [] wps' |- _ => destruct R as [P _]; apply Permutation_nil in P; subst wps' end.
        reflexivity. }
    rewrite E. reflexivity.
  - (* subscribe: the identifier copied into each filter is the first one of the list *)
    unfold first_sub_id. erewrite (props_for_reorder _ _ ps ps') by eassumption. reflexivity.
  - (* disconnect *)
    unfold v5 in *. destruct (v =? 5) eqn:E5; split_and.
    + match goal with Hp : props_ok XDisconnect ps = true |- _ => unfold props_ok in Hp end. split_and.
      erewrite (props_of_reorder XDisconnect ps ps') by eassumption. reflexivity.
    + match goal with Hp : no_props ps = true |- _ => apply no_props_nil in Hp; subst ps end.
      match goal with R : reorder [] ps' |- _ => destruct R as [P _]; apply Permutation_nil in P; subst ps' end.
      reflexivity.
  - (* auth *)
    match goal with Hp : props_ok XAuth ps = true |- _ => unfold props_ok in Hp end. split_and.
    erewrite (props_of_reorder XAuth ps ps') by eassumption. reflexivity.
Qed.

(* ---------- C42 ---------- *)

Theorem permitted_encoding_decodes v p bs rest :
  valid_packet v p = true -> spec_encodings v p bs -> Vbi.wf_bytes (bs ++ rest) ->
  exists rem, mochi_decode_packet v (bs ++ rest) = Ok (expected v p rem, rest) /\
              blen bs = 1 + blen (put_vbi rem) + rem.
Proof.
  intros Hv (p' & S & Hin) Hw. unfold spec_forms in Hin.
  apply in_map_iff in Hin. destruct Hin as (body & <- & Hb).
  apply filter_In in Hb. destruct Hb as [Hb Hl].
  exists (len body). split.
  - rewrite (form_decodes v p' body rest).
    + rewrite (same_packet_expected v p p' _ S Hv). reflexivity.
    + apply (same_packet_enc_ok v p p' S). apply valid_enc_ok. exact Hv.
    + exact Hb.
    + lia.
    + exact Hw.
  - unfold frame. rewrite blen_cons, blen_app. change (len body) with (blen body). lia.
Qed.

(* the corollary named in the property: a DISCONNECT that carries only the reason code 0x04 *)
Corollary disconnect_with_will rest : Vbi.wf_bytes rest ->
  mochi_decode_packet 5 ([224; 1; 4] ++ rest) = Ok (expected 5 (SDisconnect 4 []) 1, rest).
Proof.
  intro Hw.
  destruct (permitted_encoding_decodes 5 (SDisconnect 4 []) [224; 1; 4] rest) as (rem & H & L).
  - reflexivity.
  - exists (SDisconnect 4 []). split.
    + constructor. split; [apply Permutation_refl | reflexivity].
    + vm_compute. tauto.
  - cbn [app]. repeat constructor; try lia. exact Hw.
  - assert (rem = 1).
    { change (blen [224; 1; 4]) with 3 in L. unfold put_vbi in L.
      repeat match type of L with context [if ?c then _ else _] => destruct c eqn:? end;
        cbn [length blen] in L; unfold blen in L; cbn [length] in L; lia. }
    subst rem. exact H.
Qed.
