(* C26, definitions: which properties Properties.Encode writes for a Properties struct ([entries],
   the encoder's suppression rules made explicit), which specification-level packet a mochi Packet
   value stands for ([abs]), which Packet values are well-formed ([wf_packet]) and the normal form
   the decoder returns for the encoder's output ([norm]).  No proofs in this file. *)
From MV Require Import Base.Val Codec.Vbi Codec.Wire Codec.Props Codec.MochiCodec Codec.SpecCodec
  Codec.SpecBridge Codec.CodecRT Codec.CodecEnc.
Open Scope N_scope.

Definition optl (c : bool) (x : sprop) : list sprop := if c then [x] else [].

(* the properties written by Properties.Encode(pkt, mods, buf, n), in the order written
   (properties.go:206-359).  Suppression: a property not valid for the packet type is skipped;
   numeric properties without a flag are skipped when 0, strings and binary data when empty;
   Response Topic / Correlation Data / Response Information need mods.AllowResponseInfo (and the
   Response Topic no wildcard); Reason String and User Properties are dropped when
   mods.DisallowProblemInfo (user properties of a PUBLISH excepted) or when they would make the
   packet reach mods.MaxSize; Topic Alias 0 and Maximum QoS >= 2 are skipped; subscription
   identifiers equal to 0 are skipped. *)
Definition entries (pkt : N) (m : mods) (p : props) (n : N) : list sprop :=
  let can k := valid_prop k pkt in
  optl (can 1 && p_payload_format_flag p) (PayloadFormat (p_payload_format p)) ++
  optl (can 2 && (0 <? p_message_expiry p)) (MessageExpiry (p_message_expiry p)) ++
  optl (can 3 && nonempty (p_content_type p)) (ContentType (p_content_type p)) ++
  optl (m_allow_response_info m && can 8 && nonempty (p_response_topic p)
        && negb (has_wildcard (p_response_topic p))) (ResponseTopic (p_response_topic p)) ++
  optl (m_allow_response_info m && can 9 && nonempty (p_correlation_data p))
       (CorrelationData (p_correlation_data p)) ++
  (if can 11 then map SubscriptionId (filter (fun v => 0 <? v) (p_sub_ids p)) else []) ++
  optl (can 17 && p_session_expiry_flag p) (SessionExpiry (p_session_expiry p)) ++
  optl (can 18 && nonempty (p_assigned_client_id p)) (AssignedClientId (p_assigned_client_id p)) ++
  optl (can 19 && p_server_keep_alive_flag p) (ServerKeepAlive (p_server_keep_alive p)) ++
  optl (can 21 && nonempty (p_auth_method p)) (AuthMethod (p_auth_method p)) ++
  optl (can 22 && nonempty (p_auth_data p)) (AuthData (p_auth_data p)) ++
  optl (can 23 && p_request_problem_info_flag p) (RequestProblemInfo (p_request_problem_info p)) ++
  optl (can 24 && (0 <? p_will_delay p)) (WillDelay (p_will_delay p)) ++
  optl (can 25 && (0 <? p_request_response_info p)) (RequestResponseInfo (p_request_response_info p)) ++
  optl (m_allow_response_info m && can 26 && nonempty (p_response_info p)) (ResponseInfo (p_response_info p)) ++
  optl (can 28 && nonempty (p_server_reference p)) (ServerReference (p_server_reference p)) ++
  optl (negb (m_disallow_problem_info m) && can 31 && nonempty (p_reason_string p)
        && ((m_max_size m =? 0) || (uint32 (n + blen (encodeString (p_reason_string p)) + 1) <? m_max_size m)))
       (ReasonString (p_reason_string p)) ++
  optl (can 33 && (0 <? p_receive_maximum p)) (ReceiveMaximum (p_receive_maximum p)) ++
  optl (can 34 && (0 <? p_topic_alias_maximum p)) (TopicAliasMaximum (p_topic_alias_maximum p)) ++
  optl (can 35 && p_topic_alias_flag p && (0 <? p_topic_alias p)) (TopicAlias (p_topic_alias p)) ++
  optl (can 36 && p_maximum_qos_flag p && (p_maximum_qos p <? 2)) (MaximumQoS (p_maximum_qos p)) ++
  optl (can 37 && p_retain_available_flag p) (RetainAvailable (p_retain_available p)) ++
  (if (negb (m_disallow_problem_info m) || (pkt =? PUBLISH)) && can 38
      && ((m_max_size m =? 0) || (uint32 (n + blen (enc_user (p_user p)) + 1) <? m_max_size m))
   then map (fun kv => UserProperty (fst kv) (snd kv)) (p_user p) else []) ++
  optl (can 39 && (0 <? p_maximum_packet_size p)) (MaximumPacketSize (p_maximum_packet_size p)) ++
  optl (can 40 && p_wildcard_sub_available_flag p) (WildcardSubAvailable (p_wildcard_sub_available p)) ++
  optl (can 41 && p_sub_id_available_flag p) (SubIdAvailable (p_sub_id_available p)) ++
  optl (can 42 && p_shared_sub_available_flag p) (SharedSubAvailable (p_shared_sub_available p)).

(* every field within the range of its Go type; strings valid UTF-8 of at most 65535 bytes *)
Definition wf_props (p : props) : bool :=
  (p_payload_format p <? 256) && (p_request_problem_info p <? 256) && (p_request_response_info p <? 256)
  && (p_maximum_qos p <? 256) && (p_retain_available p <? 256) && (p_wildcard_sub_available p <? 256)
  && (p_sub_id_available p <? 256) && (p_shared_sub_available p <? 256)
  && (p_server_keep_alive p <? 65536) && (p_receive_maximum p <? 65536)
  && (p_topic_alias_maximum p <? 65536) && (p_topic_alias p <? 65536)
  && (p_message_expiry p <=? 4294967295) && (p_session_expiry p <=? 4294967295)
  && (p_will_delay p <=? 4294967295) && (p_maximum_packet_size p <=? 4294967295)
  && str_fits (p_content_type p) && str_fits (p_response_topic p) && str_fits (p_assigned_client_id p)
  && str_fits (p_auth_method p) && str_fits (p_response_info p) && str_fits (p_server_reference p)
  && str_fits (p_reason_string p)
  && bin_fits (p_correlation_data p) && bin_fits (p_auth_data p)
  && forallb (fun v => v <=? 268435455) (p_sub_ids p)
  && forallb (fun kv => str_fits (fst kv) && str_fits (snd kv)) (p_user p).

(* ---------- the specification-level packet a Packet value stands for ---------- *)

Definition filter_of (v5 : bool) (s : subscription) : sfilter :=
  if v5 then mkfilter (s_filter s) (s_qos s) (s_no_local s) (s_rap s) (s_retain_handling s)
  else mkfilter (s_filter s) (s_qos s) false false 0.

Definition ack_kind_of (ty : N) : ack_kind :=
  match ty with 4 => KPuback | 5 => KPubrec | 6 => KPubrel | _ => KPubcomp end.

Definition codes_of (b : bytes) : list N := b.

Definition abs (pk : packet) : spkt :=
  let v := pk_version pk in
  let is5 := v =? 5 in
  let ty := fh_type (pk_fh pk) in
  let c := pk_connect pk in
  let ps n := if is5 then entries ty (pk_mods pk) (pk_props pk) n else [] in
  match ty with
  | 1 => SConnect v (c_clean c) (c_keepalive c) (ps 0) (c_client_id c)
           (if c_will_flag c
            then Some (mkwill (if is5 then entries WILLPROPS (pk_mods pk) (c_will_props c) 0 else [])
                              (c_will_topic c) (c_will_payload c) (c_will_qos c) (c_will_retain c))
            else None)
           (if c_username_flag c then Some (c_username c) else None)
           (if c_password_flag c then Some (c_password c) else None)
  | 2 => SConnack (pk_session_present pk) (pk_reason_code pk) (ps 4)
  | 3 => let nb := blen (encodeString (pk_topic pk)) + (if 0 <? fh_qos (pk_fh pk) then 2 else 0) in
         SPublish (fh_dup (pk_fh pk)) (fh_qos (pk_fh pk)) (fh_retain (pk_fh pk)) (pk_topic pk)
                  (if 0 <? fh_qos (pk_fh pk) then pk_packet_id pk else 0)
                  (ps (nb + blen (pk_payload pk))) (pk_payload pk)
  | 4 | 5 | 6 | 7 => SAck (ack_kind_of ty) (pk_packet_id pk) (if is5 then pk_reason_code pk else 0) (ps 2)
  | 8 => SSubscribe (pk_packet_id pk)
           (ps (2 + blen (enc_filters is5 (pk_filters pk)))) (map (filter_of is5) (pk_filters pk))
  | 9 => SSuback (pk_packet_id pk) (ps (2 + blen (pk_reason_codes pk))) (codes_of (pk_reason_codes pk))
  | 10 => SUnsubscribe (pk_packet_id pk)
            (ps (2 + blen (enc_unsub_filters (pk_filters pk)))) (map s_filter (pk_filters pk))
  | 11 => SUnsuback (pk_packet_id pk) (ps 2) (if is5 then codes_of (pk_reason_codes pk) else [])
  | 12 => SPingreq
  | 13 => SPingresp
  | 14 => SDisconnect (if is5 then pk_reason_code pk else 0) (ps 1)
  | _ => SAuth (pk_reason_code pk) (entries ty (pk_mods pk) (pk_props pk) 1)
  end.

Definition is_byte (x : N) : bool := x <? 256.

(* A Packet value is well-formed for encoding when every field is within its Go type, the header
   fields agree with the packet type as the broker sets them, strings are valid UTF-8 of at most
   65535 bytes, and the packet fits the protocol's maximum size. *)
Definition wf_packet (pk : packet) : bool :=
  let v := pk_version pk in
  let ty := fh_type (pk_fh pk) in
  let fh := pk_fh pk in
  let c := pk_connect pk in
  (1 <=? ty) && (ty <=? 15) && is_byte v
  && wf_props (pk_props pk) && wf_props (c_will_props c)
  && enc_ok v (abs pk) && (len (full_body v (abs pk)) <=? 268435455)
  && (pk_packet_id pk <? 65536) && is_byte (pk_reason_code pk)
  && Vbi.wf_bytesb (pk_payload pk) && Vbi.wf_bytesb (pk_reason_codes pk)
  (* fixed header flags as the type requires *)
  && (if ty =? 3 then true
      else negb (fh_dup fh) && negb (fh_retain fh)
           && (fh_qos fh =? (if (ty =? 6) || (ty =? 8) || (ty =? 10) then 1 else 0)))
  (* CONNECT: protocol name and level as the standard defines them, no will fields without a will *)
  && (if ty =? 1
      then ((v =? 3) || (v =? 4) || (v =? 5))
           && beq_bytes (c_protocol_name c) (if v =? 3 then bytes_of_string "MQIsdp" else bytes_of_string "MQTT")
           && (c_keepalive c <? 65536)
           && (c_will_flag c || ((c_will_qos c =? 0) && negb (c_will_retain c)))
      else true)
  (* subscription options within their bit fields *)
  && forallb (fun s => (s_qos s <=? 2) && (s_retain_handling s <? 4)) (pk_filters pk).

(* known finding KF_C26_pid0: a packet the decoder accepts and the encoder refuses: packet identifier 0
   where one is required *)
Definition KF_C26_pid0 (pk : packet) : bool :=
  (pk_packet_id pk =? 0)
  && (((fh_type (pk_fh pk) =? 3) && (0 <? fh_qos (pk_fh pk)))
      || (fh_type (pk_fh pk) =? 8) || (fh_type (pk_fh pk) =? 10)).

(* what decoding the encoder's output returns: the packet the encoded bytes mean *)
Definition norm (pk : packet) (rem : N) : packet := expected (pk_version pk) (abs pk) rem.

(* The Properties struct that comes back from the decoder for what Properties.Encode wrote: every
   property that is valid for the packet type and not suppressed keeps its value; a suppressed or
   inapplicable property reads back as "absent" (zero value, flag false).  The conditions are those
   of [entries]. *)
Definition norm_props (pkt : N) (m : mods) (p : props) (n : N) : props :=
  let can k := valid_prop k pkt in
  mkprops
    (if can 1 && p_payload_format_flag p then p_payload_format p else 0)
    (can 1 && p_payload_format_flag p)
    (if can 2 && (0 <? p_message_expiry p) then p_message_expiry p else 0)
    (if can 3 && nonempty (p_content_type p) then p_content_type p else [])
    (if m_allow_response_info m && can 8 && nonempty (p_response_topic p)
        && negb (has_wildcard (p_response_topic p)) then p_response_topic p else [])
    (if m_allow_response_info m && can 9 && nonempty (p_correlation_data p) then p_correlation_data p else [])
    (if can 11 then filter (fun v => 0 <? v) (p_sub_ids p) else [])
    (if can 17 && p_session_expiry_flag p then p_session_expiry p else 0)
    (can 17 && p_session_expiry_flag p)
    (if can 18 && nonempty (p_assigned_client_id p) then p_assigned_client_id p else [])
    (if can 19 && p_server_keep_alive_flag p then p_server_keep_alive p else 0)
    (can 19 && p_server_keep_alive_flag p)
    (if can 21 && nonempty (p_auth_method p) then p_auth_method p else [])
    (if can 22 && nonempty (p_auth_data p) then p_auth_data p else [])
    (if can 23 && p_request_problem_info_flag p then p_request_problem_info p else 0)
    (can 23 && p_request_problem_info_flag p)
    (if can 24 && (0 <? p_will_delay p) then p_will_delay p else 0)
    (if can 25 && (0 <? p_request_response_info p) then p_request_response_info p else 0)
    (if m_allow_response_info m && can 26 && nonempty (p_response_info p) then p_response_info p else [])
    (if can 28 && nonempty (p_server_reference p) then p_server_reference p else [])
    (if negb (m_disallow_problem_info m) && can 31 && nonempty (p_reason_string p)
        && ((m_max_size m =? 0) || (uint32 (n + blen (encodeString (p_reason_string p)) + 1) <? m_max_size m))
     then p_reason_string p else [])
    (if can 33 && (0 <? p_receive_maximum p) then p_receive_maximum p else 0)
    (if can 34 && (0 <? p_topic_alias_maximum p) then p_topic_alias_maximum p else 0)
    (if can 35 && p_topic_alias_flag p && (0 <? p_topic_alias p) then p_topic_alias p else 0)
    (can 35 && p_topic_alias_flag p && (0 <? p_topic_alias p))
    (if can 36 && p_maximum_qos_flag p && (p_maximum_qos p <? 2) then p_maximum_qos p else 0)
    (can 36 && p_maximum_qos_flag p && (p_maximum_qos p <? 2))
    (if can 37 && p_retain_available_flag p then p_retain_available p else 0)
    (can 37 && p_retain_available_flag p)
    (if (negb (m_disallow_problem_info m) || (pkt =? PUBLISH)) && can 38
        && ((m_max_size m =? 0) || (uint32 (n + blen (enc_user (p_user p)) + 1) <? m_max_size m))
     then p_user p else [])
    (if can 39 && (0 <? p_maximum_packet_size p) then p_maximum_packet_size p else 0)
    (if can 40 && p_wildcard_sub_available_flag p then p_wildcard_sub_available p else 0)
    (can 40 && p_wildcard_sub_available_flag p)
    (if can 41 && p_sub_id_available_flag p then p_sub_id_available p else 0)
    (can 41 && p_sub_id_available_flag p)
    (if can 42 && p_shared_sub_available_flag p then p_shared_sub_available p else 0)
    (can 42 && p_shared_sub_available_flag p).

(* the fields of a packet the codec carries for its type, as the property lists them *)
Definition same_fields (pk q : packet) : Prop :=
  let v := pk_version pk in
  let c := pk_connect pk in
  let d := pk_connect q in
  match fh_type (pk_fh pk) with
  | 1 => c_protocol_name d = c_protocol_name c /\ c_clean d = c_clean c /\ c_keepalive d = c_keepalive c /\
         c_client_id d = c_client_id c /\ c_will_flag d = c_will_flag c /\
         c_username_flag d = c_username_flag c /\ c_password_flag d = c_password_flag c /\
         (c_will_flag c = true ->
            c_will_topic d = c_will_topic c /\ c_will_payload d = c_will_payload c /\
            c_will_qos d = c_will_qos c /\ c_will_retain d = c_will_retain c /\
            (v = 5 -> c_will_props d = norm_props WILLPROPS (pk_mods pk) (c_will_props c) 0)) /\
         (c_username_flag c = true -> c_username d = c_username c) /\
         (c_password_flag c = true -> c_password d = c_password c)
  | 2 => pk_session_present q = pk_session_present pk /\ pk_reason_code q = pk_reason_code pk
  | 3 => pk_topic q = pk_topic pk /\ pk_payload q = pk_payload pk /\
         (0 < fh_qos (pk_fh pk) -> pk_packet_id q = pk_packet_id pk)
  | 4 | 5 | 6 | 7 => pk_packet_id q = pk_packet_id pk /\ (v = 5 -> pk_reason_code q = pk_reason_code pk)
  | 8 => pk_packet_id q = pk_packet_id pk /\
         map s_filter (pk_filters q) = map s_filter (pk_filters pk) /\
         map s_qos (pk_filters q) = map s_qos (pk_filters pk) /\
         (v = 5 -> map s_no_local (pk_filters q) = map s_no_local (pk_filters pk) /\
                   map s_rap (pk_filters q) = map s_rap (pk_filters pk) /\
                   map s_retain_handling (pk_filters q) = map s_retain_handling (pk_filters pk))
  | 9 => pk_packet_id q = pk_packet_id pk /\ pk_reason_codes q = pk_reason_codes pk
  | 10 => pk_packet_id q = pk_packet_id pk /\ map s_filter (pk_filters q) = map s_filter (pk_filters pk)
  | 11 => pk_packet_id q = pk_packet_id pk /\ (v = 5 -> pk_reason_codes q = pk_reason_codes pk)
  | 14 => v = 5 -> pk_reason_code q = pk_reason_code pk
  | 15 => pk_reason_code q = pk_reason_code pk
  | _ => True
  end.

