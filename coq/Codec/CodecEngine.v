(* Engines of the packet-codec properties: projection of a decoded packet to the universal value
   type (the same projection is produced by harness/cmd/hx/eng_codec.go from the real Packet) and
   the comparison of an implementation observation with model and specification.
   No proofs in this file. *)
From MV Require Import Base.Val Codec.Vbi Codec.Wire Codec.Props Codec.MochiCodec Codec.SpecCodec
  Codec.SpecBridge.
Open Scope N_scope.

Fixpoint beq_val (a b : val) : bool :=
  match a, b with
  | VN x, VN y => x =? y
  | VB x, VB y => beq_bytes x y
  | VL x, VL y =>
      (fix go (l1 l2 : list val) : bool :=
         match l1, l2 with
         | [], [] => true
         | a1 :: r1, a2 :: r2 => beq_val a1 a2 && go r1 r2
         | _, _ => false
         end) x y
  | _, _ => false
  end.

(* ---------- projection of the decoded fields ---------- *)

Definition val_of_props (p : props) : val :=
  VL [ VN (p_payload_format p); vbool (p_payload_format_flag p); VN (p_message_expiry p);
       VB (p_content_type p); VB (p_response_topic p); VB (p_correlation_data p);
       VL (map VN (p_sub_ids p));
       VN (p_session_expiry p); vbool (p_session_expiry_flag p); VB (p_assigned_client_id p);
       VN (p_server_keep_alive p); vbool (p_server_keep_alive_flag p);
       VB (p_auth_method p); VB (p_auth_data p);
       VN (p_request_problem_info p); vbool (p_request_problem_info_flag p);
       VN (p_will_delay p); VN (p_request_response_info p); VB (p_response_info p);
       VB (p_server_reference p); VB (p_reason_string p);
       VN (p_receive_maximum p); VN (p_topic_alias_maximum p);
       VN (p_topic_alias p); vbool (p_topic_alias_flag p);
       VN (p_maximum_qos p); vbool (p_maximum_qos_flag p);
       VN (p_retain_available p); vbool (p_retain_available_flag p);
       VL (map (fun kv => VL [VB (fst kv); VB (snd kv)]) (p_user p));
       VN (p_maximum_packet_size p);
       VN (p_wildcard_sub_available p); vbool (p_wildcard_sub_available_flag p);
       VN (p_sub_id_available p); vbool (p_sub_id_available_flag p);
       VN (p_shared_sub_available p); vbool (p_shared_sub_available_flag p) ].

Definition val_of_sub (s : subscription) : val :=
  VL [ VB (s_filter s); VN (s_qos s); vbool (s_no_local s); vbool (s_rap s);
       VN (s_retain_handling s); VN (s_identifier s) ].

Definition val_of_connect (c : connectparams) : val :=
  VL [ VB (c_protocol_name c); vbool (c_clean c); VN (c_keepalive c); VB (c_client_id c);
       vbool (c_will_flag c); VN (c_will_qos c); vbool (c_will_retain c);
       VB (c_will_topic c); VB (c_will_payload c);
       vbool (c_username_flag c); VB (c_username c); vbool (c_password_flag c); VB (c_password c);
       val_of_props (c_will_props c) ].

Definition val_of_packet (pk : packet) : val :=
  VL [ VN (pk_version pk);
       VL [ VN (fh_type (pk_fh pk)); VN (fh_qos (pk_fh pk)); vbool (fh_dup (pk_fh pk));
            vbool (fh_retain (pk_fh pk)); VN (fh_remaining (pk_fh pk)) ];
       VN (pk_packet_id pk); VB (pk_topic pk); VB (pk_payload pk);
       VN (pk_reason_code pk); VB (pk_reason_codes pk); vbool (pk_session_present pk);
       VN (pk_reserved_bit pk);
       VL (map val_of_sub (pk_filters pk));
       val_of_props (pk_props pk);
       val_of_connect (pk_connect pk) ].

(* outcome classes: 0 = ok, 1 = error returned, 2 = panic, 3 = model out of fuel *)
Definition class_of {A} (r : res A) : N :=
  match r with Ok _ => 0 | Err _ => 1 | Panic => 2 | Fuel => 3 end.

(* ---------- C27: decoding is total ----------
   case = VL [VN 0; VN version; VN type; VN qos; VN dup; VN retain; VN remaining; VB body;
              VN outcome; projection]                  body decoder called directly
        | VL [VN 1; VN version; VB stream; VN outcome; projection; VB unread]
                                                       header + body as ReadFixedHeader/ReadPacket
   outcome: 0 = ok (projection = decoded packet), 1 = error, 2 = panic (recovered by the harness).
   Specification: the outcome is never a panic.  Model: same class and, when ok, same fields. *)

Definition total_verdict (tg : bytes) (nontriv : bool) (outcome : N) (proj : val)
           (m : res val) : val :=
  if outcome =? 2 then verdict 1 (tg ++ tag "-panic") nontriv [VN (class_of m)]
  else if negb (class_of m =? outcome) then verdict 2 tg nontriv [VN (class_of m)]
  else match m with
       | Ok mv => if beq_val mv proj then verdict 0 (tg ++ tag "-ok") nontriv []
                  else verdict 2 (tg ++ tag "-ok") nontriv [mv]
       | _ => verdict 0 (tg ++ tag "-err") nontriv []
       end.

Definition type_tag (ty : N) : bytes :=
  match ty with
  | 1 => tag "connect" | 2 => tag "connack" | 3 => tag "publish" | 4 => tag "puback"
  | 5 => tag "pubrec" | 6 => tag "pubrel" | 7 => tag "pubcomp" | 8 => tag "subscribe"
  | 9 => tag "suback" | 10 => tag "unsubscribe" | 11 => tag "unsuback" | 12 => tag "pingreq"
  | 13 => tag "pingresp" | 14 => tag "disconnect" | 15 => tag "auth" | _ => tag "reserved"
  end.

Definition map_res {A B} (f : A -> B) (r : res A) : res B :=
  match r with Ok a => Ok (f a) | Err e => Err e | Panic => Panic | Fuel => Fuel end.

(* ENGINE codec_total Codec.CodecEngine.total_engine *)
Definition total_engine (c : val) : val :=
  match c with
  | VL [VN 0; VN v; VN ty; VN qos; VN dup; VN retain; VN rem; VB body; VN outcome; proj] =>
      if negb (wf_bytesb body) then bad_case else
      let fh := mkfh rem ty qos (negb (dup =? 0)) (negb (retain =? 0)) in
      total_verdict (type_tag ty) (1 <? blen body) outcome proj
                    (map_res val_of_packet (mochi_decode_body v fh body))
  | VL [VN 1; VN v; VB stream; VN outcome; proj; VB unread] =>
      if negb (wf_bytesb stream) then bad_case else
      total_verdict (tag "stream") (2 <? blen stream) outcome (VL [proj; VB unread])
                    (map_res (fun x => VL [val_of_packet (fst x); VB (snd x)])
                             (mochi_decode_packet v stream))
  | _ => bad_case
  end.

(* ---------- C42: every permitted encoding is decoded as the sender meant ----------
   case = VL [VN 1; VN version; VB stream; VN outcome; projection; VB unread]  (as above).
   The reference decoder of SpecCodec.v says whether the stream starts with an encoding the standard
   permits and which packet the sender meant; if it does and a client may send that packet, the
   implementation must have accepted it with exactly the expected fields.  Streams the reference
   decoder rejects (or server-to-client packets) only take part in the correspondence check. *)
Definition rem_of (bs : bytes) : N :=
  match bs with
  | _ :: r => match get_vbi r with Some (n, _) => n | None => 0 end
  | [] => 0
  end.

(* ENGINE codec_enc Codec.CodecEngine.enc_engine *)
Definition enc_engine (c : val) : val :=
  match c with
  | VL [VN 1; VN v; VB stream; VN outcome; proj; VB unread] =>
      if negb (wf_bytesb stream) then bad_case else
      let m := map_res (fun x => VL [val_of_packet (fst x); VB (snd x)]) (mochi_decode_packet v stream) in
      let obs := VL [proj; VB unread] in
      match spec_decode_packet v stream with
      | Some (p, rest) =>
          if client_sendable p then
            let want := VL [val_of_packet (expected v p (rem_of stream)); VB rest] in
            let tg := tag "valid-" ++ type_tag (ptype p) in
            if (outcome =? 0) && beq_val obs want then
              match m with
              | Ok mv => if beq_val mv obs then verdict 0 tg true [] else verdict 2 tg true [mv]
              | _ => verdict 2 tg true [VN (class_of m)]
              end
            else verdict 1 tg true [want]
          else total_verdict (tag "server-only") false outcome obs m
      | None => total_verdict (tag "not-permitted") false outcome obs m
      end
  | _ => bad_case
  end.
