(* Engines of the packet-codec properties: projection of a decoded packet to the universal value
   type (the same projection is produced by harness/cmd/hx/eng_codec.go from the real Packet) and
   the comparison of an implementation observation with model and specification.
   No proofs in this file. *)
From MV Require Import Base.Val Codec.Vbi Codec.Wire Codec.Props Codec.MochiCodec Codec.SpecCodec
  Codec.SpecBridge.
Open Scope N_scope.

Fixpoint beq_val (a b : val) : bool :=
  match a, b with
  | VN x, VN y => x =? y
  | VB x, VB y => beq_bytes x y
  | VL x, VL y =>
      (fix go (l1 l2 : list val) : bool :=
         match l1, l2 with
         | [], [] => true
         | a1 :: r1, a2 :: r2 => beq_val a1 a2 && go r1 r2
         | _, _ => false
         end) x y
  | _, _ => false
  end.

(* ---------- projection of the decoded fields ---------- *)

Definition val_of_props (p : props) : val :=
  VL [ VN (p_payload_format p); vbool (p_payload_format_flag p); VN (p_message_expiry p);
       VB (p_content_type p); VB (p_response_topic p); VB (p_correlation_data p);
       VL (map VN (p_sub_ids p));
       VN (p_session_expiry p); vbool (p_session_expiry_flag p); VB (p_assigned_client_id p);
       VN (p_server_keep_alive p); vbool (p_server_keep_alive_flag p);
       VB (p_auth_method p); VB (p_auth_data p);
       VN (p_request_problem_info p); vbool (p_request_problem_info_flag p);
       VN (p_will_delay p); VN (p_request_response_info p); VB (p_response_info p);
       VB (p_server_reference p); VB (p_reason_string p);
       VN (p_receive_maximum p); VN (p_topic_alias_maximum p);
       VN (p_topic_alias p); vbool (p_topic_alias_flag p);
       VN (p_maximum_qos p); vbool (p_maximum_qos_flag p);
       VN (p_retain_available p); vbool (p_retain_available_flag p);
       VL (map (fun kv => VL [VB (fst kv); VB (snd kv)]) (p_user p));
       VN (p_maximum_packet_size p);
       VN (p_wildcard_sub_available p); vbool (p_wildcard_sub_available_flag p);
       VN (p_sub_id_available p); vbool (p_sub_id_available_flag p);
       VN (p_shared_sub_available p); vbool (p_shared_sub_available_flag p) ].

Definition val_of_sub (s : subscription) : val :=
  VL [ VB (s_filter s); VN (s_qos s); vbool (s_no_local s); vbool (s_rap s);
       VN (s_retain_handling s); VN (s_identifier s) ].

Definition val_of_connect (c : connectparams) : val :=
  VL [ VB (c_protocol_name c); vbool (c_clean c); VN (c_keepalive c); VB (c_client_id c);
       vbool (c_will_flag c); VN (c_will_qos c); vbool (c_will_retain c);
       VB (c_will_topic c); VB (c_will_payload c);
       vbool (c_username_flag c); VB (c_username c); vbool (c_password_flag c); VB (c_password c);
       val_of_props (c_will_props c) ].

Definition val_of_packet (pk : packet) : val :=
  VL [ VN (pk_version pk);
       VL [ VN (fh_type (pk_fh pk)); VN (fh_qos (pk_fh pk)); vbool (fh_dup (pk_fh pk));
            vbool (fh_retain (pk_fh pk)); VN (fh_remaining (pk_fh pk)) ];
       VN (pk_packet_id pk); VB (pk_topic pk); VB (pk_payload pk);
       VN (pk_reason_code pk); VB (pk_reason_codes pk); vbool (pk_session_present pk);
       VN (pk_reserved_bit pk);
       VL (map val_of_sub (pk_filters pk));
       val_of_props (pk_props pk);
       val_of_connect (pk_connect pk) ].

(* outcome classes: 0 = ok, 1 = error returned, 2 = panic, 3 = model out of fuel *)
Definition class_of {A} (r : res A) : N :=
  match r with Ok _ => 0 | Err _ => 1 | Panic => 2 | Fuel => 3 end.

(* ---------- C27: decoding is total ----------
   case = VL [VN 0; VN version; VN type; VN qos; VN dup; VN retain; VN remaining; VB body;
              VN outcome; projection]                  body decoder called directly
        | VL [VN 1; VN version; VB stream; VN outcome; projection; VB unread]
                                                       header + body as ReadFixedHeader/ReadPacket
   outcome: 0 = ok (projection = decoded packet), 1 = error, 2 = panic (recovered by the harness),
   3 = the decoder did not return within the harness' time budget (watched child process).
   Specification: the outcome is never a panic, the decoder terminates, and an input in which a
   declared length exceeds the available bytes is not accepted.  Model: same class and, when ok, same fields. *)

(* the model rejects the input because a declared length / a fixed-size field exceeds the bytes
   supplied: accepting such an input violates the specification (theorems C27_declared_length_checked,
   C27_property_length_checked say the current code rejects it) *)
Definition bounds_rejected {A} (r : res A) : bool :=
  match r with Err e => is_bounds e | _ => false end.

Definition total_verdict (tg : bytes) (nontriv : bool) (outcome : N) (proj : val)
           (m : res val) : val :=
  if outcome =? 2 then verdict 1 (tg ++ tag "-panic") nontriv [VN (class_of m)]
  else if outcome =? 3 then verdict 1 (tg ++ tag "-hang") nontriv [VN (class_of m)]
  else if (outcome =? 0) && bounds_rejected m
  then verdict 1 (tg ++ tag "-length-accepted") nontriv [VN (class_of m)]
  else if negb (class_of m =? outcome) then verdict 2 tg nontriv [VN (class_of m)]
  else match m with
       | Ok mv => if beq_val mv proj then verdict 0 (tg ++ tag "-ok") nontriv []
                  else verdict 2 (tg ++ tag "-ok") nontriv [mv]
       | _ => verdict 0 (tg ++ tag "-err") nontriv []
       end.

Definition type_tag (ty : N) : bytes :=
  match ty with
  | 1 => tag "connect" | 2 => tag "connack" | 3 => tag "publish" | 4 => tag "puback"
  | 5 => tag "pubrec" | 6 => tag "pubrel" | 7 => tag "pubcomp" | 8 => tag "subscribe"
  | 9 => tag "suback" | 10 => tag "unsubscribe" | 11 => tag "unsuback" | 12 => tag "pingreq"
  | 13 => tag "pingresp" | 14 => tag "disconnect" | 15 => tag "auth" | _ => tag "reserved"
  end.

Definition map_res {A B} (f : A -> B) (r : res A) : res B :=
  match r with Ok a => Ok (f a) | Err e => Err e | Panic => Panic | Fuel => Fuel end.

(* ENGINE codec_total Codec.CodecEngine.total_engine *)
Definition total_engine (c : val) : val :=
  match c with
  | VL [VN 0; VN v; VN ty; VN qos; VN dup; VN retain; VN rem; VB body; VN outcome; proj] =>
      if negb (wf_bytesb body) then bad_case else
      let fh := mkfh rem ty qos (negb (dup =? 0)) (negb (retain =? 0)) in
      total_verdict (type_tag ty) (1 <? blen body) outcome proj
                    (map_res val_of_packet (mochi_decode_body v fh body))
  | VL [VN 1; VN v; VB stream; VN outcome; proj; VB unread] =>
      if negb (wf_bytesb stream) then bad_case else
      total_verdict (tag "stream") (2 <? blen stream) outcome (VL [proj; VB unread])
                    (map_res (fun x => VL [val_of_packet (fst x); VB (snd x)])
                             (mochi_decode_packet v stream))
  | _ => bad_case
  end.

(* ---------- C42: every permitted encoding is decoded as the sender meant ----------
   case = VL [VN 1; VN version; VB stream; VN outcome; projection; VB unread]  (as above).
   The reference decoder of SpecCodec.v says whether the stream starts with an encoding the standard
   permits and which packet the sender meant; if it does and a client may send that packet, the
   implementation must have accepted it with exactly the expected fields.  Streams the reference
   decoder rejects (or server-to-client packets) only take part in the correspondence check. *)
Definition rem_of (bs : bytes) : N :=
  match bs with
  | _ :: r => match get_vbi r with Some (n, _) => n | None => 0 end
  | [] => 0
  end.

(* ENGINE codec_enc Codec.CodecEngine.enc_engine *)
Definition enc_engine (c : val) : val :=
  match c with
  | VL [VN 1; VN v; VB stream; VN outcome; proj; VB unread] =>
      if negb (wf_bytesb stream) then bad_case else
      let m := map_res (fun x => VL [val_of_packet (fst x); VB (snd x)]) (mochi_decode_packet v stream) in
      let obs := VL [proj; VB unread] in
      match spec_decode_packet v stream with
      | Some (p, rest) =>
          if client_sendable p then
            let want := VL [val_of_packet (expected v p (rem_of stream)); VB rest] in
            let tg := tag "valid-" ++ type_tag (ptype p) in
            if (outcome =? 0) && beq_val obs want then
              match m with
              | Ok mv => if beq_val mv obs then verdict 0 tg true [] else verdict 2 tg true [mv]
              | _ => verdict 2 tg true [VN (class_of m)]
              end
            else verdict 1 tg true [want]
          else total_verdict (tag "server-only") false outcome obs m
      | None => total_verdict (tag "not-permitted") false outcome obs m
      end
  | _ => bad_case
  end.

(* ---------- C26: round trip ---------- *)
From MV Require Import Codec.CodecRT Codec.CodecEnc Codec.CodecNorm.

Definition nz (n : N) : bool := negb (n =? 0).

Definition props_of_val (v : val) : option props :=
  match v with
  | VL [VN a1; VN a2; VN a3; VB a4; VB a5; VB a6; VL ids; VN a8; VN a9; VB a10; VN a11; VN a12;
        VB a13; VB a14; VN a15; VN a16; VN a17; VN a18; VB a19; VB a20; VB a21; VN a22; VN a23;
        VN a24; VN a25; VN a26; VN a27; VN a28; VN a29; VL user; VN a31; VN a32; VN a33; VN a34;
        VN a35; VN a36; VN a37] =>
      match map_opt as_N ids,
            map_opt (fun u => match u with VL [VB k; VB x] => Some (k, x) | _ => None end) user with
      | Some ids', Some user' =>
          Some (mkprops a1 (nz a2) a3 a4 a5 a6 ids' a8 (nz a9) a10 a11 (nz a12) a13 a14 a15 (nz a16)
                        a17 a18 a19 a20 a21 a22 a23 a24 (nz a25) a26 (nz a27) a28 (nz a29) user' a31
                        a32 (nz a33) a34 (nz a35) a36 (nz a37))
      | _, _ => None
      end
  | _ => None
  end.

Definition sub_of_val (v : val) : option subscription :=
  match v with
  | VL [VB f; VN q; VN nl; VN rap; VN rh; VN ident] => Some (mksub f ident rh q (nz rap) (nz nl))
  | _ => None
  end.

Definition connect_of_val (v : val) : option connectparams :=
  match v with
  | VL [VB name; VN clean; VN ka; VB cid; VN wf; VN wq; VN wr; VB wt; VB wp; VN uf; VB user; VN pf;
        VB pass; wprops] =>
      match props_of_val wprops with
      | Some wps => Some (mkconn wps pass user name wp cid wt ka (nz pf) (nz uf) wq (nz wf) (nz wr) (nz clean))
      | None => None
      end
  | _ => None
  end.

(* the inverse of val_of_packet, with the encoder's Mods given separately *)
Definition packet_of_val (m : mods) (v : val) : option packet :=
  match v with
  | VL [VN ver; VL [VN ty; VN qos; VN dup; VN retain; VN rem]; VN id; VB topic; VB payload; VN rc;
        VB rcs; VN sp; VN rb; VL filters; pr; conn] =>
      match map_opt sub_of_val filters, props_of_val pr, connect_of_val conn with
      | Some fs, Some p, Some c =>
          Some (mkpk c p payload rcs fs topic (mkfh rem ty qos (nz dup) (nz retain)) m id ver (nz sp) rc rb)
      | _, _, _ => None
      end
  | _ => None
  end.

Definition mods_of_val (v : val) : option mods :=
  match v with
  | VL [VN ms; VN dis; VN allow] => Some (mkmods ms (nz dis) (nz allow))
  | _ => None
  end.

(* the remaining-length field of an encoded packet equals the number of bytes after it *)
Definition length_field_ok (bs : bytes) : bool :=
  match bs with
  | _ :: r => match get_vbi r with Some (n, body) => n =? len body | None => false end
  | [] => false
  end.

(* the projection without the remaining length (it depends on the form of the encoding) and without
   the reserved CONNECT flag bit (ReservedBit, "reserved, do not use": the encoder always writes 0) *)
Definition val_no_rem (pk : packet) : val :=
  val_of_packet (set_pk_reserved_bit 0 (set_pk_fh (set_fh_remaining 0 (pk_fh pk)) pk)).

Definition is_ping (pk : packet) : bool := (fh_type (pk_fh pk) =? 12) || (fh_type (pk_fh pk) =? 13).

(* case = VL [VN 2; mods; packet; VN enc_outcome; VB enc; VN dec_outcome; dec_projection; VB unread]
          a generated Packet value through the real encoder, its output through the real decoder
        | VL [VN 3; VN version; VB stream; VN d1; proj1; mods; VN enc_outcome; VB enc; VN d2; proj2; VB unread2]
          an accepted byte string: decoded, re-encoded, decoded again *)
Definition rt_check (tg : bytes) (pk : packet) (enc_outcome : N) (enc : bytes)
           (dec_outcome : N) (dec_proj : val) (unread : bytes) : val :=
  let m := mochi_encode pk in
  let v := pk_version pk in
  let wf := wf_packet pk in
  let tgw := if wf then tg ++ tag "-wf" else tg ++ tag "-other" in
  let obs := VL [dec_proj; VB unread] in
  let want := VL [val_of_packet (norm pk (rem_of enc)); VB []] in
  (* 1. the specification, on what the implementation did *)
  if (enc_outcome =? 2) || (dec_outcome =? 2) then verdict 1 (tgw ++ tag "-panic") wf []
  else if (enc_outcome =? 0) && negb (is_ping pk) && negb (length_field_ok enc)
  then verdict 1 (tgw ++ tag "-length") wf []
  else if wf && (enc_outcome =? 0) && negb ((dec_outcome =? 0) && beq_val obs want)
  then verdict 1 tgw true [want]
  else if wf && negb (enc_outcome =? 0) && negb (KF_C26_pid0 pk)
  then verdict 1 (tgw ++ tag "-refused") true []
  (* 2. correspondence with the model *)
  else if negb (class_of m =? enc_outcome) then verdict 2 (tgw ++ tag "-enc") wf [VN (class_of m)]
  else match m with
  | Ok mb =>
      if negb (beq_bytes mb enc) then verdict 2 (tgw ++ tag "-bytes") wf [VB mb]
      else
        let md := map_res (fun x => VL [val_of_packet (fst x); VB (snd x)]) (mochi_decode_packet v enc) in
        if negb (class_of md =? dec_outcome) then verdict 2 (tgw ++ tag "-dec") wf [VN (class_of md)]
        else match md with
             | Ok mv => if beq_val mv obs then verdict 0 tgw wf [] else verdict 2 (tgw ++ tag "-dec") wf [mv]
             | _ => verdict 0 (tgw ++ tag "-err") false []
             end
  | _ => verdict 0 (tgw ++ tag "-refused") false []
  end.

(* ENGINE codec_rt Codec.CodecEngine.rt_engine *)
Definition rt_engine (c : val) : val :=
  match c with
  | VL [VN 2; mv; pv; VN eo; VB enc; VN d; dproj; VB unread] =>
      match mods_of_val mv with
      | Some m => match packet_of_val m pv with
                  | Some pk => rt_check (type_tag (fh_type (pk_fh pk))) pk eo enc d dproj unread
                  | None => bad_case
                  end
      | None => bad_case
      end
  | VL [VN 3; VN v; VB stream; VN d1; proj1; mv; VN eo; VB enc; VN d2; proj2; VB unread2] =>
      if negb (wf_bytesb stream) then bad_case else
      (* first decoding: correspondence with the model *)
      let md1 := map_res (fun x => val_of_packet (fst x)) (mochi_decode_packet v stream) in
      if negb (class_of md1 =? d1) then verdict 2 (tag "re-dec1") false [VN (class_of md1)]
      else match md1 with
      | Ok mv1 =>
          if negb (beq_val mv1 proj1) then verdict 2 (tag "re-dec1") false [mv1]
          else match mods_of_val mv with
          | Some m => match packet_of_val m proj1 with
            | Some pk =>
                let tg := tag "re-" ++ type_tag (fh_type (pk_fh pk)) in
                if (eo =? 1) && KF_C26_pid0 pk && wf_packet pk
                then verdict 3 tg true [VB (tag "KF_C26_pid0")]
                else
                  let r := rt_check tg pk eo enc d2 proj2 unread2 in
                  match r with
                  | VL (VN 0 :: _) =>
                      (* a packet outside wf_packet that the encoder accepted: the second decoding must
                         give the first one back (apart from the remaining length) *)
                      if negb (wf_packet pk) && (eo =? 0) then
                        if negb (d2 =? 0) then verdict 1 (tg ++ tag "-lost") true []
                        else
                        match packet_of_val m proj2 with
                        | Some pk2 => if beq_val (val_no_rem pk2) (val_no_rem pk) then r
                                      else verdict 1 (tg ++ tag "-changed") true []
                        | None => r
                        end
                      else r
                  | _ => r
                  end
            | None => bad_case
            end
          | None => bad_case
          end
      | _ => verdict 0 (tag "re-rejected") false []
      end
  | _ => bad_case
  end.

(* ---------- C29 (and the encoders as a whole) under concurrency ----------
   case = the observations of the vbi engine (VL (VN 0 :: _), VL (VN 1 :: _)) and of codec_rt
          (VL (VN 2 :: _)) made while 12-16 goroutines encode at the same time, each into its own
          buffer; they are judged exactly as in the sequential engines
        | VL [VN 9; VL names]   the package-level variables of package packets that some function
          writes (go/ast scan, harness/cmd/hx/eng_codec_par.go).  The codec is called from every
          client's goroutine without locking, so there must be none: the allow-list is empty. *)
Definition shared_state_allowed : list bytes := [].

(* ENGINE codec_par Codec.CodecEngine.par_engine *)
Definition par_engine (c : val) : val :=
  match c with
  | VL [VN 9; VL names] =>
      if forallb (fun n => match n with
                           | VB b => existsb (beq_bytes b) shared_state_allowed
                           | _ => false
                           end) names
      then verdict 0 (tag "codec-no-shared-mutable-state") true []
      else verdict 1 (tag "codec-shared-mutable-state") true [VL names]
  | VL (VN 0 :: _) | VL (VN 1 :: _) => Vbi.vbi_engine c
  | _ => rt_engine c
  end.
