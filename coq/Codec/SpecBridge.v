(* What a specification-level packet (SpecCodec.spkt) means as a mochi Packet value: the packet
   the sender meant, as the Go decoder is expected to deliver it.  Used to state C42 / C26 and by
   the codec engines.  No proofs in this file. *)
From MV Require Import Base.Val Codec.Vbi Codec.Wire Codec.Props Codec.MochiCodec Codec.SpecCodec.
Open Scope N_scope.

(* one property stored into the Properties struct: the field(s) the Go struct has for it *)
Definition store (c : sprop) (p : props) : props :=
  match c with
  | PayloadFormat b => set_payload_format_flag true (set_payload_format b p)
  | MessageExpiry n => set_message_expiry n p
  | ContentType s => set_content_type s p
  | ResponseTopic s => set_response_topic s p
  | CorrelationData d => set_correlation_data d p
  | SubscriptionId n => set_sub_ids (p_sub_ids p ++ [n]) p
  | SessionExpiry n => set_session_expiry_flag true (set_session_expiry n p)
  | AssignedClientId s => set_assigned_client_id s p
  | ServerKeepAlive n => set_server_keep_alive_flag true (set_server_keep_alive n p)
  | AuthMethod s => set_auth_method s p
  | AuthData d => set_auth_data d p
  | RequestProblemInfo b => set_request_problem_info_flag true (set_request_problem_info b p)
  | WillDelay n => set_will_delay n p
  | RequestResponseInfo b => set_request_response_info b p
  | ResponseInfo s => set_response_info s p
  | ServerReference s => set_server_reference s p
  | ReasonString s => set_reason_string s p
  | ReceiveMaximum n => set_receive_maximum n p
  | TopicAliasMaximum n => set_topic_alias_maximum n p
  | TopicAlias n => set_topic_alias_flag true (set_topic_alias n p)
  | MaximumQoS b => set_maximum_qos_flag true (set_maximum_qos b p)
  | RetainAvailable b => set_retain_available_flag true (set_retain_available b p)
  | UserProperty k v => set_user (p_user p ++ [(k, v)]) p
  | MaximumPacketSize n => set_maximum_packet_size n p
  | WildcardSubAvailable b => set_wildcard_sub_available_flag true (set_wildcard_sub_available b p)
  | SubIdAvailable b => set_sub_id_available_flag true (set_sub_id_available b p)
  | SharedSubAvailable b => set_shared_sub_available_flag true (set_shared_sub_available b p)
  end.

Definition store_all (ps : list sprop) (p : props) : props := fold_left (fun q c => store c q) ps p.
Definition props_of (ps : list sprop) : props := store_all ps props0.

Definition first_sub_id (ps : list sprop) : N :=
  match p_sub_ids (props_of ps) with i :: _ => i | [] => 0 end.

Definition sub_of (ident : N) (f : sfilter) : subscription :=
  mksub (f_filter f) ident (f_retain_handling f) (f_qos f) (f_retain_as_published f) (f_no_local f).

Definition opt_bytes (o : option bytes) : bytes := match o with Some b => b | None => [] end.

(* the Go packet the sender of [p] meant, on a connection of protocol version [v], when the fixed
   header carried remaining length [rem] *)
Definition expected (v : N) (p : spkt) (rem : N) : packet :=
  let base ty qos dup retain := set_pk_fh (mkfh rem ty qos dup retain) (set_pk_version v packet0) in
  match p with
  | SConnect lvl clean ka ps cid will user pass =>
      let c := mkconn
        (match will with Some w => props_of (will_props w) | None => props0 end)
        (opt_bytes pass) (opt_bytes user)
        (if lvl =? 3 then bytes_of_string "MQIsdp" else bytes_of_string "MQTT")
        (match will with Some w => will_payload w | None => [] end)
        cid
        (match will with Some w => will_topic w | None => [] end)
        ka (is_some pass) (is_some user)
        (match will with Some w => will_qos w | None => 0 end)
        (is_some will)
        (match will with Some w => will_retain w | None => false end)
        clean in
      set_pk_connect c (set_pk_props (props_of ps) (set_pk_version lvl (base 1 0 false false)))
  | SConnack sp code ps =>
      set_pk_session_present sp (set_pk_reason_code code (set_pk_props (props_of ps) (base 2 0 false false)))
  | SPublish dup qos retain topic id ps payload =>
      set_pk_topic topic (set_pk_packet_id id (set_pk_props (props_of ps)
        (set_pk_payload payload (base 3 qos dup retain))))
  | SAck k id reason ps =>
      set_pk_packet_id id (set_pk_reason_code reason (set_pk_props (props_of ps)
        (base (ack_type k) (match k with KPubrel => 1 | _ => 0 end) false false)))
  | SSubscribe id ps fs =>
      set_pk_packet_id id (set_pk_props (props_of ps)
        (set_pk_filters (map (sub_of (first_sub_id ps)) fs) (base 8 1 false false)))
  | SSuback id ps codes =>
      set_pk_packet_id id (set_pk_props (props_of ps) (set_pk_reason_codes codes (base 9 0 false false)))
  | SUnsubscribe id ps fs =>
      set_pk_packet_id id (set_pk_props (props_of ps)
        (set_pk_filters (map (fun f => set_s_filter f sub0) fs) (base 10 1 false false)))
  | SUnsuback id ps codes =>
      set_pk_packet_id id (set_pk_props (props_of ps) (set_pk_reason_codes codes (base 11 0 false false)))
  | SPingreq => base 12 0 false false
  | SPingresp => base 13 0 false false
  | SDisconnect reason ps => set_pk_reason_code reason (set_pk_props (props_of ps) (base 14 0 false false))
  | SAuth reason ps => set_pk_reason_code reason (set_pk_props (props_of ps) (base 15 0 false false))
  end.
