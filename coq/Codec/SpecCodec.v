(* Reference codec written from the OASIS texts (MQTT 3.1.1 os, MQTT 5.0 os), independent of the
   mochi model: a readable packet type [spkt], a strict decoder
       spec_decode_packet (version : N) (bs : bytes) : option (spkt * bytes)
   over whole packets (fixed header included; the unread rest of the stream is returned), the
   canonical encoder [spec_encode_packet] and the enumerator [spec_forms] of every shortened form
   the standard permits.  [version] is the protocol level of the connection: 3 (MQTT 3.1, treated
   as 3.1.1), 4 (MQTT 3.1.1) or 5; a CONNECT packet carries its own level.
   Only Base/Val.v and the specification half of Codec/Vbi.v are used.  No proofs in this file.
   Section numbers refer to the MQTT 5.0 text unless marked [3.1.1]. *)
From MV Require Import Base.Val Codec.Vbi.
Open Scope N_scope.

(* ------------------------------------------------------------------------------------------ *)
(* 2.2.2.2  Properties                                                                          *)

Inductive sprop :=
| PayloadFormat (b : N)            (* 1   byte                  PUBLISH, Will *)
| MessageExpiry (n : N)            (* 2   four byte integer     PUBLISH, Will *)
| ContentType (s : bytes)          (* 3   UTF-8 string          PUBLISH, Will *)
| ResponseTopic (s : bytes)        (* 8   UTF-8 string          PUBLISH, Will *)
| CorrelationData (d : bytes)      (* 9   binary data           PUBLISH, Will *)
| SubscriptionId (n : N)           (* 11  variable byte integer PUBLISH, SUBSCRIBE *)
| SessionExpiry (n : N)            (* 17  four byte integer     CONNECT, CONNACK, DISCONNECT *)
| AssignedClientId (s : bytes)     (* 18  UTF-8 string          CONNACK *)
| ServerKeepAlive (n : N)          (* 19  two byte integer      CONNACK *)
| AuthMethod (s : bytes)           (* 21  UTF-8 string          CONNECT, CONNACK, AUTH *)
| AuthData (d : bytes)             (* 22  binary data           CONNECT, CONNACK, AUTH *)
| RequestProblemInfo (b : N)       (* 23  byte                  CONNECT *)
| WillDelay (n : N)                (* 24  four byte integer     Will *)
| RequestResponseInfo (b : N)      (* 25  byte                  CONNECT *)
| ResponseInfo (s : bytes)         (* 26  UTF-8 string          CONNACK *)
| ServerReference (s : bytes)      (* 28  UTF-8 string          CONNACK, DISCONNECT *)
| ReasonString (s : bytes)         (* 31  UTF-8 string          CONNACK, acks, SUBACK, UNSUBACK, DISCONNECT, AUTH *)
| ReceiveMaximum (n : N)           (* 33  two byte integer      CONNECT, CONNACK *)
| TopicAliasMaximum (n : N)        (* 34  two byte integer      CONNECT, CONNACK *)
| TopicAlias (n : N)               (* 35  two byte integer      PUBLISH *)
| MaximumQoS (b : N)               (* 36  byte                  CONNACK *)
| RetainAvailable (b : N)          (* 37  byte                  CONNACK *)
| UserProperty (k v : bytes)       (* 38  UTF-8 string pair     everywhere *)
| MaximumPacketSize (n : N)        (* 39  four byte integer     CONNECT, CONNACK *)
| WildcardSubAvailable (b : N)     (* 40  byte                  CONNACK *)
| SubIdAvailable (b : N)           (* 41  byte                  CONNACK *)
| SharedSubAvailable (b : N).      (* 42  byte                  CONNACK *)

Definition prop_id (c : sprop) : N :=
  match c with
  | PayloadFormat _ => 1 | MessageExpiry _ => 2 | ContentType _ => 3 | ResponseTopic _ => 8
  | CorrelationData _ => 9 | SubscriptionId _ => 11 | SessionExpiry _ => 17
  | AssignedClientId _ => 18 | ServerKeepAlive _ => 19 | AuthMethod _ => 21 | AuthData _ => 22
  | RequestProblemInfo _ => 23 | WillDelay _ => 24 | RequestResponseInfo _ => 25
  | ResponseInfo _ => 26 | ServerReference _ => 28 | ReasonString _ => 31 | ReceiveMaximum _ => 33
  | TopicAliasMaximum _ => 34 | TopicAlias _ => 35 | MaximumQoS _ => 36 | RetainAvailable _ => 37
  | UserProperty _ _ => 38 | MaximumPacketSize _ => 39 | WildcardSubAvailable _ => 40
  | SubIdAvailable _ => 41 | SharedSubAvailable _ => 42
  end.

(* ------------------------------------------------------------------------------------------ *)
(* the packets                                                                                  *)

Record swill := mkwill {
  will_props : list sprop; will_topic : bytes; will_payload : bytes; will_qos : N; will_retain : bool }.

Record sfilter := mkfilter {
  f_filter : bytes; f_qos : N; f_no_local : bool; f_retain_as_published : bool; f_retain_handling : N }.

Inductive ack_kind := KPuback | KPubrec | KPubrel | KPubcomp.

Inductive spkt :=
| SConnect (level : N) (clean_start : bool) (keep_alive : N) (props : list sprop)
           (client_id : bytes) (will : option swill) (username password : option bytes)
| SConnack (session_present : bool) (code : N) (props : list sprop)
| SPublish (dup : bool) (qos : N) (retain : bool) (topic : bytes) (packet_id : N)   (* 0 iff QoS 0 *)
           (props : list sprop) (payload : bytes)
| SAck (kind : ack_kind) (packet_id : N) (reason : N) (props : list sprop)
| SSubscribe (packet_id : N) (props : list sprop) (filters : list sfilter)
| SSuback (packet_id : N) (props : list sprop) (codes : list N)
| SUnsubscribe (packet_id : N) (props : list sprop) (filters : list bytes)
| SUnsuback (packet_id : N) (props : list sprop) (codes : list N)
| SPingreq
| SPingresp
| SDisconnect (reason : N) (props : list sprop)
| SAuth (reason : N) (props : list sprop).

(* packet type numbers, 2.1.2 *)
Definition ack_type (k : ack_kind) : N :=
  match k with KPuback => 4 | KPubrec => 5 | KPubrel => 6 | KPubcomp => 7 end.

Definition ptype (p : spkt) : N :=
  match p with
  | SConnect _ _ _ _ _ _ _ _ => 1 | SConnack _ _ _ => 2 | SPublish _ _ _ _ _ _ _ => 3
  | SAck k _ _ _ => ack_type k | SSubscribe _ _ _ => 8 | SSuback _ _ _ => 9
  | SUnsubscribe _ _ _ => 10 | SUnsuback _ _ _ => 11 | SPingreq => 12 | SPingresp => 13
  | SDisconnect _ _ => 14 | SAuth _ _ => 15
  end.

(* packets a client may send (2.1.2, column "Direction of flow") *)
Definition client_sendable (p : spkt) : bool :=
  match p with
  | SConnect _ _ _ _ _ _ _ _ | SPublish _ _ _ _ _ _ _ | SAck _ _ _ _ | SSubscribe _ _ _
  | SUnsubscribe _ _ _ | SPingreq | SDisconnect _ _ | SAuth _ _ => true
  | _ => false
  end.

(* ------------------------------------------------------------------------------------------ *)
(* 1.5  data representation                                                                     *)

Definition len (bs : bytes) : N := N.of_nat (length bs).

(* 1.5.4 UTF-8 encoded string: well-formed UTF-8 (RFC 3629 section 4, the ABNF alternatives one by
   one), no null character U+0000, no surrogates (excluded by the ED 80-9F alternative) *)
Definition btw (b lo hi : N) : bool := (lo <=? b) && (b <=? hi).
Definition tail (b : N) : bool := btw b 128 191.

Fixpoint utf8_wf (bs : bytes) : bool :=
  match bs with
  | [] => true
  | a :: r =>
      if btw a 1 127 then utf8_wf r                                            (* UTF8-1 without NUL *)
      else match r with
           | [] => false
           | b :: r1 =>
               if btw a 194 223 && tail b then utf8_wf r1                      (* UTF8-2 *)
               else match r1 with
                    | [] => false
                    | c :: r2 =>
                        if (a =? 224) && btw b 160 191 && tail c then utf8_wf r2       (* UTF8-3 *)
                        else if btw a 225 236 && tail b && tail c then utf8_wf r2
                        else if (a =? 237) && btw b 128 159 && tail c then utf8_wf r2
                        else if btw a 238 239 && tail b && tail c then utf8_wf r2
                        else match r2 with
                             | [] => false
                             | d :: r3 =>
                                 if (a =? 240) && btw b 144 191 && tail c && tail d then utf8_wf r3   (* UTF8-4 *)
                                 else if btw a 241 243 && tail b && tail c && tail d then utf8_wf r3
                                 else if (a =? 244) && btw b 128 143 && tail c && tail d then utf8_wf r3
                                 else false
                             end
                    end
           end
  end.

Definition str_ok (s : bytes) : bool := (len s <=? 65535) && utf8_wf s.
Definition bin_ok (d : bytes) : bool := len d <=? 65535.

(* option monad *)
Definition obind {A B} (o : option A) (f : A -> option B) : option B :=
  match o with Some a => f a | None => None end.
Notation "'do' x '<-' o ';' k" := (obind o (fun x => k))
  (at level 200, x pattern, o at level 100, k at level 200, right associativity).
Definition guard (b : bool) : option unit := if b then Some tt else None.

(* readers: take a value from the front of the remaining bytes *)
Definition get_u8 (bs : bytes) : option (N * bytes) :=
  match bs with b :: r => Some (b, r) | _ => None end.
Definition get_u16 (bs : bytes) : option (N * bytes) :=
  match bs with a :: b :: r => Some (a * 256 + b, r) | _ => None end.
Definition get_u32 (bs : bytes) : option (N * bytes) :=
  match bs with a :: b :: c :: d :: r => Some (((a * 256 + b) * 256 + c) * 256 + d, r) | _ => None end.
Definition take (n : N) (bs : bytes) : option (bytes * bytes) :=
  if len bs <? n then None else Some (firstn (N.to_nat n) bs, skipn (N.to_nat n) bs).
Definition get_bin (bs : bytes) : option (bytes * bytes) :=
  do (n, r) <- get_u16 bs; take n r.
Definition get_str (bs : bytes) : option (bytes * bytes) :=
  do (s, r) <- get_bin bs; do _ <- guard (utf8_wf s); Some (s, r).
(* 1.5.5: at most four bytes, and the minimum number of bytes [MQTT-1.5.5-1] *)
Definition get_vbi (bs : bytes) : option (N * bytes) :=
  do (n, r) <- Vbi.spec_decode bs;
  do _ <- guard (N.of_nat (length bs - length r) =? vbi_min_len n);
  Some (n, r).

(* writers *)
Definition put_u16 (n : N) : bytes := [n / 256; n mod 256].
Definition put_u32 (n : N) : bytes := [n / 16777216; (n / 65536) mod 256; (n / 256) mod 256; n mod 256].
Definition put_bin (d : bytes) : bytes := put_u16 (len d) ++ d.
Definition put_str (s : bytes) : bytes := put_bin s.
Definition put_vbi (n : N) : bytes :=
  if n <? 128 then [n]
  else if n <? 16384 then [n mod 128 + 128; n / 128]
  else if n <? 2097152 then [n mod 128 + 128; (n / 128) mod 128 + 128; n / 16384]
  else [n mod 128 + 128; (n / 128) mod 128 + 128; (n / 16384) mod 128 + 128; n / 2097152].

(* ------------------------------------------------------------------------------------------ *)
(* properties on the wire                                                                       *)

Definition get_prop (bs : bytes) : option (sprop * bytes) :=
  do (id, r) <- get_u8 bs;
  match id with
  | 1 => do (v, r) <- get_u8 r; Some (PayloadFormat v, r)
  | 2 => do (v, r) <- get_u32 r; Some (MessageExpiry v, r)
  | 3 => do (v, r) <- get_str r; Some (ContentType v, r)
  | 8 => do (v, r) <- get_str r; Some (ResponseTopic v, r)
  | 9 => do (v, r) <- get_bin r; Some (CorrelationData v, r)
  | 11 => do (v, r) <- get_vbi r; Some (SubscriptionId v, r)
  | 17 => do (v, r) <- get_u32 r; Some (SessionExpiry v, r)
  | 18 => do (v, r) <- get_str r; Some (AssignedClientId v, r)
  | 19 => do (v, r) <- get_u16 r; Some (ServerKeepAlive v, r)
  | 21 => do (v, r) <- get_str r; Some (AuthMethod v, r)
  | 22 => do (v, r) <- get_bin r; Some (AuthData v, r)
  | 23 => do (v, r) <- get_u8 r; Some (RequestProblemInfo v, r)
  | 24 => do (v, r) <- get_u32 r; Some (WillDelay v, r)
  | 25 => do (v, r) <- get_u8 r; Some (RequestResponseInfo v, r)
  | 26 => do (v, r) <- get_str r; Some (ResponseInfo v, r)
  | 28 => do (v, r) <- get_str r; Some (ServerReference v, r)
  | 31 => do (v, r) <- get_str r; Some (ReasonString v, r)
  | 33 => do (v, r) <- get_u16 r; Some (ReceiveMaximum v, r)
  | 34 => do (v, r) <- get_u16 r; Some (TopicAliasMaximum v, r)
  | 35 => do (v, r) <- get_u16 r; Some (TopicAlias v, r)
  | 36 => do (v, r) <- get_u8 r; Some (MaximumQoS v, r)
  | 37 => do (v, r) <- get_u8 r; Some (RetainAvailable v, r)
  | 38 => do (k, r) <- get_str r; do (v, r) <- get_str r; Some (UserProperty k v, r)
  | 39 => do (v, r) <- get_u32 r; Some (MaximumPacketSize v, r)
  | 40 => do (v, r) <- get_u8 r; Some (WildcardSubAvailable v, r)
  | 41 => do (v, r) <- get_u8 r; Some (SubIdAvailable v, r)
  | 42 => do (v, r) <- get_u8 r; Some (SharedSubAvailable v, r)
  | _ => None
  end.

Definition put_prop (c : sprop) : bytes :=
  prop_id c ::
  match c with
  | PayloadFormat b | RequestProblemInfo b | RequestResponseInfo b | MaximumQoS b
  | RetainAvailable b | WildcardSubAvailable b | SubIdAvailable b | SharedSubAvailable b => [b]
  | MessageExpiry n | SessionExpiry n | WillDelay n | MaximumPacketSize n => put_u32 n
  | ServerKeepAlive n | ReceiveMaximum n | TopicAliasMaximum n | TopicAlias n => put_u16 n
  | ContentType s | ResponseTopic s | AssignedClientId s | AuthMethod s | ResponseInfo s
  | ServerReference s | ReasonString s => put_str s
  | CorrelationData d | AuthData d => put_bin d
  | SubscriptionId n => put_vbi n
  | UserProperty k v => put_str k ++ put_str v
  end.

Definition put_props_body (ps : list sprop) : bytes := concat (map put_prop ps).
(* property length + properties *)
Definition put_props (ps : list sprop) : bytes :=
  put_vbi (len (put_props_body ps)) ++ put_props_body ps.

Fixpoint parse_props (fuel : nat) (bs : bytes) : option (list sprop) :=
  match bs with
  | [] => Some []
  | _ => match fuel with
         | O => None
         | S f => do (c, r) <- get_prop bs; do cs <- parse_props f r; Some (c :: cs)
         end
  end.

(* property length, then exactly that many bytes of properties *)
Definition get_props (bs : bytes) : option (list sprop * bytes) :=
  do (n, r) <- get_vbi bs;
  do (block, r) <- take n r;
  do ps <- parse_props (length block) block;
  Some (ps, r).

(* where a property list occurs *)
Inductive pctx :=
| XConnect | XConnack | XPublish | XAck | XSubscribe | XSuback | XUnsubscribe | XUnsuback
| XDisconnect | XAuth | XWill.

(* the table of 2.2.2.2 *)
Definition prop_allowed (x : pctx) (c : sprop) : bool :=
  match c, x with
  | (PayloadFormat _ | MessageExpiry _ | ContentType _ | ResponseTopic _ | CorrelationData _),
    (XPublish | XWill) => true
  | SubscriptionId _, (XPublish | XSubscribe) => true
  | SessionExpiry _, (XConnect | XConnack | XDisconnect) => true
  | (AssignedClientId _ | ServerKeepAlive _ | ResponseInfo _ | MaximumQoS _ | RetainAvailable _
    | WildcardSubAvailable _ | SubIdAvailable _ | SharedSubAvailable _), XConnack => true
  | (AuthMethod _ | AuthData _), (XConnect | XConnack | XAuth) => true
  | (RequestProblemInfo _ | RequestResponseInfo _), XConnect => true
  | WillDelay _, XWill => true
  | ServerReference _, (XConnack | XDisconnect) => true
  | ReasonString _, (XConnack | XAck | XSuback | XUnsuback | XDisconnect | XAuth) => true
  | (ReceiveMaximum _ | TopicAliasMaximum _ | MaximumPacketSize _), (XConnect | XConnack) => true
  | TopicAlias _, XPublish => true
  | UserProperty _ _, _ => true
  | _, _ => false
  end.

Definition is_bool_byte (b : N) : bool := b <=? 1.
Definition has_wild (s : bytes) : bool := existsb (fun b => (b =? 35) || (b =? 43)) s.   (* # + *)

(* the value rules stated with each property in 3.1.2.11, 3.1.3.2, 3.2.2.3, 3.3.2.3, 3.8.2.1 ... *)
Definition prop_value_ok (c : sprop) : bool :=
  match c with
  | PayloadFormat b | RequestProblemInfo b | RequestResponseInfo b | MaximumQoS b
  | RetainAvailable b | WildcardSubAvailable b | SubIdAvailable b | SharedSubAvailable b => is_bool_byte b
  | MessageExpiry n | SessionExpiry n | WillDelay n => n <=? 4294967295
  | MaximumPacketSize n => (1 <=? n) && (n <=? 4294967295)
  | ServerKeepAlive n | TopicAliasMaximum n => n <=? 65535
  | ReceiveMaximum n | TopicAlias n => (1 <=? n) && (n <=? 65535)
  | ContentType s | AssignedClientId s | AuthMethod s | ResponseInfo s | ServerReference s
  | ReasonString s => str_ok s
  | ResponseTopic s => str_ok s && negb (has_wild s)
  | CorrelationData d | AuthData d => bin_ok d
  | SubscriptionId n => (1 <=? n) && (n <=? 268435455)
  | UserProperty k v => str_ok k && str_ok v
  end.

(* may appear more than once: User Property always; Subscription Identifier in a PUBLISH only *)
Definition repeatable (x : pctx) (c : sprop) : bool :=
  match c, x with
  | UserProperty _ _, _ => true
  | SubscriptionId _, XPublish => true
  | _, _ => false
  end.

Fixpoint no_dup_ids (x : pctx) (seen : list N) (ps : list sprop) : bool :=
  match ps with
  | [] => true
  | c :: r =>
      if repeatable x c then no_dup_ids x seen r
      else negb (existsb (N.eqb (prop_id c)) seen) && no_dup_ids x (prop_id c :: seen) r
  end.

Definition has_prop (id : N) (ps : list sprop) : bool := existsb (fun c => prop_id c =? id) ps.

Definition props_ok (x : pctx) (ps : list sprop) : bool :=
  forallb (prop_allowed x) ps && forallb prop_value_ok ps && no_dup_ids x [] ps
  && (negb (has_prop 22 ps) || has_prop 21 ps)        (* Authentication Data needs a Method *)
  && (len (put_props_body ps) <=? 268435455).

(* ------------------------------------------------------------------------------------------ *)
(* reason codes (2.4 and the per-packet tables)                                                 *)

Definition mem (x : N) (l : list N) : bool := existsb (N.eqb x) l.

Definition connack_codes_v5 : list N :=
  [0; 128; 129; 130; 131; 132; 133; 134; 135; 136; 137; 138; 140; 144; 149; 151; 153; 154; 155;
   156; 157; 159].
Definition puback_codes : list N := [0; 16; 128; 131; 135; 144; 145; 151; 153].
Definition pubrel_codes : list N := [0; 146].
Definition suback_codes_v5 : list N := [0; 1; 2; 128; 131; 135; 143; 145; 151; 158; 161; 162].
Definition suback_codes_v3 : list N := [0; 1; 2; 128].
Definition unsuback_codes : list N := [0; 17; 128; 131; 135; 143; 145].
Definition disconnect_codes : list N :=
  [0; 4; 128; 129; 130; 131; 135; 137; 139; 141; 142; 143; 144; 147; 148; 149; 150; 151; 152; 153;
   154; 155; 156; 157; 158; 159; 160; 161; 162].
Definition auth_codes : list N := [0; 24; 25].

Definition ack_codes (k : ack_kind) : list N :=
  match k with KPuback | KPubrec => puback_codes | KPubrel | KPubcomp => pubrel_codes end.

(* ------------------------------------------------------------------------------------------ *)
(* value rules per packet                                                                       *)

Definition v5 (version : N) : bool := version =? 5.
Definition legacy (version : N) : bool := (version =? 3) || (version =? 4).
Definition pid_ok (id : N) : bool := (1 <=? id) && (id <=? 65535).         (* [MQTT-2.2.1-3] *)
Definition opt_ok {A} (f : A -> bool) (o : option A) : bool :=
  match o with Some a => f a | None => true end.
Definition is_some {A} (o : option A) : bool := match o with Some _ => true | None => false end.

Definition no_props (ps : list sprop) : bool := match ps with [] => true | _ => false end.

Definition will_ok (lvl : N) (w : swill) : bool :=
  (if v5 lvl then props_ok XWill (will_props w) else no_props (will_props w))
  && str_ok (will_topic w) && bin_ok (will_payload w) && (will_qos w <=? 2).

Definition filter_ok (version : N) (f : sfilter) : bool :=
  str_ok (f_filter f) && (1 <=? len (f_filter f))                              (* [MQTT-4.7.3-1] *)
  && (f_qos f <=? 2)
  && (if v5 version then f_retain_handling f <=? 2                             (* [MQTT-3.8.3-5] *)
      else negb (f_no_local f) && negb (f_retain_as_published f) && (f_retain_handling f =? 0)).

Definition props_for (version : N) (x : pctx) (ps : list sprop) : bool :=
  if v5 version then props_ok x ps else no_props ps.

Definition valid_packet (version : N) (p : spkt) : bool :=
  match p with
  | SConnect lvl clean ka ps cid will user pass =>
      ((lvl =? 3) || (lvl =? 4) || (lvl =? 5)) && (ka <=? 65535)
      && props_for lvl XConnect ps && str_ok cid
      && opt_ok (will_ok lvl) will && opt_ok str_ok user && opt_ok bin_ok pass
      && (v5 lvl || is_some user || negb (is_some pass))                       (* [3.1.1] [MQTT-3.1.2-22] *)
  | SConnack sp code ps =>
      (v5 version || legacy version)
      && (if v5 version then mem code connack_codes_v5 else code <=? 5)
      && ((code =? 0) || negb sp)                                              (* [MQTT-3.2.2-6] *)
      && props_for version XConnack ps
  | SPublish dup qos retain topic id ps payload =>
      (v5 version || legacy version)
      && (qos <=? 2) && ((1 <=? qos) || negb dup)                              (* [MQTT-3.3.1-2] *)
      && str_ok topic && negb (has_wild topic)                                 (* [MQTT-3.3.2-2] *)
      && (if qos =? 0 then id =? 0 else pid_ok id)
      && props_for version XPublish ps
      && ((1 <=? len topic) || (v5 version && has_prop 35 ps))                 (* 3.3.2.1 *)
      && (len payload <=? 268435455)
  | SAck k id reason ps =>
      (v5 version || legacy version) && pid_ok id
      && (if v5 version then mem reason (ack_codes k) else reason =? 0)
      && props_for version XAck ps
  | SSubscribe id ps fs =>
      (v5 version || legacy version) && pid_ok id && props_for version XSubscribe ps
      && match fs with [] => false | _ => forallb (filter_ok version) fs end   (* [MQTT-3.8.3-2] *)
  | SSuback id ps codes =>
      (v5 version || legacy version) && pid_ok id && props_for version XSuback ps
      && match codes with [] => false | _ =>
           forallb (fun c => mem c (if v5 version then suback_codes_v5 else suback_codes_v3)) codes end
  | SUnsubscribe id ps fs =>
      (v5 version || legacy version) && pid_ok id && props_for version XUnsubscribe ps
      && match fs with [] => false | _ => forallb (fun f => str_ok f && (1 <=? len f)) fs end
  | SUnsuback id ps codes =>
      (v5 version || legacy version) && pid_ok id && props_for version XUnsuback ps
      && (if v5 version
          then match codes with [] => false | _ => forallb (fun c => mem c unsuback_codes) codes end
          else match codes with [] => true | _ => false end)
  | SPingreq | SPingresp => v5 version || legacy version
  | SDisconnect reason ps =>
      if v5 version then mem reason disconnect_codes && props_ok XDisconnect ps
      else legacy version && (reason =? 0) && no_props ps
  | SAuth reason ps =>
      v5 version && mem reason auth_codes && props_ok XAuth ps
  end.

(* ------------------------------------------------------------------------------------------ *)
(* decoder                                                                                      *)

(* 2.1.3 flags of the fixed header *)
Definition flags_ok (ty flags : N) : bool :=
  match ty with
  | 3 => true                                   (* PUBLISH: DUP QoS RETAIN, checked by valid_packet *)
  | 6 | 8 | 10 => flags =? 2                    (* PUBREL, SUBSCRIBE, UNSUBSCRIBE: 0010 *)
  | _ => flags =? 0
  end.

Definition get_props_v (version : N) (bs : bytes) : option (list sprop * bytes) :=
  if v5 version then get_props bs else Some ([], bs).

Definition bit (b i : N) : bool := N.testbit b i.

(* 3.1 CONNECT *)
Definition dec_connect (body : bytes) : option spkt :=
  do (name, r) <- get_str body;
  do (lvl, r) <- get_u8 r;
  do _ <- guard (if lvl =? 3 then beq_bytes name (bytes_of_string "MQIsdp")
                 else ((lvl =? 4) || (lvl =? 5)) && beq_bytes name (bytes_of_string "MQTT"));
  do (fl, r) <- get_u8 r;
  do _ <- guard (negb (bit fl 0));                                             (* [MQTT-3.1.2-3] *)
  let wflag := bit fl 2 in
  let wqos := (fl / 8) mod 4 in
  let wretain := bit fl 5 in
  do _ <- guard (wflag || ((wqos =? 0) && negb wretain));                      (* [MQTT-3.1.2-11,13] *)
  do (ka, r) <- get_u16 r;
  do (ps, r) <- get_props_v lvl r;
  do (cid, r) <- get_str r;
  do (will, r) <- (if wflag then
                     do (wps, r) <- get_props_v lvl r;
                     do (wt, r) <- get_str r;
                     do (wp, r) <- get_bin r;
                     Some (Some (mkwill wps wt wp wqos wretain), r)
                   else Some (None, r));
  do (user, r) <- (if bit fl 7 then do (u, r) <- get_str r; Some (Some u, r) else Some (None, r));
  do (pass, r) <- (if bit fl 6 then do (p, r) <- get_bin r; Some (Some p, r) else Some (None, r));
  match r with
  | [] => Some (SConnect lvl (bit fl 1) ka ps cid will user pass)
  | _ => None
  end.

(* reason code and properties that may be cut short at the end of a packet:
   no bytes -> (0, []); one byte -> (reason, []); more -> reason, property length, properties *)
Definition dec_reason_props (r : bytes) : option (N * list sprop) :=
  match r with
  | [] => Some (0, [])
  | [reason] => Some (reason, [])
  | reason :: r' => do (ps, r'') <- get_props r';
                    match r'' with [] => Some (reason, ps) | _ => None end
  end.

Fixpoint dec_filters (version : N) (fuel : nat) (bs : bytes) : option (list sfilter) :=
  match bs with
  | [] => Some []
  | _ => match fuel with
         | O => None
         | S f =>
             do (flt, r) <- get_str bs;
             do (o, r) <- get_u8 r;
             do _ <- guard (if v5 version then o <? 64 else o <? 4);          (* reserved bits 0 *)
             do fs <- dec_filters version f r;
             Some (mkfilter flt (o mod 4) (bit o 2) (bit o 3) ((o / 16) mod 4) :: fs)
         end
  end.

Fixpoint dec_strings (fuel : nat) (bs : bytes) : option (list bytes) :=
  match bs with
  | [] => Some []
  | _ => match fuel with
         | O => None
         | S f => do (s, r) <- get_str bs; do ss <- dec_strings f r; Some (s :: ss)
         end
  end.

Definition dec_body (version ty flags : N) (body : bytes) : option spkt :=
  match ty with
  | 1 => dec_connect body
  | 2 => do (ack, r) <- get_u8 body;
         do _ <- guard (ack <=? 1);                                            (* [MQTT-3.2.2-1] *)
         do (code, r) <- get_u8 r;
         do (ps, r) <- get_props_v version r;
         match r with [] => Some (SConnack (ack =? 1) code ps) | _ => None end
  | 3 => let qos := (flags / 2) mod 4 in
         do (topic, r) <- get_str body;
         do (id, r) <- (if qos =? 0 then Some (0, r) else get_u16 r);
         do (ps, r) <- get_props_v version r;
         Some (SPublish (bit flags 3) qos (bit flags 0) topic id ps r)
  | 4 | 5 | 6 | 7 =>
         let k := match ty with 4 => KPuback | 5 => KPubrec | 6 => KPubrel | _ => KPubcomp end in
         do (id, r) <- get_u16 body;
         if v5 version then do (reason, ps) <- dec_reason_props r; Some (SAck k id reason ps)
         else match r with [] => Some (SAck k id 0 []) | _ => None end
  | 8 => do (id, r) <- get_u16 body;
         do (ps, r) <- get_props_v version r;
         do fs <- dec_filters version (length r) r;
         Some (SSubscribe id ps fs)
  | 9 => do (id, r) <- get_u16 body;
         do (ps, r) <- get_props_v version r;
         Some (SSuback id ps r)
  | 10 => do (id, r) <- get_u16 body;
          do (ps, r) <- get_props_v version r;
          do fs <- dec_strings (length r) r;
          Some (SUnsubscribe id ps fs)
  | 11 => do (id, r) <- get_u16 body;
          do (ps, r) <- get_props_v version r;
          Some (SUnsuback id ps r)
  | 12 => match body with [] => Some SPingreq | _ => None end
  | 13 => match body with [] => Some SPingresp | _ => None end
  | 14 => if v5 version then do (reason, ps) <- dec_reason_props body; Some (SDisconnect reason ps)
          else match body with [] => Some (SDisconnect 0 []) | _ => None end
  | 15 => if v5 version then do (reason, ps) <- dec_reason_props body; Some (SAuth reason ps)
          else None
  | _ => None
  end.

Definition spec_decode_packet (version : N) (bs : bytes) : option (spkt * bytes) :=
  do (b0, r) <- get_u8 bs;
  let ty := b0 / 16 in
  let flags := b0 mod 16 in
  do _ <- guard (flags_ok ty flags);
  do (n, r) <- get_vbi r;
  do (body, rest) <- take n r;
  do p <- dec_body version ty flags body;
  do _ <- guard (valid_packet version p);
  Some (p, rest).

(* ------------------------------------------------------------------------------------------ *)
(* encoder                                                                                      *)

Definition bool_bit (b : bool) (i : N) : N := if b then 2 ^ i else 0.
Definition put_props_v (version : N) (ps : list sprop) : bytes :=
  if v5 version then put_props ps else [].

Definition put_filter (version : N) (f : sfilter) : bytes :=
  put_str (f_filter f) ++
  [f_qos f + bool_bit (f_no_local f) 2 + bool_bit (f_retain_as_published f) 3 + 16 * f_retain_handling f].

Definition pflags (p : spkt) : N :=
  match p with
  | SPublish dup qos retain _ _ _ _ => bool_bit dup 3 + 2 * qos + bool_bit retain 0
  | SAck KPubrel _ _ _ | SSubscribe _ _ _ | SUnsubscribe _ _ _ => 2
  | _ => 0
  end.

Definition connect_flags_of (clean : bool) (will : option swill) (user pass : option bytes) : N :=
  bool_bit clean 1
  + match will with
    | Some w => 4 + 8 * will_qos w + bool_bit (will_retain w) 5
    | None => 0
    end
  + bool_bit (is_some pass) 6 + bool_bit (is_some user) 7.

(* the complete form of the variable header + payload (nothing omitted) *)
Definition full_body (version : N) (p : spkt) : bytes :=
  match p with
  | SConnect lvl clean ka ps cid will user pass =>
      put_str (if lvl =? 3 then bytes_of_string "MQIsdp" else bytes_of_string "MQTT")
      ++ [lvl; connect_flags_of clean will user pass] ++ put_u16 ka ++ put_props_v lvl ps ++ put_str cid
      ++ match will with
         | Some w => put_props_v lvl (will_props w) ++ put_str (will_topic w) ++ put_bin (will_payload w)
         | None => []
         end
      ++ match user with Some u => put_str u | None => [] end
      ++ match pass with Some pw => put_bin pw | None => [] end
  | SConnack sp code ps => [if sp then 1 else 0; code] ++ put_props_v version ps
  | SPublish dup qos retain topic id ps payload =>
      put_str topic ++ (if qos =? 0 then [] else put_u16 id) ++ put_props_v version ps ++ payload
  | SAck k id reason ps => put_u16 id ++ (if v5 version then reason :: put_props ps else [])
  | SSubscribe id ps fs => put_u16 id ++ put_props_v version ps ++ concat (map (put_filter version) fs)
  | SSuback id ps codes => put_u16 id ++ put_props_v version ps ++ codes
  | SUnsubscribe id ps fs => put_u16 id ++ put_props_v version ps ++ concat (map put_str fs)
  | SUnsuback id ps codes => put_u16 id ++ put_props_v version ps ++ codes
  | SPingreq | SPingresp => []
  | SDisconnect reason ps => if v5 version then reason :: put_props ps else []
  | SAuth reason ps => reason :: put_props ps
  end.

(* the bodies the standard permits for the same packet: the complete form and, in MQTT 5,
     - acknowledgements (3.4.2.1, 3.5.2.1, 3.6.2.1, 3.7.2.1): reason code and property length may be
       omitted when the reason is 0x00 and there are no properties (remaining length 2); the
       property length may be omitted when there are no properties (remaining length 3);
     - DISCONNECT (3.14.2.1, 3.14.2.2.1): the same with remaining length 0 and 1;
     - AUTH (3.15.2.1): remaining length 0 when the reason is 0x00 and there are no properties; a
       reason code alone (remaining length 1) is accepted in analogy with DISCONNECT.            *)
Definition bodies (version : N) (p : spkt) : list bytes :=
  let full := full_body version p in
  if negb (v5 version) then [full]
  else match p with
       | SAck _ id reason ps =>
           full :: (if no_props ps then [put_u16 id ++ [reason]] else [])
                ++ (if no_props ps && (reason =? 0) then [put_u16 id] else [])
       | SDisconnect reason ps | SAuth reason ps =>
           full :: (if no_props ps then [[reason]] else [])
                ++ (if no_props ps && (reason =? 0) then [[]] else [])
       | _ => [full]
       end.

Definition frame (p : spkt) (body : bytes) : bytes :=
  (ptype p * 16 + pflags p) :: put_vbi (len body) ++ body.

(* canonical encoding; None when the packet is not valid for the version or too long *)
Definition spec_encode_packet (version : N) (p : spkt) : option bytes :=
  let body := full_body version p in
  if valid_packet version p && (len body <=? 268435455) then Some (frame p body) else None.

(* every encoding with the properties in the order given *)
Definition spec_forms (version : N) (p : spkt) : list bytes :=
  map (frame p) (filter (fun b => len b <=? 268435455) (bodies version p)).

(* ------------------------------------------------------------------------------------------ *)
(* property order: any order is permitted (2.2.2.2 "can be in any order"); the relative order of
   properties that may repeat is significant (User Property: 3.1.2.11.8 ... "order preserved")  *)

Definition can_repeat (c : sprop) : bool :=
  match c with UserProperty _ _ | SubscriptionId _ => true | _ => false end.

From Coq Require Import Permutation.

Definition reorder (ps ps' : list sprop) : Prop :=
  Permutation ps ps' /\ filter can_repeat ps = filter can_repeat ps'.

(* the same packet with its property lists reordered *)
Inductive same_packet : spkt -> spkt -> Prop :=
| same_connect lvl clean ka ps ps' cid user pass :
    reorder ps ps' ->
    same_packet (SConnect lvl clean ka ps cid None user pass) (SConnect lvl clean ka ps' cid None user pass)
| same_connect_will lvl clean ka ps ps' cid wps wps' wt wp wq wr user pass :
    reorder ps ps' -> reorder wps wps' ->
    same_packet (SConnect lvl clean ka ps cid (Some (mkwill wps wt wp wq wr)) user pass)
                (SConnect lvl clean ka ps' cid (Some (mkwill wps' wt wp wq wr)) user pass)
| same_connack sp code ps ps' : reorder ps ps' -> same_packet (SConnack sp code ps) (SConnack sp code ps')
| same_publish dup qos retain topic id ps ps' payload :
    reorder ps ps' ->
    same_packet (SPublish dup qos retain topic id ps payload) (SPublish dup qos retain topic id ps' payload)
| same_ack k id reason ps ps' : reorder ps ps' -> same_packet (SAck k id reason ps) (SAck k id reason ps')
| same_subscribe id ps ps' fs : reorder ps ps' -> same_packet (SSubscribe id ps fs) (SSubscribe id ps' fs)
| same_suback id ps ps' cs : reorder ps ps' -> same_packet (SSuback id ps cs) (SSuback id ps' cs)
| same_unsubscribe id ps ps' fs : reorder ps ps' -> same_packet (SUnsubscribe id ps fs) (SUnsubscribe id ps' fs)
| same_unsuback id ps ps' cs : reorder ps ps' -> same_packet (SUnsuback id ps cs) (SUnsuback id ps' cs)
| same_pingreq : same_packet SPingreq SPingreq
| same_pingresp : same_packet SPingresp SPingresp
| same_disconnect reason ps ps' : reorder ps ps' -> same_packet (SDisconnect reason ps) (SDisconnect reason ps')
| same_auth reason ps ps' : reorder ps ps' -> same_packet (SAuth reason ps) (SAuth reason ps').

(* [bs] is an encoding of [p] that the standard permits: some reordering of the properties, some
   permitted omission *)
Definition spec_encodings (version : N) (p : spkt) (bs : bytes) : Prop :=
  exists p', same_packet p p' /\ In bs (spec_forms version p').
