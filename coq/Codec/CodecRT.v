(* Combinator lemmas for the codec round-trip proofs (C42, C26): what the offset-based decoders of
   Wire.v / Props.v return when the buffer, from the current offset on, starts with the reference
   encoding (the put_ functions of SpecCodec.v) of a value. *)
From MV Require Import Base.Val Base.Bytes Codec.Vbi Codec.VbiProofs Codec.Wire Codec.Props Codec.MochiCodec
  Codec.SpecCodec Codec.SpecBridge Codec.CodecTotal.
From Coq Require Import Lia ZifyBool ZifyN ZifyNat.
Ltac Zify.zify_post_hook ::= Z.div_mod_to_equations.
Open Scope N_scope.
Set Warnings "-unused-intro-pattern".

Arguments N.mul : simpl never.
Arguments N.add : simpl never.
Arguments N.sub : simpl never.
Arguments N.div : simpl never.
Arguments N.modulo : simpl never.
Arguments N.shiftl : simpl never.
Arguments N.shiftr : simpl never.
Arguments N.lor : simpl never.
Arguments N.land : simpl never.
Arguments N.ltb : simpl never.
Arguments N.leb : simpl never.
Arguments N.eqb : simpl never.
Arguments N.of_nat : simpl never.
Arguments N.to_nat : simpl never.

(* ---------- cursor: the buffer from offset [off] on is [suf] ---------- *)

Definition cur (buf : bytes) (off : N) (suf : bytes) : Prop :=
  exists pre, buf = pre ++ suf /\ blen pre = off.

Lemma cur_start buf : cur buf 0 buf.
Proof. exists []. split; reflexivity. Qed.

Lemma cur_adv buf off e r : cur buf off (e ++ r) -> cur buf (off + blen e) r.
Proof.
  intros (pre & -> & <-). exists (pre ++ e). split.
  - rewrite app_assoc. reflexivity.
  - apply blen_app.
Qed.

Lemma cur_le buf off suf : cur buf off suf -> off + blen suf = blen buf.
Proof. intros (pre & -> & <-). rewrite blen_app. reflexivity. Qed.

Lemma len_blen (b : bytes) : len b = blen b.
Proof. reflexivity. Qed.

Lemma to_nat_blen (l : bytes) : N.to_nat (blen l) = length l.
Proof. unfold blen. lia. Qed.

Lemma index_cur buf off b r : cur buf off (b :: r) -> index buf off = Ok b.
Proof.
  intros (pre & -> & <-). unfold index. rewrite to_nat_blen.
  rewrite nth_error_app2 by lia. rewrite Nat.sub_diag. reflexivity.
Qed.

Lemma slice_cur buf off e r : cur buf off (e ++ r) -> slice buf off (off + blen e) = Ok e.
Proof.
  intros (pre & -> & <-). unfold slice.
  replace ((blen pre <=? blen pre + blen e) && (blen pre + blen e <=? blen (pre ++ e ++ r))) with true
    by (rewrite !blen_app; lia).
  replace (blen pre + blen e - blen pre) with (blen e) by lia.
  rewrite !to_nat_blen. rewrite skipn_app, skipn_all, Nat.sub_diag. cbn [skipn app].
  rewrite firstn_app, firstn_all, Nat.sub_diag. cbn [firstn]. rewrite app_nil_r. reflexivity.
Qed.

Lemma slice_from_cur buf off suf : cur buf off suf -> slice_from buf off = Ok suf.
Proof.
  intro H. unfold slice_from. pose proof (cur_le _ _ _ H) as L.
  rewrite <- (app_nil_r suf) in H. rewrite <- L.
  apply slice_cur in H. exact H.
Qed.

(* ---------- fixed-size fields ---------- *)

Lemma decodeByte_cur buf off b r : cur buf off (b :: r) -> decodeByte buf off = Ok (b, off + 1).
Proof.
  intro H. unfold decodeByte. pose proof (cur_le _ _ _ H) as L. rewrite blen_cons in L.
  replace (blen buf <=? off) with false by lia.
  rewrite (index_cur _ _ _ _ H). reflexivity.
Qed.

Lemma decodeByteBool_cur buf off b r :
  cur buf off (b :: r) -> decodeByteBool buf off = Ok (0 <? N.land 1 b, off + 1).
Proof.
  intro H. unfold decodeByteBool. pose proof (cur_le _ _ _ H) as L. rewrite blen_cons in L.
  replace (blen buf <=? off) with false by lia.
  rewrite (index_cur _ _ _ _ H). reflexivity.
Qed.

Lemma decodeUint16_cur buf off a b r :
  cur buf off (a :: b :: r) -> decodeUint16 buf off = Ok (a * 256 + b, off + 2).
Proof.
  intro H. unfold decodeUint16. pose proof (cur_le _ _ _ H) as L. rewrite !blen_cons in L.
  replace (blen buf <? off + 2) with false by lia.
  change (a :: b :: r) with ([a; b] ++ r) in H.
  pose proof (slice_cur _ _ _ _ H) as S. change (blen [a; b]) with 2 in S. rewrite S.
  reflexivity.
Qed.

Lemma decodeUint32_cur buf off a b c d r :
  cur buf off (a :: b :: c :: d :: r) ->
  decodeUint32 buf off = Ok (((a * 256 + b) * 256 + c) * 256 + d, off + 4).
Proof.
  intro H. unfold decodeUint32. pose proof (cur_le _ _ _ H) as L. rewrite !blen_cons in L.
  replace (blen buf <? off + 4) with false by lia.
  change (a :: b :: c :: d :: r) with ([a; b; c; d] ++ r) in H.
  pose proof (slice_cur _ _ _ _ H) as S. change (blen [a; b; c; d]) with 4 in S. rewrite S.
  reflexivity.
Qed.

Lemma put_u16_val n : (n / 256) * 256 + n mod 256 = n.
Proof. lia. Qed.

Lemma decodeUint16_put buf off n r :
  cur buf off (put_u16 n ++ r) -> decodeUint16 buf off = Ok (n, off + 2).
Proof.
  intro H. unfold put_u16 in H. cbn [app] in H. rewrite (decodeUint16_cur _ _ _ _ _ H).
  rewrite put_u16_val. reflexivity.
Qed.

Lemma decodeUint32_put buf off n r : n <= 4294967295 ->
  cur buf off (put_u32 n ++ r) -> decodeUint32 buf off = Ok (n, off + 4).
Proof.
  intros Hn H. unfold put_u32 in H. cbn [app] in H. rewrite (decodeUint32_cur _ _ _ _ _ _ _ H).
  f_equal. f_equal. lia.
Qed.

(* ---------- length-prefixed fields ---------- *)

Lemma decodeBytes_put buf off d r : blen d <= 65535 ->
  cur buf off (put_bin d ++ r) -> decodeBytes buf off = Ok (d, off + blen (put_bin d)).
Proof.
  intros Hd H. unfold decodeBytes, put_bin in *. rewrite <- app_assoc in H.
  rewrite (decodeUint16_put _ _ _ _ H). cbn beta iota delta [bind bind_err].
  apply cur_adv in H. change (blen (put_u16 (len d))) with 2 in H.
  pose proof (cur_le _ _ _ H) as L. rewrite blen_app in L. change (len d) with (blen d) in *.
  replace (blen buf <? off + 2 + blen d) with false by lia.
  rewrite (slice_cur _ _ _ _ H). cbn beta iota delta [bind bind_err]. rewrite blen_app.
  change (blen (put_u16 (blen d))) with 2. f_equal. f_equal. lia.
Qed.

Lemma blen_put_bin d : blen (put_bin d) = 2 + blen d.
Proof. unfold put_bin. rewrite blen_app. reflexivity. Qed.

Lemma decodeString_put buf off s r : blen s <= 65535 -> valid_utf8 s = true ->
  cur buf off (put_str s ++ r) -> decodeString buf off = Ok (s, off + blen (put_str s)).
Proof.
  intros Hs Hu H. unfold decodeString, put_str in *.
  rewrite (decodeBytes_put _ _ _ _ Hs H). cbn beta iota delta [bind bind_err]. rewrite Hu. reflexivity.
Qed.

(* ---------- UTF-8: what RFC 3629 calls well-formed (without NUL) is what codec.go accepts ---------- *)

Lemma utf8_wf_valid_n (n : nat) : forall s, (length s <= n)%nat -> utf8_wf s = true ->
  utf8_valid s = true /\ existsb (N.eqb 0) s = false.
Proof.
  induction n as [|n IH]; intros s Hl Hw.
  { destruct s; [split; reflexivity | cbn in Hl; lia]. }
  destruct s as [|a r]; [split; reflexivity|].
  cbn [length] in Hl. cbn [utf8_wf] in Hw. unfold tail, btw in Hw.
  cbn [utf8_valid existsb]. unfold cont, in_range.
  destruct ((1 <=? a) && (a <=? 127)) eqn:E1.
  { destruct (IH r ltac:(lia) Hw) as [I1 I2].
    replace (a <? 128) with true by lia. replace (0 =? a) with false by lia. split; assumption. }
  destruct r as [|b r1]; [discriminate|]. cbn [length] in Hl.
  destruct ((194 <=? a) && (a <=? 223) && ((128 <=? b) && (b <=? 191))) eqn:E2.
  { destruct (IH r1 ltac:(lia) Hw) as [I1 I2]. cbn [existsb].
    replace (a <? 128) with false by lia.
    replace ((194 <=? a) && (a <=? 223)) with true by lia.
    replace ((128 <=? b) && (b <=? 191)) with true by lia.
    replace (0 =? a) with false by lia. replace (0 =? b) with false by lia. split; assumption. }
  destruct r1 as [|c r2]; [discriminate|]. cbn [length] in Hl.
  assert (T3 : forall lo hi, 128 <= lo -> (224 <=? a) && (a <=? 239) = true ->
             (if a =? 224 then 160 else 128) = lo -> (if a =? 237 then 159 else 191) = hi ->
             (lo <=? b) && (b <=? hi) = true -> (128 <=? c) && (c <=? 191) = true ->
             utf8_wf r2 = true ->
             (if a <? 128 then utf8_valid (b :: c :: r2)
              else if (194 <=? a) && (a <=? 223) then (128 <=? b) && (b <=? 191) && utf8_valid (c :: r2)
              else if (224 <=? a) && (a <=? 239)
                   then ((if a =? 224 then 160 else 128) <=? b) && (b <=? (if a =? 237 then 159 else 191))
                        && ((128 <=? c) && (c <=? 191)) && utf8_valid r2
                   else if (240 <=? a) && (a <=? 244)
                        then match r2 with
                             | b3 :: r3 => ((if a =? 240 then 144 else 128) <=? b) && (b <=? (if a =? 244 then 143 else 191))
                                           && ((128 <=? c) && (c <=? 191)) && ((128 <=? b3) && (b3 <=? 191)) && utf8_valid r3
                             | _ => false
                             end
                        else false) = true /\
             (0 =? a) || ((0 =? b) || ((0 =? c) || existsb (N.eqb 0) r2)) = false).
  { intros lo hi Hlo128 Ha Hlo Hhi Hb Hc Hr. destruct (IH r2 ltac:(lia) Hr) as [I1 I2].
    replace (a <? 128) with false by lia.
    replace ((194 <=? a) && (a <=? 223)) with false by lia. rewrite Ha, Hlo, Hhi, Hb, Hc, I1, I2.
    replace (0 =? a) with false by lia. replace (0 =? b) with false by lia.
    replace (0 =? c) with false by lia. split; reflexivity. }
  cbn [existsb].
  destruct ((a =? 224) && ((160 <=? b) && (b <=? 191)) && ((128 <=? c) && (c <=? 191))) eqn:E3.
  { apply (T3 160 191); try assumption; try lia.
    - replace (a =? 224) with true by lia. reflexivity.
    - replace (a =? 237) with false by lia. reflexivity. }
  destruct ((225 <=? a) && (a <=? 236) && ((128 <=? b) && (b <=? 191)) && ((128 <=? c) && (c <=? 191))) eqn:E4.
  { apply (T3 128 191); try assumption; try lia.
    - replace (a =? 224) with false by lia. reflexivity.
    - replace (a =? 237) with false by lia. reflexivity. }
  destruct ((a =? 237) && ((128 <=? b) && (b <=? 159)) && ((128 <=? c) && (c <=? 191))) eqn:E5.
  { apply (T3 128 159); try assumption; try lia.
    - replace (a =? 224) with false by lia. reflexivity.
    - replace (a =? 237) with true by lia. reflexivity. }
  destruct ((238 <=? a) && (a <=? 239) && ((128 <=? b) && (b <=? 191)) && ((128 <=? c) && (c <=? 191))) eqn:E6.
  { apply (T3 128 191); try assumption; try lia.
    - replace (a =? 224) with false by lia. reflexivity.
    - replace (a =? 237) with false by lia. reflexivity. }
  clear T3.
  destruct r2 as [|d r3]; [discriminate|]. cbn [length] in Hl. cbn [existsb].
  assert (T4 : forall lo hi, 128 <= lo -> (240 <=? a) && (a <=? 244) = true ->
             (if a =? 240 then 144 else 128) = lo -> (if a =? 244 then 143 else 191) = hi ->
             (lo <=? b) && (b <=? hi) = true -> (128 <=? c) && (c <=? 191) = true ->
             (128 <=? d) && (d <=? 191) = true -> utf8_wf r3 = true ->
             (if a <? 128 then utf8_valid (b :: c :: d :: r3)
              else if (194 <=? a) && (a <=? 223) then (128 <=? b) && (b <=? 191) && utf8_valid (c :: d :: r3)
              else if (224 <=? a) && (a <=? 239)
                   then ((if a =? 224 then 160 else 128) <=? b) && (b <=? (if a =? 237 then 159 else 191))
                        && ((128 <=? c) && (c <=? 191)) && utf8_valid (d :: r3)
                   else if (240 <=? a) && (a <=? 244)
                        then ((if a =? 240 then 144 else 128) <=? b) && (b <=? (if a =? 244 then 143 else 191))
                             && ((128 <=? c) && (c <=? 191)) && ((128 <=? d) && (d <=? 191)) && utf8_valid r3
                        else false) = true /\
             (0 =? a) || ((0 =? b) || ((0 =? c) || ((0 =? d) || existsb (N.eqb 0) r3))) = false).
  { intros lo hi Hlo128 Ha Hlo Hhi Hb Hc Hd Hr. destruct (IH r3 ltac:(lia) Hr) as [I1 I2].
    replace (a <? 128) with false by lia.
    replace ((194 <=? a) && (a <=? 223)) with false by lia.
    replace ((224 <=? a) && (a <=? 239)) with false by lia.
    rewrite Ha, Hlo, Hhi, Hb, Hc, Hd, I1, I2.
    replace (0 =? a) with false by lia. replace (0 =? b) with false by lia.
    replace (0 =? c) with false by lia. replace (0 =? d) with false by lia. split; reflexivity. }
  destruct ((a =? 240) && ((144 <=? b) && (b <=? 191)) && ((128 <=? c) && (c <=? 191)) && ((128 <=? d) && (d <=? 191))) eqn:E7.
  { apply (T4 144 191); try assumption; try lia.
    - replace (a =? 240) with true by lia. reflexivity.
    - replace (a =? 244) with false by lia. reflexivity. }
  destruct ((241 <=? a) && (a <=? 243) && ((128 <=? b) && (b <=? 191)) && ((128 <=? c) && (c <=? 191)) && ((128 <=? d) && (d <=? 191))) eqn:E8.
  { apply (T4 128 191); try assumption; try lia.
    - replace (a =? 240) with false by lia. reflexivity.
    - replace (a =? 244) with false by lia. reflexivity. }
  destruct ((a =? 244) && ((128 <=? b) && (b <=? 143)) && ((128 <=? c) && (c <=? 191)) && ((128 <=? d) && (d <=? 191))) eqn:E9.
  { apply (T4 128 143); try assumption; try lia.
    - replace (a =? 240) with false by lia. reflexivity.
    - replace (a =? 244) with true by lia. reflexivity. }
  discriminate.
Qed.

Lemma utf8_wf_valid s : utf8_wf s = true -> valid_utf8 s = true.
Proof.
  intro H. destruct (utf8_wf_valid_n (length s) s (le_n _) H) as [H1 H2].
  unfold valid_utf8. rewrite H1, H2. reflexivity.
Qed.

Ltac decide_ifs :=
  repeat match goal with |- context [if ?c then _ else _] =>
    first [ replace c with true by lia; cbv iota | replace c with false by lia; cbv iota
          | destruct c eqn:?; cbv iota ] end.

(* converse of utf8_wf_valid: what codec.go accepts (utf8.Valid, no NUL) is well-formed by RFC 3629 *)
Lemma utf8_valid_wf_n (n : nat) : forall s, (length s <= n)%nat ->
  utf8_valid s = true -> existsb (N.eqb 0) s = false -> utf8_wf s = true.
Proof.
  induction n as [|n IH]; intros s Hl Hv Hz.
  { destruct s; [reflexivity | cbn in Hl; lia]. }
  destruct s as [|a r]; [reflexivity|].
  cbn [length] in Hl. cbn [utf8_valid] in Hv. cbn [existsb] in Hz. apply orb_false_iff in Hz. destruct Hz as [Za Zr].
  cbn [utf8_wf]. unfold tail, btw. unfold cont, in_range in Hv.
  destruct (a <? 128) eqn:E1.
  { replace ((1 <=? a) && (a <=? 127)) with true by lia. apply IH; [lia | exact Hv | exact Zr]. }
  replace ((1 <=? a) && (a <=? 127)) with false by lia.
  cbv iota in Hv. destruct ((194 <=? a) && (a <=? 223)) eqn:E2; cbv iota in Hv.
  { destruct r as [|b r1]; [discriminate Hv|]. cbn [length] in Hl. cbn [existsb] in Zr.
    apply orb_false_iff in Zr. destruct Zr as [Zb Zr1].
    apply andb_prop in Hv. destruct Hv as [Hb Hr1].
    rewrite Hb. cbn [andb]. apply IH; [lia | exact Hr1 | exact Zr1]. }
  destruct ((224 <=? a) && (a <=? 239)) eqn:E3; cbv iota in Hv.
  { destruct r as [|b [|c r2]]; try discriminate Hv. cbn [length] in Hl. cbn [existsb] in Zr.
    apply orb_false_iff in Zr. destruct Zr as [Zb Zr]. apply orb_false_iff in Zr. destruct Zr as [Zc Zr2].
    apply andb_prop in Hv. destruct Hv as [Hv Hr2]. apply andb_prop in Hv. destruct Hv as [Hb Hc].
    assert (IHr : utf8_wf r2 = true) by (apply IH; [lia | exact Hr2 | exact Zr2]).
    destruct (a =? 224) eqn:A0; destruct (a =? 237) eqn:A1; cbv iota in Hb; try (exfalso; lia); decide_ifs; first [exact IHr | exfalso; lia]. }
  destruct ((240 <=? a) && (a <=? 244)) eqn:E4; cbv iota in Hv; [|discriminate Hv].
  destruct r as [|b [|c [|d r3]]]; try discriminate Hv. cbn [length] in Hl. cbn [existsb] in Zr.
  apply orb_false_iff in Zr. destruct Zr as [Zb Zr]. apply orb_false_iff in Zr. destruct Zr as [Zc Zr].
  apply orb_false_iff in Zr. destruct Zr as [Zd Zr3].
  apply andb_prop in Hv. destruct Hv as [Hv Hr3]. apply andb_prop in Hv. destruct Hv as [Hv Hd].
  apply andb_prop in Hv. destruct Hv as [Hb Hc].
  assert (IHr : utf8_wf r3 = true) by (apply IH; [lia | exact Hr3 | exact Zr3]).
  destruct (a =? 240) eqn:B0; destruct (a =? 244) eqn:B1; cbv iota in Hb; try (exfalso; lia); decide_ifs; first [exact IHr | exfalso; lia].
Qed.

(* the model's validity predicate for strings IS the specification: well-formed UTF-8 per RFC 3629
   (the ABNF of section 4, as SpecCodec.utf8_wf writes it) without the null character *)
Theorem valid_utf8_is_spec s : valid_utf8 s = utf8_wf s.
Proof.
  destruct (utf8_wf s) eqn:W.
  - apply utf8_wf_valid. exact W.
  - destruct (valid_utf8 s) eqn:V; [|reflexivity]. exfalso.
    unfold valid_utf8 in V. apply andb_prop in V. destruct V as [V1 V2]. apply negb_true_iff in V2.
    rewrite (utf8_valid_wf_n (length s) s (le_n _) V1 V2) in W. discriminate.
Qed.

(* ---------- variable byte integer ---------- *)

Lemma put_vbi_encode n : n <= 268435455 -> vbi_encode n = Some (put_vbi n).
Proof. intro H. rewrite (enc_shape n H). reflexivity. Qed.

Lemma blen_put_vbi n : n <= 268435455 -> blen (put_vbi n) = vbi_min_len n.
Proof. intro H. apply (enc_length n _ H). apply put_vbi_encode. exact H. Qed.

Lemma vbi_decode_put n rest : n <= 268435455 -> Vbi.wf_bytes rest ->
  vbi_decode (put_vbi n ++ rest) = VOk n (blen (put_vbi n)) rest.
Proof.
  intros Hn Hw. destruct (roundtrip n Hn) as (e & He & _ & Hd).
  rewrite (put_vbi_encode n Hn) in He. injection He as <-.
  rewrite (blen_put_vbi n Hn). apply Hd. exact Hw.
Qed.

Lemma encodeLength_put n : n <= 268435455 -> encodeLength n = Ok (put_vbi n).
Proof. intro H. unfold encodeLength. rewrite (put_vbi_encode n H). reflexivity. Qed.

Lemma wf_app_l (a b : bytes) : Vbi.wf_bytes (a ++ b) -> Vbi.wf_bytes a.
Proof. unfold Vbi.wf_bytes. intro H. apply Forall_app in H. tauto. Qed.
Lemma wf_app_r (a b : bytes) : Vbi.wf_bytes (a ++ b) -> Vbi.wf_bytes b.
Proof. unfold Vbi.wf_bytes. intro H. apply Forall_app in H. tauto. Qed.
Lemma wf_cons_r a (b : bytes) : Vbi.wf_bytes (a :: b) -> Vbi.wf_bytes b.
Proof. unfold Vbi.wf_bytes. intro H. inversion H. assumption. Qed.

(* ---------- one property ---------- *)

Definition str_fits (s : bytes) : bool := (blen s <=? 65535) && valid_utf8 s.
Definition bin_fits (d : bytes) : bool := blen d <=? 65535.

Lemma decodeUint32_fits buf off n r : (n <=? 4294967295) = true ->
  cur buf off (put_u32 n ++ r) -> decodeUint32 buf off = Ok (n, off + 4).
Proof. intro H. apply decodeUint32_put. lia. Qed.

Lemma decodeBytes_fits buf off d r : bin_fits d = true ->
  cur buf off (put_bin d ++ r) -> decodeBytes buf off = Ok (d, off + blen (put_bin d)).
Proof. unfold bin_fits. intro H. apply decodeBytes_put. lia. Qed.

Lemma decodeString_fits buf off s r : str_fits s = true ->
  cur buf off (put_str s ++ r) -> decodeString buf off = Ok (s, off + blen (put_str s)).
Proof.
  unfold str_fits. intro H. apply andb_prop in H. destruct H as [H1 H2].
  apply decodeString_put; [lia | exact H2].
Qed.

(* the values a property can carry on the wire so that it reads back as itself *)
Definition prop_fits (c : sprop) : bool :=
  match c with
  | MessageExpiry n | SessionExpiry n | WillDelay n | MaximumPacketSize n => n <=? 4294967295
  | ContentType s | ResponseTopic s | AssignedClientId s | AuthMethod s | ResponseInfo s
  | ServerReference s | ReasonString s => str_fits s
  | CorrelationData d | AuthData d => bin_fits d
  | SubscriptionId n => n <=? 268435455
  | UserProperty k v => str_fits k && str_fits v
  | _ => true
  end.

Lemma str_ok_fits s : str_ok s = true -> str_fits s = true.
Proof.
  unfold str_ok, str_fits. intro H. apply andb_prop in H. destruct H as [H1 H2].
  rewrite (utf8_wf_valid s H2). change (len s) with (blen s) in H1. rewrite H1. reflexivity.
Qed.

Lemma prop_value_ok_fits c : prop_value_ok c = true -> prop_fits c = true.
Proof.
  destruct c; cbn [prop_value_ok prop_fits]; intro H; try reflexivity;
    try (apply str_ok_fits; exact H); try exact H; try lia.
  - apply andb_prop in H. destruct H as [H _]. apply str_ok_fits. exact H.
  - apply andb_prop in H. destruct H as [H1 H2]. rewrite (str_ok_fits _ H1), (str_ok_fits _ H2). reflexivity.
Qed.

Definition put_value (c : sprop) : bytes := List.tl (put_prop c).
Lemma put_prop_split c : put_prop c = prop_id c :: put_value c.
Proof. destruct c; reflexivity. Qed.

Lemma prop_case_put c bt off p r : prop_fits c = true -> Vbi.wf_bytes r ->
  cur bt off (put_value c ++ r) ->
  prop_case (prop_id c) bt off p = Ok (store c p, off + blen (put_value c)).
Proof.
  intros Hf Hw H.
  destruct c; cbn [prop_id prop_case store]; cbn [put_value put_prop List.tl prop_id] in H |- *;
  cbn [prop_fits] in Hf;
  try (cbn [app] in H; rewrite (decodeByte_cur _ _ _ _ H); reflexivity);
  try (rewrite (decodeUint32_fits _ _ _ _ Hf H); reflexivity);
  try (rewrite (decodeUint16_put _ _ _ _ H); reflexivity);
  try (rewrite (decodeString_fits _ _ _ _ Hf H); reflexivity);
  try (rewrite (decodeBytes_fits _ _ _ _ Hf H); reflexivity).
  - (* subscription identifier *)
    rewrite (slice_from_cur _ _ _ H). cbn beta iota delta [bind bind_err].
    rewrite (vbi_decode_put n r ltac:(lia) Hw). reflexivity.
  - (* user property *)
    apply andb_prop in Hf. destruct Hf as [Hk Hv].
    rewrite <- app_assoc in H.
    rewrite (decodeString_fits _ _ _ _ Hk H). cbn beta iota delta [bind bind_err].
    apply cur_adv in H.
    rewrite (decodeString_fits _ _ _ _ Hv H). cbn beta iota delta [bind bind_err].
    rewrite blen_app. f_equal. f_equal. lia.
Qed.

(* ---------- a property block ---------- *)

Lemma put_props_body_cons c cs : put_props_body (c :: cs) = put_prop c ++ put_props_body cs.
Proof. reflexivity. Qed.

Lemma put_prop_nonempty c : (1 <= length (put_prop c))%nat.
Proof. rewrite put_prop_split. cbn [length]. lia. Qed.

Lemma props_count_le cs : (length cs <= length (put_props_body cs))%nat.
Proof.
  induction cs as [|c cs IH]; [cbn; lia|].
  rewrite put_props_body_cons, app_length. cbn [length]. pose proof (put_prop_nonempty c). lia.
Qed.

Definition props_valid_for (pkt : N) (cs : list sprop) : bool :=
  forallb (fun c => valid_prop (prop_id c) pkt) cs.

Lemma store_all_cons c cs p : store_all (c :: cs) p = store_all cs (store c p).
Proof. reflexivity. Qed.

Lemma props_loop_put cs : forall fuel pkt bt off p r,
  (length cs <= fuel)%nat -> forallb prop_fits cs = true -> props_valid_for pkt cs = true ->
  Vbi.wf_bytes (put_props_body cs ++ r) -> cur bt off (put_props_body cs ++ r) ->
  props_loop fuel pkt bt (off + blen (put_props_body cs)) off p = Ok (store_all cs p).
Proof.
  induction cs as [|c cs IH]; intros fuel pkt bt off p r Hfu Hfit Hval Hwf H.
  - cbn [put_props_body map concat]. change (blen []) with 0.
    destruct fuel; cbn [props_loop]; replace (off + 0 <=? off) with true by lia; reflexivity.
  - destruct fuel as [|f]; [cbn in Hfu; lia|]. cbn [length] in Hfu.
    cbn [forallb] in Hfit. apply andb_prop in Hfit. destruct Hfit as [Hf1 Hf2].
    unfold props_valid_for in Hval. cbn [forallb] in Hval. apply andb_prop in Hval.
    destruct Hval as [Hv1 Hv2].
    rewrite put_props_body_cons in *. rewrite put_prop_split in *.
    cbn [props_loop]. rewrite blen_app, blen_cons.
    replace (off + (blen (put_value c) + 1 + blen (put_props_body cs)) <=? off) with false by lia.
    rewrite <- app_assoc in H, Hwf. cbn [app] in H, Hwf.
    rewrite (decodeByte_cur _ _ _ _ H). cbn beta iota delta [bind bind_err].
    rewrite Hv1. cbn [negb].
    change (prop_id c :: put_value c ++ put_props_body cs ++ r)
      with ([prop_id c] ++ put_value c ++ put_props_body cs ++ r) in H.
    apply cur_adv in H. change (blen [prop_id c]) with 1 in H.
    apply wf_cons_r in Hwf.
    rewrite (prop_case_put c bt (off + 1) p _ Hf1 (wf_app_r _ _ Hwf) H).
    cbn beta iota delta [bind bind_err].
    apply cur_adv in H.
    replace (off + (blen (put_value c) + 1 + blen (put_props_body cs)))
      with (off + 1 + blen (put_value c) + blen (put_props_body cs)) by lia.
    rewrite store_all_cons.
    apply (IH f pkt bt _ (store c p) r); try assumption; try lia.
    apply (wf_app_r _ _ Hwf).
Qed.

Lemma put_props_body_nil cs : put_props_body cs = [] -> cs = [].
Proof.
  destruct cs as [|c cs]; [reflexivity|]. rewrite put_props_body_cons, put_prop_split. discriminate.
Qed.

Lemma blen_put_props cs : blen (put_props cs) = blen (put_vbi (len (put_props_body cs))) + blen (put_props_body cs).
Proof. unfold put_props. apply blen_app. Qed.

(* Properties.Decode on a reference-encoded property block followed by anything *)
Lemma props_decode_put pkt p cs r :
  forallb prop_fits cs = true -> props_valid_for pkt cs = true ->
  len (put_props_body cs) <= 268435455 -> Vbi.wf_bytes (put_props_body cs ++ r) ->
  props_decode pkt p (put_props cs ++ r) = Ok (blen (put_props cs), store_all cs p).
Proof.
  intros Hfit Hval Hlen Hwf. unfold props_decode, put_props. rewrite <- app_assoc.
  rewrite (vbi_decode_put _ _ Hlen Hwf).
  change (len (put_props_body cs)) with (blen (put_props_body cs)) in *.
  destruct (blen (put_props_body cs) =? 0) eqn:E0.
  - assert (cs = []) as ->.
    { apply put_props_body_nil. destruct (put_props_body cs); [reflexivity|]. rewrite blen_cons in E0. lia. }
    reflexivity.
  - pose proof (props_loop_put cs (S (length (put_props_body cs ++ r))) pkt (put_props_body cs ++ r) 0 p r) as L.
    rewrite N.add_0_l in L. rewrite L.
    + cbn beta iota delta [bind bind_err]. rewrite blen_app. f_equal. f_equal. lia.
    + pose proof (props_count_le cs). rewrite app_length. lia.
    + exact Hfit.
    + exact Hval.
    + exact Hwf.
    + apply cur_start.
Qed.
