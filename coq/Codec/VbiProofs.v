(* Proofs about the variable-byte-integer model (C29). *)
From MV Require Import Base.Val Base.Bytes Codec.Vbi.
From Coq Require Import Lia ZifyBool ZifyN ZifyNat.
Ltac Zify.zify_post_hook ::= Z.div_mod_to_equations.
Open Scope N_scope.

Arguments N.mul : simpl never.
Arguments N.add : simpl never.
Arguments N.div : simpl never.
Arguments N.modulo : simpl never.
Arguments N.pow : simpl never.
Arguments N.shiftl : simpl never.
Arguments N.lor : simpl never.
Arguments N.land : simpl never.
Arguments N.ltb : simpl never.
Arguments N.eqb : simpl never.

(* ---------- encoder ---------- *)

Lemma enc_small f n : n < 128 -> vbi_encode_fuel (S f) n = Some [n].
Proof.
  intro H. cbn [vbi_encode_fuel].
  replace (0 <? n / 128) with false by lia.
  f_equal. f_equal. lia.
Qed.

Lemma enc_big f n : 128 <= n ->
  vbi_encode_fuel (S f) n =
  match vbi_encode_fuel f (n / 128) with
  | Some r => Some (n mod 128 + 128 :: r)
  | None => None
  end.
Proof.
  intro H. cbn [vbi_encode_fuel].
  replace (0 <? n / 128) with true by lia.
  rewrite small_lor128 by lia. reflexivity.
Qed.

(* the four shapes of a canonical encoding *)
Lemma enc_shape n : n <= vbi_max ->
  vbi_encode n = Some
    (if n <? 128 then [n]
     else if n <? 16384 then [n mod 128 + 128; n / 128]
     else if n <? 2097152 then [n mod 128 + 128; (n / 128) mod 128 + 128; n / 16384]
     else [n mod 128 + 128; (n / 128) mod 128 + 128; (n / 16384) mod 128 + 128; n / 2097152]).
Proof.
  unfold vbi_max, vbi_encode. intro H.
  destruct (n <? 128) eqn:E1.
  { apply enc_small. lia. }
  rewrite enc_big by lia.
  destruct (n <? 16384) eqn:E2.
  { rewrite enc_small by lia. reflexivity. }
  rewrite enc_big by lia.
  replace (n / 128 / 128) with (n / 16384) by lia.
  destruct (n <? 2097152) eqn:E3.
  { rewrite enc_small by lia. reflexivity. }
  rewrite enc_big by lia.
  replace (n / 16384 / 128) with (n / 2097152) by lia.
  rewrite enc_small by lia. reflexivity.
Qed.

Lemma enc_length n e : n <= vbi_max -> vbi_encode n = Some e ->
  N.of_nat (length e) = vbi_min_len n.
Proof.
  intros H E. rewrite (enc_shape n H) in E. injection E as <-.
  unfold vbi_min_len.
  destruct (n <? 128); [reflexivity|].
  destruct (n <? 16384); [reflexivity|].
  destruct (n <? 2097152); reflexivity.
Qed.

Lemma enc_wf n e : n <= vbi_max -> vbi_encode n = Some e -> wf_bytes e.
Proof.
  unfold vbi_max. intros H E. rewrite (enc_shape n H) in E. injection E as <-.
  unfold wf_bytes.
  destruct (n <? 128) eqn:E1; [repeat constructor; lia|].
  destruct (n <? 16384) eqn:E2; [repeat constructor; lia|].
  destruct (n <? 2097152) eqn:E3; repeat constructor; lia.
Qed.

(* the spec decoder inverts the encoder *)
Lemma spec_decode_encode n e rest : n <= vbi_max -> vbi_encode n = Some e ->
  spec_decode (e ++ rest) = Some (n, rest).
Proof.
  unfold vbi_max. intros H E. rewrite (enc_shape n H) in E. injection E as <-.
  unfold spec_decode.
  destruct (n <? 128) eqn:E1.
  { cbn [app spec_value]. rewrite E1. reflexivity. }
  destruct (n <? 16384) eqn:E2.
  { cbn [app spec_value].
    replace (n mod 128 + 128 <? 128) with false by lia.
    replace (n / 128 <? 128) with true by lia.
    f_equal. f_equal. lia. }
  destruct (n <? 2097152) eqn:E3.
  { cbn [app spec_value].
    replace (n mod 128 + 128 <? 128) with false by lia.
    replace ((n / 128) mod 128 + 128 <? 128) with false by lia.
    replace (n / 16384 <? 128) with true by lia.
    f_equal. f_equal. lia. }
  cbn [app spec_value].
  replace (n mod 128 + 128 <? 128) with false by lia.
  replace ((n / 128) mod 128 + 128 <? 128) with false by lia.
  replace ((n / 16384) mod 128 + 128 <? 128) with false by lia.
  replace (n / 2097152 <? 128) with true by lia.
  f_equal. f_equal. lia.
Qed.

(* ---------- decoder: the model of DecodeLength equals the spec decoder ---------- *)

(* one loop iteration with shift [m] (= 0, 7, 14 or 21): the accumulated value is below 2^m,
   so the lor is an addition and no uint32 overflow can occur *)
Lemma step_value (eb value m : N) : eb < 256 -> m <= 21 -> value < 2 ^ m ->
  N.lor value (u32 (N.shiftl (N.land eb 127) m)) = value + (eb mod 128) * 2 ^ m.
Proof.
  intros Hb Hk Hv. rewrite byte_land127 by exact Hb.
  rewrite N.shiftl_mul_pow2. unfold u32.
  assert (P : 2 ^ m <= 2 ^ 21) by (apply N.pow_le_mono_r; lia).
  change (2 ^ 21) with 2097152 in P.
  rewrite N.mod_small by nia.
  apply lor_add_disjoint. exact Hv.
Qed.

Definition consumed (bs rest : bytes) : N := N.of_nat (length bs - length rest).

(* statement of the loop lemma at shift m / bytes-used bu, with j more bytes allowed *)
Definition loop_stmt (j : nat) (m bu pw lim : N) : Prop :=
  forall (bs : bytes) (value : N), wf_bytes bs -> value < pw ->
  match spec_value j bs with
  | Some (v, rest) =>
      vbi_decode_loop bs m value bu = VOk (value + v * pw) (bu - 1 + consumed bs rest) rest
      /\ v < lim /\ (length rest < length bs)%nat
  | None => forall n b r, vbi_decode_loop bs m value bu <> VOk n b r
  end.

Lemma loop3 : loop_stmt 1 21 4 2097152 128.
Proof.
  intros bs value Hwf Hv. destruct bs as [|eb r].
  { cbn [spec_value vbi_decode_loop]. intros; discriminate. }
  inversion Hwf as [|? ? Hb Hr]; subst.
  cbn [spec_value vbi_decode_loop].
  rewrite step_value by (try exact Hb; try lia; exact Hv).
  change (2 ^ 21) with 2097152.
  rewrite byte_land128 by exact Hb.
  destruct (eb <? 128) eqn:E.
  - replace (268435455 <? value + eb mod 128 * 2097152) with false by lia.
    split; [|split].
    + f_equal; unfold consumed; cbn [length]; lia.
    + lia.
    + cbn [length]; lia.
  - intros n b r0. destruct (268435455 <? _); [discriminate|].
    cbn. discriminate.
Qed.

Lemma spec_value_S j b r :
  spec_value (S j) (b :: r) =
  if b <? 128 then Some (b, r)
  else match spec_value j r with Some (v, r') => Some (b - 128 + 128 * v, r') | None => None end.
Proof. reflexivity. Qed.

Ltac loop_step IH m pw :=
  intros bs value Hwf Hv; destruct bs as [|eb r];
  [ cbn [spec_value vbi_decode_loop]; intros; discriminate |];
  inversion Hwf as [|? ? Hb Hr]; subst;
  rewrite spec_value_S; cbn [vbi_decode_loop];
  rewrite step_value by (try exact Hb; try lia; exact Hv);
  change (2 ^ m) with pw;
  rewrite byte_land128 by exact Hb;
  destruct (eb <? 128) eqn:E;
  [ replace (268435455 <? value + eb mod 128 * pw) with false by lia;
    split; [|split];
    [ f_equal; unfold consumed; cbn [length]; lia | lia | cbn [length]; lia ]
  | replace (268435455 <? value + eb mod 128 * pw) with false by lia;
    match goal with |- context [?b =? 4] => change (b =? 4) with false end;
    cbv iota;
    let IHi := fresh "IHi" in
    assert (IHi := IH r (value + eb mod 128 * pw) Hr);
    match type of IHi with ?A -> _ => assert (Hpre : A) by lia; specialize (IHi Hpre) end;
    match goal with |- context [spec_value ?j r] => destruct (spec_value j r) as [[v rest]|] end;
    [ destruct IHi as (IH1 & IH2 & IH3);
      match goal with |- context [vbi_decode_loop r ?a ?b ?c] =>
        match type of IH1 with vbi_decode_loop r ?a' ?b' ?c' = _ =>
          change (vbi_decode_loop r a b c) with (vbi_decode_loop r a' b' c') end end;
      rewrite IH1; split; [|split];
      [ f_equal; unfold consumed in *; cbn [length]; lia | lia | cbn [length]; lia ]
    | exact IHi ] ].

Lemma loop2 : loop_stmt 2 14 3 16384 16384.
Proof. loop_step loop3 14 16384. Qed.

Lemma loop1 : loop_stmt 3 7 2 128 2097152.
Proof. loop_step loop2 7 128. Qed.

Lemma loop0 : loop_stmt 4 0 1 1 268435456.
Proof. loop_step loop1 0 1. Qed.

(* ---------- main statements ---------- *)

Theorem decode_refines_spec (bs : bytes) : wf_bytes bs ->
  match spec_decode bs with
  | Some (v, rest) => vbi_decode bs = VOk v (consumed bs rest) rest /\ v <= vbi_max
  | None => forall n b r, vbi_decode bs <> VOk n b r
  end.
Proof.
  intro Hwf. unfold spec_decode, vbi_decode.
  pose proof (loop0 bs 0 Hwf ltac:(lia)) as H.
  destruct (spec_value 4 bs) as [[v rest]|]; [|exact H].
  destruct H as (H1 & H2 & H3). rewrite H1. unfold vbi_max. split; [f_equal; lia | lia].
Qed.

Lemma wf_app a b : wf_bytes a -> wf_bytes b -> wf_bytes (a ++ b).
Proof. unfold wf_bytes. intros. apply Forall_app. split; assumption. Qed.

Theorem roundtrip (n : N) : n <= vbi_max ->
  exists e, vbi_encode n = Some e /\ N.of_nat (length e) = vbi_min_len n /\
            forall rest, wf_bytes rest -> vbi_decode (e ++ rest) = VOk n (vbi_min_len n) rest.
Proof.
  intro H. pose proof (enc_shape n H) as E.
  eexists. split; [exact E|]. split; [apply (enc_length n _ H E)|].
  intros rest Hr.
  pose proof (decode_refines_spec _ (wf_app _ _ (enc_wf n _ H E) Hr)) as D.
  rewrite (spec_decode_encode n _ rest H E) in D. destruct D as [D _]. rewrite D.
  f_equal. unfold consumed. rewrite app_length.
  rewrite <- (enc_length n _ H E). lia.
Qed.

Theorem reject_long (b1 b2 b3 b4 : N) (rest : bytes) :
  wf_bytes (b1 :: b2 :: b3 :: b4 :: rest) ->
  128 <= b1 -> 128 <= b2 -> 128 <= b3 -> 128 <= b4 ->
  forall n b r, vbi_decode (b1 :: b2 :: b3 :: b4 :: rest) <> VOk n b r.
Proof.
  intros Hwf H1 H2 H3 H4.
  pose proof (decode_refines_spec _ Hwf) as D.
  unfold spec_decode in D. rewrite !spec_value_S in D.
  replace (b1 <? 128) with false in D by lia.
  replace (b2 <? 128) with false in D by lia.
  replace (b3 <? 128) with false in D by lia.
  replace (b4 <? 128) with false in D by lia.
  cbn [spec_value] in D. exact D.
Qed.

Theorem decoded_bounded (bs : bytes) n bu r : wf_bytes bs -> vbi_decode bs = VOk n bu r ->
  n <= vbi_max /\ 1 <= bu <= 4 /\ spec_decode bs = Some (n, r).
Proof.
  intros Hwf E. pose proof (decode_refines_spec bs Hwf) as D.
  destruct (spec_decode bs) as [[v rest]|] eqn:S.
  - destruct D as [D1 D2]. rewrite D1 in E. injection E as <- <- <-.
    split; [exact D2|]. split; [|reflexivity].
    (* consumed is between 1 and 4 *)
    unfold spec_decode in S. unfold consumed.
    assert (L : forall j bs v rest, spec_value j bs = Some (v, rest) ->
                (length rest < length bs <= length rest + j)%nat).
    { clear. induction j as [|j IH]; intros bs v rest H; [discriminate|].
      destruct bs as [|b t]; [discriminate|]. rewrite spec_value_S in H.
      destruct (b <? 128).
      - injection H as <- <-. cbn [length]. lia.
      - destruct (spec_value j t) as [[v' r']|] eqn:E; [|discriminate].
        injection H as <- <-. apply IH in E. cbn [length]. lia. }
    apply L in S. lia.
  - exfalso. eapply D. exact E.
Qed.

(* vbi_min_len really is the minimum: no accepted encoding of n is shorter *)
Theorem min_len_minimal (bs : bytes) n rest : wf_bytes bs -> spec_decode bs = Some (n, rest) ->
  vbi_min_len n <= consumed bs rest.
Proof.
  intros Hwf S. unfold spec_decode in S. unfold consumed, vbi_min_len.
  destruct bs as [|b1 t1]; [discriminate|]. inversion Hwf as [|? ? Hb1 Hw1]; subst.
  rewrite spec_value_S in S. destruct (b1 <? 128) eqn:E1.
  { injection S as <- <-. rewrite E1. cbn [length]. lia. }
  destruct t1 as [|b2 t2]; [discriminate|]. inversion Hw1 as [|? ? Hb2 Hw2]; subst.
  rewrite spec_value_S in S. destruct (b2 <? 128) eqn:E2.
  { injection S as <- <-. cbn [length].
    destruct (b1 - 128 + 128 * b2 <? 128) eqn:?; [lia|].
    destruct (b1 - 128 + 128 * b2 <? 16384) eqn:?; lia. }
  destruct t2 as [|b3 t3]; [discriminate|]. inversion Hw2 as [|? ? Hb3 Hw3]; subst.
  rewrite spec_value_S in S. destruct (b3 <? 128) eqn:E3.
  { injection S as <- <-. cbn [length].
    set (n := b1 - 128 + 128 * (b2 - 128 + 128 * b3)).
    assert (n < 2097152) by (unfold n; lia).
    destruct (n <? 128) eqn:?; [lia|]. destruct (n <? 16384) eqn:?; [lia|].
    destruct (n <? 2097152) eqn:?; lia. }
  destruct t3 as [|b4 t4]; [discriminate|].
  rewrite spec_value_S in S. destruct (b4 <? 128) eqn:E4.
  { injection S as <- <-. cbn [length].
    set (n := b1 - 128 + 128 * (b2 - 128 + 128 * (b3 - 128 + 128 * b4))).
    destruct (n <? 128) eqn:?; [lia|]. destruct (n <? 16384) eqn:?; [lia|].
    destruct (n <? 2097152) eqn:?; lia. }
  cbn [spec_value] in S. discriminate.
Qed.
