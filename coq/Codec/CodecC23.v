(* Bridge for C23 (well-formed output): whatever the mochi ENCODER model writes for a packet whose
   abstraction [abs pk] is valid for the protocol version is accepted by the independent reference
   decoder (SpecCodec.spec_decode_packet), which returns exactly [abs pk] — the properties in the
   order the encoder wrote them (mochi's fixed order), so no reordering is involved — and leaves
   the following bytes unread.

   Hypotheses that remain, precisely:
   - [wf_packet pk]: the Packet value is well-formed as a Go value for its type (CodecNorm.v): fields
     within their Go types, the fixed-header fields set as the broker sets them for the type (no
     DUP/RETAIN/QoS on non-PUBLISH types, QoS 1 on PUBREL/SUBSCRIBE/UNSUBSCRIBE, Remaining 0 on
     PINGREQ/PINGRESP), strings valid UTF-8 of at most 65535 bytes, size within 268435455, CONNECT
     with the standard protocol name.  It is what [encode_is_form] needs; [valid_packet] alone does
     not constrain the fields the encoder does not write.
   - [valid_packet v (abs pk)]: the value rules of the standard for the version (reason code sets,
     property table, no duplicates, ...) — exactly what C23 has to establish for the packets the
     broker emits.
   - the encoder returned bytes ([mochi_encode pk = Ok bs]); [C23_encoder_output_total] removes this
     hypothesis for packets whose identifier is not the refused 0. *)
From MV Require Import Base.Val Codec.Vbi Codec.Wire Codec.Props Codec.MochiCodec Codec.SpecCodec
  Codec.SpecBridge Codec.SpecRT Codec.CodecRT Codec.CodecEnc Codec.CodecNorm Codec.CodecRoundTrip.
From Coq Require Import Permutation.
Open Scope N_scope.

Lemma reorder_refl ps : reorder ps ps.
Proof. split; [apply Permutation_refl | reflexivity]. Qed.

Lemma same_packet_refl p : same_packet p p.
Proof.
  destruct p; try (constructor; apply reorder_refl); try constructor.
  destruct will as [[wps wt wp wq wr]|]; constructor; apply reorder_refl.
Qed.

Lemma form_in_spec_forms v p body : In body (bodies v p) -> len body <= 268435455 ->
  In (frame p body) (spec_forms v p).
Proof.
  intros Hin Hl. unfold spec_forms. apply in_map. apply filter_In. split; [exact Hin|].
  apply N.leb_le. exact Hl.
Qed.

Theorem encoder_output_spec_decodable pk bs rest :
  wf_packet pk = true -> mochi_encode pk = Ok bs -> valid_packet (pk_version pk) (abs pk) = true ->
  spec_decode_packet (pk_version pk) (bs ++ rest) = Some (abs pk, rest).
Proof.
  intros W E V. destruct (encode_is_form pk bs W E) as (body & -> & Hin & Hl).
  apply spec_roundtrip; [exact V|]. apply form_in_spec_forms; assumption.
Qed.

Theorem encoder_output_spec_decodable_same pk bs rest :
  wf_packet pk = true -> mochi_encode pk = Ok bs -> valid_packet (pk_version pk) (abs pk) = true ->
  exists p', same_packet (abs pk) p' /\ spec_decode_packet (pk_version pk) (bs ++ rest) = Some (p', rest).
Proof.
  intros W E V. exists (abs pk). split; [apply same_packet_refl|].
  apply encoder_output_spec_decodable; assumption.
Qed.

Theorem encoder_output_total pk rest :
  wf_packet pk = true -> KF_C26_pid0 pk = false -> valid_packet (pk_version pk) (abs pk) = true ->
  exists bs, mochi_encode pk = Ok bs /\
             spec_decode_packet (pk_version pk) (bs ++ rest) = Some (abs pk, rest).
Proof.
  intros W K V. destruct (encode_total pk W K) as (body & E & Hin & Hl).
  eexists. split; [exact E|]. apply spec_roundtrip; [exact V|]. apply form_in_spec_forms; assumption.
Qed.

(* a packet valid by the standard has no zero packet identifier where one is required, so for the
   broker's valid output the pid-0 side condition is automatic *)
Lemma valid_abs_pid pk : wf_packet pk = true -> valid_packet (pk_version pk) (abs pk) = true ->
  KF_C26_pid0 pk = false.
Proof.
  intros W V. unfold KF_C26_pid0.
  destruct (pk_packet_id pk =? 0) eqn:Ep; [|reflexivity]. cbn [andb].
  apply N.eqb_eq in Ep.
  destruct (fh_type (pk_fh pk) =? 3) eqn:E3; [|destruct (fh_type (pk_fh pk) =? 8) eqn:E8;
    [|destruct (fh_type (pk_fh pk) =? 10) eqn:E10; [|reflexivity]]].
  - apply N.eqb_eq in E3. unfold abs in V. rewrite E3 in V. cbn [valid_packet] in V.
    destruct (0 <? fh_qos (pk_fh pk)) eqn:Eq; [|rewrite E3; reflexivity]. exfalso.
    repeat (apply andb_prop in V; destruct V as [V ?]).
    match goal with Hq : (if fh_qos (pk_fh pk) =? 0 then _ else _) = true |- _ =>
      replace (fh_qos (pk_fh pk) =? 0) with false in Hq by (apply N.ltb_lt in Eq; symmetry; apply N.eqb_neq; intro Z; rewrite Z in Eq; discriminate Eq);
      rewrite Ep in Hq; discriminate Hq end.
  - exfalso. apply N.eqb_eq in E8. unfold abs in V. rewrite E8 in V. cbn [valid_packet] in V.
    repeat (apply andb_prop in V; destruct V as [V ?]).
    match goal with Hq : pid_ok (pk_packet_id pk) = true |- _ => rewrite Ep in Hq; discriminate Hq end.
  - exfalso. apply N.eqb_eq in E10. unfold abs in V. rewrite E10 in V. cbn [valid_packet] in V.
    repeat (apply andb_prop in V; destruct V as [V ?]).
    match goal with Hq : pid_ok (pk_packet_id pk) = true |- _ => rewrite Ep in Hq; discriminate Hq end.
Qed.

Theorem C23_encoder_output_total pk rest :
  wf_packet pk = true -> valid_packet (pk_version pk) (abs pk) = true ->
  exists bs, mochi_encode pk = Ok bs /\
             spec_decode_packet (pk_version pk) (bs ++ rest) = Some (abs pk, rest).
Proof.
  intros W V. apply encoder_output_total; [exact W | apply valid_abs_pid; assumption | exact V].
Qed.
