(* Model of packets/properties.go: the Properties struct, validPacketProperties, Decode and Encode.
   No proofs in this file.  (The record and its field setters are mechanical.) *)
From MV Require Import Base.Val Codec.Vbi Codec.Wire.
Open Scope N_scope.

(* packet type bytes (packets.go:20-38) *)
Definition CONNECT : N := 1.
Definition CONNACK : N := 2.
Definition PUBLISH : N := 3.
Definition PUBACK : N := 4.
Definition PUBREC : N := 5.
Definition PUBREL : N := 6.
Definition PUBCOMP : N := 7.
Definition SUBSCRIBE : N := 8.
Definition SUBACK : N := 9.
Definition UNSUBSCRIBE : N := 10.
Definition UNSUBACK : N := 11.
Definition PINGREQ : N := 12.
Definition PINGRESP : N := 13.
Definition DISCONNECT : N := 14.
Definition AUTH : N := 15.
Definition WILLPROPS : N := 99.

(* ---------- type Properties struct (properties.go:86-124) ---------- *)
Record props := mkprops {
  p_payload_format : N;
  p_payload_format_flag : bool;
  p_message_expiry : N;
  p_content_type : bytes;
  p_response_topic : bytes;
  p_correlation_data : bytes;
  p_sub_ids : list N;
  p_session_expiry : N;
  p_session_expiry_flag : bool;
  p_assigned_client_id : bytes;
  p_server_keep_alive : N;
  p_server_keep_alive_flag : bool;
  p_auth_method : bytes;
  p_auth_data : bytes;
  p_request_problem_info : N;
  p_request_problem_info_flag : bool;
  p_will_delay : N;
  p_request_response_info : N;
  p_response_info : bytes;
  p_server_reference : bytes;
  p_reason_string : bytes;
  p_receive_maximum : N;
  p_topic_alias_maximum : N;
  p_topic_alias : N;
  p_topic_alias_flag : bool;
  p_maximum_qos : N;
  p_maximum_qos_flag : bool;
  p_retain_available : N;
  p_retain_available_flag : bool;
  p_user : list (bytes * bytes);
  p_maximum_packet_size : N;
  p_wildcard_sub_available : N;
  p_wildcard_sub_available_flag : bool;
  p_sub_id_available : N;
  p_sub_id_available_flag : bool;
  p_shared_sub_available : N;
  p_shared_sub_available_flag : bool
}.

Definition props0 : props := mkprops 0 false 0 [] [] [] [] 0 false [] 0 false [] [] 0 false 0 0 [] [] [] 0 0 0 false 0 false 0 false [] 0 0 false 0 false 0 false.

Definition set_payload_format (x : N) (p : props) : props :=
  mkprops x (p_payload_format_flag p) (p_message_expiry p) (p_content_type p) (p_response_topic p) (p_correlation_data p) (p_sub_ids p) (p_session_expiry p) (p_session_expiry_flag p) (p_assigned_client_id p) (p_server_keep_alive p) (p_server_keep_alive_flag p) (p_auth_method p) (p_auth_data p) (p_request_problem_info p) (p_request_problem_info_flag p) (p_will_delay p) (p_request_response_info p) (p_response_info p) (p_server_reference p) (p_reason_string p) (p_receive_maximum p) (p_topic_alias_maximum p) (p_topic_alias p) (p_topic_alias_flag p) (p_maximum_qos p) (p_maximum_qos_flag p) (p_retain_available p) (p_retain_available_flag p) (p_user p) (p_maximum_packet_size p) (p_wildcard_sub_available p) (p_wildcard_sub_available_flag p) (p_sub_id_available p) (p_sub_id_available_flag p) (p_shared_sub_available p) (p_shared_sub_available_flag p).
Definition set_payload_format_flag (x : bool) (p : props) : props :=
  mkprops (p_payload_format p) x (p_message_expiry p) (p_content_type p) (p_response_topic p) (p_correlation_data p) (p_sub_ids p) (p_session_expiry p) (p_session_expiry_flag p) (p_assigned_client_id p) (p_server_keep_alive p) (p_server_keep_alive_flag p) (p_auth_method p) (p_auth_data p) (p_request_problem_info p) (p_request_problem_info_flag p) (p_will_delay p) (p_request_response_info p) (p_response_info p) (p_server_reference p) (p_reason_string p) (p_receive_maximum p) (p_topic_alias_maximum p) (p_topic_alias p) (p_topic_alias_flag p) (p_maximum_qos p) (p_maximum_qos_flag p) (p_retain_available p) (p_retain_available_flag p) (p_user p) (p_maximum_packet_size p) (p_wildcard_sub_available p) (p_wildcard_sub_available_flag p) (p_sub_id_available p) (p_sub_id_available_flag p) (p_shared_sub_available p) (p_shared_sub_available_flag p).
Definition set_message_expiry (x : N) (p : props) : props :=
  mkprops (p_payload_format p) (p_payload_format_flag p) x (p_content_type p) (p_response_topic p) (p_correlation_data p) (p_sub_ids p) (p_session_expiry p) (p_session_expiry_flag p) (p_assigned_client_id p) (p_server_keep_alive p) (p_server_keep_alive_flag p) (p_auth_method p) (p_auth_data p) (p_request_problem_info p) (p_request_problem_info_flag p) (p_will_delay p) (p_request_response_info p) (p_response_info p) (p_server_reference p) (p_reason_string p) (p_receive_maximum p) (p_topic_alias_maximum p) (p_topic_alias p) (p_topic_alias_flag p) (p_maximum_qos p) (p_maximum_qos_flag p) (p_retain_available p) (p_retain_available_flag p) (p_user p) (p_maximum_packet_size p) (p_wildcard_sub_available p) (p_wildcard_sub_available_flag p) (p_sub_id_available p) (p_sub_id_available_flag p) (p_shared_sub_available p) (p_shared_sub_available_flag p).
Definition set_content_type (x : bytes) (p : props) : props :=
  mkprops (p_payload_format p) (p_payload_format_flag p) (p_message_expiry p) x (p_response_topic p) (p_correlation_data p) (p_sub_ids p) (p_session_expiry p) (p_session_expiry_flag p) (p_assigned_client_id p) (p_server_keep_alive p) (p_server_keep_alive_flag p) (p_auth_method p) (p_auth_data p) (p_request_problem_info p) (p_request_problem_info_flag p) (p_will_delay p) (p_request_response_info p) (p_response_info p) (p_server_reference p) (p_reason_string p) (p_receive_maximum p) (p_topic_alias_maximum p) (p_topic_alias p) (p_topic_alias_flag p) (p_maximum_qos p) (p_maximum_qos_flag p) (p_retain_available p) (p_retain_available_flag p) (p_user p) (p_maximum_packet_size p) (p_wildcard_sub_available p) (p_wildcard_sub_available_flag p) (p_sub_id_available p) (p_sub_id_available_flag p) (p_shared_sub_available p) (p_shared_sub_available_flag p).
Definition set_response_topic (x : bytes) (p : props) : props :=
  mkprops (p_payload_format p) (p_payload_format_flag p) (p_message_expiry p) (p_content_type p) x (p_correlation_data p) (p_sub_ids p) (p_session_expiry p) (p_session_expiry_flag p) (p_assigned_client_id p) (p_server_keep_alive p) (p_server_keep_alive_flag p) (p_auth_method p) (p_auth_data p) (p_request_problem_info p) (p_request_problem_info_flag p) (p_will_delay p) (p_request_response_info p) (p_response_info p) (p_server_reference p) (p_reason_string p) (p_receive_maximum p) (p_topic_alias_maximum p) (p_topic_alias p) (p_topic_alias_flag p) (p_maximum_qos p) (p_maximum_qos_flag p) (p_retain_available p) (p_retain_available_flag p) (p_user p) (p_maximum_packet_size p) (p_wildcard_sub_available p) (p_wildcard_sub_available_flag p) (p_sub_id_available p) (p_sub_id_available_flag p) (p_shared_sub_available p) (p_shared_sub_available_flag p).
Definition set_correlation_data (x : bytes) (p : props) : props :=
  mkprops (p_payload_format p) (p_payload_format_flag p) (p_message_expiry p) (p_content_type p) (p_response_topic p) x (p_sub_ids p) (p_session_expiry p) (p_session_expiry_flag p) (p_assigned_client_id p) (p_server_keep_alive p) (p_server_keep_alive_flag p) (p_auth_method p) (p_auth_data p) (p_request_problem_info p) (p_request_problem_info_flag p) (p_will_delay p) (p_request_response_info p) (p_response_info p) (p_server_reference p) (p_reason_string p) (p_receive_maximum p) (p_topic_alias_maximum p) (p_topic_alias p) (p_topic_alias_flag p) (p_maximum_qos p) (p_maximum_qos_flag p) (p_retain_available p) (p_retain_available_flag p) (p_user p) (p_maximum_packet_size p) (p_wildcard_sub_available p) (p_wildcard_sub_available_flag p) (p_sub_id_available p) (p_sub_id_available_flag p) (p_shared_sub_available p) (p_shared_sub_available_flag p).
Definition set_sub_ids (x : list N) (p : props) : props :=
  mkprops (p_payload_format p) (p_payload_format_flag p) (p_message_expiry p) (p_content_type p) (p_response_topic p) (p_correlation_data p) x (p_session_expiry p) (p_session_expiry_flag p) (p_assigned_client_id p) (p_server_keep_alive p) (p_server_keep_alive_flag p) (p_auth_method p) (p_auth_data p) (p_request_problem_info p) (p_request_problem_info_flag p) (p_will_delay p) (p_request_response_info p) (p_response_info p) (p_server_reference p) (p_reason_string p) (p_receive_maximum p) (p_topic_alias_maximum p) (p_topic_alias p) (p_topic_alias_flag p) (p_maximum_qos p) (p_maximum_qos_flag p) (p_retain_available p) (p_retain_available_flag p) (p_user p) (p_maximum_packet_size p) (p_wildcard_sub_available p) (p_wildcard_sub_available_flag p) (p_sub_id_available p) (p_sub_id_available_flag p) (p_shared_sub_available p) (p_shared_sub_available_flag p).
Definition set_session_expiry (x : N) (p : props) : props :=
  mkprops (p_payload_format p) (p_payload_format_flag p) (p_message_expiry p) (p_content_type p) (p_response_topic p) (p_correlation_data p) (p_sub_ids p) x (p_session_expiry_flag p) (p_assigned_client_id p) (p_server_keep_alive p) (p_server_keep_alive_flag p) (p_auth_method p) (p_auth_data p) (p_request_problem_info p) (p_request_problem_info_flag p) (p_will_delay p) (p_request_response_info p) (p_response_info p) (p_server_reference p) (p_reason_string p) (p_receive_maximum p) (p_topic_alias_maximum p) (p_topic_alias p) (p_topic_alias_flag p) (p_maximum_qos p) (p_maximum_qos_flag p) (p_retain_available p) (p_retain_available_flag p) (p_user p) (p_maximum_packet_size p) (p_wildcard_sub_available p) (p_wildcard_sub_available_flag p) (p_sub_id_available p) (p_sub_id_available_flag p) (p_shared_sub_available p) (p_shared_sub_available_flag p).
Definition set_session_expiry_flag (x : bool) (p : props) : props :=
  mkprops (p_payload_format p) (p_payload_format_flag p) (p_message_expiry p) (p_content_type p) (p_response_topic p) (p_correlation_data p) (p_sub_ids p) (p_session_expiry p) x (p_assigned_client_id p) (p_server_keep_alive p) (p_server_keep_alive_flag p) (p_auth_method p) (p_auth_data p) (p_request_problem_info p) (p_request_problem_info_flag p) (p_will_delay p) (p_request_response_info p) (p_response_info p) (p_server_reference p) (p_reason_string p) (p_receive_maximum p) (p_topic_alias_maximum p) (p_topic_alias p) (p_topic_alias_flag p) (p_maximum_qos p) (p_maximum_qos_flag p) (p_retain_available p) (p_retain_available_flag p) (p_user p) (p_maximum_packet_size p) (p_wildcard_sub_available p) (p_wildcard_sub_available_flag p) (p_sub_id_available p) (p_sub_id_available_flag p) (p_shared_sub_available p) (p_shared_sub_available_flag p).
Definition set_assigned_client_id (x : bytes) (p : props) : props :=
  mkprops (p_payload_format p) (p_payload_format_flag p) (p_message_expiry p) (p_content_type p) (p_response_topic p) (p_correlation_data p) (p_sub_ids p) (p_session_expiry p) (p_session_expiry_flag p) x (p_server_keep_alive p) (p_server_keep_alive_flag p) (p_auth_method p) (p_auth_data p) (p_request_problem_info p) (p_request_problem_info_flag p) (p_will_delay p) (p_request_response_info p) (p_response_info p) (p_server_reference p) (p_reason_string p) (p_receive_maximum p) (p_topic_alias_maximum p) (p_topic_alias p) (p_topic_alias_flag p) (p_maximum_qos p) (p_maximum_qos_flag p) (p_retain_available p) (p_retain_available_flag p) (p_user p) (p_maximum_packet_size p) (p_wildcard_sub_available p) (p_wildcard_sub_available_flag p) (p_sub_id_available p) (p_sub_id_available_flag p) (p_shared_sub_available p) (p_shared_sub_available_flag p).
Definition set_server_keep_alive (x : N) (p : props) : props :=
  mkprops (p_payload_format p) (p_payload_format_flag p) (p_message_expiry p) (p_content_type p) (p_response_topic p) (p_correlation_data p) (p_sub_ids p) (p_session_expiry p) (p_session_expiry_flag p) (p_assigned_client_id p) x (p_server_keep_alive_flag p) (p_auth_method p) (p_auth_data p) (p_request_problem_info p) (p_request_problem_info_flag p) (p_will_delay p) (p_request_response_info p) (p_response_info p) (p_server_reference p) (p_reason_string p) (p_receive_maximum p) (p_topic_alias_maximum p) (p_topic_alias p) (p_topic_alias_flag p) (p_maximum_qos p) (p_maximum_qos_flag p) (p_retain_available p) (p_retain_available_flag p) (p_user p) (p_maximum_packet_size p) (p_wildcard_sub_available p) (p_wildcard_sub_available_flag p) (p_sub_id_available p) (p_sub_id_available_flag p) (p_shared_sub_available p) (p_shared_sub_available_flag p).
Definition set_server_keep_alive_flag (x : bool) (p : props) : props :=
  mkprops (p_payload_format p) (p_payload_format_flag p) (p_message_expiry p) (p_content_type p) (p_response_topic p) (p_correlation_data p) (p_sub_ids p) (p_session_expiry p) (p_session_expiry_flag p) (p_assigned_client_id p) (p_server_keep_alive p) x (p_auth_method p) (p_auth_data p) (p_request_problem_info p) (p_request_problem_info_flag p) (p_will_delay p) (p_request_response_info p) (p_response_info p) (p_server_reference p) (p_reason_string p) (p_receive_maximum p) (p_topic_alias_maximum p) (p_topic_alias p) (p_topic_alias_flag p) (p_maximum_qos p) (p_maximum_qos_flag p) (p_retain_available p) (p_retain_available_flag p) (p_user p) (p_maximum_packet_size p) (p_wildcard_sub_available p) (p_wildcard_sub_available_flag p) (p_sub_id_available p) (p_sub_id_available_flag p) (p_shared_sub_available p) (p_shared_sub_available_flag p).
Definition set_auth_method (x : bytes) (p : props) : props :=
  mkprops (p_payload_format p) (p_payload_format_flag p) (p_message_expiry p) (p_content_type p) (p_response_topic p) (p_correlation_data p) (p_sub_ids p) (p_session_expiry p) (p_session_expiry_flag p) (p_assigned_client_id p) (p_server_keep_alive p) (p_server_keep_alive_flag p) x (p_auth_data p) (p_request_problem_info p) (p_request_problem_info_flag p) (p_will_delay p) (p_request_response_info p) (p_response_info p) (p_server_reference p) (p_reason_string p) (p_receive_maximum p) (p_topic_alias_maximum p) (p_topic_alias p) (p_topic_alias_flag p) (p_maximum_qos p) (p_maximum_qos_flag p) (p_retain_available p) (p_retain_available_flag p) (p_user p) (p_maximum_packet_size p) (p_wildcard_sub_available p) (p_wildcard_sub_available_flag p) (p_sub_id_available p) (p_sub_id_available_flag p) (p_shared_sub_available p) (p_shared_sub_available_flag p).
Definition set_auth_data (x : bytes) (p : props) : props :=
  mkprops (p_payload_format p) (p_payload_format_flag p) (p_message_expiry p) (p_content_type p) (p_response_topic p) (p_correlation_data p) (p_sub_ids p) (p_session_expiry p) (p_session_expiry_flag p) (p_assigned_client_id p) (p_server_keep_alive p) (p_server_keep_alive_flag p) (p_auth_method p) x (p_request_problem_info p) (p_request_problem_info_flag p) (p_will_delay p) (p_request_response_info p) (p_response_info p) (p_server_reference p) (p_reason_string p) (p_receive_maximum p) (p_topic_alias_maximum p) (p_topic_alias p) (p_topic_alias_flag p) (p_maximum_qos p) (p_maximum_qos_flag p) (p_retain_available p) (p_retain_available_flag p) (p_user p) (p_maximum_packet_size p) (p_wildcard_sub_available p) (p_wildcard_sub_available_flag p) (p_sub_id_available p) (p_sub_id_available_flag p) (p_shared_sub_available p) (p_shared_sub_available_flag p).
Definition set_request_problem_info (x : N) (p : props) : props :=
  mkprops (p_payload_format p) (p_payload_format_flag p) (p_message_expiry p) (p_content_type p) (p_response_topic p) (p_correlation_data p) (p_sub_ids p) (p_session_expiry p) (p_session_expiry_flag p) (p_assigned_client_id p) (p_server_keep_alive p) (p_server_keep_alive_flag p) (p_auth_method p) (p_auth_data p) x (p_request_problem_info_flag p) (p_will_delay p) (p_request_response_info p) (p_response_info p) (p_server_reference p) (p_reason_string p) (p_receive_maximum p) (p_topic_alias_maximum p) (p_topic_alias p) (p_topic_alias_flag p) (p_maximum_qos p) (p_maximum_qos_flag p) (p_retain_available p) (p_retain_available_flag p) (p_user p) (p_maximum_packet_size p) (p_wildcard_sub_available p) (p_wildcard_sub_available_flag p) (p_sub_id_available p) (p_sub_id_available_flag p) (p_shared_sub_available p) (p_shared_sub_available_flag p).
Definition set_request_problem_info_flag (x : bool) (p : props) : props :=
  mkprops (p_payload_format p) (p_payload_format_flag p) (p_message_expiry p) (p_content_type p) (p_response_topic p) (p_correlation_data p) (p_sub_ids p) (p_session_expiry p) (p_session_expiry_flag p) (p_assigned_client_id p) (p_server_keep_alive p) (p_server_keep_alive_flag p) (p_auth_method p) (p_auth_data p) (p_request_problem_info p) x (p_will_delay p) (p_request_response_info p) (p_response_info p) (p_server_reference p) (p_reason_string p) (p_receive_maximum p) (p_topic_alias_maximum p) (p_topic_alias p) (p_topic_alias_flag p) (p_maximum_qos p) (p_maximum_qos_flag p) (p_retain_available p) (p_retain_available_flag p) (p_user p) (p_maximum_packet_size p) (p_wildcard_sub_available p) (p_wildcard_sub_available_flag p) (p_sub_id_available p) (p_sub_id_available_flag p) (p_shared_sub_available p) (p_shared_sub_available_flag p).
Definition set_will_delay (x : N) (p : props) : props :=
  mkprops (p_payload_format p) (p_payload_format_flag p) (p_message_expiry p) (p_content_type p) (p_response_topic p) (p_correlation_data p) (p_sub_ids p) (p_session_expiry p) (p_session_expiry_flag p) (p_assigned_client_id p) (p_server_keep_alive p) (p_server_keep_alive_flag p) (p_auth_method p) (p_auth_data p) (p_request_problem_info p) (p_request_problem_info_flag p) x (p_request_response_info p) (p_response_info p) (p_server_reference p) (p_reason_string p) (p_receive_maximum p) (p_topic_alias_maximum p) (p_topic_alias p) (p_topic_alias_flag p) (p_maximum_qos p) (p_maximum_qos_flag p) (p_retain_available p) (p_retain_available_flag p) (p_user p) (p_maximum_packet_size p) (p_wildcard_sub_available p) (p_wildcard_sub_available_flag p) (p_sub_id_available p) (p_sub_id_available_flag p) (p_shared_sub_available p) (p_shared_sub_available_flag p).
Definition set_request_response_info (x : N) (p : props) : props :=
  mkprops (p_payload_format p) (p_payload_format_flag p) (p_message_expiry p) (p_content_type p) (p_response_topic p) (p_correlation_data p) (p_sub_ids p) (p_session_expiry p) (p_session_expiry_flag p) (p_assigned_client_id p) (p_server_keep_alive p) (p_server_keep_alive_flag p) (p_auth_method p) (p_auth_data p) (p_request_problem_info p) (p_request_problem_info_flag p) (p_will_delay p) x (p_response_info p) (p_server_reference p) (p_reason_string p) (p_receive_maximum p) (p_topic_alias_maximum p) (p_topic_alias p) (p_topic_alias_flag p) (p_maximum_qos p) (p_maximum_qos_flag p) (p_retain_available p) (p_retain_available_flag p) (p_user p) (p_maximum_packet_size p) (p_wildcard_sub_available p) (p_wildcard_sub_available_flag p) (p_sub_id_available p) (p_sub_id_available_flag p) (p_shared_sub_available p) (p_shared_sub_available_flag p).
Definition set_response_info (x : bytes) (p : props) : props :=
  mkprops (p_payload_format p) (p_payload_format_flag p) (p_message_expiry p) (p_content_type p) (p_response_topic p) (p_correlation_data p) (p_sub_ids p) (p_session_expiry p) (p_session_expiry_flag p) (p_assigned_client_id p) (p_server_keep_alive p) (p_server_keep_alive_flag p) (p_auth_method p) (p_auth_data p) (p_request_problem_info p) (p_request_problem_info_flag p) (p_will_delay p) (p_request_response_info p) x (p_server_reference p) (p_reason_string p) (p_receive_maximum p) (p_topic_alias_maximum p) (p_topic_alias p) (p_topic_alias_flag p) (p_maximum_qos p) (p_maximum_qos_flag p) (p_retain_available p) (p_retain_available_flag p) (p_user p) (p_maximum_packet_size p) (p_wildcard_sub_available p) (p_wildcard_sub_available_flag p) (p_sub_id_available p) (p_sub_id_available_flag p) (p_shared_sub_available p) (p_shared_sub_available_flag p).
Definition set_server_reference (x : bytes) (p : props) : props :=
  mkprops (p_payload_format p) (p_payload_format_flag p) (p_message_expiry p) (p_content_type p) (p_response_topic p) (p_correlation_data p) (p_sub_ids p) (p_session_expiry p) (p_session_expiry_flag p) (p_assigned_client_id p) (p_server_keep_alive p) (p_server_keep_alive_flag p) (p_auth_method p) (p_auth_data p) (p_request_problem_info p) (p_request_problem_info_flag p) (p_will_delay p) (p_request_response_info p) (p_response_info p) x (p_reason_string p) (p_receive_maximum p) (p_topic_alias_maximum p) (p_topic_alias p) (p_topic_alias_flag p) (p_maximum_qos p) (p_maximum_qos_flag p) (p_retain_available p) (p_retain_available_flag p) (p_user p) (p_maximum_packet_size p) (p_wildcard_sub_available p) (p_wildcard_sub_available_flag p) (p_sub_id_available p) (p_sub_id_available_flag p) (p_shared_sub_available p) (p_shared_sub_available_flag p).
Definition set_reason_string (x : bytes) (p : props) : props :=
  mkprops (p_payload_format p) (p_payload_format_flag p) (p_message_expiry p) (p_content_type p) (p_response_topic p) (p_correlation_data p) (p_sub_ids p) (p_session_expiry p) (p_session_expiry_flag p) (p_assigned_client_id p) (p_server_keep_alive p) (p_server_keep_alive_flag p) (p_auth_method p) (p_auth_data p) (p_request_problem_info p) (p_request_problem_info_flag p) (p_will_delay p) (p_request_response_info p) (p_response_info p) (p_server_reference p) x (p_receive_maximum p) (p_topic_alias_maximum p) (p_topic_alias p) (p_topic_alias_flag p) (p_maximum_qos p) (p_maximum_qos_flag p) (p_retain_available p) (p_retain_available_flag p) (p_user p) (p_maximum_packet_size p) (p_wildcard_sub_available p) (p_wildcard_sub_available_flag p) (p_sub_id_available p) (p_sub_id_available_flag p) (p_shared_sub_available p) (p_shared_sub_available_flag p).
Definition set_receive_maximum (x : N) (p : props) : props :=
  mkprops (p_payload_format p) (p_payload_format_flag p) (p_message_expiry p) (p_content_type p) (p_response_topic p) (p_correlation_data p) (p_sub_ids p) (p_session_expiry p) (p_session_expiry_flag p) (p_assigned_client_id p) (p_server_keep_alive p) (p_server_keep_alive_flag p) (p_auth_method p) (p_auth_data p) (p_request_problem_info p) (p_request_problem_info_flag p) (p_will_delay p) (p_request_response_info p) (p_response_info p) (p_server_reference p) (p_reason_string p) x (p_topic_alias_maximum p) (p_topic_alias p) (p_topic_alias_flag p) (p_maximum_qos p) (p_maximum_qos_flag p) (p_retain_available p) (p_retain_available_flag p) (p_user p) (p_maximum_packet_size p) (p_wildcard_sub_available p) (p_wildcard_sub_available_flag p) (p_sub_id_available p) (p_sub_id_available_flag p) (p_shared_sub_available p) (p_shared_sub_available_flag p).
Definition set_topic_alias_maximum (x : N) (p : props) : props :=
  mkprops (p_payload_format p) (p_payload_format_flag p) (p_message_expiry p) (p_content_type p) (p_response_topic p) (p_correlation_data p) (p_sub_ids p) (p_session_expiry p) (p_session_expiry_flag p) (p_assigned_client_id p) (p_server_keep_alive p) (p_server_keep_alive_flag p) (p_auth_method p) (p_auth_data p) (p_request_problem_info p) (p_request_problem_info_flag p) (p_will_delay p) (p_request_response_info p) (p_response_info p) (p_server_reference p) (p_reason_string p) (p_receive_maximum p) x (p_topic_alias p) (p_topic_alias_flag p) (p_maximum_qos p) (p_maximum_qos_flag p) (p_retain_available p) (p_retain_available_flag p) (p_user p) (p_maximum_packet_size p) (p_wildcard_sub_available p) (p_wildcard_sub_available_flag p) (p_sub_id_available p) (p_sub_id_available_flag p) (p_shared_sub_available p) (p_shared_sub_available_flag p).
Definition set_topic_alias (x : N) (p : props) : props :=
  mkprops (p_payload_format p) (p_payload_format_flag p) (p_message_expiry p) (p_content_type p) (p_response_topic p) (p_correlation_data p) (p_sub_ids p) (p_session_expiry p) (p_session_expiry_flag p) (p_assigned_client_id p) (p_server_keep_alive p) (p_server_keep_alive_flag p) (p_auth_method p) (p_auth_data p) (p_request_problem_info p) (p_request_problem_info_flag p) (p_will_delay p) (p_request_response_info p) (p_response_info p) (p_server_reference p) (p_reason_string p) (p_receive_maximum p) (p_topic_alias_maximum p) x (p_topic_alias_flag p) (p_maximum_qos p) (p_maximum_qos_flag p) (p_retain_available p) (p_retain_available_flag p) (p_user p) (p_maximum_packet_size p) (p_wildcard_sub_available p) (p_wildcard_sub_available_flag p) (p_sub_id_available p) (p_sub_id_available_flag p) (p_shared_sub_available p) (p_shared_sub_available_flag p).
Definition set_topic_alias_flag (x : bool) (p : props) : props :=
  mkprops (p_payload_format p) (p_payload_format_flag p) (p_message_expiry p) (p_content_type p) (p_response_topic p) (p_correlation_data p) (p_sub_ids p) (p_session_expiry p) (p_session_expiry_flag p) (p_assigned_client_id p) (p_server_keep_alive p) (p_server_keep_alive_flag p) (p_auth_method p) (p_auth_data p) (p_request_problem_info p) (p_request_problem_info_flag p) (p_will_delay p) (p_request_response_info p) (p_response_info p) (p_server_reference p) (p_reason_string p) (p_receive_maximum p) (p_topic_alias_maximum p) (p_topic_alias p) x (p_maximum_qos p) (p_maximum_qos_flag p) (p_retain_available p) (p_retain_available_flag p) (p_user p) (p_maximum_packet_size p) (p_wildcard_sub_available p) (p_wildcard_sub_available_flag p) (p_sub_id_available p) (p_sub_id_available_flag p) (p_shared_sub_available p) (p_shared_sub_available_flag p).
Definition set_maximum_qos (x : N) (p : props) : props :=
  mkprops (p_payload_format p) (p_payload_format_flag p) (p_message_expiry p) (p_content_type p) (p_response_topic p) (p_correlation_data p) (p_sub_ids p) (p_session_expiry p) (p_session_expiry_flag p) (p_assigned_client_id p) (p_server_keep_alive p) (p_server_keep_alive_flag p) (p_auth_method p) (p_auth_data p) (p_request_problem_info p) (p_request_problem_info_flag p) (p_will_delay p) (p_request_response_info p) (p_response_info p) (p_server_reference p) (p_reason_string p) (p_receive_maximum p) (p_topic_alias_maximum p) (p_topic_alias p) (p_topic_alias_flag p) x (p_maximum_qos_flag p) (p_retain_available p) (p_retain_available_flag p) (p_user p) (p_maximum_packet_size p) (p_wildcard_sub_available p) (p_wildcard_sub_available_flag p) (p_sub_id_available p) (p_sub_id_available_flag p) (p_shared_sub_available p) (p_shared_sub_available_flag p).
Definition set_maximum_qos_flag (x : bool) (p : props) : props :=
  mkprops (p_payload_format p) (p_payload_format_flag p) (p_message_expiry p) (p_content_type p) (p_response_topic p) (p_correlation_data p) (p_sub_ids p) (p_session_expiry p) (p_session_expiry_flag p) (p_assigned_client_id p) (p_server_keep_alive p) (p_server_keep_alive_flag p) (p_auth_method p) (p_auth_data p) (p_request_problem_info p) (p_request_problem_info_flag p) (p_will_delay p) (p_request_response_info p) (p_response_info p) (p_server_reference p) (p_reason_string p) (p_receive_maximum p) (p_topic_alias_maximum p) (p_topic_alias p) (p_topic_alias_flag p) (p_maximum_qos p) x (p_retain_available p) (p_retain_available_flag p) (p_user p) (p_maximum_packet_size p) (p_wildcard_sub_available p) (p_wildcard_sub_available_flag p) (p_sub_id_available p) (p_sub_id_available_flag p) (p_shared_sub_available p) (p_shared_sub_available_flag p).
Definition set_retain_available (x : N) (p : props) : props :=
  mkprops (p_payload_format p) (p_payload_format_flag p) (p_message_expiry p) (p_content_type p) (p_response_topic p) (p_correlation_data p) (p_sub_ids p) (p_session_expiry p) (p_session_expiry_flag p) (p_assigned_client_id p) (p_server_keep_alive p) (p_server_keep_alive_flag p) (p_auth_method p) (p_auth_data p) (p_request_problem_info p) (p_request_problem_info_flag p) (p_will_delay p) (p_request_response_info p) (p_response_info p) (p_server_reference p) (p_reason_string p) (p_receive_maximum p) (p_topic_alias_maximum p) (p_topic_alias p) (p_topic_alias_flag p) (p_maximum_qos p) (p_maximum_qos_flag p) x (p_retain_available_flag p) (p_user p) (p_maximum_packet_size p) (p_wildcard_sub_available p) (p_wildcard_sub_available_flag p) (p_sub_id_available p) (p_sub_id_available_flag p) (p_shared_sub_available p) (p_shared_sub_available_flag p).
Definition set_retain_available_flag (x : bool) (p : props) : props :=
  mkprops (p_payload_format p) (p_payload_format_flag p) (p_message_expiry p) (p_content_type p) (p_response_topic p) (p_correlation_data p) (p_sub_ids p) (p_session_expiry p) (p_session_expiry_flag p) (p_assigned_client_id p) (p_server_keep_alive p) (p_server_keep_alive_flag p) (p_auth_method p) (p_auth_data p) (p_request_problem_info p) (p_request_problem_info_flag p) (p_will_delay p) (p_request_response_info p) (p_response_info p) (p_server_reference p) (p_reason_string p) (p_receive_maximum p) (p_topic_alias_maximum p) (p_topic_alias p) (p_topic_alias_flag p) (p_maximum_qos p) (p_maximum_qos_flag p) (p_retain_available p) x (p_user p) (p_maximum_packet_size p) (p_wildcard_sub_available p) (p_wildcard_sub_available_flag p) (p_sub_id_available p) (p_sub_id_available_flag p) (p_shared_sub_available p) (p_shared_sub_available_flag p).
Definition set_user (x : list (bytes * bytes)) (p : props) : props :=
  mkprops (p_payload_format p) (p_payload_format_flag p) (p_message_expiry p) (p_content_type p) (p_response_topic p) (p_correlation_data p) (p_sub_ids p) (p_session_expiry p) (p_session_expiry_flag p) (p_assigned_client_id p) (p_server_keep_alive p) (p_server_keep_alive_flag p) (p_auth_method p) (p_auth_data p) (p_request_problem_info p) (p_request_problem_info_flag p) (p_will_delay p) (p_request_response_info p) (p_response_info p) (p_server_reference p) (p_reason_string p) (p_receive_maximum p) (p_topic_alias_maximum p) (p_topic_alias p) (p_topic_alias_flag p) (p_maximum_qos p) (p_maximum_qos_flag p) (p_retain_available p) (p_retain_available_flag p) x (p_maximum_packet_size p) (p_wildcard_sub_available p) (p_wildcard_sub_available_flag p) (p_sub_id_available p) (p_sub_id_available_flag p) (p_shared_sub_available p) (p_shared_sub_available_flag p).
Definition set_maximum_packet_size (x : N) (p : props) : props :=
  mkprops (p_payload_format p) (p_payload_format_flag p) (p_message_expiry p) (p_content_type p) (p_response_topic p) (p_correlation_data p) (p_sub_ids p) (p_session_expiry p) (p_session_expiry_flag p) (p_assigned_client_id p) (p_server_keep_alive p) (p_server_keep_alive_flag p) (p_auth_method p) (p_auth_data p) (p_request_problem_info p) (p_request_problem_info_flag p) (p_will_delay p) (p_request_response_info p) (p_response_info p) (p_server_reference p) (p_reason_string p) (p_receive_maximum p) (p_topic_alias_maximum p) (p_topic_alias p) (p_topic_alias_flag p) (p_maximum_qos p) (p_maximum_qos_flag p) (p_retain_available p) (p_retain_available_flag p) (p_user p) x (p_wildcard_sub_available p) (p_wildcard_sub_available_flag p) (p_sub_id_available p) (p_sub_id_available_flag p) (p_shared_sub_available p) (p_shared_sub_available_flag p).
Definition set_wildcard_sub_available (x : N) (p : props) : props :=
  mkprops (p_payload_format p) (p_payload_format_flag p) (p_message_expiry p) (p_content_type p) (p_response_topic p) (p_correlation_data p) (p_sub_ids p) (p_session_expiry p) (p_session_expiry_flag p) (p_assigned_client_id p) (p_server_keep_alive p) (p_server_keep_alive_flag p) (p_auth_method p) (p_auth_data p) (p_request_problem_info p) (p_request_problem_info_flag p) (p_will_delay p) (p_request_response_info p) (p_response_info p) (p_server_reference p) (p_reason_string p) (p_receive_maximum p) (p_topic_alias_maximum p) (p_topic_alias p) (p_topic_alias_flag p) (p_maximum_qos p) (p_maximum_qos_flag p) (p_retain_available p) (p_retain_available_flag p) (p_user p) (p_maximum_packet_size p) x (p_wildcard_sub_available_flag p) (p_sub_id_available p) (p_sub_id_available_flag p) (p_shared_sub_available p) (p_shared_sub_available_flag p).
Definition set_wildcard_sub_available_flag (x : bool) (p : props) : props :=
  mkprops (p_payload_format p) (p_payload_format_flag p) (p_message_expiry p) (p_content_type p) (p_response_topic p) (p_correlation_data p) (p_sub_ids p) (p_session_expiry p) (p_session_expiry_flag p) (p_assigned_client_id p) (p_server_keep_alive p) (p_server_keep_alive_flag p) (p_auth_method p) (p_auth_data p) (p_request_problem_info p) (p_request_problem_info_flag p) (p_will_delay p) (p_request_response_info p) (p_response_info p) (p_server_reference p) (p_reason_string p) (p_receive_maximum p) (p_topic_alias_maximum p) (p_topic_alias p) (p_topic_alias_flag p) (p_maximum_qos p) (p_maximum_qos_flag p) (p_retain_available p) (p_retain_available_flag p) (p_user p) (p_maximum_packet_size p) (p_wildcard_sub_available p) x (p_sub_id_available p) (p_sub_id_available_flag p) (p_shared_sub_available p) (p_shared_sub_available_flag p).
Definition set_sub_id_available (x : N) (p : props) : props :=
  mkprops (p_payload_format p) (p_payload_format_flag p) (p_message_expiry p) (p_content_type p) (p_response_topic p) (p_correlation_data p) (p_sub_ids p) (p_session_expiry p) (p_session_expiry_flag p) (p_assigned_client_id p) (p_server_keep_alive p) (p_server_keep_alive_flag p) (p_auth_method p) (p_auth_data p) (p_request_problem_info p) (p_request_problem_info_flag p) (p_will_delay p) (p_request_response_info p) (p_response_info p) (p_server_reference p) (p_reason_string p) (p_receive_maximum p) (p_topic_alias_maximum p) (p_topic_alias p) (p_topic_alias_flag p) (p_maximum_qos p) (p_maximum_qos_flag p) (p_retain_available p) (p_retain_available_flag p) (p_user p) (p_maximum_packet_size p) (p_wildcard_sub_available p) (p_wildcard_sub_available_flag p) x (p_sub_id_available_flag p) (p_shared_sub_available p) (p_shared_sub_available_flag p).
Definition set_sub_id_available_flag (x : bool) (p : props) : props :=
  mkprops (p_payload_format p) (p_payload_format_flag p) (p_message_expiry p) (p_content_type p) (p_response_topic p) (p_correlation_data p) (p_sub_ids p) (p_session_expiry p) (p_session_expiry_flag p) (p_assigned_client_id p) (p_server_keep_alive p) (p_server_keep_alive_flag p) (p_auth_method p) (p_auth_data p) (p_request_problem_info p) (p_request_problem_info_flag p) (p_will_delay p) (p_request_response_info p) (p_response_info p) (p_server_reference p) (p_reason_string p) (p_receive_maximum p) (p_topic_alias_maximum p) (p_topic_alias p) (p_topic_alias_flag p) (p_maximum_qos p) (p_maximum_qos_flag p) (p_retain_available p) (p_retain_available_flag p) (p_user p) (p_maximum_packet_size p) (p_wildcard_sub_available p) (p_wildcard_sub_available_flag p) (p_sub_id_available p) x (p_shared_sub_available p) (p_shared_sub_available_flag p).
Definition set_shared_sub_available (x : N) (p : props) : props :=
  mkprops (p_payload_format p) (p_payload_format_flag p) (p_message_expiry p) (p_content_type p) (p_response_topic p) (p_correlation_data p) (p_sub_ids p) (p_session_expiry p) (p_session_expiry_flag p) (p_assigned_client_id p) (p_server_keep_alive p) (p_server_keep_alive_flag p) (p_auth_method p) (p_auth_data p) (p_request_problem_info p) (p_request_problem_info_flag p) (p_will_delay p) (p_request_response_info p) (p_response_info p) (p_server_reference p) (p_reason_string p) (p_receive_maximum p) (p_topic_alias_maximum p) (p_topic_alias p) (p_topic_alias_flag p) (p_maximum_qos p) (p_maximum_qos_flag p) (p_retain_available p) (p_retain_available_flag p) (p_user p) (p_maximum_packet_size p) (p_wildcard_sub_available p) (p_wildcard_sub_available_flag p) (p_sub_id_available p) (p_sub_id_available_flag p) x (p_shared_sub_available_flag p).
Definition set_shared_sub_available_flag (x : bool) (p : props) : props :=
  mkprops (p_payload_format p) (p_payload_format_flag p) (p_message_expiry p) (p_content_type p) (p_response_topic p) (p_correlation_data p) (p_sub_ids p) (p_session_expiry p) (p_session_expiry_flag p) (p_assigned_client_id p) (p_server_keep_alive p) (p_server_keep_alive_flag p) (p_auth_method p) (p_auth_data p) (p_request_problem_info p) (p_request_problem_info_flag p) (p_will_delay p) (p_request_response_info p) (p_response_info p) (p_server_reference p) (p_reason_string p) (p_receive_maximum p) (p_topic_alias_maximum p) (p_topic_alias p) (p_topic_alias_flag p) (p_maximum_qos p) (p_maximum_qos_flag p) (p_retain_available p) (p_retain_available_flag p) (p_user p) (p_maximum_packet_size p) (p_wildcard_sub_available p) (p_wildcard_sub_available_flag p) (p_sub_id_available p) (p_sub_id_available_flag p) (p_shared_sub_available p) x.

(* ---------- validPacketProperties (properties.go:46-74): is [pkt] a key of the map for id [k] ---------- *)
Definition mem (x : N) (l : list N) : bool := existsb (N.eqb x) l.

Definition valid_prop (k pkt : N) : bool :=
  match k with
  | 1 | 2 | 3 | 8 | 9 => mem pkt [PUBLISH; WILLPROPS]
  | 11 => mem pkt [PUBLISH; SUBSCRIBE]
  | 17 => mem pkt [CONNECT; CONNACK; DISCONNECT]
  | 18 | 19 => mem pkt [CONNACK]
  | 21 | 22 => mem pkt [CONNECT; CONNACK; AUTH]
  | 23 => mem pkt [CONNECT]
  | 24 => mem pkt [WILLPROPS]
  | 25 => mem pkt [CONNECT]
  | 26 => mem pkt [CONNACK]
  | 28 => mem pkt [CONNACK; DISCONNECT]
  | 31 => mem pkt [CONNACK; PUBACK; PUBREC; PUBREL; PUBCOMP; SUBACK; UNSUBACK; DISCONNECT; AUTH]
  | 33 | 34 => mem pkt [CONNECT; CONNACK]
  | 35 => mem pkt [PUBLISH]
  | 36 | 37 => mem pkt [CONNACK]
  | 38 => mem pkt [CONNECT; CONNACK; PUBLISH; PUBACK; PUBREC; PUBREL; PUBCOMP; SUBSCRIBE; SUBACK;
                    UNSUBSCRIBE; UNSUBACK; DISCONNECT; AUTH; WILLPROPS]
  | 39 => mem pkt [CONNECT; CONNACK]
  | 40 | 41 | 42 => mem pkt [CONNACK]
  | _ => false
  end.

(* ---------- Properties.Decode (properties.go:366-481) ---------- *)

(* the [switch k] of the loop body: decodes the value at [offset] of [bt] and stores it *)
Definition prop_case (k : N) (bt : bytes) (offset : N) (p : props) : res (props * N) :=
  match k with
  | 1 => let* (v, o) := decodeByte bt offset in Ok (set_payload_format_flag true (set_payload_format v p), o)
  | 2 => let* (v, o) := decodeUint32 bt offset in Ok (set_message_expiry v p, o)
  | 3 => let* (v, o) := decodeString bt offset in Ok (set_content_type v p, o)
  | 8 => let* (v, o) := decodeString bt offset in Ok (set_response_topic v p, o)
  | 9 => let* (v, o) := decodeBytes bt offset in Ok (set_correlation_data v p, o)
  | 11 =>
      (* n, bu, err := DecodeLength(bytes.NewBuffer(bt[offset:])) *)
      let* s := slice_from bt offset in
      match vbi_decode s with
      | VOk n bu _ => Ok (set_sub_ids (p_sub_ids p ++ [n]) p, offset + bu)
      | VErrEOF _ => Err EEOF
      | VErrMalformed _ => Err EVariableByteInteger
      end
  | 17 => let* (v, o) := decodeUint32 bt offset in Ok (set_session_expiry_flag true (set_session_expiry v p), o)
  | 18 => let* (v, o) := decodeString bt offset in Ok (set_assigned_client_id v p, o)
  | 19 => let* (v, o) := decodeUint16 bt offset in Ok (set_server_keep_alive_flag true (set_server_keep_alive v p), o)
  | 21 => let* (v, o) := decodeString bt offset in Ok (set_auth_method v p, o)
  | 22 => let* (v, o) := decodeBytes bt offset in Ok (set_auth_data v p, o)
  | 23 => let* (v, o) := decodeByte bt offset in Ok (set_request_problem_info_flag true (set_request_problem_info v p), o)
  | 24 => let* (v, o) := decodeUint32 bt offset in Ok (set_will_delay v p, o)
  | 25 => let* (v, o) := decodeByte bt offset in Ok (set_request_response_info v p, o)
  | 26 => let* (v, o) := decodeString bt offset in Ok (set_response_info v p, o)
  | 28 => let* (v, o) := decodeString bt offset in Ok (set_server_reference v p, o)
  | 31 => let* (v, o) := decodeString bt offset in Ok (set_reason_string v p, o)
  | 33 => let* (v, o) := decodeUint16 bt offset in Ok (set_receive_maximum v p, o)
  | 34 => let* (v, o) := decodeUint16 bt offset in Ok (set_topic_alias_maximum v p, o)
  | 35 => let* (v, o) := decodeUint16 bt offset in Ok (set_topic_alias_flag true (set_topic_alias v p), o)
  | 36 => let* (v, o) := decodeByte bt offset in Ok (set_maximum_qos_flag true (set_maximum_qos v p), o)
  | 37 => let* (v, o) := decodeByte bt offset in Ok (set_retain_available_flag true (set_retain_available v p), o)
  | 38 =>
      let* (key, o) := decodeString bt offset in
      let* (v, o') := decodeString bt o in
      Ok (set_user (p_user p ++ [(key, v)]) p, o')
  | 39 => let* (v, o) := decodeUint32 bt offset in Ok (set_maximum_packet_size v p, o)
  | 40 => let* (v, o) := decodeByte bt offset in Ok (set_wildcard_sub_available_flag true (set_wildcard_sub_available v p), o)
  | 41 => let* (v, o) := decodeByte bt offset in Ok (set_sub_id_available_flag true (set_sub_id_available v p), o)
  | 42 => let* (v, o) := decodeByte bt offset in Ok (set_shared_sub_available_flag true (set_shared_sub_available v p), o)
  | _ => Ok (p, offset)      (* no case of the switch matches: nothing is read *)
  end.

(* for offset := 0; offset < n; { k, offset = decodeByte(bt, offset); check table; switch k } *)
Fixpoint props_loop (fuel : nat) (pkt : N) (bt : bytes) (n offset : N) (p : props) : res props :=
  if n <=? offset then Ok p
  else match fuel with
       | O => Fuel
       | S f =>
           let* (k, o1) := decodeByte bt offset in
           if negb (valid_prop k pkt) then Err EUnsupportedProperty
           else let* (p', o2) := prop_case k bt o1 p in
                props_loop f pkt bt n o2 p'
       end.

(* [b] is the content of the bytes.Buffer handed to Decode; result = (n + bu, properties).
   Note bt := b.Bytes() is everything after the length field, not just the next n bytes. *)
Definition props_decode (pkt : N) (p : props) (b : bytes) : res (N * props) :=
  match vbi_decode b with
  | VErrEOF _ => Err EEOF
  | VErrMalformed _ => Err EVariableByteInteger
  | VOk n bu bt =>
      if n =? 0 then Ok (n + bu, p)
      else let* p' := props_loop (S (length bt)) pkt bt n 0 p in Ok (n + bu, p')
  end.

(* ---------- Properties.Encode (properties.go:199-363) ---------- *)

Record mods := mkmods { m_max_size : N; m_disallow_problem_info : bool; m_allow_response_info : bool }.
Definition mods0 : mods := mkmods 0 false false.

Definition when (c : bool) (b : bytes) : bytes := if c then b else [].
Definition nonempty (b : bytes) : bool := match b with [] => false | _ => true end.
(* strings.ContainsAny(s, "+#") *)
Definition has_wildcard (s : bytes) : bool := existsb (fun b => (b =? 43) || (b =? 35)) s.
Definition uint32 (x : N) : N := x mod 4294967296.

Fixpoint enc_sub_ids (l : list N) : res bytes :=
  match l with
  | [] => Ok []
  | v :: r =>
      let* rest := enc_sub_ids r in
      if 0 <? v then let* e := encodeLength v in Ok (11 :: e ++ rest) else Ok rest
  end.

Fixpoint enc_user (l : list (bytes * bytes)) : bytes :=
  match l with
  | [] => []
  | (k, v) :: r => 38 :: encodeString k ++ encodeString v ++ enc_user r
  end.

(* the property bytes without the length prefix, in the order of the Go function *)
Definition props_body (pkt : N) (m : mods) (p : props) (n : N) : res bytes :=
  let can k := valid_prop k pkt in
  let* subids := (if can 11 && negb (match p_sub_ids p with [] => true | _ => false end) then enc_sub_ids (p_sub_ids p) else Ok []) in
  let rs := encodeString (p_reason_string p) in
  let ub := enc_user (p_user p) in
  Ok (
    when (can 1 && p_payload_format_flag p) (1 :: [p_payload_format p]) ++
    when (can 2 && (0 <? p_message_expiry p)) (2 :: encodeUint32 (p_message_expiry p)) ++
    when (can 3 && nonempty (p_content_type p)) (3 :: encodeString (p_content_type p)) ++
    when (m_allow_response_info m && can 8 && nonempty (p_response_topic p)
          && negb (has_wildcard (p_response_topic p))) (8 :: encodeString (p_response_topic p)) ++
    when (m_allow_response_info m && can 9 && nonempty (p_correlation_data p))
         (9 :: encodeBytes (p_correlation_data p)) ++
    subids ++
    when (can 17 && p_session_expiry_flag p) (17 :: encodeUint32 (p_session_expiry p)) ++
    when (can 18 && nonempty (p_assigned_client_id p)) (18 :: encodeString (p_assigned_client_id p)) ++
    when (can 19 && p_server_keep_alive_flag p) (19 :: encodeUint16 (p_server_keep_alive p)) ++
    when (can 21 && nonempty (p_auth_method p)) (21 :: encodeString (p_auth_method p)) ++
    when (can 22 && nonempty (p_auth_data p)) (22 :: encodeBytes (p_auth_data p)) ++
    when (can 23 && p_request_problem_info_flag p) (23 :: [p_request_problem_info p]) ++
    when (can 24 && (0 <? p_will_delay p)) (24 :: encodeUint32 (p_will_delay p)) ++
    when (can 25 && (0 <? p_request_response_info p)) (25 :: [p_request_response_info p]) ++
    when (m_allow_response_info m && can 26 && nonempty (p_response_info p))
         (26 :: encodeString (p_response_info p)) ++
    when (can 28 && nonempty (p_server_reference p)) (28 :: encodeString (p_server_reference p)) ++
    when (negb (m_disallow_problem_info m) && can 31 && nonempty (p_reason_string p)
          && ((m_max_size m =? 0) || (uint32 (n + blen rs + 1) <? m_max_size m))) (31 :: rs) ++
    when (can 33 && (0 <? p_receive_maximum p)) (33 :: encodeUint16 (p_receive_maximum p)) ++
    when (can 34 && (0 <? p_topic_alias_maximum p)) (34 :: encodeUint16 (p_topic_alias_maximum p)) ++
    when (can 35 && p_topic_alias_flag p && (0 <? p_topic_alias p)) (35 :: encodeUint16 (p_topic_alias p)) ++
    when (can 36 && p_maximum_qos_flag p && (p_maximum_qos p <? 2)) (36 :: [p_maximum_qos p]) ++
    when (can 37 && p_retain_available_flag p) (37 :: [p_retain_available p]) ++
    when ((negb (m_disallow_problem_info m) || (pkt =? PUBLISH)) && can 38
          && ((m_max_size m =? 0) || (uint32 (n + blen ub + 1) <? m_max_size m))) ub ++
    when (can 39 && (0 <? p_maximum_packet_size p)) (39 :: encodeUint32 (p_maximum_packet_size p)) ++
    when (can 40 && p_wildcard_sub_available_flag p) (40 :: [p_wildcard_sub_available p]) ++
    when (can 41 && p_sub_id_available_flag p) (41 :: [p_sub_id_available p]) ++
    when (can 42 && p_shared_sub_available_flag p) (42 :: [p_shared_sub_available p])).

(* encodeLength(b, buf.Len()); b.Write(buf.Bytes()) *)
Definition props_encode (pkt : N) (m : mods) (p : props) (n : N) : res bytes :=
  let* body := props_body pkt m p n in
  let* l := encodeLength (blen body) in
  Ok (l ++ body).
