(* C42 / C26, decoder side: the mochi decoder model applied to any encoding the reference codec
   (SpecCodec.v) writes for a packet yields the packet the sender meant (SpecBridge.expected). *)
From MV Require Import Base.Val Base.Bytes Codec.Vbi Codec.VbiProofs Codec.Wire Codec.Props Codec.MochiCodec
  Codec.SpecCodec Codec.SpecBridge Codec.CodecTotal Codec.CodecRT.
From Coq Require Import Lia ZifyBool ZifyN ZifyNat.
Ltac Zify.zify_post_hook ::= Z.div_mod_to_equations.
Open Scope N_scope.
Set Warnings "-unused-intro-pattern".

Arguments N.mul : simpl never.
Arguments N.add : simpl never.
Arguments N.sub : simpl never.
Arguments N.div : simpl never.
Arguments N.modulo : simpl never.
Arguments N.shiftl : simpl never.
Arguments N.shiftr : simpl never.
Arguments N.lor : simpl never.
Arguments N.land : simpl never.
Arguments N.ltb : simpl never.
Arguments N.leb : simpl never.
Arguments N.eqb : simpl never.
Arguments N.of_nat : simpl never.
Arguments N.to_nat : simpl never.
Arguments N.pow : simpl never.

Ltac rb := cbn beta iota delta [bind bind_err].

(* ---------- what the decoder needs of a packet to read its encoding back ---------- *)

Definition plist_fits (pkt : N) (ps : list sprop) : bool :=
  forallb prop_fits ps && props_valid_for pkt ps && (len (put_props_body ps) <=? 268435455).
Definition plist_v (v pkt : N) (ps : list sprop) : bool :=
  if v =? 5 then plist_fits pkt ps else no_props ps.

Definition will_fits (lvl : N) (w : swill) : bool :=
  plist_v lvl WILLPROPS (will_props w) && str_fits (will_topic w) && bin_fits (will_payload w)
  && (will_qos w <? 4).

Definition filter_fits (v : N) (f : sfilter) : bool :=
  str_fits (f_filter f) && (f_qos f <=? 2)
  && (if v =? 5 then f_retain_handling f <? 4
      else negb (f_no_local f) && negb (f_retain_as_published f) && (f_retain_handling f =? 0)).

Definition enc_ok (v : N) (p : spkt) : bool :=
  match p with
  | SConnect lvl clean ka ps cid will user pass =>
      plist_v lvl CONNECT ps && str_fits cid && opt_ok (will_fits lvl) will
      && opt_ok bin_fits user && opt_ok bin_fits pass
  | SConnack sp code ps => plist_v v CONNACK ps
  | SPublish dup qos retain topic id ps payload =>
      (qos <=? 2) && ((1 <=? qos) || negb dup) && str_fits topic && plist_v v PUBLISH ps
      && ((1 <=? qos) || (id =? 0))
  | SAck k id reason ps => plist_v v (ack_type k) ps && ((v =? 5) || (reason =? 0))
  | SSubscribe id ps fs => plist_v v SUBSCRIBE ps && forallb (filter_fits v) fs
  | SSuback id ps codes => plist_v v SUBACK ps
  | SUnsubscribe id ps fs => plist_v v UNSUBSCRIBE ps && forallb str_fits fs
  | SUnsuback id ps codes => plist_v v UNSUBACK ps && ((v =? 5) || match codes with [] => true | _ => false end)
  | SPingreq | SPingresp => true
  | SDisconnect reason ps => plist_v v DISCONNECT ps && ((v =? 5) || (reason =? 0))
  | SAuth reason ps => plist_fits AUTH ps
  end.

(* ---------- fixed header + remaining length + body ---------- *)

Lemma firstn_app_exact (a b : bytes) : firstn (N.to_nat (blen a)) (a ++ b) = a.
Proof. rewrite to_nat_blen, firstn_app, firstn_all, Nat.sub_diag. cbn [firstn]. apply app_nil_r. Qed.

Lemma skipn_app_exact (a b : bytes) : skipn (N.to_nat (blen a)) (a ++ b) = b.
Proof. rewrite to_nat_blen, skipn_app, skipn_all, Nat.sub_diag. reflexivity. Qed.

Lemma decode_frame v hb fh body rest :
  fh_decode fh0 hb = Ok fh -> blen body <= 268435455 -> Vbi.wf_bytes (body ++ rest) ->
  mochi_decode_packet v (hb :: put_vbi (len body) ++ body ++ rest) =
  (let* pk := mochi_decode_body v (set_fh_remaining (blen body) fh) body in Ok (pk, rest)).
Proof.
  intros Hfh Hl Hw. unfold mochi_decode_packet. rewrite Hfh. rb.
  change (len body) with (blen body).
  rewrite (vbi_decode_put _ _ Hl Hw).
  replace (blen (body ++ rest) <? blen body) with false by (rewrite blen_app; lia).
  rewrite firstn_app_exact, skipn_app_exact. reflexivity.
Qed.

(* ---------- property blocks inside a packet body ---------- *)

Lemma plist_fits_parts pkt ps : plist_fits pkt ps = true ->
  forallb prop_fits ps = true /\ props_valid_for pkt ps = true /\ len (put_props_body ps) <= 268435455.
Proof.
  unfold plist_fits. intro H. apply andb_prop in H. destruct H as [H H3].
  apply andb_prop in H. destruct H as [H1 H2]. repeat split; try assumption. lia.
Qed.

Lemma decode_props_at_put pk buf off ps r :
  plist_fits (fh_type (pk_fh pk)) ps = true -> Vbi.wf_bytes (put_props_body ps ++ r) ->
  cur buf off (put_props ps ++ r) ->
  decode_props_at pk buf off = Ok (blen (put_props ps), set_pk_props (store_all ps (pk_props pk)) pk).
Proof.
  intros Hf Hw H. destruct (plist_fits_parts _ _ Hf) as (H1 & H2 & H3).
  unfold decode_props_at. rewrite (slice_from_cur _ _ _ H). rb.
  rewrite (props_decode_put _ _ _ _ H1 H2 H3 Hw). reflexivity.
Qed.

Lemma wf_put_props_tail ps r : Vbi.wf_bytes (put_props ps ++ r) -> Vbi.wf_bytes (put_props_body ps ++ r).
Proof. unfold put_props. rewrite <- app_assoc. apply wf_app_r. Qed.

(* the idiom "if version 5, decode properties and advance" on a put_props_v block *)
Lemma props_if_v5_put pk buf off ps r :
  plist_v (pk_version pk) (fh_type (pk_fh pk)) ps = true ->
  Vbi.wf_bytes (put_props_v (pk_version pk) ps ++ r) ->
  cur buf off (put_props_v (pk_version pk) ps ++ r) ->
  props_if_v5 pk buf off =
  Ok (set_pk_props (store_all ps (pk_props pk)) pk, off + blen (put_props_v (pk_version pk) ps)).
Proof.
  unfold plist_v, props_if_v5, put_props_v, v5. intros Hf Hw H.
  destruct (pk_version pk =? 5).
  - rewrite (decode_props_at_put _ _ _ _ _ Hf (wf_put_props_tail _ _ Hw) H). reflexivity.
  - destruct ps; [|discriminate]. cbn [store_all fold_left]. change (blen []) with 0.
    rewrite N.add_0_r. destruct pk; reflexivity.
Qed.

(* ---------- per-type: the body decoders on the reference bodies ---------- *)

Definition qos_of (p : spkt) : N :=
  match p with
  | SPublish _ qos _ _ _ _ _ => qos
  | SAck KPubrel _ _ _ | SSubscribe _ _ _ | SUnsubscribe _ _ _ => 1
  | _ => 0
  end.
Definition dup_of (p : spkt) : bool := match p with SPublish dup _ _ _ _ _ _ => dup | _ => false end.
Definition retain_of (p : spkt) : bool := match p with SPublish _ _ retain _ _ _ _ => retain | _ => false end.
Definition fh_of (p : spkt) (rem : N) : fixedheader := mkfh rem (ptype p) (qos_of p) (dup_of p) (retain_of p).

Definition body_decodes (v : N) (p : spkt) (body : bytes) : Prop :=
  mochi_decode_body v (fh_of p (blen body)) body = Ok (expected v p (blen body)).

Lemma blen_put_props_pos ps : 1 <= blen (put_props ps).
Proof.
  unfold put_props. rewrite blen_app. unfold put_vbi.
  repeat match goal with |- context [if ?c then _ else _] => destruct c end; cbn [length blen]; unfold blen; cbn [length]; lia.
Qed.

Lemma in_cons_app {A} (x a : A) l1 l2 : In x (a :: l1 ++ l2) -> x = a \/ In x l1 \/ In x l2.
Proof. intros [H|H]; [left; symmetry; exact H|]. apply in_app_or in H. tauto. Qed.

Lemma no_props_nil ps : no_props ps = true -> ps = [].
Proof. destruct ps; [reflexivity|discriminate]. Qed.

(* reason code + properties, possibly cut short: shared by acks, DISCONNECT, AUTH *)
Lemma short_forms reason ps (pre : bytes) body :
  In body ((pre ++ reason :: put_props ps)
           :: (if no_props ps then [pre ++ [reason]] else [])
           ++ (if no_props ps && (reason =? 0) then [pre] else [])) ->
  (body = pre ++ [reason] ++ put_props ps ++ []) \/
  (ps = [] /\ body = pre ++ [reason]) \/
  (ps = [] /\ reason = 0 /\ body = pre).
Proof.
  intro H. apply in_cons_app in H. destruct H as [H|[H|H]].
  - left. rewrite app_nil_r. exact H.
  - destruct (no_props ps) eqn:E; [|contradiction]. destruct H as [H|[]].
    right. left. split; [apply no_props_nil; exact E | symmetry; exact H].
  - destruct (no_props ps) eqn:E; [|contradiction].
    destruct (reason =? 0) eqn:E0; [|contradiction]. destruct H as [H|[]].
    right. right. split; [apply no_props_nil; exact E|]. split; [lia | symmetry; exact H].
Qed.

Ltac pkred :=
  cbn [fresh_packet packet0 pk_connect pk_props pk_payload pk_reason_codes pk_filters pk_topic pk_fh pk_mods
       pk_packet_id pk_version pk_session_present pk_reason_code pk_reserved_bit
       set_pk_connect set_pk_props set_pk_payload set_pk_reason_codes set_pk_filters set_pk_topic set_pk_fh
       set_pk_mods set_pk_packet_id set_pk_version set_pk_session_present set_pk_reason_code set_pk_reserved_bit
       fh_remaining fh_type fh_qos fh_dup fh_retain upd_connect].
Ltac iftrue := match goal with |- context [if ?c then _ else _] => replace c with true by lia; cbv iota end.
Ltac iffalse := match goal with |- context [if ?c then _ else _] => replace c with false by lia; cbv iota end.
Ltac blens := repeat first [rewrite blen_app | rewrite blen_cons]; change (blen (@nil N)) with 0;
  repeat match goal with |- context [blen (put_u16 ?x)] => change (blen (put_u16 x)) with 2 end.

Ltac adv C := apply cur_adv in C;
  repeat match type of C with context [blen (put_u16 ?x)] => change (blen (put_u16 x)) with 2 in C end;
  repeat match type of C with context [blen [?x]] => change (blen [x]) with 1 in C end.

Lemma ack_decodes v k id reason ps body :
  enc_ok v (SAck k id reason ps) = true -> In body (bodies v (SAck k id reason ps)) ->
  Vbi.wf_bytes body -> body_decodes v (SAck k id reason ps) body.
Proof.
  intros Hok Hin Hw. unfold body_decodes, mochi_decode_body, decode_body, fh_of.
  cbn [ptype]. pkred.
  assert (Hd : ack_decode (fresh_packet v (mkfh (blen body) (ack_type k) (qos_of (SAck k id reason ps)) false false)) body
               = Ok (expected v (SAck k id reason ps) (blen body))).
  { unfold ack_decode. cbn [enc_ok] in Hok. apply andb_prop in Hok. destruct Hok as [Hp Hr].
    unfold bodies, v5 in Hin. unfold plist_v in Hp. pose proof (blen_put_props_pos ps) as Pp.
    destruct (v =? 5) eqn:Ev; cbn [negb] in Hin.
    - apply N.eqb_eq in Ev. subst v.
      cbn [full_body] in Hin. unfold v5 in Hin. change (5 =? 5) with true in Hin. cbv iota in Hin.
      apply (short_forms reason ps (put_u16 id)) in Hin.
      pose proof (cur_start body) as C.
      destruct Hin as [Hb | [[Hps Hb] | [Hps [Hr0 Hb]]]]; subst body; try subst ps; try subst reason.
      + rewrite (decodeUint16_put _ _ _ _ C). rb. adv C. pkred. blens. iftrue.
        rewrite (decodeByte_cur _ _ _ _ C). rb. pkred. iftrue.
        adv C.
        apply wf_app_r in Hw. apply wf_app_r in Hw.
        erewrite decode_props_at_put; [ | exact Hp | apply wf_put_props_tail; exact Hw | exact C ].
        rb. destruct k; reflexivity.
      + rewrite (decodeUint16_put _ _ _ _ C). rb. adv C. pkred. blens. iftrue.
        rewrite (decodeByte_cur _ _ _ _ C). rb. pkred. iffalse.
        destruct k; reflexivity.
      + rewrite <- (app_nil_r (put_u16 id)) in C at 2. rewrite (decodeUint16_put _ _ _ _ C). rb.
        pkred. blens. iffalse. destruct k; reflexivity.
    - destruct Hin as [Hb|[]]. subst body. cbn [full_body]. unfold v5. rewrite Ev.
      apply no_props_nil in Hp. subst ps. cbn [orb] in Hr. apply N.eqb_eq in Hr. subst reason.
      pose proof (cur_start (put_u16 id ++ [])) as C.
      rewrite (decodeUint16_put _ _ _ _ C). rb. pkred.
      rewrite Ev. cbn [andb]. destruct k; reflexivity. }
  destruct k; exact Hd.
Qed.

Lemma disconnect_decodes v reason ps body :
  enc_ok v (SDisconnect reason ps) = true -> In body (bodies v (SDisconnect reason ps)) ->
  Vbi.wf_bytes body -> body_decodes v (SDisconnect reason ps) body.
Proof.
  intros Hok Hin Hw. unfold body_decodes, mochi_decode_body, decode_body, fh_of.
  cbn [ptype]. pkred. unfold disconnect_decode.
  cbn [enc_ok] in Hok. apply andb_prop in Hok. destruct Hok as [Hp Hr].
  unfold bodies, v5 in Hin. unfold plist_v in Hp. pose proof (blen_put_props_pos ps) as Pp.
  destruct (v =? 5) eqn:Ev; cbn [negb] in Hin.
  - apply N.eqb_eq in Ev. subst v.
    cbn [full_body] in Hin. unfold v5 in Hin. change (5 =? 5) with true in Hin. cbv iota in Hin.
    apply (short_forms reason ps []) in Hin. cbn [app] in Hin.
    pose proof (cur_start body) as C.
    destruct Hin as [Hb | [[Hps Hb] | [Hps [Hr0 Hb]]]]; subst body; try subst ps; try subst reason.
    + pkred. blens. change (5 =? 5) with true. cbn [andb]. iftrue.
      change (reason :: put_props ps ++ []) with ([reason] ++ put_props ps ++ []) in *.
      rewrite (decodeByte_cur _ _ _ _ C). rb. adv C. pkred. iftrue.
      apply wf_app_r in Hw.
      erewrite decode_props_at_put; [ | exact Hp | apply wf_put_props_tail; exact Hw | exact C ].
      rb. reflexivity.
    + pkred. blens. change (5 =? 5) with true. cbn [andb]. iftrue.
      rewrite (decodeByte_cur _ _ _ _ C). rb. pkred. iffalse. reflexivity.
    + pkred. reflexivity.
  - destruct Hin as [Hb|[]]. subst body. cbn [full_body]. unfold v5. rewrite Ev.
    apply no_props_nil in Hp. subst ps. cbn [orb] in Hr. apply N.eqb_eq in Hr. subst reason.
    pkred. rewrite Ev. cbn [andb]. reflexivity.
Qed.

Lemma auth_decodes v reason ps body :
  enc_ok v (SAuth reason ps) = true -> In body (bodies v (SAuth reason ps)) ->
  Vbi.wf_bytes body -> body_decodes v (SAuth reason ps) body.
Proof.
  intros Hp Hin Hw. unfold body_decodes, mochi_decode_body, decode_body, fh_of.
  cbn [ptype]. pkred. unfold auth_decode. cbn [enc_ok] in Hp.
  pose proof (blen_put_props_pos ps) as Pp.
  assert (Hin' : (body = [reason] ++ put_props ps ++ []) \/ (ps = [] /\ body = [reason]) \/
                 (ps = [] /\ reason = 0 /\ body = [])).
  { unfold bodies in Hin. destruct (negb (v5 v)).
    - destruct Hin as [H|[]]. left. cbn [full_body] in H. rewrite app_nil_r. symmetry. exact H.
    - cbn [full_body] in Hin. apply (short_forms reason ps []) in Hin. exact Hin. }
  clear Hin. pose proof (cur_start body) as C.
  destruct Hin' as [Hb | [[Hps Hb] | [Hps [Hr0 Hb]]]]; subst body; try subst ps; try subst reason.
  - pkred. blens. iffalse.
    rewrite (decodeByte_cur _ _ _ _ C). rb. adv C. pkred. iftrue.
    apply wf_app_r in Hw.
    erewrite decode_props_at_put; [ | exact Hp | apply wf_put_props_tail; exact Hw | exact C ].
    rb. reflexivity.
  - pkred. blens. iffalse.
    rewrite (decodeByte_cur _ _ _ _ C). rb. pkred. iffalse. reflexivity.
  - pkred. reflexivity.
Qed.

Lemma ping_decodes v body : In body (bodies v SPingreq) -> body_decodes v SPingreq body.
Proof.
  unfold bodies. intro H. assert (body = []) as ->.
  { destruct (negb (v5 v)); destruct H as [H|[]]; symmetry; exact H. }
  reflexivity.
Qed.

Lemma pingresp_decodes v body : In body (bodies v SPingresp) -> body_decodes v SPingresp body.
Proof.
  unfold bodies. intro H. assert (body = []) as ->.
  { destruct (negb (v5 v)); destruct H as [H|[]]; symmetry; exact H. }
  reflexivity.
Qed.

Ltac one_body Hin body :=
  unfold bodies in Hin;
  match type of Hin with
  | In _ (if ?c then _ else _) => destruct c; destruct Hin as [Hin|[]]; subst body
  end.

Lemma publish_decodes v dup qos retain topic id ps payload body :
  enc_ok v (SPublish dup qos retain topic id ps payload) = true ->
  In body (bodies v (SPublish dup qos retain topic id ps payload)) ->
  Vbi.wf_bytes body -> body_decodes v (SPublish dup qos retain topic id ps payload) body.
Proof.
  intros Hok Hin Hw.
  assert (body = full_body v (SPublish dup qos retain topic id ps payload)) as ->.
  { unfold bodies in Hin. destruct (negb (v5 v)); destruct Hin as [H|[]]; symmetry; exact H. }
  clear Hin. cbn [enc_ok] in Hok.
  repeat (apply andb_prop in Hok; let H := fresh "Hk" in destruct Hok as [Hok H]).
  unfold body_decodes, mochi_decode_body, decode_body, fh_of. cbn [ptype qos_of dup_of retain_of]. pkred.
  unfold publish_decode. cbn [full_body] in *.
  set (body := put_str topic ++ (if qos =? 0 then [] else put_u16 id) ++ put_props_v v ps ++ payload) in *.
  pose proof (cur_start body) as C. unfold body in C at 2.
  rewrite (decodeString_fits _ _ _ _ Hk1 C). rb. adv C. pkred.
  destruct (qos =? 0) eqn:Eq.
  - iffalse. rb. cbn [app] in C.
    unfold body in Hw. apply wf_app_r in Hw. cbn [app] in Hw.
    erewrite props_if_v5_put; [ | exact Hk0 | exact Hw | exact C ]. rb. pkred. adv C.
    rewrite <- (app_nil_r payload) in C.
    rewrite (slice_from_cur _ _ _ C). rb. rewrite app_nil_r.
    assert (id = 0) as -> by lia. reflexivity.
  - iftrue. rewrite (decodeUint16_put _ _ _ _ C). rb. adv C. pkred.
    unfold body in Hw. apply wf_app_r in Hw. apply wf_app_r in Hw.
    erewrite props_if_v5_put; [ | exact Hk0 | exact Hw | exact C ]. rb. pkred. adv C.
    rewrite <- (app_nil_r payload) in C.
    rewrite (slice_from_cur _ _ _ C). rb. rewrite app_nil_r. reflexivity.
Qed.

Lemma full_only v p body : (forall b, bodies v p = [b] \/ True) ->
  (match p with SAck _ _ _ _ | SDisconnect _ _ | SAuth _ _ => False | _ => True end) ->
  In body (bodies v p) -> body = full_body v p.
Proof.
  intros _ Hp Hin. unfold bodies in Hin.
  destruct (negb (v5 v)); [destruct Hin as [H|[]]; symmetry; exact H|].
  destruct p; try contradiction; destruct Hin as [H|[]]; symmetry; exact H.
Qed.

Lemma connack_decodes v sp code ps body :
  enc_ok v (SConnack sp code ps) = true -> In body (bodies v (SConnack sp code ps)) ->
  Vbi.wf_bytes body -> body_decodes v (SConnack sp code ps) body.
Proof.
  intros Hok Hin Hw. apply full_only in Hin; [subst body | auto | exact I].
  cbn [enc_ok] in Hok.
  unfold body_decodes, mochi_decode_body, decode_body, fh_of. cbn [ptype qos_of dup_of retain_of]. pkred.
  unfold connack_decode. cbn [full_body] in *.
  set (body := [if sp then 1 else 0; code] ++ put_props_v v ps) in *.
  pose proof (cur_start body) as C. unfold body in C at 2. cbn [app] in C.
  rewrite (decodeByteBool_cur _ _ _ _ C). rb.
  change ((if sp then 1 else 0) :: code :: put_props_v v ps) with ([if sp then 1 else 0] ++ code :: put_props_v v ps) in C.
  adv C. rewrite (decodeByte_cur _ _ _ _ C). rb. pkred.
  change (code :: put_props_v v ps) with ([code] ++ put_props_v v ps) in C. adv C.
  assert (Esp : (0 <? N.land 1 (if sp then 1 else 0)) = sp) by (destruct sp; reflexivity).
  rewrite Esp. unfold plist_v in Hok. unfold put_props_v, v5 in *.
  destruct (v =? 5) eqn:Ev.
  - rewrite <- (app_nil_r (put_props ps)) in C.
    unfold body in Hw. cbn [app] in Hw. apply wf_cons_r in Hw. apply wf_cons_r in Hw.
    rewrite <- (app_nil_r (put_props ps)) in Hw.
    erewrite decode_props_at_put; [ | exact Hok | apply wf_put_props_tail; exact Hw | exact C ].
    rb. reflexivity.
  - apply no_props_nil in Hok. subst ps. reflexivity.
Qed.

Lemma suback_decodes v id ps codes body :
  enc_ok v (SSuback id ps codes) = true -> In body (bodies v (SSuback id ps codes)) ->
  Vbi.wf_bytes body -> body_decodes v (SSuback id ps codes) body.
Proof.
  intros Hok Hin Hw. apply full_only in Hin; [subst body | auto | exact I].
  cbn [enc_ok] in Hok.
  unfold body_decodes, mochi_decode_body, decode_body, fh_of. cbn [ptype qos_of dup_of retain_of]. pkred.
  unfold suback_decode. cbn [full_body] in *.
  set (body := put_u16 id ++ put_props_v v ps ++ codes) in *.
  pose proof (cur_start body) as C. unfold body in C at 2.
  rewrite (decodeUint16_put _ _ _ _ C). rb. adv C. pkred.
  unfold body in Hw. apply wf_app_r in Hw.
  erewrite props_if_v5_put; [ | exact Hok | exact Hw | exact C ]. rb. pkred. adv C.
  rewrite <- (app_nil_r codes) in C.
  rewrite (slice_from_cur _ _ _ C). rb. rewrite app_nil_r. reflexivity.
Qed.

Lemma unsuback_decodes v id ps codes body :
  enc_ok v (SUnsuback id ps codes) = true -> In body (bodies v (SUnsuback id ps codes)) ->
  Vbi.wf_bytes body -> body_decodes v (SUnsuback id ps codes) body.
Proof.
  intros Hok Hin Hw. apply full_only in Hin; [subst body | auto | exact I].
  cbn [enc_ok] in Hok. apply andb_prop in Hok. destruct Hok as [Hp Hc].
  unfold body_decodes, mochi_decode_body, decode_body, fh_of. cbn [ptype qos_of dup_of retain_of]. pkred.
  unfold unsuback_decode. cbn [full_body] in *.
  set (body := put_u16 id ++ put_props_v v ps ++ codes) in *.
  pose proof (cur_start body) as C. unfold body in C at 2.
  rewrite (decodeUint16_put _ _ _ _ C). rb. adv C. pkred.
  unfold plist_v in Hp. unfold put_props_v, v5 in *.
  destruct (v =? 5) eqn:Ev.
  - unfold body in Hw. apply wf_app_r in Hw.
    erewrite decode_props_at_put; [ | exact Hp | apply wf_put_props_tail; exact Hw | exact C ].
    rb. adv C. rewrite <- (app_nil_r codes) in C.
    rewrite (slice_from_cur _ _ _ C). rb. rewrite app_nil_r. reflexivity.
  - apply no_props_nil in Hp. subst ps. cbn [orb] in Hc. destruct codes; [|discriminate]. reflexivity.
Qed.

Lemma sub_decode_put qos nl rap rh flt : qos <= 2 -> rh < 4 ->
  sub_decode (qos + bool_bit nl 2 + bool_bit rap 3 + 16 * rh) (set_s_filter flt sub0) = mksub flt 0 rh qos rap nl.
Proof.
  intros Hq Hr.
  assert (Q : qos = 0 \/ qos = 1 \/ qos = 2) by lia.
  assert (R : rh = 0 \/ rh = 1 \/ rh = 2 \/ rh = 3) by lia.
  destruct Q as [->|[->| ->]]; destruct R as [->|[->|[->| ->]]]; destruct nl; destruct rap; vm_compute; reflexivity.
Qed.

Definition ident_of (ids : list N) : N := match ids with i :: _ => i | [] => 0 end.

Lemma subscribe_loop_put v ids : forall fs fuel buf off acc,
  (length fs <= fuel)%nat -> forallb (filter_fits v) fs = true ->
  cur buf off (concat (map (put_filter v) fs)) ->
  subscribe_loop fuel (v =? 5) ids buf off acc = Ok (acc ++ map (sub_of (ident_of ids)) fs).
Proof.
  induction fs as [|f fs IH]; intros fuel buf off acc Hfu Hfit C.
  - cbn [map concat] in C. pose proof (cur_le _ _ _ C) as L. change (blen []) with 0 in L.
    destruct fuel; cbn [subscribe_loop]; replace (blen buf <=? off) with true by lia;
      cbn [map]; rewrite app_nil_r; reflexivity.
  - destruct fuel as [|fu]; [cbn in Hfu; lia|]. cbn [length] in Hfu.
    cbn [forallb] in Hfit. apply andb_prop in Hfit. destruct Hfit as [Hf Hfs].
    unfold filter_fits in Hf. apply andb_prop in Hf. destruct Hf as [Hf Hopt].
    apply andb_prop in Hf. destruct Hf as [Hstr Hq].
    cbn [map concat] in C. unfold put_filter at 1 in C. rewrite <- !app_assoc in C.
    pose proof (cur_le _ _ _ C) as L. rewrite !blen_app in L. change (blen [_]) with 1 in L.
    cbn [subscribe_loop]. replace (blen buf <=? off) with false by lia.
    rewrite (decodeString_fits _ _ _ _ Hstr C). rb. adv C.
    cbn [app] in C. rewrite (decodeByte_cur _ _ _ _ C). rb.
    match type of C with cur _ _ (?o :: ?rest) => change (o :: rest) with ([o] ++ rest) in C end.
    adv C.
    assert (Hsub : (let sub := if v =? 5
                        then sub_decode (f_qos f + bool_bit (f_no_local f) 2 + bool_bit (f_retain_as_published f) 3 + 16 * f_retain_handling f)
                                        (set_s_filter (f_filter f) sub0)
                        else set_s_qos (f_qos f + bool_bit (f_no_local f) 2 + bool_bit (f_retain_as_published f) 3 + 16 * f_retain_handling f)
                                       (set_s_filter (f_filter f) sub0) in
                    match ids with i :: _ => set_s_identifier i sub | [] => sub end)
                   = sub_of (ident_of ids) f).
    { cbv zeta. destruct (v =? 5).
      - rewrite sub_decode_put by lia. destruct ids; reflexivity.
      - apply andb_prop in Hopt. destruct Hopt as [Hopt Hrh]. apply andb_prop in Hopt. destruct Hopt as [Hnl Hrap].
        unfold sub_of.
        destruct (f_no_local f); [discriminate|]. destruct (f_retain_as_published f); [discriminate|].
        apply N.eqb_eq in Hrh. rewrite Hrh. cbn [bool_bit].
        replace (f_qos f + 0 + 0 + 16 * 0) with (f_qos f) by lia. destruct ids; reflexivity. }
    cbv zeta in Hsub. rewrite Hsub.
    replace (2 <? s_qos (sub_of (ident_of ids) f)) with false by (cbn [sub_of s_qos]; lia).
    rewrite (IH fu buf _ (acc ++ [sub_of (ident_of ids) f]) ltac:(lia) Hfs C).
    rewrite <- app_assoc. reflexivity.
Qed.

Lemma filters_count_le v fs : (length fs <= length (concat (map (put_filter v) fs)))%nat.
Proof.
  induction fs as [|f fs IH]; [cbn; lia|].
  cbn [map concat]. rewrite app_length. unfold put_filter at 1. rewrite app_length. cbn [length]. lia.
Qed.

Lemma subscribe_decodes v id ps fs body :
  enc_ok v (SSubscribe id ps fs) = true -> In body (bodies v (SSubscribe id ps fs)) ->
  Vbi.wf_bytes body -> body_decodes v (SSubscribe id ps fs) body.
Proof.
  intros Hok Hin Hw. apply full_only in Hin; [subst body | auto | exact I].
  cbn [enc_ok] in Hok. apply andb_prop in Hok. destruct Hok as [Hp Hfs].
  unfold body_decodes, mochi_decode_body, decode_body, fh_of. cbn [ptype qos_of dup_of retain_of]. pkred.
  unfold subscribe_decode. cbn [full_body] in *.
  assert (Hfu : (length fs <= S (length (put_u16 id ++ put_props_v v ps ++ concat (map (put_filter v) fs))))%nat).
  { rewrite !app_length. pose proof (filters_count_le v fs). lia. }
  set (body := put_u16 id ++ put_props_v v ps ++ concat (map (put_filter v) fs)) in *.
  pose proof (cur_start body) as C. unfold body in C at 2.
  rewrite (decodeUint16_put _ _ _ _ C). rb. adv C. pkred.
  unfold body in Hw. apply wf_app_r in Hw.
  erewrite props_if_v5_put; [ | exact Hp | exact Hw | exact C ]. rb. pkred. adv C.
  rewrite (subscribe_loop_put v _ fs _ _ _ [] Hfu Hfs C).
  rb. reflexivity.
Qed.

Lemma unsubscribe_loop_put : forall (fs : list bytes) fuel buf off acc,
  (length fs <= fuel)%nat -> forallb str_fits fs = true ->
  cur buf off (concat (map put_str fs)) ->
  unsubscribe_loop fuel buf off acc = Ok (acc ++ map (fun f => set_s_filter f sub0) fs).
Proof.
  induction fs as [|f fs IH]; intros fuel buf off acc Hfu Hfit C.
  - cbn [map concat] in C. pose proof (cur_le _ _ _ C) as L. change (blen []) with 0 in L.
    destruct fuel; cbn [unsubscribe_loop]; replace (blen buf <=? off) with true by lia;
      cbn [map]; rewrite app_nil_r; reflexivity.
  - destruct fuel as [|fu]; [cbn in Hfu; lia|]. cbn [length] in Hfu.
    cbn [forallb] in Hfit. apply andb_prop in Hfit. destruct Hfit as [Hf Hfs].
    cbn [map concat] in C.
    pose proof (cur_le _ _ _ C) as L. rewrite !blen_app in L.
    assert (2 <= blen (put_str f)) by (unfold put_str; rewrite blen_put_bin; lia).
    cbn [unsubscribe_loop]. replace (blen buf <=? off) with false by lia.
    rewrite (decodeString_fits _ _ _ _ Hf C). rb. adv C.
    rewrite (IH fu buf _ (acc ++ [set_s_filter f sub0]) ltac:(lia) Hfs C).
    rewrite <- app_assoc. reflexivity.
Qed.

Lemma strings_count_le (fs : list bytes) : (length fs <= length (concat (map put_str fs)))%nat.
Proof.
  induction fs as [|f fs IH]; [cbn; lia|].
  cbn [map concat]. rewrite app_length. unfold put_str at 1, put_bin. rewrite app_length. cbn [length put_u16]. lia.
Qed.

Lemma unsubscribe_decodes v id ps fs body :
  enc_ok v (SUnsubscribe id ps fs) = true -> In body (bodies v (SUnsubscribe id ps fs)) ->
  Vbi.wf_bytes body -> body_decodes v (SUnsubscribe id ps fs) body.
Proof.
  intros Hok Hin Hw. apply full_only in Hin; [subst body | auto | exact I].
  cbn [enc_ok] in Hok. apply andb_prop in Hok. destruct Hok as [Hp Hfs].
  unfold body_decodes, mochi_decode_body, decode_body, fh_of. cbn [ptype qos_of dup_of retain_of]. pkred.
  unfold unsubscribe_decode. cbn [full_body] in *.
  assert (Hfu : (length fs <= S (length (put_u16 id ++ put_props_v v ps ++ concat (map put_str fs))))%nat).
  { rewrite !app_length. pose proof (strings_count_le fs). lia. }
  set (body := put_u16 id ++ put_props_v v ps ++ concat (map put_str fs)) in *.
  pose proof (cur_start body) as C. unfold body in C at 2.
  rewrite (decodeUint16_put _ _ _ _ C). rb. adv C. pkred.
  unfold body in Hw. apply wf_app_r in Hw.
  erewrite props_if_v5_put; [ | exact Hp | exact Hw | exact C ]. rb. pkred. adv C.
  rewrite (unsubscribe_loop_put fs _ _ _ [] Hfu Hfs C).
  rb. reflexivity.
Qed.

Lemma connect_flags_decode clean will user pass :
  opt_ok (fun w => will_qos w <? 4) will = true ->
  let fl := connect_flags_of clean will user pass in
  N.land 1 fl = 0 /\ Wire.bit fl 1 = clean /\ Wire.bit fl 2 = is_some will /\
  N.land 3 (N.shiftr fl 3) = match will with Some w => will_qos w | None => 0 end /\
  Wire.bit fl 5 = match will with Some w => will_retain w | None => false end /\
  Wire.bit fl 6 = is_some pass /\ Wire.bit fl 7 = is_some user.
Proof.
  intro Hq. destruct will as [[wps wt wp wq wr]|]; cbn [opt_ok will_qos] in Hq.
  - assert (Q : wq = 0 \/ wq = 1 \/ wq = 2 \/ wq = 3) by lia.
    destruct Q as [->|[->|[->| ->]]]; destruct clean; destruct wr; destruct user; destruct pass;
      vm_compute; repeat split.
  - destruct clean; destruct user; destruct pass; vm_compute; repeat split.
Qed.

Lemma will_props_if_v5_put pk buf off wps r :
  plist_v (pk_version pk) WILLPROPS wps = true ->
  Vbi.wf_bytes (put_props_v (pk_version pk) wps ++ r) ->
  cur buf off (put_props_v (pk_version pk) wps ++ r) ->
  will_props_if_v5 pk buf off =
  Ok (upd_connect (set_c_will_props (store_all wps (c_will_props (pk_connect pk)))) pk,
      off + blen (put_props_v (pk_version pk) wps)).
Proof.
  unfold plist_v, will_props_if_v5, put_props_v, v5. intros Hf Hw H.
  destruct (pk_version pk =? 5).
  - rewrite (slice_from_cur _ _ _ H). rb.
    destruct (plist_fits_parts _ _ Hf) as (P1 & P2 & P3).
    rewrite (props_decode_put _ _ _ _ P1 P2 P3 (wf_put_props_tail _ _ Hw)). reflexivity.
  - destruct wps; [|discriminate]. cbn [store_all fold_left]. change (blen []) with 0.
    rewrite N.add_0_r. destruct pk as [c ? ? ? ? ? ? ? ? ? ? ? ?]; destruct c; reflexivity.
Qed.

Ltac connred :=
  cbn [c_will_flag c_username_flag c_password_flag c_will_props pk_connect set_c_protocol_name set_c_username_flag
       set_c_password_flag set_c_will_retain set_c_will_qos set_c_will_flag set_c_clean set_c_keepalive set_c_client_id
       set_c_will_props set_c_will_topic set_c_will_payload set_c_username set_c_password conn0
       c_password c_username c_protocol_name c_will_payload c_client_id c_will_topic c_keepalive c_will_qos c_will_retain c_clean].

Lemma connect_decodes v lvl clean ka ps cid will user pass body :
  enc_ok v (SConnect lvl clean ka ps cid will user pass) = true ->
  In body (bodies v (SConnect lvl clean ka ps cid will user pass)) ->
  Vbi.wf_bytes body -> body_decodes v (SConnect lvl clean ka ps cid will user pass) body.
Proof.
  intros Hok Hin Hw. apply full_only in Hin; [subst body | auto | exact I].
  cbn [enc_ok] in Hok.
  repeat (apply andb_prop in Hok; let H := fresh "Hk" in destruct Hok as [Hok H]).
  rename Hok into Hp, Hk2 into Hcid, Hk1 into Hwill, Hk0 into Huser, Hk into Hpass.
  unfold body_decodes, mochi_decode_body, decode_body, fh_of. cbn [ptype qos_of dup_of retain_of]. pkred.
  unfold connect_decode. cbn [full_body] in *.
  set (name := if lvl =? 3 then bytes_of_string "MQIsdp" else bytes_of_string "MQTT") in *.
  assert (Hname : bin_fits name = true) by (unfold name; destruct (lvl =? 3); reflexivity).
  assert (Hq : opt_ok (fun w => will_qos w <? 4) will = true).
  { destruct will as [w|]; [|reflexivity]. cbn [opt_ok] in *. unfold will_fits in Hwill.
    apply andb_prop in Hwill. destruct Hwill as [_ Hwq]. exact Hwq. }
  pose proof (connect_flags_decode clean will user pass Hq) as Fl. cbv zeta in Fl.
  set (fl := connect_flags_of clean will user pass) in *.
  destruct Fl as (F0 & F1 & F2 & F3 & F5 & F6 & F7).
  match goal with |- context [bind_err (decodeBytes ?b 0)] => set (body := b) in * end.
  pose proof (cur_start body) as C. unfold body in C at 2.
  change (put_str name) with (put_bin name) in C.
  rewrite (decodeBytes_fits _ _ _ _ Hname C). rb. adv C. pkred.
  change ([lvl; fl] ++ ?x) with ([lvl] ++ [fl] ++ x) in C.
  cbn [app] in C. rewrite (decodeByte_cur _ _ _ _ C). rb. pkred.
  match type of C with cur _ _ (?o :: ?rest) => change (o :: rest) with ([o] ++ rest) in C end. adv C.
  rewrite (decodeByte_cur _ _ _ _ C). rb. pkred.
  match type of C with cur _ _ (?o :: ?rest) => change (o :: rest) with ([o] ++ rest) in C end. adv C.
  rewrite (decodeUint16_put _ _ _ _ C). rb. pkred. adv C.
  (* properties *)
  unfold body in Hw. apply wf_app_r in Hw. cbn [app] in Hw. apply wf_cons_r in Hw. apply wf_cons_r in Hw.
  apply wf_app_r in Hw.
  erewrite props_if_v5_put; [ | exact Hp | exact Hw | exact C ]. rb. pkred. adv C.
  apply wf_app_r in Hw.
  rewrite (decodeString_fits _ _ _ _ Hcid C). rb. pkred. adv C. apply wf_app_r in Hw.
  connred. rewrite F0, F1, F2, F3, F5, F6, F7.
  destruct will as [[wps wt wp wq wr]|]; cbn [is_some opt_ok will_props will_topic will_payload will_qos will_retain] in *.
  - (* with will *)
    unfold will_fits in Hwill. cbn [will_props will_topic will_payload will_qos] in Hwill.
    repeat (apply andb_prop in Hwill; let H := fresh "Hw" in destruct Hwill as [Hwill H]).
    rewrite <- !app_assoc in C, Hw.
    erewrite will_props_if_v5_put; [ | pkred; exact Hwill | pkred; exact Hw | pkred; exact C ]. rb. pkred. connred. adv C.
    apply wf_app_r in Hw.
    rewrite (decodeString_fits _ _ _ _ Hw2 C). rb. pkred. connred. adv C.
    rewrite (decodeBytes_fits _ _ _ _ Hw1 C). rb. pkred. connred. adv C.
    pose proof (cur_le _ _ _ C) as L.
    destruct user as [u|]; destruct pass as [pw|]; cbn [is_some opt_ok] in *; cbv iota.
    + rewrite blen_app in L. assert (2 <= blen (put_str u)) by (unfold put_str; rewrite blen_put_bin; lia). iffalse.
      change (put_str u) with (put_bin u) in C.
      rewrite (decodeBytes_fits _ _ _ _ Huser C). rb. pkred. connred. adv C.
      rewrite <- (app_nil_r (put_bin pw)) in C.
      rewrite (decodeBytes_fits _ _ _ _ Hpass C). rb. reflexivity.
    + rewrite blen_app in L. assert (2 <= blen (put_str u)) by (unfold put_str; rewrite blen_put_bin; lia). iffalse.
      change (put_str u) with (put_bin u) in C.
      rewrite (decodeBytes_fits _ _ _ _ Huser C). rb. pkred. connred. reflexivity.
    + cbn [app] in C. rewrite <- (app_nil_r (put_bin pw)) in C. rb. pkred. connred.
      rewrite (decodeBytes_fits _ _ _ _ Hpass C). rb. reflexivity.
    + reflexivity.
  - (* without will *)
    cbn [app] in C, Hw. cbv iota. rb. pkred. connred.
    pose proof (cur_le _ _ _ C) as L.
    destruct user as [u|]; destruct pass as [pw|]; cbn [is_some opt_ok] in *; cbv iota.
    + rewrite blen_app in L. assert (2 <= blen (put_str u)) by (unfold put_str; rewrite blen_put_bin; lia). iffalse.
      change (put_str u) with (put_bin u) in C.
      rewrite (decodeBytes_fits _ _ _ _ Huser C). rb. pkred. connred. adv C.
      rewrite <- (app_nil_r (put_bin pw)) in C.
      rewrite (decodeBytes_fits _ _ _ _ Hpass C). rb. reflexivity.
    + rewrite blen_app in L. assert (2 <= blen (put_str u)) by (unfold put_str; rewrite blen_put_bin; lia). iffalse.
      change (put_str u) with (put_bin u) in C.
      rewrite (decodeBytes_fits _ _ _ _ Huser C). rb. pkred. connred. reflexivity.
    + cbn [app] in C. rewrite <- (app_nil_r (put_bin pw)) in C. rb. pkred. connred.
      rewrite (decodeBytes_fits _ _ _ _ Hpass C). rb. reflexivity.
    + reflexivity.
Qed.

(* ---------- all packet types ---------- *)

Theorem body_form_decodes v p body :
  enc_ok v p = true -> In body (bodies v p) -> Vbi.wf_bytes body -> body_decodes v p body.
Proof.
  destruct p; intros Hok Hin Hw.
  - apply connect_decodes; assumption.
  - apply connack_decodes; assumption.
  - apply publish_decodes; assumption.
  - apply ack_decodes; assumption.
  - apply subscribe_decodes; assumption.
  - apply suback_decodes; assumption.
  - apply unsubscribe_decodes; assumption.
  - apply unsuback_decodes; assumption.
  - apply ping_decodes; assumption.
  - apply pingresp_decodes; assumption.
  - apply disconnect_decodes; assumption.
  - apply auth_decodes; assumption.
Qed.

Lemma header_decodes v p : enc_ok v p = true ->
  fh_decode fh0 (ptype p * 16 + pflags p) = Ok (fh_of p 0).
Proof.
  destruct p; intro Hok; try (vm_compute; reflexivity); try (destruct kind; vm_compute; reflexivity).
  cbn [enc_ok] in Hok.
  repeat (apply andb_prop in Hok; let H := fresh "Hk" in destruct Hok as [Hok H]).
  assert (Q : qos = 0 \/ qos = 1 \/ qos = 2) by lia.
  destruct Q as [->|[->| ->]]; destruct dup; destruct retain; try discriminate; vm_compute; reflexivity.
Qed.

Lemma fh_of_remaining p n : set_fh_remaining n (fh_of p 0) = fh_of p n.
Proof. reflexivity. Qed.

(* any permitted form of a packet, followed by anything, is decoded as the packet the sender meant
   and the rest of the stream is left unread *)
Theorem form_decodes v p body rest :
  enc_ok v p = true -> In body (bodies v p) -> len body <= 268435455 ->
  Vbi.wf_bytes (frame p body ++ rest) ->
  mochi_decode_packet v (frame p body ++ rest) = Ok (expected v p (len body), rest).
Proof.
  intros Hok Hin Hl Hw. unfold frame in *. cbn [app] in *. rewrite <- app_assoc in *.
  apply wf_cons_r in Hw. apply wf_app_r in Hw.
  rewrite (decode_frame v _ _ body rest (header_decodes v p Hok) Hl Hw).
  rewrite fh_of_remaining.
  pose proof (body_form_decodes v p body Hok Hin (wf_app_l _ _ Hw)) as B. unfold body_decodes in B.
  rewrite B. reflexivity.
Qed.
