(* Round trip of the REFERENCE codec (SpecCodec.v): the reference decoder accepts every form the
   reference encoder writes for a valid packet, returns that packet and leaves the following bytes
   unread.  No mochi model is involved here. *)
From MV Require Import Base.Val Codec.Vbi Codec.VbiProofs Codec.SpecCodec.
From Coq Require Import Lia ZifyBool ZifyN ZifyNat Permutation.
Ltac Zify.zify_post_hook ::= Z.div_mod_to_equations.
Open Scope N_scope.

Arguments N.mul : simpl never.
Arguments N.add : simpl never.
Arguments N.sub : simpl never.
Arguments N.div : simpl never.
Arguments N.modulo : simpl never.
Arguments N.ltb : simpl never.
Arguments N.leb : simpl never.
Arguments N.eqb : simpl never.
Arguments N.of_nat : simpl never.
Arguments N.to_nat : simpl never.
Arguments N.pow : simpl never.
Arguments N.testbit : simpl never.

Ltac split_and :=
  repeat match goal with
  | H : _ && _ = true |- _ => apply andb_prop in H; destruct H
  end.
Ltac ob := cbn beta iota delta [obind guard].

(* ---------- primitive readers on what the writers produce ---------- *)

Lemma len_app (a b : bytes) : len (a ++ b) = len a + len b.
Proof. unfold len. rewrite app_length. lia. Qed.

Lemma get_u16_put n r : get_u16 (put_u16 n ++ r) = Some (n, r).
Proof. unfold put_u16. cbn [app get_u16]. f_equal. f_equal. lia. Qed.

Lemma get_u32_put n r : n <= 4294967295 -> get_u32 (put_u32 n ++ r) = Some (n, r).
Proof. intro H. unfold put_u32. cbn [app get_u32]. f_equal. f_equal. lia. Qed.

Lemma take_app (d r : bytes) : take (len d) (d ++ r) = Some (d, r).
Proof.
  unfold take. rewrite len_app. replace (len d + len r <? len d) with false by lia.
  unfold len. replace (N.to_nat (N.of_nat (length d))) with (length d) by lia.
  rewrite firstn_app, firstn_all, Nat.sub_diag, skipn_app, skipn_all, Nat.sub_diag.
  cbn [firstn skipn app]. rewrite app_nil_r. reflexivity.
Qed.

Lemma get_bin_put d r : get_bin (put_bin d ++ r) = Some (d, r).
Proof.
  unfold get_bin, put_bin. rewrite <- app_assoc, get_u16_put. ob. apply take_app.
Qed.

Lemma get_str_put s r : utf8_wf s = true -> get_str (put_str s ++ r) = Some (s, r).
Proof. intro H. unfold get_str, put_str. rewrite get_bin_put. ob. rewrite H. reflexivity. Qed.

Lemma put_vbi_encode' n : n <= 268435455 -> vbi_encode n = Some (put_vbi n).
Proof. intro H. rewrite (enc_shape n H). reflexivity. Qed.

Lemma get_vbi_put n r : n <= 268435455 -> get_vbi (put_vbi n ++ r) = Some (n, r).
Proof.
  intro H. unfold get_vbi.
  rewrite (spec_decode_encode n (put_vbi n) r H (put_vbi_encode' n H)). ob.
  rewrite app_length. replace (length (put_vbi n) + length r - length r)%nat with (length (put_vbi n)) by lia.
  rewrite (enc_length n (put_vbi n) H (put_vbi_encode' n H)). rewrite N.eqb_refl. reflexivity.
Qed.

(* ---------- properties ---------- *)

Lemma str_ok_wf s : str_ok s = true -> utf8_wf s = true.
Proof. unfold str_ok. intro H. apply andb_prop in H. tauto. Qed.

Lemma get_prop_put c r : prop_value_ok c = true -> get_prop (put_prop c ++ r) = Some (c, r).
Proof.
  intro H. destruct c; cbn [prop_value_ok] in H; unfold get_prop, put_prop; cbn [prop_id app get_u8]; ob;
    try (cbn [app get_u8]; ob; reflexivity);
    try (rewrite get_u32_put by (split_and; lia); reflexivity);
    try (rewrite get_u16_put; reflexivity);
    try (rewrite get_str_put by (split_and; apply str_ok_wf; assumption); reflexivity);
    try (rewrite get_bin_put; reflexivity).
  - (* subscription identifier *) rewrite get_vbi_put by (split_and; lia). reflexivity.
  - (* user property *) split_and. rewrite <- app_assoc.
    rewrite get_str_put by (apply str_ok_wf; assumption). ob.
    rewrite get_str_put by (apply str_ok_wf; assumption). reflexivity.
Qed.

Lemma ppb_cons c cs : put_props_body (c :: cs) = put_prop c ++ put_props_body cs.
Proof. reflexivity. Qed.

Lemma put_prop_cons c : exists t, put_prop c = prop_id c :: t.
Proof. unfold put_prop. eexists. reflexivity. Qed.

Lemma props_count cs : (length cs <= length (put_props_body cs))%nat.
Proof.
  induction cs as [|c cs IH]; [cbn; lia|].
  rewrite ppb_cons, app_length. destruct (put_prop_cons c) as [t ->]. cbn [length]. lia.
Qed.

Lemma parse_props_cons f b t :
  parse_props (S f) (b :: t) = (do (c, r) <- get_prop (b :: t); do cs <- parse_props f r; Some (c :: cs)).
Proof. reflexivity. Qed.

Lemma parse_props_put cs : forall fuel, (length cs <= fuel)%nat -> forallb prop_value_ok cs = true ->
  parse_props fuel (put_props_body cs) = Some cs.
Proof.
  induction cs as [|c cs IH]; intros fuel Hf Hv.
  - destruct fuel; reflexivity.
  - destruct fuel as [|f]; [cbn in Hf; lia|]. cbn [length] in Hf.
    cbn [forallb] in Hv. apply andb_prop in Hv. destruct Hv as [Hc Hcs].
    rewrite ppb_cons. destruct (put_prop_cons c) as [t Et].
    assert (E : put_prop c ++ put_props_body cs = prop_id c :: (t ++ put_props_body cs))
      by (rewrite Et; reflexivity).
    rewrite E, parse_props_cons, <- E.
    rewrite (get_prop_put c _ Hc). ob. rewrite (IH f ltac:(lia) Hcs). reflexivity.
Qed.

Lemma get_props_put cs r : forallb prop_value_ok cs = true -> len (put_props_body cs) <= 268435455 ->
  get_props (put_props cs ++ r) = Some (cs, r).
Proof.
  intros Hv Hl. unfold get_props, put_props. rewrite <- app_assoc.
  rewrite (get_vbi_put _ _ Hl). ob. rewrite take_app. ob.
  rewrite (parse_props_put cs _ (props_count cs) Hv). reflexivity.
Qed.

Lemma props_ok_parts x ps : props_ok x ps = true ->
  forallb prop_value_ok ps = true /\ len (put_props_body ps) <= 268435455.
Proof. unfold props_ok. intro H. split_and. split; [assumption | lia]. Qed.

Lemma get_props_v_put v x ps r : props_for v x ps = true ->
  get_props_v v (put_props_v v ps ++ r) = Some (ps, r).
Proof.
  unfold props_for, get_props_v, put_props_v. destruct (v5 v); intro H.
  - destruct (props_ok_parts _ _ H) as [H1 H2]. apply get_props_put; assumption.
  - destruct ps; [reflexivity | discriminate].
Qed.

(* ---------- pieces of packet bodies ---------- *)

Lemma put_props_nonempty ps : exists b t, put_props ps = b :: t.
Proof.
  unfold put_props, put_vbi.
  repeat match goal with |- context [if ?c then _ else _] => destruct c end; cbn [app]; eauto.
Qed.

Lemma dec_reason_props_full reason ps : forallb prop_value_ok ps = true ->
  len (put_props_body ps) <= 268435455 ->
  dec_reason_props (reason :: put_props ps) = Some (reason, ps).
Proof.
  intros Hv Hl. destruct (put_props_nonempty ps) as (b & t & E).
  unfold dec_reason_props. rewrite E. rewrite <- E.
  rewrite <- (app_nil_r (put_props ps)). rewrite (get_props_put ps [] Hv Hl). reflexivity.
Qed.

Lemma bit_testbit b i : bit b i = N.testbit b i.
Proof. reflexivity. Qed.

Lemma filter_byte qos nl rap rh : qos <= 2 -> rh <= 2 ->
  let o := qos + bool_bit nl 2 + bool_bit rap 3 + 16 * rh in
  (o <? 64) = true /\ o mod 4 = qos /\ bit o 2 = nl /\ bit o 3 = rap /\ (o / 16) mod 4 = rh.
Proof.
  intros Hq Hr.
  assert (Q : qos = 0 \/ qos = 1 \/ qos = 2) by lia. assert (R : rh = 0 \/ rh = 1 \/ rh = 2) by lia.
  destruct Q as [->|[->| ->]]; destruct R as [->|[->| ->]]; destruct nl; destruct rap; vm_compute; repeat split.
Qed.

Lemma dec_filters_put v fs : forall fuel, (length fs <= fuel)%nat -> forallb (filter_ok v) fs = true ->
  dec_filters v fuel (concat (map (put_filter v) fs)) = Some fs.
Proof.
  induction fs as [|f fs IH]; intros fuel Hf Hv.
  - destruct fuel; reflexivity.
  - destruct fuel as [|fu]; [cbn in Hf; lia|]. cbn [length] in Hf.
    cbn [forallb] in Hv. apply andb_prop in Hv. destruct Hv as [Hc Hcs].
    cbn [map concat]. unfold put_filter at 1. rewrite <- app_assoc.
    destruct f as [flt qos nl rap rh]. cbn [f_filter f_qos f_no_local f_retain_as_published f_retain_handling] in *.
    unfold filter_ok in Hc. cbn [f_filter f_qos f_no_local f_retain_as_published f_retain_handling] in Hc. split_and.
    assert (Hne : exists b t, put_str flt ++ [qos + bool_bit nl 2 + bool_bit rap 3 + 16 * rh] ++ concat (map (put_filter v) fs) = b :: t).
    { unfold put_str, put_bin, put_u16. cbn [app]. eauto. }
    destruct Hne as (b & t & Ene). rewrite Ene. cbn [dec_filters]. rewrite <- Ene.
    rewrite get_str_put by (apply str_ok_wf; assumption). ob. cbn [app get_u8]. ob.
    assert (Hrh : rh <= 2 /\ (v5 v = false -> nl = false /\ rap = false /\ rh = 0)).
    { destruct (v5 v); [split; [lia|discriminate]|]. split_and. split; [lia|]. intros _.
      destruct nl; [discriminate|]. destruct rap; [discriminate|]. split; [reflexivity|split; [reflexivity|lia]]. }
    destruct Hrh as [Hrh Hleg].
    destruct (filter_byte qos nl rap rh ltac:(lia) Hrh) as (F1 & F2 & F3 & F4 & F5). cbv zeta in *.
    assert (G : (if v5 v then qos + bool_bit nl 2 + bool_bit rap 3 + 16 * rh <? 64
                 else qos + bool_bit nl 2 + bool_bit rap 3 + 16 * rh <? 4) = true).
    { destruct (v5 v); [exact F1|]. destruct (Hleg eq_refl) as (-> & -> & ->). cbn [bool_bit]. lia. }
    rewrite G. ob. rewrite (IH fu ltac:(lia) Hcs). rewrite F2, F3, F4, F5. reflexivity.
Qed.

Lemma filters_count v fs : (length fs <= length (concat (map (put_filter v) fs)))%nat.
Proof.
  induction fs as [|f fs IH]; [cbn; lia|].
  cbn [map concat]. rewrite app_length. unfold put_filter at 1. rewrite app_length. cbn [length]. lia.
Qed.

Lemma dec_strings_put (fs : list bytes) : forall fuel, (length fs <= fuel)%nat ->
  forallb (fun f => str_ok f && (1 <=? len f)) fs = true ->
  dec_strings fuel (concat (map put_str fs)) = Some fs.
Proof.
  induction fs as [|f fs IH]; intros fuel Hf Hv.
  - destruct fuel; reflexivity.
  - destruct fuel as [|fu]; [cbn in Hf; lia|]. cbn [length] in Hf.
    cbn [forallb] in Hv. apply andb_prop in Hv. destruct Hv as [Hc Hcs]. split_and.
    cbn [map concat].
    assert (Hne : exists b t, put_str f ++ concat (map put_str fs) = b :: t).
    { unfold put_str, put_bin, put_u16. cbn [app]. eauto. }
    destruct Hne as (b & t & Ene). rewrite Ene. cbn [dec_strings]. rewrite <- Ene.
    rewrite get_str_put by (apply str_ok_wf; assumption). ob. rewrite (IH fu ltac:(lia) Hcs). reflexivity.
Qed.

Lemma strings_count (fs : list bytes) : (length fs <= length (concat (map put_str fs)))%nat.
Proof.
  induction fs as [|f fs IH]; [cbn; lia|].
  cbn [map concat]. rewrite app_length. unfold put_str at 1, put_bin, put_u16. cbn [app length]. lia.
Qed.

(* ---------- the body decoders on the reference bodies ---------- *)

Lemma in_single {A} (x a : A) : In x [a] -> x = a.
Proof. intros [H|[]]. symmetry. exact H. Qed.

Lemma bodies_full v p body :
  match p with SAck _ _ _ _ | SDisconnect _ _ | SAuth _ _ => False | _ => True end ->
  In body (bodies v p) -> body = full_body v p.
Proof.
  intros Hp Hin. unfold bodies in Hin.
  destruct (negb (v5 v)); [apply in_single; exact Hin|].
  destruct p; try contradiction; apply in_single; exact Hin.
Qed.

(* reason code + properties, in the three forms *)
Lemma short_forms' reason ps (pre : bytes) body :
  In body ((pre ++ reason :: put_props ps)
           :: (if no_props ps then [pre ++ [reason]] else [])
           ++ (if no_props ps && (reason =? 0) then [pre] else [])) ->
  (body = pre ++ reason :: put_props ps) \/
  (ps = [] /\ body = pre ++ [reason]) \/
  (ps = [] /\ reason = 0 /\ body = pre).
Proof.
  intros [H|H]; [left; symmetry; exact H|]. apply in_app_or in H. destruct H as [H|H].
  - destruct ps; [|contradiction]. right. left. split; [reflexivity|]. apply in_single in H. exact H.
  - destruct ps; [|contradiction]. cbn [no_props andb] in H.
    destruct (reason =? 0) eqn:E; [|contradiction]. right. right. split; [reflexivity|].
    split; [lia|]. apply in_single in H. exact H.
Qed.

Lemma dec_reason_props_forms reason ps body (Q : N * list sprop -> option spkt) :
  forallb prop_value_ok ps = true -> len (put_props_body ps) <= 268435455 ->
  In body ((reason :: put_props ps)
           :: (if no_props ps then [[reason]] else [])
           ++ (if no_props ps && (reason =? 0) then [[]] else [])) ->
  dec_reason_props body = Some (reason, ps).
Proof.
  intros Hv Hl Hin. apply (short_forms' reason ps []) in Hin. cbn [app] in Hin.
  destruct Hin as [->|[[-> ->]|[-> [-> ->]]]].
  - apply dec_reason_props_full; assumption.
  - reflexivity.
  - reflexivity.
Qed.

Lemma publish_flags dup qos retain : qos <= 2 ->
  let f := bool_bit dup 3 + 2 * qos + bool_bit retain 0 in
  (f / 2) mod 4 = qos /\ bit f 3 = dup /\ bit f 0 = retain /\ f < 16.
Proof.
  intro H. assert (Q : qos = 0 \/ qos = 1 \/ qos = 2) by lia.
  destruct Q as [->|[->| ->]]; destruct dup; destruct retain; vm_compute; repeat split.
Qed.

Lemma props_for_parts v x ps : props_for v x ps = true ->
  (v5 v = true -> forallb prop_value_ok ps = true /\ len (put_props_body ps) <= 268435455) /\
  (v5 v = false -> ps = []).
Proof.
  unfold props_for. destruct (v5 v); intro H; split; intro E; try discriminate.
  - apply (props_ok_parts _ _ H).
  - destruct ps; [reflexivity|discriminate].
Qed.

Lemma dec_connack v sp code ps body : valid_packet v (SConnack sp code ps) = true ->
  In body (bodies v (SConnack sp code ps)) -> dec_body v 2 0 body = Some (SConnack sp code ps).
Proof.
  intros V Hin. apply bodies_full in Hin; [subst body|exact I]. cbn [valid_packet] in V. split_and.
  cbn [full_body dec_body app get_u8]. ob.
  replace ((if sp then 1 else 0) <=? 1) with true by (destruct sp; reflexivity). ob. cbn [get_u8]. ob.
  rewrite <- (app_nil_r (put_props_v v ps)).
  erewrite get_props_v_put by eassumption. ob. destruct sp; reflexivity.
Qed.

Lemma dec_publish v dup qos retain topic id ps payload body :
  valid_packet v (SPublish dup qos retain topic id ps payload) = true ->
  In body (bodies v (SPublish dup qos retain topic id ps payload)) ->
  dec_body v 3 (pflags (SPublish dup qos retain topic id ps payload)) body
  = Some (SPublish dup qos retain topic id ps payload).
Proof.
  intros V Hin. apply bodies_full in Hin; [subst body|exact I]. cbn [valid_packet] in V. split_and.
  cbn [pflags full_body dec_body].
  destruct (publish_flags dup qos retain ltac:(lia)) as (F1 & F2 & F3 & _). cbv zeta in *.
  rewrite F1, F2, F3.
  rewrite get_str_put by (apply str_ok_wf; assumption). ob.
  destruct (qos =? 0) eqn:Eq.
  - assert (id = 0) as -> by lia. cbn [app]. ob.
    erewrite get_props_v_put by eassumption. ob. reflexivity.
  - rewrite get_u16_put. ob. erewrite get_props_v_put by eassumption. ob. reflexivity.
Qed.

Lemma dec_ack v k id reason ps body : valid_packet v (SAck k id reason ps) = true ->
  In body (bodies v (SAck k id reason ps)) ->
  dec_body v (ack_type k) (pflags (SAck k id reason ps)) body = Some (SAck k id reason ps).
Proof.
  intros V Hin. cbn [valid_packet] in V. split_and.
  assert (D : dec_body v (ack_type k) (pflags (SAck k id reason ps)) body =
              (do (id', r) <- get_u16 body;
               if v5 v then do (reason', ps') <- dec_reason_props r; Some (SAck k id' reason' ps')
               else match r with [] => Some (SAck k id' 0 []) | _ => None end))
    by (destruct k; reflexivity).
  rewrite D. clear D.
  match goal with Hp : props_for _ _ _ = true |- _ => destruct (props_for_parts _ _ _ Hp) as [P5 P3] end.
  unfold bodies in Hin. destruct (v5 v) eqn:E5; cbn [negb] in Hin.
  - destruct (P5 eq_refl) as [Hv Hl]. cbn [full_body] in Hin. rewrite E5 in Hin.
    apply (short_forms' reason ps (put_u16 id)) in Hin.
    destruct Hin as [->|[[-> ->]|[-> [-> ->]]]].
    + rewrite get_u16_put. ob. rewrite (dec_reason_props_full _ _ Hv Hl). reflexivity.
    + rewrite get_u16_put. ob. reflexivity.
    + rewrite <- (app_nil_r (put_u16 id)). rewrite get_u16_put. ob. reflexivity.
  - apply in_single in Hin. subst body. cbn [full_body]. rewrite E5.
    rewrite (P3 eq_refl). rewrite get_u16_put. ob.
    match goal with Hr : (reason =? 0) = true |- _ => apply N.eqb_eq in Hr; subst reason end. reflexivity.
Qed.

Lemma nonempty_forallb {A} (f : A -> bool) l :
  match l with [] => false | _ => forallb f l end = true -> forallb f l = true.
Proof. destruct l; [discriminate|auto]. Qed.

Lemma dec_subscribe v id ps fs body : valid_packet v (SSubscribe id ps fs) = true ->
  In body (bodies v (SSubscribe id ps fs)) -> dec_body v 8 2 body = Some (SSubscribe id ps fs).
Proof.
  intros V Hin. apply bodies_full in Hin; [subst body|exact I]. cbn [valid_packet] in V. split_and.
  cbn [full_body dec_body]. rewrite get_u16_put. ob.
  erewrite get_props_v_put by eassumption. ob.
  rewrite (dec_filters_put v fs _ (filters_count v fs)) by (apply nonempty_forallb; assumption).
  reflexivity.
Qed.

Lemma dec_suback v id ps codes body : valid_packet v (SSuback id ps codes) = true ->
  In body (bodies v (SSuback id ps codes)) -> dec_body v 9 0 body = Some (SSuback id ps codes).
Proof.
  intros V Hin. apply bodies_full in Hin; [subst body|exact I]. cbn [valid_packet] in V. split_and.
  cbn [full_body dec_body]. rewrite get_u16_put. ob.
  erewrite get_props_v_put by eassumption. ob. reflexivity.
Qed.

Lemma dec_unsubscribe v id ps fs body : valid_packet v (SUnsubscribe id ps fs) = true ->
  In body (bodies v (SUnsubscribe id ps fs)) -> dec_body v 10 2 body = Some (SUnsubscribe id ps fs).
Proof.
  intros V Hin. apply bodies_full in Hin; [subst body|exact I]. cbn [valid_packet] in V. split_and.
  cbn [full_body dec_body]. rewrite get_u16_put. ob.
  erewrite get_props_v_put by eassumption. ob.
  rewrite (dec_strings_put fs _ (strings_count fs)) by (apply nonempty_forallb; assumption).
  reflexivity.
Qed.

Lemma dec_unsuback v id ps codes body : valid_packet v (SUnsuback id ps codes) = true ->
  In body (bodies v (SUnsuback id ps codes)) -> dec_body v 11 0 body = Some (SUnsuback id ps codes).
Proof.
  intros V Hin. apply bodies_full in Hin; [subst body|exact I]. cbn [valid_packet] in V. split_and.
  cbn [full_body dec_body]. rewrite get_u16_put. ob.
  erewrite get_props_v_put by eassumption. ob. reflexivity.
Qed.

Lemma dec_disconnect v reason ps body : valid_packet v (SDisconnect reason ps) = true ->
  In body (bodies v (SDisconnect reason ps)) -> dec_body v 14 0 body = Some (SDisconnect reason ps).
Proof.
  intros V Hin. cbn [valid_packet] in V. unfold bodies in Hin. cbn [dec_body].
  destruct (v5 v) eqn:E5; cbn [negb] in Hin; split_and.
  - destruct (props_ok_parts _ _ ltac:(eassumption)) as [Hv Hl].
    cbn [full_body] in Hin. rewrite E5 in Hin.
    rewrite (dec_reason_props_forms reason ps body (fun _ => None) Hv Hl Hin). reflexivity.
  - apply in_single in Hin. subst body. cbn [full_body]. rewrite E5.
    match goal with Hr : (reason =? 0) = true |- _ => apply N.eqb_eq in Hr; subst reason end.
    match goal with Hp : no_props ps = true |- _ => destruct ps; [|discriminate Hp] end. reflexivity.
Qed.

Lemma dec_auth v reason ps body : valid_packet v (SAuth reason ps) = true ->
  In body (bodies v (SAuth reason ps)) -> dec_body v 15 0 body = Some (SAuth reason ps).
Proof.
  intros V Hin. cbn [valid_packet] in V. split_and. unfold bodies in Hin. cbn [dec_body].
  match goal with H5 : v5 v = true |- _ => rewrite H5 in *; cbn [negb] in Hin end.
  destruct (props_ok_parts _ _ ltac:(eassumption)) as [Hv Hl]. cbn [full_body] in Hin.
  rewrite (dec_reason_props_forms reason ps body (fun _ => None) Hv Hl Hin). reflexivity.
Qed.

Lemma connect_flags_bits clean will user pass : opt_ok (fun w => will_qos w <=? 2) will = true ->
  let fl := connect_flags_of clean will user pass in
  bit fl 0 = false /\ bit fl 1 = clean /\ bit fl 2 = is_some will /\
  (fl / 8) mod 4 = match will with Some w => will_qos w | None => 0 end /\
  bit fl 5 = match will with Some w => will_retain w | None => false end /\
  bit fl 6 = is_some pass /\ bit fl 7 = is_some user.
Proof.
  intro Hq. destruct will as [[wps wt wp wq wr]|]; cbn [opt_ok will_qos] in Hq.
  - assert (Q : wq = 0 \/ wq = 1 \/ wq = 2) by lia.
    destruct Q as [->|[->| ->]]; destruct clean; destruct wr; destruct user; destruct pass;
      vm_compute; repeat split.
  - destruct clean; destruct user; destruct pass; vm_compute; repeat split.
Qed.

Lemma dec_connect_ok v lvl clean ka ps cid will user pass body :
  valid_packet v (SConnect lvl clean ka ps cid will user pass) = true ->
  In body (bodies v (SConnect lvl clean ka ps cid will user pass)) ->
  dec_body v 1 0 body = Some (SConnect lvl clean ka ps cid will user pass).
Proof.
  intros V Hin. apply bodies_full in Hin; [subst body|exact I]. cbn [valid_packet] in V. split_and.
  cbn [full_body dec_body]. unfold dec_connect.
  set (name := if lvl =? 3 then bytes_of_string "MQIsdp" else bytes_of_string "MQTT").
  assert (Hname : utf8_wf name = true) by (unfold name; destruct (lvl =? 3); reflexivity).
  rewrite (get_str_put name _ Hname). ob. cbn [app get_u8]. ob.
  assert (G1 : (if lvl =? 3 then beq_bytes name (bytes_of_string "MQIsdp")
                else ((lvl =? 4) || (lvl =? 5)) && beq_bytes name (bytes_of_string "MQTT")) = true).
  { unfold name. destruct (lvl =? 3) eqn:E3; [reflexivity|].
    replace ((lvl =? 4) || (lvl =? 5)) with true by lia. reflexivity. }
  rewrite G1. ob. cbn [get_u8]. ob.
  assert (Hq : opt_ok (fun w => will_qos w <=? 2) will = true).
  { destruct will as [w|]; [|reflexivity]. cbn [opt_ok] in *.
    match goal with Hw : will_ok _ _ = true |- _ => unfold will_ok in Hw end. split_and. assumption. }
  destruct (connect_flags_bits clean will user pass Hq) as (F0 & F1 & F2 & F3 & F5 & F6 & F7). cbv zeta in *.
  set (fl := connect_flags_of clean will user pass) in *.
  rewrite F0, F1, F2, F3, F5, F6, F7. cbn [negb]. ob.
  assert (G2 : is_some will || (match will with Some w => will_qos w | None => 0 end =? 0)
                 && negb match will with Some w => will_retain w | None => false end = true)
    by (destruct will; reflexivity).
  rewrite G2. ob. rewrite get_u16_put. ob.
  erewrite get_props_v_put by eassumption. ob.
  rewrite get_str_put by (apply str_ok_wf; assumption). ob.
  destruct will as [[wps wt wp wq wr]|]; cbn [is_some opt_ok will_props will_topic will_payload will_qos will_retain] in *.
  - match goal with Hw : will_ok _ _ = true |- _ => unfold will_ok in Hw; cbn [will_props will_topic will_payload will_qos] in Hw end.
    split_and. rewrite <- !app_assoc.
    assert (Pw : props_for lvl XWill wps = true) by (unfold props_for; assumption).
    rewrite (get_props_v_put lvl XWill wps _ Pw). ob.
    rewrite get_str_put by (apply str_ok_wf; assumption). ob. rewrite get_bin_put. ob.
    destruct user as [u|]; destruct pass as [pw|]; cbn [is_some opt_ok app] in *.
    + rewrite get_str_put by (apply str_ok_wf; assumption). ob.
      rewrite <- (app_nil_r (put_bin pw)). rewrite get_bin_put. ob. reflexivity.
    + rewrite get_str_put by (apply str_ok_wf; assumption). ob. reflexivity.
    + ob. rewrite <- (app_nil_r (put_bin pw)). rewrite get_bin_put. ob. reflexivity.
    + reflexivity.
  - cbn [app]. ob.
    destruct user as [u|]; destruct pass as [pw|]; cbn [is_some opt_ok app] in *.
    + rewrite get_str_put by (apply str_ok_wf; assumption). ob.
      rewrite <- (app_nil_r (put_bin pw)). rewrite get_bin_put. ob. reflexivity.
    + rewrite get_str_put by (apply str_ok_wf; assumption). ob. reflexivity.
    + ob. rewrite <- (app_nil_r (put_bin pw)). rewrite get_bin_put. ob. reflexivity.
    + reflexivity.
Qed.

Theorem dec_body_ok v p body : valid_packet v p = true -> In body (bodies v p) ->
  dec_body v (ptype p) (pflags p) body = Some p.
Proof.
  intros V Hin. destruct p.
  - apply dec_connect_ok; assumption.
  - apply dec_connack; assumption.
  - apply dec_publish; assumption.
  - apply dec_ack; assumption.
  - apply dec_subscribe; assumption.
  - apply dec_suback; assumption.
  - apply dec_unsubscribe; assumption.
  - apply dec_unsuback; assumption.
  - apply bodies_full in Hin; [subst body; reflexivity | exact I].
  - apply bodies_full in Hin; [subst body; reflexivity | exact I].
  - apply dec_disconnect; assumption.
  - apply dec_auth; assumption.
Qed.

Lemma header_fields v p : valid_packet v p = true ->
  (ptype p * 16 + pflags p) / 16 = ptype p /\ (ptype p * 16 + pflags p) mod 16 = pflags p /\
  flags_ok (ptype p) (pflags p) = true.
Proof.
  intro V. destruct p; cbn [ptype pflags]; try (vm_compute; repeat split; fail).
  - cbn [valid_packet] in V. split_and.
    destruct (publish_flags dup qos retain ltac:(lia)) as (_ & _ & _ & F). cbv zeta in F.
    split; [lia|]. split; [lia|]. reflexivity.
  - destruct kind; vm_compute; repeat split.
Qed.

(* ROUND TRIP OF THE REFERENCE CODEC: every form the reference encoder writes for a valid packet,
   followed by anything, is accepted by the reference decoder, which returns exactly that packet and
   leaves the following bytes unread *)
Theorem spec_roundtrip v p bs rest : valid_packet v p = true -> In bs (spec_forms v p) ->
  spec_decode_packet v (bs ++ rest) = Some (p, rest).
Proof.
  intros V Hin. unfold spec_forms in Hin. apply in_map_iff in Hin. destruct Hin as (body & <- & Hb).
  apply filter_In in Hb. destruct Hb as [Hb Hl].
  destruct (header_fields v p V) as (H1 & H2 & H3).
  unfold spec_decode_packet, frame. cbn [app get_u8]. ob. rewrite H1, H2, H3. ob.
  rewrite <- app_assoc. rewrite get_vbi_put by lia. ob. rewrite take_app. ob.
  rewrite (dec_body_ok v p body V Hb). ob. rewrite V. reflexivity.
Qed.

Corollary spec_encode_decode v p bs rest : spec_encode_packet v p = Some bs ->
  spec_decode_packet v (bs ++ rest) = Some (p, rest).
Proof.
  unfold spec_encode_packet. intro H.
  destruct (valid_packet v p && (len (full_body v p) <=? 268435455)) eqn:E; [|discriminate].
  injection H as <-. apply andb_prop in E. destruct E as [V L].
  apply spec_roundtrip; [exact V|]. unfold spec_forms. apply in_map. apply filter_In. split; [|exact L].
  unfold bodies. destruct (negb (v5 v)); [left; reflexivity|]. destruct p; left; reflexivity.
Qed.

(* ---------- validity does not depend on the order of the properties ---------- *)

Lemma forallb_perm' {A} (f : A -> bool) l l' : Permutation l l' -> forallb f l = forallb f l'.
Proof.
  induction 1 as [|a l l' H IH|a b l|l l' l'' H1 IH1 H2 IH2]; cbn [forallb].
  - reflexivity.
  - rewrite IH. reflexivity.
  - destruct (f a); destruct (f b); reflexivity.
  - rewrite IH1. exact IH2.
Qed.

Lemma existsb_perm {A} (f : A -> bool) l l' : Permutation l l' -> existsb f l = existsb f l'.
Proof.
  induction 1 as [|a l l' H IH|a b l|l l' l'' H1 IH1 H2 IH2]; cbn [existsb].
  - reflexivity.
  - rewrite IH. reflexivity.
  - destruct (f a); destruct (f b); reflexivity.
  - rewrite IH1. exact IH2.
Qed.

Lemma perm_filter' {A} (f : A -> bool) l l' : Permutation l l' -> Permutation (filter f l) (filter f l').
Proof.
  induction 1 as [|a l l' H IH|a b l|l l' l'' H1 IH1 H2 IH2].
  - constructor.
  - cbn [filter]. destruct (f a); [constructor|]; exact IH.
  - cbn [filter]. destruct (f a); destruct (f b); try apply Permutation_refl. apply perm_swap.
  - eapply Permutation_trans; eassumption.
Qed.

Lemma body_len_perm' ps ps' : Permutation ps ps' -> len (put_props_body ps) = len (put_props_body ps').
Proof.
  unfold len, put_props_body.
  induction 1 as [|a l l' H IH|a b l|l l' l'' H1 IH1 H2 IH2]; cbn [map concat]; rewrite ?app_length in *; lia.
Qed.

Definition single (x : pctx) (c : sprop) : bool := negb (repeatable x c).

Lemma no_dup_ids_spec x : forall ps seen,
  no_dup_ids x seen ps = true <->
  (NoDup (map prop_id (filter (single x) ps)) /\
   forall k, In k (map prop_id (filter (single x) ps)) -> existsb (N.eqb k) seen = false).
Proof.
  induction ps as [|c r IH]; intro seen.
  - cbn. split; [intros _; split; [constructor | intros k []] | reflexivity].
  - cbn [no_dup_ids filter]. change (single x c) with (negb (repeatable x c)). destruct (repeatable x c) eqn:R; cbn [negb].
    + apply IH.
    + cbn [map]. rewrite andb_true_iff, negb_true_iff, (IH (prop_id c :: seen)). split.
      * intros (H1 & H2 & H3). split.
        -- constructor; [|exact H2]. intro Hin. specialize (H3 _ Hin). cbn [existsb] in H3.
           rewrite N.eqb_refl in H3. discriminate.
        -- intros k [<-|Hin]; [exact H1|]. specialize (H3 _ Hin). cbn [existsb] in H3.
           apply orb_false_iff in H3. tauto.
      * intros (H1 & H2). inversion H1 as [|? ? Hn Hd]; subst. split; [|split].
        -- apply H2. left. reflexivity.
        -- exact Hd.
        -- intros k Hin. cbn [existsb]. apply orb_false_iff. split.
           ++ apply N.eqb_neq. intro E. subst k. contradiction.
           ++ apply H2. right. exact Hin.
Qed.

Lemma no_dup_ids_perm x ps ps' : Permutation ps ps' -> no_dup_ids x [] ps = true -> no_dup_ids x [] ps' = true.
Proof.
  intros P H. apply no_dup_ids_spec in H. destruct H as [H _]. apply no_dup_ids_spec. split.
  - eapply Permutation_NoDup; [|exact H]. apply Permutation_map. apply perm_filter'. exact P.
  - intros k _. reflexivity.
Qed.

Ltac join_and := repeat match goal with |- _ && _ = true => apply andb_true_intro; split end.

Lemma props_ok_reorder x ps ps' : reorder ps ps' -> props_ok x ps = true -> props_ok x ps' = true.
Proof.
  intros [P _] H. unfold props_ok, has_prop in *.
  rewrite <- (forallb_perm' _ _ _ P), <- (forallb_perm' prop_value_ok _ _ P),
          <- !(existsb_perm _ _ _ P), <- (body_len_perm' _ _ P).
  split_and. rewrite (no_dup_ids_perm x ps ps' P) by assumption.
  join_and; first [assumption | reflexivity].
Qed.

Lemma props_for_reorder' v x ps ps' : reorder ps ps' -> props_for v x ps = true -> props_for v x ps' = true.
Proof.
  unfold props_for. intros R H. destruct (v5 v).
  - eapply props_ok_reorder; eassumption.
  - destruct ps; [|discriminate]. destruct R as [P _]. apply Permutation_nil in P. subst ps'. reflexivity.
Qed.

Lemma valid_same_packet v p p' : same_packet p p' -> valid_packet v p = true -> valid_packet v p' = true.
Proof.
  intros S V. destruct S; cbn [valid_packet] in *; split_and;
    join_and; try assumption;
    try (eapply props_for_reorder'; eassumption).
  - (* connect with will *)
    cbn [opt_ok] in *. unfold will_ok in *. cbn [will_props will_topic will_payload will_qos] in *.
    split_and. join_and; try assumption.
    destruct (v5 lvl).
    + eapply props_ok_reorder; eassumption.
    + destruct wps; [|discriminate]. destruct H0 as [P _]. apply Permutation_nil in P. subst wps'. reflexivity.
  - (* publish: topic alias presence *)
    unfold has_prop in *. destruct H as [P _]. rewrite <- (existsb_perm _ _ _ P). assumption.
  - (* disconnect *)
    destruct (v5 v); split_and; join_and; try assumption.
    + eapply props_ok_reorder; eassumption.
    + destruct ps; [|discriminate]. destruct H as [P _]. apply Permutation_nil in P. subst ps'. reflexivity.
  - eapply props_ok_reorder; eassumption.
Qed.

(* every permitted encoding (any order that keeps repeatable properties in sequence, any omission)
   is accepted by the reference decoder, which returns the packet with the properties in the order
   in which they were sent *)
Theorem spec_accepts_encodings v p bs rest : valid_packet v p = true -> spec_encodings v p bs ->
  exists p', same_packet p p' /\ spec_decode_packet v (bs ++ rest) = Some (p', rest).
Proof.
  intros V (p' & S & Hin). exists p'. split; [exact S|].
  apply spec_roundtrip; [|exact Hin]. eapply valid_same_packet; eassumption.
Qed.
