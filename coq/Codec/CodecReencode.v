(* C26, re-encode direction, final statement: a byte string the decoder accepts re-encodes to bytes
   that decode to the normal form of the decoded packet. *)
From MV Require Import Base.Val Base.Bytes Codec.Vbi Codec.Wire Codec.Props Codec.MochiCodec Codec.SpecCodec
  Codec.SpecBridge Codec.CodecTotal Codec.CodecRT Codec.CodecEnc Codec.CodecNorm Codec.CodecNormProofs
  Codec.CodecRoundTrip Codec.CodecDecWf.
From Coq Require Import Lia.
Open Scope N_scope.

Lemma kf_mods m pk : KF_C26_pid0 (set_pk_mods m pk) = KF_C26_pid0 pk.
Proof. destruct pk; reflexivity. Qed.

Lemma version_mods m pk : pk_version (set_pk_mods m pk) = pk_version pk.
Proof. destruct pk; reflexivity. Qed.

(* the round trip without the "encoder returned bytes" hypothesis *)
Theorem roundtrip_total pk : wf_packet pk = true -> KF_C26_pid0 pk = false ->
  exists bs rem, mochi_encode pk = Ok bs /\
    (exists hb body, bs = hb :: put_vbi rem ++ body /\ blen body = rem /\ rem <= 268435455) /\
    forall rest, Vbi.wf_bytes (bs ++ rest) ->
      mochi_decode_packet (pk_version pk) (bs ++ rest) = Ok (norm pk rem, rest).
Proof.
  intros W K. destruct (encode_total pk W K) as (body & E & Hin & Hl).
  exists (frame (abs pk) body), (len body). split; [exact E|]. split.
  - exists (ptype (abs pk) * 16 + pflags (abs pk)), body. split; [reflexivity|]. split; [reflexivity | exact Hl].
  - intros rest Hw. apply form_decodes; try assumption.
    unfold wf_packet in W. cbv zeta in W.
    repeat (apply andb_prop in W; destruct W as [W ?]). assumption.
Qed.

(* RE-ENCODING.  Any byte string the decoder accepts — under any protocol version byte, followed by
   anything — yields a packet that the encoder (with any Mods) accepts and whose encoding decodes to
   the packet's normal form, except for
   - the known finding KF_C26_pid0 (identifier 0 where one is required: the encoder refuses);
   - a CONNECT that ConnectValidate would refuse for its protocol name / level or for will bits
     without the will flag ([connect_standard]; the decoder accepts it, the proof does not cover it);
   - inputs within 0.4 MB of the protocol's maximum packet size (IN_MAX = 268000000): Properties.Decode
     lets the last property of a block run past the declared block length, so a re-encoding can be
     longer than the accepted input. *)
Theorem reencode v bs pk rest m :
  v < 256 -> Vbi.wf_bytes bs -> blen bs <= IN_MAX ->
  mochi_decode_packet v bs = Ok (pk, rest) ->
  (fh_type (pk_fh pk) = 1 -> connect_standard pk = true) ->
  KF_C26_pid0 pk = false ->
  let pk' := set_pk_mods m pk in
  exists bs' rem, mochi_encode pk' = Ok bs' /\
    forall rest', Vbi.wf_bytes (bs' ++ rest') ->
      mochi_decode_packet (pk_version pk) (bs' ++ rest') = Ok (norm pk' rem, rest').
Proof.
  intros Hv W Hmax E Hstd K. cbv zeta.
  pose proof (decoded_wf v bs pk rest m Hv W Hmax E Hstd) as Wf.
  destruct (roundtrip_total (set_pk_mods m pk) Wf ltac:(rewrite kf_mods; exact K)) as (bs' & rem & Eb & _ & Hd).
  exists bs', rem. split; [exact Eb|]. intros rest' Hw. rewrite <- (version_mods m pk). apply Hd. exact Hw.
Qed.

(* with the pid-0 finding: the encoder refuses exactly those decoded packets *)
Theorem reencode_refused v bs pk rest m :
  v < 256 -> Vbi.wf_bytes bs -> blen bs <= IN_MAX ->
  mochi_decode_packet v bs = Ok (pk, rest) ->
  (fh_type (pk_fh pk) = 1 -> connect_standard pk = true) ->
  KF_C26_pid0 pk = true -> mochi_encode (set_pk_mods m pk) = Err ENoPacketID.
Proof.
  intros Hv W Hmax E Hstd K.
  apply encode_pid0; [apply (decoded_wf v bs pk rest m Hv W Hmax E Hstd) | rewrite kf_mods; exact K].
Qed.
