(* C11 (liveness) and C08 (whole histories): statements over runs. *)
From MV Require Import Base.Val Session.Pkt Session.Inflight Session.InflightProofs Session.QosProofs Session.QosOrder.
From Coq Require Import Lia ZifyBool ZifyN ZifyNat.
Open Scope N_scope.

(* ====================================================================================== *)
(* C11: messages held back by flow control are released, oldest first, one per returned unit  *)
(* ====================================================================================== *)
Lemma deferred_fires_spec s0 orc k r :
  (0 < s_sendq s0)%Z -> get k (s_infl s0) = Some r -> (r_expiry r < 0)%Z ->
  exists p r', next_immediate orc (s_infl s0) = Some (p, r') /\
    deferred s0 orc = (with_sendq (with_infl s0 (del p (s_infl s0))) (dec (s_sendq s0)),
                       if s_conn s0 then [pkt_of_rec false p r'] else []).
Proof.
  intros Q G E. unfold deferred.
  assert (L : (0 <? len (s_infl s0)) = true).
  { unfold len. destruct (s_infl s0); [discriminate G|cbn [length]; lia]. }
  rewrite L. replace (0 <? s_sendq s0)%Z with true by lia. cbn [andb].
  pose proof (immediates_nonempty_next orc (s_infl s0) k r G E) as NN.
  destruct (next_immediate orc (s_infl s0)) as [[p r']|]; [|congruence].
  exists p, r'. split; reflexivity.
Qed.

(* the situation flow control creates: connected, quota used up, j messages waiting *)
Record waiting (c : cfg) (s : st) : Prop := {
  w_wf : wf c s;
  w_live : s_present s = true /\ s_conn s = true;
  w_quota : s_sendq s = 0%Z /\ (0 < s_maxsend s)%Z }.

(* an acknowledgement that ends an outbound flow whose message had been handed to the connection *)
Definition ends_flow (s : st) (o : op) : Prop :=
  match o with
  | InAck ty p _ _ => (ty = T_PUBACK \/ ty = T_PUBCOMP) /\ exists r, get p (s_infl s) = Some r /\ sent_out r = true
  | _ => False
  end.

Lemma release_step c s o orc k0 r0 :
  cfg_ok c -> op_ok o -> waiting c s -> ends_flow s o ->
  get k0 (s_infl s) = Some r0 -> (r_expiry r0 < 0)%Z ->
  exists p r,
    get p (s_infl s) = Some r /\ (r_expiry r < 0)%Z /\
    (forall k' r', get k' (s_infl s) = Some r' -> (r_expiry r' < 0)%Z -> (key16 r <= key16 r')%Z) /\
    snd (step c s o orc) = [OPkt T_PUBLISH p false (r_qos r) (r_uid r) 0] /\
    waiting c (fst (step c s o orc)) /\
    (* exactly the acknowledged record and the released one are gone *)
    s_infl (fst (step c s o orc)) = del p (del (match o with InAck _ q _ _ => q | _ => 0 end) (s_infl s)) /\
    p <> match o with InAck _ q _ _ => q | _ => 0 end.
Proof.
  intros C O [W [Pr Cn] [Q0 Mx]] EF G0 E0.
  destruct o; cbn [ends_flow] in EF; try contradiction.
  destruct EF as [Ty (ra & Ga & Sa)].
  assert (W' : wf c (fst (step c s (InAck ty pid rc now) orc))) by (apply step_wf; assumption).
  cbn [step] in *. rewrite Pr, Cn in *. cbn [andb] in *.
  assert (Ma : (0 <= r_expiry ra)%Z).
  { apply sent_not_marked in Sa. unfold marked in Sa. lia. }
  assert (Ne0 : k0 <> pid) by (intros ->; rewrite Ga in G0; inversion G0; subst; lia).
  (* the state the handler leaves for the post-packet block *)
  assert (Shape : exists s0, in_ack c s ty pid rc now orc = deferred s0 orc /\
                  s_infl s0 = del pid (s_infl s) /\ s_sendq s0 = 1%Z /\ s_conn s0 = true /\ s_present s0 = true /\
                  s_maxsend s0 = s_maxsend s).
  { unfold in_ack. destruct Ty as [-> | ->].
    - cbn [N.eqb Pos.eqb T_PUBACK]. rewrite Ga. eexists. split; [reflexivity|]. sproj.
      repeat split; try assumption. unfold inc. rewrite Q0. replace (0 <? s_maxsend s)%Z with true by lia. reflexivity.
    - cbn [N.eqb Pos.eqb T_PUBACK T_PUBREC T_PUBREL T_PUBCOMP]. eexists. split; [reflexivity|]. sproj.
      repeat split; try assumption. unfold inc. rewrite Q0. replace (0 <? s_maxsend s)%Z with true by lia. reflexivity. }
  destruct Shape as (s0 & Es & Ei & Eq & Ec & Ep & Em). rewrite Es in *.
  assert (G0' : get k0 (s_infl s0) = Some r0) by (rewrite Ei, get_del_other by exact Ne0; exact G0).
  destruct (deferred_fires_spec s0 orc k0 r0 ltac:(lia) G0' E0) as (p & r & NI & Ed).
  rewrite Ed in *. cbn [fst snd] in *. rewrite Ec.
  assert (N0 : NoDup (keys (s_infl s0))) by (rewrite Ei; apply nodup_del; apply W).
  apply next_immediate_spec in NI; [|exact N0]. destruct NI as (Gp & Epx & Min).
  rewrite Ei in Gp. apply get_del_some in Gp. destruct Gp as [Gp Npp].
  exists p, r. split; [exact Gp|]. split; [exact Epx|]. split.
  { intros k' r' G' E'. apply (Min k' r'); [|exact E']. rewrite Ei.
    rewrite get_del_other; [exact G'|]. intros ->. rewrite Ga in G'. inversion G'; subst. lia. }
  split.
  { unfold pkt_of_rec. rewrite (wf_imm c s W p r Gp Epx). cbn. reflexivity. }
  split.
  { constructor; [exact W'|sproj; tauto|sproj]. rewrite Eq, Em. cbn. tauto. }
  sproj. rewrite Ei. split; [reflexivity|exact Npp].
Qed.

Definition ack_pid (o : op) : N := match o with InAck _ q _ _ => q | _ => 0 end.
Definition pkt_of_held (kv : N * rec) : out := OPkt T_PUBLISH (fst kv) false (r_qos (snd kv)) (r_uid (snd kv)) 0.

(* C11, liveness over histories.  The client acknowledges promptly: a run of acknowledgements (PUBACK / PUBCOMP), each
   ending an outbound flow whose message was handed to the connection, no more of them than messages are waiting.
   Then every acknowledgement releases exactly one held-back message in the same step, the released messages come in
   non-decreasing uint16(Created) order (oldest first, modulo KF_C12_created_order), and afterwards exactly that many
   fewer are waiting.  What this does NOT give - the finding KF_C11_send_quota_lost - is a release for the
   acknowledgements of the released messages themselves: their records are gone (KF_C09_deferred). *)
Theorem release_run c : cfg_ok c -> forall acks s,
  waiting c s ->
  (forall o orc, In (o, orc) acks -> op_ok o /\ ends_flow s o) ->
  NoDup (map (fun x => ack_pid (fst x)) acks) ->
  (Z.of_nat (length acks) <= n_f marked (s_infl s))%Z ->
  exists rel,
    concat (snd (run c s acks)) = map pkt_of_held rel /\
    length rel = length acks /\
    (forall k r, In (k, r) rel -> get k (s_infl s) = Some r /\ (r_expiry r < 0)%Z) /\
    sorted_keys (map (fun kv => key16 (snd kv)) rel) /\
    waiting c (fst (run c s acks)) /\
    n_f marked (s_infl (fst (run c s acks))) = (n_f marked (s_infl s) - Z.of_nat (length acks))%Z /\
    (forall k r, get k (s_infl s) = Some r -> (r_expiry r < 0)%Z ->
                 In (k, r) rel \/ get k (s_infl (fst (run c s acks))) = Some r).
Proof.
  intros C. induction acks as [|[o orc] acks IH]; intros s Wt Ok Nd Le.
  - exists []. cbn [run fst snd concat map length].
    split; [reflexivity|]. split; [reflexivity|]. split; [intros k r []|]. split; [exact Logic.I|].
    split; [exact Wt|]. split; [cbn; lia|]. intros k r G E. right. exact G.
  - destruct (Ok o orc (or_introl eq_refl)) as [Oo Ef].
    (* some message is waiting *)
    assert (Ex : exists k0 r0, get k0 (s_infl s) = Some r0 /\ (r_expiry r0 < 0)%Z).
    { cbn [length] in Le. unfold n_f in Le.
      destruct (filter (fun kv => marked (snd kv)) (s_infl s)) as [|[k0 r0] l] eqn:F; [cbn in Le; lia|].
      assert (I : In (k0, r0) (filter (fun kv => marked (snd kv)) (s_infl s))) by (rewrite F; left; reflexivity).
      apply filter_In in I. destruct I as [I M]. exists k0, r0. split; [apply in_get; [apply Wt|exact I]|].
      unfold marked in M. cbn in M. lia. }
    destruct Ex as (k0 & r0 & G0 & E0).
    destruct (release_step c s o orc k0 r0 C Oo Wt Ef G0 E0) as (p & r & Gp & Ep & Min & Out & Wt1 & Inf & Npq).
    set (s1 := fst (step c s o orc)) in *.
    assert (Nds : NoDup (keys (s_infl s))) by apply Wt.
    (* one fewer is waiting *)
    assert (Cnt : n_f marked (s_infl s1) = (n_f marked (s_infl s) - 1)%Z).
    { rewrite Inf. rewrite n_f_del by (apply nodup_del; exact Nds). rewrite n_f_del by exact Nds.
      rewrite get_del_other by exact Npq. rewrite Gp.
      destruct o; cbn [ends_flow ack_pid] in *; try contradiction.
      destruct Ef as [_ (ra & Ga & Sa)]. rewrite Ga. rewrite (sent_not_marked ra Sa).
      unfold marked. replace (r_expiry r <? 0)%Z with true by lia. cbn. lia. }
    (* the remaining acknowledgements still end flows *)
    assert (Ok1 : forall o' orc', In (o', orc') acks -> op_ok o' /\ ends_flow s1 o').
    { intros o' orc' I. destruct (Ok o' orc' (or_intror I)) as [A B]. split; [exact A|].
      destruct o'; cbn [ends_flow] in *; try contradiction. destruct B as [Ty (ra & Ga & Sa)].
      split; [exact Ty|]. exists ra. split; [|exact Sa]. rewrite Inf.
      inversion Nd as [|? ? NI _]; subst.
      rewrite get_del_other.
      - rewrite get_del_other; [exact Ga|]. intros E. apply NI. cbn [map fst ack_pid] in *.
        apply in_map_iff. exists (InAck ty pid rc now, orc'). split; [cbn; exact E|exact I].
      - intros ->. rewrite Gp in Ga. inversion Ga; subst. apply sent_not_marked in Sa. unfold marked in Sa. lia. }
    assert (Nd1 : NoDup (map (fun x => ack_pid (fst x)) acks)) by (inversion Nd; assumption).
    assert (Le1 : (Z.of_nat (length acks) <= n_f marked (s_infl s1))%Z) by (cbn [length] in Le; lia).
    destruct (IH s1 Wt1 Ok1 Nd1 Le1) as (rel & Ec & El & Er & Es & Ew & En & Ea).
    (* records of s1 are records of s *)
    assert (Sub : forall k1 r1, get k1 (s_infl s1) = Some r1 -> get k1 (s_infl s) = Some r1).
    { intros k1 r1 G. rewrite Inf in G. apply get_del_some in G. destruct G as [G _]. apply get_del_some in G. tauto. }
    exists ((p, r) :: rel). rewrite run_cons. cbn [fst snd concat]. fold s1. rewrite Out, Ec.
    split; [reflexivity|]. split; [cbn [length]; lia|]. split.
    { intros k r1 [E|I]; [inversion E; subst; tauto|]. destruct (Er k r1 I) as [A B]. split; [apply Sub; exact A|exact B]. }
    split.
    { cbn [map snd]. destruct rel as [|[k1 r1] rel']; [exact Logic.I|]. cbn [map snd]. split; [|exact Es].
      destruct (Er k1 r1 (or_introl eq_refl)) as [A B]. apply (Min k1 r1); [apply Sub; exact A|exact B]. }
    split; [exact Ew|]. split; [rewrite En, Cnt; cbn [length]; lia|].
    intros k r1 G E. destruct (N.eq_dec k p) as [->|Ne].
    { left. left. rewrite Gp in G. inversion G; subst. reflexivity. }
    assert (G1 : get k (s_infl s1) = Some r1).
    { rewrite Inf. rewrite get_del_other by exact Ne. rewrite get_del_other; [exact G|].
      intros ->. destruct o; cbn [ends_flow ack_pid] in *; try contradiction.
      destruct Ef as [_ (ra & Ga & Sa)]. rewrite Ga in G. inversion G; subst.
      apply sent_not_marked in Sa. unfold marked in Sa. lia. }
    destruct (Ea k r1 G1 E) as [I|Gf]; [left; right; exact I|right; exact Gf].
Qed.

(* ... so if as many acknowledgements arrive as messages are waiting, every one of them has been transmitted *)
Corollary all_released c : cfg_ok c -> forall acks s,
  waiting c s ->
  (forall o orc, In (o, orc) acks -> op_ok o /\ ends_flow s o) ->
  NoDup (map (fun x => ack_pid (fst x)) acks) ->
  Z.of_nat (length acks) = n_f marked (s_infl s) ->
  forall k r, get k (s_infl s) = Some r -> (r_expiry r < 0)%Z ->
  In (OPkt T_PUBLISH k false (r_qos r) (r_uid r) 0) (concat (snd (run c s acks))).
Proof.
  intros C acks s Wt Ok Nd Le k r G E.
  destruct (release_run c C acks s Wt Ok Nd ltac:(lia)) as (rel & Ec & _ & _ & _ & _ & En & Ea).
  rewrite Ec. destruct (Ea k r G E) as [I|Gf].
  - apply (in_map pkt_of_held) in I. exact I.
  - exfalso. assert (P : (1 <= n_f marked (s_infl (fst (run c s acks))))%Z).
    { apply (n_f_pos marked k r); [exact Gf|unfold marked; lia]. }
    lia.
Qed.

(* C11, sending side, in the property's words: along every history from the start that avoids the listed
   accounting defects, the stored outbound messages that have been handed to the connection and are not yet
   acknowledged never outnumber the receive maximum in force *)
Corollary in_transit_bounded c : cfg_ok c -> forall h,
  hist_ok h -> clean_send c init_st h = true ->
  let s := fst (run c init_st h) in
  (0 < s_maxsend s)%Z -> (n_f sent_out (s_infl s) <= s_maxsend s)%Z.
Proof.
  intros C h H Cl. apply (run_sbal c C h init_st H (wf_init c) sbal_init Cl).
Qed.

(* ====================================================================================== *)
(* C08 over whole histories                                                                 *)
(* ====================================================================================== *)
Definition no_uid (uid : N) (o : op) : Prop := match o with InPublish _ _ _ u _ => u <> uid | _ => True end.

Lemma step_no_fwd c s o orc uid : no_uid uid o -> count_fwd uid (snd (step c s o orc)) = 0%nat.
Proof.
  intros NU. destruct o; cbn [step no_uid] in *.
  - destruct (s_present s); [apply out_publish_no_fwd|reflexivity].
  - destruct (s_present s && s_conn s); [|reflexivity]. rewrite in_publish_count_fwd.
    destruct ((s_recvq s =? 0)%Z || retrans s pid); [reflexivity|]. replace (uid0 =? uid) with false by lia. reflexivity.
  - destruct (s_present s && s_conn s); [apply in_ack_no_fwd|reflexivity].
  - destruct (s_present s && s_conn s); [apply deferred_no_fwd|reflexivity].
  - destruct (s_present s && s_conn s); [|reflexivity].
    destruct graceful; [destruct (deferred (with_conn s false) orc)|]; reflexivity.
  - apply reconnect_no_fwd.
  - destruct (s_present s); reflexivity.
Qed.

Lemma run_no_fwd c uid : forall h s,
  (forall o orc, In (o, orc) h -> no_uid uid o) -> count_fwd uid (concat (snd (run c s h))) = 0%nat.
Proof.
  induction h as [|[o orc] h IH]; intros s H; [reflexivity|].
  rewrite run_cons. cbn [snd concat]. rewrite count_fwd_app, step_no_fwd by (apply (H o orc); left; reflexivity).
  apply IH. intros o' orc' I. apply (H o' orc'). right. exact I.
Qed.

(* C08: the whole history.  [pre] is anything that does not publish message uid; then the client's first PUBLISH of
   it (QoS 2, identifier pid) arrives at a connected, persistent session with receive quota left and no open exchange
   under pid; [h1] is the open exchange - retransmissions in any number, disconnections, reconnections with the
   session, other traffic, for every oracle - without an acknowledgement packet carrying pid (KF_C08_cross_ack), expiry
   or session end; [tail] starts when the exchange is over (the client's PUBREL pid, or anything else) and never publishes
   uid again.  The message is forwarded exactly once in the whole output. *)
Theorem once_whole c pid uid dup now orc0 pre h1 tail :
  cfg_ok c -> (0 <= now)%Z -> hist_ok pre ->
  (forall o orc, In (o, orc) pre -> no_uid uid o) ->
  (forall o orc, In (o, orc) tail -> no_uid uid o) ->
  let s := fst (run c init_st pre) in
  persistent s -> s_conn s = true -> (s_recvq s =? 0)%Z = false -> retrans s pid = false ->
  quiet pid uid h1 ->
  count_fwd uid (concat (snd (run c init_st (pre ++ ((InPublish 2 pid dup uid now, orc0) :: h1) ++ tail)))) = 1%nat.
Proof.
  intros C Nw Hp NUp NUt s P Cn Q R Qh.
  rewrite run_app. cbn [snd]. rewrite concat_app, count_fwd_app.
  rewrite (run_no_fwd c uid pre init_st NUp). cbn [Nat.add]. fold s.
  rewrite run_app. cbn [snd]. rewrite concat_app, count_fwd_app.
  rewrite (run_no_fwd c uid tail _ NUt). rewrite Nat.add_0_r.
  apply exactly_once; try assumption.
  apply run_wf; [exact C|exact Hp|apply wf_init].
Qed.
