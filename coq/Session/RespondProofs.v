(* Proofs for C07 over the response model. *)
From MV Require Import Base.Val Session.Pkt Session.Respond.
From Coq Require Import Lia ZifyBool ZifyN ZifyNat.
Open Scope N_scope.

Lemma zip_with_length {A B C} (f : A -> B -> C) (a : list A) (b : list B) :
  length a = length b -> length (zip_with f a b) = length b.
Proof.
  revert b; induction a as [|x a IH]; intros [|y b] H; cbn in *; try lia.
  f_equal. apply IH. lia.
Qed.

Ltac split_ifs :=
  repeat match goal with
         | |- context [if ?b then _ else _] => destruct b eqn:?
         | |- context [match ?x with Some _ => _ | None => _ end] => destruct x eqn:?
         end.

(* Every well-formed request is answered as the protocol requires, or the connection is closed,
   outside the two listed findings. *)
Theorem respond_sound (c : ctx) (p : pkt) :
  wf_request c p = true ->
  KF_C07_pubrel_error c p = false ->
  KF_C07_qos_downgrade c p = false ->
  resp_ok p (model_response c p) = true.
Proof.
  unfold wf_request, KF_C07_pubrel_error, KF_C07_qos_downgrade, model_response, resp_ok, required,
    inuse, pubrel_reason_ok.
  unfold T_PUBLISH, T_PUBREL, T_SUBSCRIBE, T_UNSUBSCRIBE, T_PINGREQ, T_PINGRESP, T_PUBACK, T_PUBREC,
    T_PUBCOMP, T_SUBACK, T_UNSUBACK in *.
  intros Hwf K1 K2.
  destruct (k_type p =? 3) eqn:T3.
  { unfold model_publish, ack_type_for_qos, T_PUBREC, T_PUBACK.
    cbn [andb] in K2. rewrite K2.
    destruct (is_pubrec_rec (x_infl c)) eqn:I;
    split_ifs; cbn; try reflexivity; try lia. }
  destruct (k_type p =? 6) eqn:T6.
  { unfold model_pubrel, T_PUBCOMP, pubrel_reason_ok. cbn [andb] in K1.
    split_ifs; cbn; try reflexivity; try lia. }
  destruct (k_type p =? 8) eqn:T8.
  { unfold model_subscribe, T_SUBACK. cbn.
    rewrite !N.eqb_refl. cbn.
    rewrite zip_with_length; [apply Nat.eqb_refl|].
    destruct (k_type p =? 10); cbn in Hwf; lia. }
  destruct (k_type p =? 10) eqn:T10.
  { unfold model_unsubscribe, T_UNSUBACK. cbn.
    rewrite !N.eqb_refl. cbn. rewrite map_length.
    cbn in Hwf. apply Nat.eqb_eq. lia. }
  destruct (k_type p =? 12) eqn:T12; [reflexivity|].
  cbn in Hwf. lia.
Qed.

(* the same with the Maximum Packet Size refusal: an over-size response becomes the end of the connection *)
Theorem respond_sized_sound (c : ctx) (p : pkt) :
  wf_request c p = true ->
  KF_C07_pubrel_error c p = false ->
  KF_C07_qos_downgrade c p = false ->
  resp_ok p (model_response_sized c p) = true.
Proof.
  intros Hwf K1 K2. pose proof (respond_sound c p Hwf K1 K2) as H.
  unfold model_response_sized. destruct (x_too_large c); [|exact H].
  destruct (model_response c p); try reflexivity. exact H.
Qed.

(* non-vacuity and the two refutations are in Properties/C07.v *)
