(* C14 — proofs: for every history of operations the life-cycle model never violates the C14
   monitor (session present, resume keeps, clean start drops, taken-over connection silent). *)
From MV Require Import Base.Val Session.Lifecycle Session.LifeSpec Session.LifeBase Session.LifeInv Session.LifeProofs13.
From Coq Require Import Lia ZifyBool ZifyN ZifyNat.
Open Scope N_scope.

(* ---------- snapshots ---------- *)
Lemma find_client_of s id : forall l,
  (forall id' c', In (id', c') l -> exists o, get_obj c' (st_objs s) = Some o) ->
  find_client id (clients_of s l) =
  match aget id l with Some c => option_map (sclient_of id) (get_obj c (st_objs s)) | None => None end.
Proof.
  induction l as [|[id' c'] r IH]; intro H; cbn [clients_of aget find_client]; [reflexivity|].
  destruct (H id' c' (or_introl eq_refl)) as (o & G). rewrite G. cbn [find_client sclient_of sc_id].
  destruct (beq_bytes id' id) eqn:E.
  - apply bb_eq in E. subst id'. rewrite G. reflexivity.
  - apply IH. intros i c I. apply (H i c). right. exact I.
Qed.

Lemma find_client_snap s id : wf s ->
  find_client id (sn_clients (snap_of s)) =
  match aget id (st_clients s) with Some c => option_map (sclient_of id) (get_obj c (st_objs s)) | None => None end.
Proof.
  intro W. cbn. apply find_client_of. intros id' c' I.
  assert (A : aget id' (st_clients s) = Some c') by (apply in_aget_nodup; [apply (wf_nodup s W)|exact I]).
  destruct (wf_reg s W id' c' A) as (o & G & _). exists o. exact G.
Qed.

(* ---------- closes ---------- *)
Definition closes_ok (s' : state) (outs : list out) : Prop := forall c, In (OClose c) outs -> openc s' c = false.
Definition no_closes (outs : list out) : Prop := forall c, ~ In (OClose c) outs.

Lemma no_closes_ok s outs : no_closes outs -> closes_ok s outs.
Proof. intros N c I. destruct (N c I). Qed.
Lemma closes_ok_app s a b : closes_ok s a -> closes_ok s b -> closes_ok s (a ++ b).
Proof. intros A B c I. apply in_app_or in I. destruct I; [apply A|apply B]; assumption. Qed.
Lemma closes_ok_ev s s' outs : ev s s' -> closes_ok s outs -> closes_ok s' outs.
Proof.
  intros (_ & _ & O) C c I. specialize (C c I). destruct (openc s' c) eqn:E; [|reflexivity]. apply O in E. congruence.
Qed.
Lemma no_closes_app a b : no_closes a -> no_closes b -> no_closes (a ++ b).
Proof. intros A B c I. apply in_app_or in I. destruct I; [apply (A c)|apply (B c)]; assumption. Qed.

Lemma deliver_no_closes k m ix : forall s, no_closes (snd (deliver k m ix s)).
Proof.
  induction ix as [|[[id f] q] r IH]; intro s; cbn [deliver]; [intros c []|].
  destruct (beq_bytes f (m_topic m)); [|apply IH]. destruct (client_of s id) as [o|]; [|apply IH].
  match goal with |- context [deliver k m r ?sx] => specialize (IH sx); destruct (deliver k m r sx) as [s'' outs] end.
  cbn [snd] in *. apply no_closes_app; [|exact IH]. destruct (o_open o); [intros c [E|[]]; discriminate|intros c []].
Qed.

Lemma send_lwt_no_closes k now c s : no_closes (snd (send_lwt k now c s)).
Proof.
  unfold send_lwt. destruct (get_obj c (st_objs s)) as [o|]; [|intros x []].
  destruct (negb (w_flag (o_will o))); [intros x []|]. destruct (0 <? w_delay (o_will o)); [intros x []|].
  match goal with |- context [publish k ?m ?sx] => pose proof (deliver_no_closes k m (st_index sx) sx) as D; unfold publish;
    destruct (deliver k m (st_index sx) sx) as [s2 outs] end. cbn [snd] in *.
  intros x [E|I]; [discriminate|]. apply in_app_or in I. destruct I as [I|[E|[]]]; [apply (D x I)|discriminate].
Qed.

Lemma disconnect_client_closes now c code s : closes_ok (fst (disconnect_client now c code s)) (snd (disconnect_client now c code s)).
Proof.
  unfold disconnect_client. destruct (get_obj c (st_objs s)) as [o|] eqn:G; [|intros x []].
  destruct (o_open o) eqn:OO; [|intros x []]. cbn [fst snd]. intros x [E|[E|[]]]; [discriminate|]. inversion E; subst x.
  unfold openc, upd_obj. cbn. pose proof (get_put_same (stopped o now) (st_objs s)) as GP.
  rewrite stopped_conn, (get_obj_conn _ _ _ G) in GP. rewrite GP. apply stopped_open.
Qed.

Lemma handler_tail_closes k now c err s : closes_ok (fst (handler_tail k now c err s)) (snd (handler_tail k now c err s)).
Proof.
  unfold handler_tail.
  assert (A : no_closes (snd (if err then send_lwt k now c s else (s, [])))) by (destruct err; [apply send_lwt_no_closes|intros x []]).
  destruct (if err then send_lwt k now c s else (s, [])) as [s1 o1]. cbn [snd] in A.
  destruct (get_obj c (st_objs s1)) as [o|] eqn:G; [|apply no_closes_ok, A]. cbn [fst snd].
  apply closes_ok_app; [apply no_closes_ok, A|]. apply closes_ok_app; [|intros x [E|[]]; discriminate].
  destruct (err && o_open o) eqn:EO; [|intros x []]. intros x [E|[]]. inversion E; subst x.
  apply andb_true_iff in EO. destruct EO as [-> OO].
  (* the object is stopped, and nothing reopens afterwards *)
  set (s2 := upd_obj s1 (stopped o now)).
  assert (C2 : openc s2 c = false).
  { unfold openc, s2, upd_obj. cbn. pose proof (get_put_same (stopped o now) (st_objs s1)) as GP.
    rewrite stopped_conn, (get_obj_conn _ _ _ G) in GP. rewrite GP. apply stopped_open. }
  match goal with |- openc ?sf c = false => assert (EV : ev s2 sf) end.
  { set (o' := stopped o now).
    eapply ev_trans.
    - instantiate (1 := if expire_cond o' && negb (o_tko o')
                        then set_clients (unsubscribe_client c (clear_inflights c s2)) (adel (o_id o') (st_clients s2)) else s2).
      destruct (expire_cond o' && negb (o_tko o')); [|apply ev_refl].
      eapply ev_trans; [apply clear_inflights_ev|]. eapply ev_trans; [apply unsubscribe_client_ev|apply ev_set_clients].
    - match goal with |- ev ?s3 _ => destruct (get_obj c (st_objs s3)) as [x|] eqn:G3; [|apply ev_refl] end.
      apply ev_upd with (o0 := x); cbn; [rewrite (get_obj_conn _ _ _ G3); exact G3|auto]. }
  destruct EV as (_ & _ & O).
  match goal with |- openc ?sf c = false => destruct (openc sf c) eqn:EE; [apply O in EE; congruence|reflexivity] end.
Qed.

Definition cstep (r : state * list out) : Prop := closes_ok (fst r) (snd r).

Lemma cstep_seq s1 o1 (r2 : state * list out) : closes_ok s1 o1 -> ev s1 (fst r2) -> cstep r2 -> cstep (fst r2, o1 ++ snd r2).
Proof. intros C E C2. apply closes_ok_app; [eapply closes_ok_ev; eassumption|exact C2]. Qed.

Lemma do_disconnect_closes k c now rc sei s : cstep (do_disconnect k c now rc sei s).
Proof.
  unfold do_disconnect. destruct (reading s c) as [o|] eqn:R; [|intros x []].
  apply reading_obj in R. destruct R as [G OO]. pose proof (get_obj_conn _ _ _ G) as EC.
  destruct (match sei with Some v => (0 <? v) && (o_sei o =? 0) | None => false end).
  - pose proof (disconnect_client_closes now c 130 s) as C1.
    destruct (disconnect_client now c 130 s) as [s1 o1]. cbn [fst snd] in *.
    pose proof (cstep_seq s1 o1 (handler_tail k now c true s1) C1 (proj1 (handler_tail_ok k now c true s1)) (handler_tail_closes k now c true s1)) as K.
    destruct (handler_tail k now c true s1) as [s2 o2]. exact K.
  - set (o' := match sei with Some v => with_sei o (if k_maxsei k <? v then k_maxsei k else v) true | None => o end).
    assert (C' : o_conn o' = c) by (subst o'; destruct sei; cbn; exact EC).
    destruct (negb (rc =? 0)); [apply handler_tail_closes|].
    set (s2 := set_wills (upd_obj s o') (adel (o_id o') (st_wills (upd_obj s o')))).
    assert (G2 : get_obj c (st_objs s2) = Some o') by (subst s2; cbn; rewrite <- C'; apply get_put_same).
    set (s3 := upd_obj s2 (stopped o' now)).
    assert (C3 : closes_ok s3 [OClose c]).
    { intros x [E|[]]. inversion E; subst x. unfold openc, s3, upd_obj. cbn.
      pose proof (get_put_same (stopped o' now) (st_objs s2)) as GP. rewrite stopped_conn, C' in GP.
      unfold s2 in GP. cbn in GP. rewrite GP. apply stopped_open. }
    pose proof (cstep_seq s3 [OClose c] (handler_tail k now c false s3) C3 (proj1 (handler_tail_ok k now c false s3)) (handler_tail_closes k now c false s3)) as K.
    destruct (handler_tail k now c false s3) as [s4 o4]. exact K.
Qed.

Lemma do_second_connect_closes k c now s : cstep (do_second_connect k c now s).
Proof.
  unfold do_second_connect. destruct (reading s c) as [o|]; [|intros x []].
  pose proof (send_lwt_no_closes k now c s) as N1. destruct (send_lwt k now c s) as [s1 o1]. cbn [snd] in N1.
  assert (A : cstep (if o_ver o =? 5 then disconnect_client now c 130 s1 else (s1, []))).
  { destruct (o_ver o =? 5); [apply disconnect_client_closes|intros x []]. }
  destruct (if o_ver o =? 5 then disconnect_client now c 130 s1 else (s1, [])) as [s2 o2]. unfold cstep in A. cbn [fst snd] in A.
  pose proof (handler_tail_closes k now c true s2) as C3. pose proof (proj1 (handler_tail_ok k now c true s2)) as E3.
  destruct (handler_tail k now c true s2) as [s3 o3]. unfold cstep. cbn [fst snd] in *.
  apply closes_ok_app; [apply no_closes_ok, N1|]. apply closes_ok_app; [eapply closes_ok_ev; eassumption|exact C3].
Qed.

Lemma tick_clients_no_closes k now l : forall s, no_closes (snd (tick_clients k now l s)).
Proof.
  induction l as [|[id c] r IH]; intro s; cbn [tick_clients]; [intros x []|].
  destruct (get_obj c (st_objs s)) as [o|]; [|apply IH]. destruct (o_disc o =? 0)%Z; [apply IH|].
  match goal with |- context [if (?a <? now)%Z then _ else _] => destruct (a <? now)%Z end; [|apply IH].
  match goal with |- context [tick_clients k now r ?sx] => specialize (IH sx); destruct (tick_clients k now r sx) as [s3 outs] end.
  cbn [snd] in *. intros x [E|I]; [discriminate|apply (IH x I)].
Qed.

Lemma tick_will_no_closes k now l : forall s, no_closes (snd (tick_will k now l s)).
Proof.
  induction l as [|[id d] r IH]; intro s; cbn [tick_will]; [intros x []|].
  destruct (d_due d <? now)%Z; [|apply IH].
  pose proof (deliver_no_closes k (d_msg d) (st_index s) s) as D. unfold publish.
  destruct (deliver k (d_msg d) (st_index s) s) as [s1 o1]. cbn [snd] in D.
  destruct (client_of s1 id) as [ob|].
  - match goal with |- context [tick_will k now r ?sx] => specialize (IH sx); destruct (tick_will k now r sx) as [s4 o4] end.
    cbn [snd] in *. intros x [E|I]; [discriminate|].
    apply in_app_or in I. destruct I as [I|I]; [apply (D x I)|]. destruct I as [E|I]; [discriminate|apply (IH x I)].
  - match goal with |- context [tick_will k now r ?sx] => specialize (IH sx); destruct (tick_will k now r sx) as [s4 o4] end.
    cbn [snd] in *. intros x [E|I]; [discriminate|].
    apply in_app_or in I. destruct I as [I|I]; [apply (D x I)|apply (IH x I)].
Qed.

Lemma step_old_closes k s o : is_new_conn s o = None -> cstep (step k s o).
Proof.
  destruct o; cbn [is_new_conn step]; intro H.
  - destruct (memN c (st_used s)); [intros x []|discriminate].
  - destruct (memN c (st_used s)); [intros x []|discriminate].
  - apply do_disconnect_closes.
  - unfold do_netclose. destruct (reading s c); [apply handler_tail_closes|intros x []].
  - unfold do_teardown. destruct (get_obj c (st_objs s)) as [ob|]; [|intros x []].
    destruct (o_phase ob); try (intros x []). apply handler_tail_closes.
  - apply no_closes_ok, tick_clients_no_closes.
  - apply no_closes_ok, tick_will_no_closes.
  - unfold do_subscribe. destruct (reading s c); intros x [].
  - unfold do_publish. destruct (reading s c); [|intros x []]. apply no_closes_ok. unfold publish. apply deliver_no_closes.
  - apply do_second_connect_closes.
Qed.

(* ---------- attach in detail ---------- *)
Lemma inherit_out k now p n s :
  let '(s1, n1, sp, o1) := inherit k now p n s in
  match aget (o_id n) (st_clients s) with
  | None => sp = false /\ o1 = []
  | Some e =>
      match get_obj e (st_objs s) with
      | None => sp = false /\ o1 = []
      | Some eo =>
          sp = negb (cp_clean p || (o_clean eo && (o_ver eo <? 5))) /\
          o1 = (if o_open eo then [OPkt e (PDisconnect (if o_ver eo <? 5 then 0 else 142)); OClose e] else [])
      end
  end.
Proof.
  unfold inherit. destruct (aget (o_id n) (st_clients s)) as [e|]; [|auto].
  destruct (get_obj e (st_objs s)) as [eo|] eqn:G; [|auto].
  assert (O1 : snd (disconnect_client now e 142 s) =
               (if o_open eo then [OPkt e (PDisconnect (if o_ver eo <? 5 then 0 else 142)); OClose e] else [])).
  { unfold disconnect_client. rewrite G. destruct (o_open eo); reflexivity. }
  destruct (disconnect_client now e 142 s) as [s1 o1]. cbn [snd] in O1.
  destruct (cp_clean p || (o_clean eo && (o_ver eo <? 5))); cbn [negb]; auto.
Qed.

Lemma attach_success k c now p e s :
  wf s -> cp_trunc p = false -> validate_connect k p = 0 ->
  let '(s1, n1, sp, o1) := inherit k now p (parse_connect c p e) s in
  exists n2, o_conn n2 = c /\ o_id n2 = e /\ o_subs n2 = o_subs n1 /\ o_infl n2 = o_infl n1 /\ o_open n2 = true /\
    attach k c now p true e s =
      (set_wills (set_clients (upd_obj s1 n2) (aset e c (st_clients s1))) (adel e (st_wills s1)),
       o1 ++ [OPkt c (PConnack 0 sp)] ++ (if sp then resend c (o_infl n2) else [])).
Proof.
  intros W T V. unfold attach. rewrite T, V. cbn [N.eqb negb].
  pose proof (inherit_frame k now p (parse_connect c p e) s W) as IF.
  destruct (inherit k now p (parse_connect c p e) s) as [[[s1 n1] sp] o1].
  destruct IF as (KN & CN & _).
  set (n2 := if k_maxsei k <? o_sei n1 then with_sei n1 (k_maxsei k) true else n1).
  exists n2.
  assert (KI : o_id n1 = e) by (unfold okey in KN; cbn in KN; congruence).
  assert (KO : o_open n1 = true) by (unfold okey in KN; cbn in KN; congruence).
  cbn in CN.
  assert (K : o_conn n2 = o_conn n1 /\ o_id n2 = o_id n1 /\ o_subs n2 = o_subs n1 /\ o_infl n2 = o_infl n1 /\ o_open n2 = o_open n1).
  { subst n2. destruct (k_maxsei k <? o_sei n1); cbn; auto. }
  destruct K as (K1 & K2 & K3 & K4 & K5).
  split; [congruence|split; [congruence|split; [exact K3|split; [exact K4|split; [congruence|]]]]].
  rewrite K2, KI. reflexivity.
Qed.

(* ---------- small facts about the monitor's helpers ---------- *)
Lemma pkts_to_app c a b : pkts_to c (a ++ b) = pkts_to c a ++ pkts_to c b.
Proof. unfold pkts_to. apply flat_map_app. Qed.
Lemma closes_app a b : closes (a ++ b) = closes a ++ closes b.
Proof. unfold closes. apply flat_map_app. Qed.

Lemma pkts_to_resend_same c l : pkts_to c (resend c l) = map (fun m => PPublish m true) l.
Proof. induction l as [|m r IH]; cbn; [reflexivity|]. rewrite N.eqb_refl. cbn. f_equal. exact IH. Qed.
Lemma pkts_to_resend_other c c' l : c' <> c -> pkts_to c' (resend c l) = [].
Proof.
  intro N. induction l as [|m r IH]; cbn; [reflexivity|]. destruct (c =? c') eqn:E; [apply N.eqb_eq in E; congruence|]. exact IH.
Qed.
Lemma closes_resend c l : closes (resend c l) = [].
Proof. induction l as [|m r IH]; cbn; [reflexivity|exact IH]. Qed.

Lemma pkts_to_closed s c outs : sends_ok s outs -> openc s c = false -> pkts_to c outs = [].
Proof.
  intros S O. unfold pkts_to. induction outs as [|x r IH]; cbn [flat_map]; [reflexivity|].
  assert (Sr : sends_ok s r) by (intros y I; apply S; right; exact I). rewrite (IH Sr), app_nil_r.
  pose proof (S x (or_introl eq_refl)) as Hx. destruct x; try reflexivity.
  destruct (c0 =? c) eqn:E; [|reflexivity]. apply N.eqb_eq in E. subst c0. destruct Hx as [_ Hx]. congruence.
Qed.

Lemma success_connack_resend sp l : success_connack (PConnack 0 sp :: map (fun m => PPublish m true) l) = Some sp.
Proof. reflexivity. Qed.

Lemma subB_refl l : subB l l = true.
Proof.
  unfold subB. apply forallb_forall. intros x I. unfold memB. apply existsb_exists. exists x. split; [exact I|apply bb_refl].
Qed.
Lemma msubB_refl l : msubB l l = true.
Proof. unfold msubB. apply forallb_forall. intros x I. apply Nat.leb_refl. Qed.

Lemma memB_in x l : memB x l = true <-> In x l.
Proof.
  unfold memB. rewrite existsb_exists. split.
  - intros (y & I & E). apply bb_eq in E. subst. exact I.
  - intro I. exists x. split; [exact I|apply bb_refl].
Qed.

(* ---------- the invariant of the C14 monitor ---------- *)
Record inv14 (m : m14) (s : state) (ops : list op) : Prop := {
  i14_inv : inv s;
  i14_closed : forall c, memN c (b_closed m) = true -> openc s c = false /\ memN c (st_used s) = true;
  i14_fresh : fresh_conns (st_used s) ops = true }.

Lemma memN_app c a b : memN c (a ++ b) = memN c a || memN c b.
Proof.
  destruct (memN c (a ++ b)) eqn:E.
  - apply memN_true in E. apply in_app_or in E. symmetry. apply orb_true_iff.
    destruct E as [E|E]; [left|right]; apply memN_true; exact E.
  - symmetry. apply orb_false_iff. split.
    + destruct (memN c a) eqn:A; [|reflexivity]. apply memN_true in A. assert (memN c (a ++ b) = true) by (apply memN_true, in_or_app; left; exact A). congruence.
    + destruct (memN c b) eqn:A; [|reflexivity]. apply memN_true in A. assert (memN c (a ++ b) = true) by (apply memN_true, in_or_app; right; exact A). congruence.
Qed.

Lemma in_closes c outs : In c (closes outs) <-> In (OClose c) outs.
Proof.
  unfold closes. rewrite in_flat_map. split.
  - intros (x & I & H). destruct x; cbn in H; try contradiction. destruct H as [H|[]]. subst. exact I.
  - intro I. exists (OClose c). split; [exact I|left; reflexivity].
Qed.

Lemma v_after_nil (i : nat) (closed : list N) (outs : list out) :
  (forall c p, In (OPkt c p) outs -> memN c closed = false) ->
  flat_map (fun o => match o with
                     | OPkt c _ => if memN c closed then [mkv V14_old_after i c []] else []
                     | _ => [] end) outs = [].
Proof.
  intro H. induction outs as [|x r IH]; cbn [flat_map]; [reflexivity|].
  rewrite IH by (intros c p I; apply (H c p); right; exact I).
  destruct x; try reflexivity. rewrite (H c p (or_introl eq_refl)). reflexivity.
Qed.

Lemma closed_update (m : m14) s s' outs :
  evx s s' -> (forall c, memN c (b_closed m) = true -> openc s c = false /\ memN c (st_used s) = true) ->
  closes_ok s' outs -> (forall c, In (OClose c) outs -> memN c (st_used s') = true) ->
  forall c, memN c (closes outs ++ b_closed m) = true -> openc s' c = false /\ memN c (st_used s') = true.
Proof.
  intros (EU & _ & EO) CL CO CU c M. rewrite memN_app in M. apply orb_true_iff in M. destruct M as [M|M].
  - apply memN_true, in_closes in M. split; [apply CO, M|apply CU, M].
  - destruct (CL c M) as [O U]. split; [|apply EU, U].
    destruct (openc s' c) eqn:E; [|reflexivity]. apply EO in E. destruct E; congruence.
Qed.

Lemma inherit_closes k now p n s :
  let '(s1, n1, sp, o1) := inherit k now p n s in closes_ok s1 o1.
Proof.
  unfold inherit. destruct (aget (o_id n) (st_clients s)) as [e|]; [|intros x []].
  destruct (get_obj e (st_objs s)) as [eo0|] eqn:G0; [|intros x []].
  pose proof (disconnect_client_closes now e 142 s) as C1.
  destruct (disconnect_client now e 142 s) as [s1 o1]. cbn [fst snd] in *.
  set (s1' := match get_obj e (st_objs s1) with
              | Some x => if (match o_phase x with PhReading => true | _ => false end) && negb (o_open x)
                          then upd_obj s1 (with_phase x PhHeld) else s1
              | None => s1 end).
  assert (E1' : ev s1 s1').
  { subst s1'. destruct (get_obj e (st_objs s1)) as [x|] eqn:G1; [|apply ev_refl].
    destruct ((match o_phase x with PhReading => true | _ => false end) && negb (o_open x)); [|apply ev_refl].
    apply ev_upd with (o0 := x); cbn; [rewrite (get_obj_conn _ _ _ G1); exact G1|auto]. }
  destruct (cp_clean p || (o_clean eo0 && (o_ver eo0 <? 5))).
  - eapply closes_ok_ev; [|exact C1]. eapply ev_trans; [exact E1'|]. eapply ev_trans; [apply unsubscribe_client_ev|].
    eapply ev_trans; [apply clear_inflights_ev|]. apply ev_tko.
  - eapply closes_ok_ev; [|exact C1]. eapply ev_trans; [exact E1'|]. eapply ev_trans; [apply ev_tko|].
    eapply ev_trans; [apply ev_set_index|]. eapply ev_trans; [apply unsubscribe_client_ev|]. apply clear_inflights_ev.
Qed.

Lemma refusal_closes_c c outs x : refusal c outs -> In (OClose x) outs -> x = c.
Proof.
  intros [->|(code & NZ & ->)] I; cbn in I.
  - destruct I as [I|[]]. inversion I. reflexivity.
  - destruct I as [I|[I|[]]]; [discriminate|inversion I; reflexivity].
Qed.
Lemma refusal_pkts_c c outs x p : refusal c outs -> In (OPkt x p) outs -> x = c.
Proof.
  intros [->|(code & NZ & ->)] I; cbn in I.
  - destruct I as [I|[]]. discriminate.
  - destruct I as [I|[I|[]]]; [inversion I; reflexivity|discriminate].
Qed.
Lemma refusal_no_success c outs : refusal c outs -> success_connack (pkts_to c outs) = None.
Proof.
  intros [->|(code & NZ & ->)]; cbn; [reflexivity|]. rewrite N.eqb_refl. cbn. destruct code; [congruence|reflexivity].
Qed.

Definition dropped_of (id : bytes) (h : hev) : list bytes :=
  match h with HDropped i pl => if beq_bytes i id then [pl] else [] | _ => [] end.
Definition unsub_of (id : bytes) (h : hev) : list bytes :=
  match h with HUnsub i f => if beq_bytes i id then [f] else [] | _ => [] end.

Lemma clean_hooks_lists e (subs : list (bytes * N)) (infl : list msg) :
  flat_map (dropped_of e) (map (fun fq => HUnsub e (fst fq)) subs ++ map (fun m => HDropped e (m_payload m)) infl) = map m_payload infl /\
  flat_map (unsub_of e) (map (fun fq => HUnsub e (fst fq)) subs ++ map (fun m => HDropped e (m_payload m)) infl) = map fst subs.
Proof.
  rewrite !flat_map_app. split.
  - assert (A : flat_map (dropped_of e) (map (fun fq => HUnsub e (fst fq)) subs) = []) by (induction subs; cbn; auto).
    rewrite A. cbn [app]. induction infl as [|m r IH]; cbn; [reflexivity|]. rewrite bb_refl. cbn. f_equal. exact IH.
  - assert (A : flat_map (unsub_of e) (map (fun m => HDropped e (m_payload m)) infl) = []) by (induction infl; cbn; auto).
    rewrite A, app_nil_r. induction subs as [|fq r IH]; cbn; [reflexivity|]. rewrite bb_refl. cbn. f_equal. exact IH.
Qed.

Lemma sp_clause_ok (cleanp cleane : bool) (ver sei : N) :
  negb cleanp && ((ver <? 5) && negb cleane || (ver =? 5) && (0 <? sei)) && negb (negb (cleanp || cleane && (ver <? 5)))
  || (cleanp || (ver <? 5) && cleane) && negb (cleanp || cleane && (ver <? 5)) = false.
Proof.
  destruct cleanp; destruct cleane; destruct (ver <? 5) eqn:L5; destruct (ver =? 5) eqn:E5; destruct (0 <? sei);
  cbn; try reflexivity; exfalso; lia.
Qed.

Lemma takeover_pk_ok (ver : N) :
  (if ver =? 5
   then match [PDisconnect (if ver <? 5 then 0 else 142)] with [PDisconnect 142] => true | _ => false end
   else match [PDisconnect (if ver <? 5 then 0 else 142)] with [] => true | [PDisconnect _] => true | _ => false end) = true.
Proof. destruct (ver =? 5) eqn:E5; destruct (ver <? 5) eqn:L5; try reflexivity; exfalso; lia. Qed.

Theorem m14_step_ok k i m s o r :
  inv14 m s (o :: r) ->
  inv14 (fst (m14_step i m (obs_of (tstep_of k s o)))) (fst (step k s o)) r /\
  snd (m14_step i m (obs_of (tstep_of k s o))) = [].
Proof.
  intros [[W X] CL FR].
  pose proof (step_shape k s o (wf_used s W)) as SH.
  pose proof (step_inv k s o (conj W X)) as INV'.
  unfold tstep_of, obs_of. cbn [t_op t_outs t_hooks t_pre t_post].
  destruct (step k s o) as [s' outs] eqn:STEP. cbn [fst snd] in *.
  destruct SH as (W'u & EVX & SH).
  unfold m14_step. cbn [b_outs b_op b_hooks b_pre b_post fst snd].
  destruct (is_new_conn s o) as [c|] eqn:NEW.
  - (* a new connection *)
    destruct SH as (U & HS & _).
    assert (CF : memN c (st_used s) = false).
    { destruct o; cbn [is_new_conn] in NEW; try discriminate;
      destruct (memN c0 (st_used s)) eqn:M; try discriminate; inversion NEW; subst; exact M. }
    assert (CNC : memN c (b_closed m) = false).
    { destruct (memN c (b_closed m)) eqn:E; [|reflexivity]. destruct (CL c E). congruence. }
    assert (OC0 : openc s c = false) by (unfold openc; unfold hasobj in HS; destruct (get_obj c (st_objs s)); [discriminate|reflexivity]).
    pose proof (fresh_new_conn s o r c NEW FR) as FR'.
    set (s0 := set_used s (c :: st_used s)).
    assert (HS0 : hasobj s0 c = false) by exact HS.
    (* refusal or acceptance *)
    assert (CASES : (s' = s0 /\ refusal c outs) \/
                    (exists now p e, o = OConnect c now p true e /\ cp_trunc p = false /\ validate_connect k p = 0)).
    { destruct o; cbn [is_new_conn] in NEW; try discriminate;
      destruct (memN c0 (st_used s)) eqn:M; try discriminate; inversion NEW; subst c0; cbn [step] in STEP; rewrite M in STEP.
      - pose proof (attach_shape k c now p auth_ok effid s0 HS0) as A. fold s0 in STEP. rewrite STEP in A.
        destruct A as [A|(Ha & Ht & Hv & _)]; [left; exact A|]. subst auth_ok. right. exists now, p, effid. auto.
      - left. inversion STEP. split; [reflexivity|left; reflexivity]. }
    destruct CASES as [[ES R]|(now & p & e & -> & T & V)].
    + (* refused *)
      rewrite (v_after_nil i (b_closed m) outs).
      2:{ intros c0 p0 I. rewrite (refusal_pkts_c c outs c0 p0 R I). exact CNC. }
      cbn [app]. split.
      * split; [exact INV'| |rewrite U; exact FR'].
        cbn [b_closed]. apply (closed_update m s s' outs EVX CL).
        -- intros x I. rewrite (refusal_closes_c c outs x R I). subst s'. exact OC0.
        -- intros x I. rewrite (refusal_closes_c c outs x R I). rewrite U, used_cons_l, N.eqb_refl. reflexivity.
      * destruct o; cbn [is_new_conn] in NEW; try discriminate; try reflexivity.
        destruct (memN c0 (st_used s)); try discriminate. inversion NEW; subst c0. rewrite (refusal_no_success c outs R). reflexivity.
    + (* accepted *)
      assert (STEP0 : attach k c now p true e s0 = (s', outs)).
      { cbn [step] in STEP. rewrite CF in STEP. exact STEP. }
      assert (W0 : wf s0) by (apply wf_set_used, W).
      assert (X0 : ixinv s0) by (apply ixinv_set_used, X).
      pose proof (attach_success k c now p e s0 W0 T V) as AS.
      pose proof (inherit_out k now p (parse_connect c p e) s0) as IO.
      pose proof (inherit_ix k now p (parse_connect c p e) s0 W0 X0 eq_refl) as IX.
      pose proof (inherit_ok k now p (parse_connect c p e) s0) as IK.
      pose proof (inherit_closes k now p (parse_connect c p e) s0) as ICL.
      destruct (inherit k now p (parse_connect c p e) s0) as [[[s1 n1] sp] o1].
      destruct AS as (n2 & C2 & I2 & S2 & F2 & O2 & AEQ). rewrite STEP0 in AEQ.
      assert (ES : set_wills (set_clients (upd_obj s1 n2) (aset e c (st_clients s1))) (adel e (st_wills s1)) = s')
        by (symmetry; exact (f_equal fst AEQ)).
      assert (EOUT : outs = o1 ++ [OPkt c (PConnack 0 sp)] ++ (if sp then resend c (o_infl n2) else []))
        by (exact (f_equal snd AEQ)).
      clear AEQ. rewrite EOUT.
      destruct IX as (IXA & IXB & IXC). destruct IK as (_ & S1 & _). change (o_id (parse_connect c p e)) with e in *.
      assert (S1s : sends_ok s o1) by exact S1.
      assert (P1 : pkts_to c o1 = []) by (apply (pkts_to_closed s); assumption).
      set (rs := if sp then resend c (o_infl n2) else []) in *.
      assert (PRS : exists l, rs = resend c l) by (subst rs; destruct sp; [exists (o_infl n2)|exists []]; reflexivity).
      destruct PRS as (l & PRS). rewrite PRS.
      assert (PKC : success_connack (pkts_to c (o1 ++ [OPkt c (PConnack 0 sp)] ++ resend c l)) = Some sp).
      { rewrite !pkts_to_app, P1, pkts_to_resend_same. cbn. rewrite N.eqb_refl. reflexivity. }
      rewrite PKC.
      (* no packet to a connection closed earlier *)
      rewrite (v_after_nil i (b_closed m)).
      2:{ intros c0 p0 I. apply in_app_or in I. destruct I as [I|I].
          - destruct (S1s _ I) as [_ OP]. destruct (memN c0 (b_closed m)) eqn:E; [|reflexivity]. destruct (CL c0 E). congruence.
          - destruct I as [I|I]; [inversion I; subst; exact CNC|]. apply resend_in in I. destruct I as (mm & E). inversion E; subst. exact CNC. }
      cbn [app].
      (* the snapshots before and after *)
      pose proof (find_client_snap s e W) as PRE.
      pose proof (find_client_snap s' e (proj1 INV')) as POST.
      assert (AP : aget e (st_clients s') = Some c) by (rewrite <- ES; cbn; apply aget_aset_same).
      assert (GP : get_obj c (st_objs s') = Some n2) by (rewrite <- ES; cbn; rewrite <- C2; apply get_put_same).
      rewrite AP, GP in POST. cbn [option_map] in POST. rewrite PRE, POST.
      assert (IXS : st_index s' = st_index s1) by (rewrite <- ES; reflexivity).
      assert (CLO : closes (o1 ++ [OPkt c (PConnack 0 sp)] ++ resend c l) = closes o1).
      { rewrite !closes_app, closes_resend. cbn. apply app_nil_r. }
      (* new closed set *)
      assert (NEWCL : forall x, memN x (closes (o1 ++ [OPkt c (PConnack 0 sp)] ++ resend c l) ++ b_closed m) = true ->
                      openc s' x = false /\ memN x (st_used s') = true).
      { rewrite <- PRS, <- EOUT. apply (closed_update m s s' outs EVX CL).
        - rewrite EOUT, PRS. intros x I. apply in_closes in I. rewrite CLO in I. apply in_closes in I.
          assert (NX : x <> c).
          { intro E. subst x. pose proof (S1s _ I) as HH. cbn in HH. congruence. }
          pose proof (ICL x I) as ICL'. unfold openc in *. rewrite <- ES. cbn. rewrite get_put_other by (rewrite C2; exact NX). exact ICL'.
        - rewrite EOUT, PRS. intros x I. apply in_closes in I. rewrite CLO in I. apply in_closes in I.
          pose proof (S1s _ I) as HH. cbn in HH. apply (proj1 EVX). apply (wf_used s W). exact HH. }
      (* the four clauses *)
      assert (SUBS0 : sp = false -> o_subs n2 = [] /\ o_infl n2 = []).
      { intro E. destruct (IXB E) as [A B]. rewrite S2, F2, A, B. auto. }
      assert (NOIX : sp = false -> existsb (fun en => beq_bytes (fst (fst en)) e) (st_index s') = false).
      { intro E. destruct (existsb _ (st_index s')) eqn:EX; [|reflexivity]. apply existsb_exists in EX.
        destruct EX as ([[id f] q] & IN & B). cbn in B. apply bb_eq in B. subst id. rewrite IXS in IN.
        destruct (IXA e f q IN) as [(_ & F)|(NE & _)]; [|congruence]. destruct (IXB E) as [A _]. rewrite A in F. destruct F. }
      destruct (aget e (st_clients s)) as [ec|] eqn:A.
      * destruct (wf_reg s W e ec A) as (eo & G & IE & TE). rewrite G. cbn [option_map].
        change (aget e (st_clients s0)) with (aget e (st_clients s)) in IO. rewrite A in IO.
        change (get_obj ec (st_objs s0)) with (get_obj ec (st_objs s)) in IO. rewrite G in IO. destruct IO as [ESP EO1].
        assert (NEC : ec <> c) by (intro E; subst ec; unfold hasobj in HS; rewrite G in HS; discriminate).
        unfold persistent.
        cbn [sclient_of sc_ver sc_clean sc_sei sc_open sc_conn sc_subs sc_infl snap_of sn_index].
        rewrite C2, (get_obj_conn _ _ _ G).
        change (OPkt c (PConnack 0 sp) :: resend c l) with ([OPkt c (PConnack 0 sp)] ++ resend c l).
        (* session present *)
        assert (V1 : (if (negb (cp_clean p) && (((o_ver eo <? 5) && negb (o_clean eo)) || ((o_ver eo =? 5) && (0 <? o_sei eo))) && negb sp)
                         || ((cp_clean p || ((o_ver eo <? 5) && o_clean eo)) && sp) then [mkv V14_sp i c e] else []) = []).
        { rewrite ESP, sp_clause_ok. reflexivity. }
        rewrite V1. cbn [app].
        (* resume keeps *)
        assert (V2 : (if sp then
                        if (c =? c) && subB (map fst (o_subs eo)) (map fst (o_subs n2)) &&
                           forallb (fun f => existsb (fun en => beq_bytes (fst (fst en)) e && beq_bytes (snd (fst en)) f) (st_index s'))
                                   (map fst (o_subs eo)) &&
                           msubB (map m_payload (o_infl eo)) (map m_payload (o_infl n2))
                        then [] else [mkv V14_keeps i c e]
                      else []) = []).
        { destruct sp eqn:SP; [|reflexivity].
          destruct (IXC ec eo A G eq_refl) as (SE & FE & IN).
          rewrite N.eqb_refl, S2, SE, subB_refl, F2, FE, msubB_refl. cbn [andb].
          assert (FA : forallb (fun f => existsb (fun en => beq_bytes (fst (fst en)) e && beq_bytes (snd (fst en)) f) (st_index s'))
                               (map fst (o_subs eo)) = true).
          { apply forallb_forall. intros f F. destruct (IN f F) as (q & INq). apply existsb_exists. exists (e, f, q).
            split; [rewrite IXS; exact INq|]. cbn. rewrite !bb_refl. reflexivity. }
          rewrite FA. reflexivity. }
        rewrite V2. cbn [app].
        (* clean start drops *)
        assert (V3 : (if cp_clean p then
                        if (c =? c) && (match map fst (o_subs n2) with [] => true | _ => false end) &&
                           (match map m_payload (o_infl n2) with [] => true | _ => false end) &&
                           negb (existsb (fun en => beq_bytes (fst (fst en)) e) (st_index s'))
                        then [] else [mkv V14_clean i c e]
                      else []) = []).
        { destruct (cp_clean p) eqn:CP; [|reflexivity]. assert (SPF : sp = false) by (rewrite ESP; reflexivity).
          destruct (SUBS0 SPF) as [A1 A2]. rewrite N.eqb_refl, A1, A2, (NOIX SPF). reflexivity. }
        rewrite V3. cbn [app].
        (* the hook reports for the discarded session *)
        assert (HK : hook_events k s (OConnect c now p true e) =
                     if cp_clean p || (o_clean eo && (o_ver eo <? 5)) then
                       map (fun fq => HUnsub e (fst fq)) (o_subs eo) ++ map (fun m => HDropped e (m_payload m)) (o_infl eo)
                     else []).
        { cbn [hook_events]. rewrite CF, T, V. cbn [orb negb N.eqb]. unfold client_of. rewrite A, G. reflexivity. }
        assert (V5 : (if cp_clean p || (o_ver eo <? 5) && o_clean eo then
                        if msubB (map m_payload (o_infl eo)) (flat_map (dropped_of e) (hook_events k s (OConnect c now p true e))) &&
                           subB (map fst (o_subs eo)) (flat_map (unsub_of e) (hook_events k s (OConnect c now p true e)))
                        then [] else [mkv V14_clean_hooks i c e]
                      else []) = []).
        { rewrite HK. rewrite (andb_comm (o_ver eo <? 5) (o_clean eo)).
          destruct (cp_clean p || o_clean eo && (o_ver eo <? 5)); [|reflexivity].
          destruct (clean_hooks_lists e (o_subs eo) (o_infl eo)) as [DD UU]. rewrite DD, UU, msubB_refl, subB_refl. reflexivity. }
        change (fun h : hev => match h with HDropped i0 pl => if beq_bytes i0 e then [pl] else [] | HUnsub _ _ => [] end) with (dropped_of e).
        change (fun h : hev => match h with HDropped _ _ => [] | HUnsub i0 f => if beq_bytes i0 e then [f] else [] end) with (unsub_of e).
        rewrite V5. cbn [app].
        (* the previous holder *)
        assert (V4 : (if o_open eo && negb (ec =? c) then
                        if (if o_ver eo =? 5 then match pkts_to ec (o1 ++ [OPkt c (PConnack 0 sp)] ++ resend c l) with [PDisconnect 142] => true | _ => false end
                            else match pkts_to ec (o1 ++ [OPkt c (PConnack 0 sp)] ++ resend c l) with [] => true | [PDisconnect _] => true | _ => false end)
                           && memN ec (closes (o1 ++ [OPkt c (PConnack 0 sp)] ++ resend c l))
                        then [] else [mkv V14_old_takeover i ec e]
                      else []) = []).
        { destruct (o_open eo) eqn:OE; [|reflexivity].
          destruct (ec =? c) eqn:EQ; [apply N.eqb_eq in EQ; congruence|]. cbn [negb andb].
          rewrite CLO, !pkts_to_app, (pkts_to_resend_other c ec l NEC). cbn [pkts_to flat_map app].
          destruct (c =? ec) eqn:EQ2; [apply N.eqb_eq in EQ2; congruence|]. cbn [app]. rewrite app_nil_r.
          rewrite EO1. cbn [pkts_to flat_map closes app]. rewrite N.eqb_refl. cbn [app].
          assert (MC : memN ec [ec] = true) by (apply memN_true; left; reflexivity). rewrite MC, andb_true_r.
          rewrite takeover_pk_ok. reflexivity. }
        split; [|exact V4]. split; [exact INV'|exact NEWCL|rewrite U; exact FR'].
      * cbn [option_map].
        change (aget e (st_clients s0)) with (aget e (st_clients s)) in IO. rewrite A in IO. destruct IO as [ESP EO1].
        subst sp. cbn [andb orb negb app].
        destruct (cp_clean p) eqn:CP.
        -- destruct (SUBS0 eq_refl) as [A1 A2]. cbn [sclient_of sc_conn sc_subs sc_infl snap_of sn_index]. rewrite C2, N.eqb_refl, A1, A2, (NOIX eq_refl). cbn.
           split; [|reflexivity]. split; [exact INV'|exact NEWCL|rewrite U; exact FR'].
        -- cbn. split; [|reflexivity]. split; [exact INV'|exact NEWCL|rewrite U; exact FR'].
  - (* an operation on existing connections *)
    destruct SH as (SH & U & HH).
    pose proof (step_old_closes k s o NEW) as CO. rewrite STEP in CO. unfold cstep in CO. cbn [fst snd] in CO.
    rewrite (v_after_nil i (b_closed m) outs).
    2:{ intros c0 p0 I. destruct (SH _ I) as [_ OP]. destruct (memN c0 (b_closed m)) eqn:E; [|reflexivity]. destruct (CL c0 E). congruence. }
    cbn [app].
    pose proof (fresh_old_conn s o r NEW FR) as FR'.
    assert (VC : match o with OConnect _ _ _ _ _ => False | _ => True end).
    { destruct o; auto. cbn [is_new_conn fresh_conns] in *. destruct (memN c (st_used s)); discriminate. }
    split.
    + split; [exact INV'| |rewrite U; exact FR'].
      cbn [b_closed]. apply (closed_update m s s' outs EVX CL CO).
      intros x I. pose proof (SH _ I) as HX. cbn in HX. rewrite U. apply (wf_used s W). exact HX.
    + destruct o; try reflexivity. destruct VC.
Qed.

Theorem mon14_model_clean k ops : fresh_conns [] ops = true -> mon14 (map obs_of (trace k init ops)) = [].
Proof.
  intro F.
  assert (A : Forall (fun _ => False) (mon14 (map obs_of (trace k init ops)))).
  { unfold mon14. apply (run_mon_inv k m14_step (fun _ => False) inv14).
    - intros i m s o r I. destruct (m14_step_ok k i m s o r I) as [I' E]. split; [exact I'|rewrite E; constructor].
    - split; [apply inv_init|cbn; discriminate|exact F]. }
  destruct (mon14 _); [reflexivity|inversion A; contradiction].
Qed.
