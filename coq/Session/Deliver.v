(* C03 / C04 / C05 / C06 / C40 — message routing.  Component model of the routing part of the broker:
   server.go processPublish (routing part), retainMessage, publishToSubscribers, publishToClient (prefix:
   No Local, read ACL, retain flag, identifiers, QoS, offline session), publishRetainedToClient,
   processSubscribe / processUnsubscribe (subscription bookkeeping, granted QoS), the inline API
   (Publish / Subscribe / Unsubscribe), topics.go Subscribers.SelectShared / MergeSharedSelected and
   packets.go Subscription.Merge — AFTER the fixes recorded in findings.d/C03.json, C04.json.
   Which filters match a topic is taken from the specification (Topics/Match.v topic_matches); that the trie
   computes exactly this is C01 / C02.  Go maps keyed by client id are functions of the client (every
   client's entry is computed from that client's subscriptions only); the iteration order of
   Subscribers.Shared and the member chosen in each group are an explicit oracle; a full outbound queue
   is an explicit drop oracle.  The specification side (what a client is entitled to, with which QoS,
   identifiers and retain flag, what the retained store must hold) is computed directly from the set of
   matching subscriptions / from the history.  No proofs in this file. *)
From MV Require Import Base.Val Topics.Levels Topics.Match Topics.Alist.
Open Scope N_scope.

Definition cid := bytes.

(* subscription options as stored (requested QoS, not the granted one: server.go:1273 stores before capping) *)
Record subopt := mkSO { so_qos : N; so_nolocal : bool; so_rap : bool; so_rh : N; so_id : N (* 0 = none *) }.

(* the properties of an application message that must reach the subscriber unchanged *)
Record mprops := mkMP { mp_ct : bytes; mp_rt : bytes; mp_cd : bytes; mp_user : list (bytes * bytes) }.
Definition mp_none : mprops := mkMP [] [] [] [].

Record msg := mkMsg { m_topic : bytes; m_payload : bytes; m_qos : N; m_retain : bool; m_props : mprops;
                      m_origin : cid }.

Inductive target := TClient (c : cid) | TInline (id : N).
Record delivery := mkD { d_to : target; d_topic : bytes; d_payload : bytes; d_qos : N; d_retain : bool;
                         d_ids : list N; d_props : mprops }.

Record client := mkCl {
  cl_conn : bool;                       (* has a live connection *)
  cl_ver : N;                           (* protocol version of the (last) connection: 3, 4, 5 *)
  cl_rpi0 : bool;                       (* CONNECT carried Request Problem Information = 0 *)
  cl_persist : bool;                    (* the session outlives the connection *)
  cl_subs : list (bytes * subopt);      (* filter (as given, including $share/<group>/) -> options *)
  cl_pending : list delivery }.         (* QoS > 0 messages stored for the offline session *)

Record state := mkSt {
  st_clients : list (cid * client);     (* Clients map (sessions, connected or not) *)
  st_inline : list (N * bytes);         (* inline subscriptions (identifier, filter) *)
  st_retained : list (bytes * msg);     (* topic -> retained message *)
  st_maxqos : N;                        (* Capabilities.MaximumQos *)
  st_retain_avail : bool;               (* Capabilities.RetainAvailable *)
  st_deny : list (cid * bytes) }.       (* read permission refused for (client, topic or filter string) *)

Definition init (maxqos : N) (ravail : bool) (deny : list (cid * bytes)) : state := mkSt [] [] [] maxqos ravail deny.

Definition with_clients (s : state) (cs : list (cid * client)) : state :=
  mkSt cs (st_inline s) (st_retained s) (st_maxqos s) (st_retain_avail s) (st_deny s).
Definition with_inline (s : state) (il : list (N * bytes)) : state :=
  mkSt (st_clients s) il (st_retained s) (st_maxqos s) (st_retain_avail s) (st_deny s).
Definition with_retained (s : state) (r : list (bytes * msg)) : state :=
  mkSt (st_clients s) (st_inline s) r (st_maxqos s) (st_retain_avail s) (st_deny s).

Definition denied (s : state) (c : cid) (t : bytes) : bool :=
  existsb (fun e => beq_bytes (fst e) c && beq_bytes (snd e) t) (st_deny s).

Definition pos (i : N) : bool := 0 <? i.

(* sort.Ints *)
Fixpoint insert (x : N) (l : list N) : list N :=
  match l with [] => [x] | y :: r => if x <=? y then x :: l else y :: insert x r end.
Fixpoint isort (l : list N) : list N := match l with [] => [] | x :: r => insert x (isort r) end.

(* ---------- packets.go Subscription.Merge ---------- *)
Record msub := mkMS { ms_filter : bytes; ms_id : N; ms_ids : option (list (bytes * N)) (* Identifiers, None = nil map *);
                      ms_qos : N; ms_rap : bool; ms_nolocal : bool; ms_fwd : bool (* FwdRetainedFlag *) }.

Definition msub_of (fo : bytes * subopt) : msub :=
  mkMS (fst fo) (so_id (snd fo)) None (so_qos (snd fo)) (so_rap (snd fo)) (so_nolocal (snd fo)) false.

Definition idmap (m : msub) : list (bytes * N) :=
  match ms_ids m with Some l => l | None => [(ms_filter m, ms_id m)] end.
Definition set_pos (acc : list (bytes * N)) (kv : bytes * N) : list (bytes * N) :=
  if pos (snd kv) then al_set beq_bytes (fst kv) (snd kv) acc else acc.

Definition merge (s n : msub) : msub :=
  let ids1 := set_pos (idmap s) (ms_filter n, ms_id n) in                                     (* if n.Identifier > 0 *)
  let ids2 := fold_left set_pos (match ms_ids n with Some m => m | None => [] end) ids1 in   (* for range n.Identifiers *)
  mkMS (ms_filter s) (ms_id s) (Some ids2)
       (if ms_qos s <? ms_qos n then ms_qos n else ms_qos s)
       (ms_rap s || ms_rap n) (ms_nolocal s || ms_nolocal n) (ms_fwd s).

(* `cls, ok := m[client]; if !ok { cls = sub }; m[client] = cls.Merge(sub)` repeated over a list *)
Definition merge_into (acc : option msub) (fo : bytes * subopt) : option msub :=
  let sub := msub_of fo in
  Some (merge (match acc with Some a => a | None => sub end) sub).
Definition merge_all (l : list (bytes * subopt)) : option msub := fold_left merge_into l None.

(* ---------- which subscriptions of a client a publish on topic t reaches ---------- *)
Definition sub_matches (t : bytes) (fo : bytes * subopt) : bool :=
  negb (is_share (fst fo)) && topic_matches (fst fo) t.
Definition shared_matches (t : bytes) (f : bytes) : bool := is_share f && topic_matches (eff_filter f) t.

(* scanSubscribers / gatherSubscriptions restricted to one client *)
Definition nonshared_matching (cl : client) (t : bytes) : list (bytes * subopt) := filter (sub_matches t) (cl_subs cl).

(* oracle: the entries of Subscribers.Shared in iteration order, each with the member that the inner
   `for client, sub := range subs { ...; break }` yields first *)
Definition oracle := list (bytes * cid).

Definition picks_of (c : cid) (cl : client) (t : bytes) (orc : oracle) : list (bytes * subopt) :=
  flat_map (fun kc => if beq_bytes (snd kc) c && shared_matches t (fst kc)
                      then match al_get beq_bytes (fst kc) (cl_subs cl) with Some o => [(fst kc, o)] | None => [] end
                      else []) orc.

(* Subscribers.Subscriptions[c] after scanSubscribers, SelectShared and MergeSharedSelected *)
Definition merged_client (c : cid) (cl : client) (t : bytes) (orc : oracle) : option msub :=
  let gathered := merge_all (nonshared_matching cl t) in
  match merge_all (picks_of c cl t orc) with
  | None => gathered
  | Some sel => Some (merge (match gathered with Some g => g | None => sel end) sel)
  end.

(* ---------- publishToClient up to the hand-over to the outbound queue ---------- *)
Inductive pres :=
| PNone                    (* nothing for this client *)
| PSend (d : delivery)     (* queued on the connection *)
| PQueue (d : delivery)    (* QoS > 0 for an offline session: kept in flight, resent on reconnection *)
| PDrop.                   (* outbound queue full: OnPublishDropped *)

Definition min3 (a b c : N) : N :=
  let x := if b <? a then b else a in if c <? x then c else x.

(* what the encoder for the connection's protocol version puts on the wire *)
Definition wire (cl : client) (d : delivery) : delivery :=
  if cl_ver cl =? 5 then d
  else mkD (d_to d) (d_topic d) (d_payload d) (d_qos d) (d_retain d) [] mp_none.

Definition publish_to_client (s : state) (c : cid) (cl : client) (sub : msub) (m : msg) (dropped : bool) : pres :=
  if ms_nolocal sub && beq_bytes (m_origin m) c then PNone
  else if denied s c (m_topic m) then PNone
  else
    let retain := if negb (ms_fwd sub) && (((cl_ver cl =? 5) && negb (ms_rap sub)) || (cl_ver cl <? 5))
                  then false else m_retain m in
    let ids := match ms_ids sub with Some l => filter pos (isort (map snd l)) | None => [] end in
    let qos := min3 (m_qos m) (ms_qos sub) (st_maxqos s) in
    let d := mkD (TClient c) (m_topic m) (m_payload m) qos retain ids (m_props m) in
    if negb (cl_conn cl) then (if qos =? 0 then PNone else PQueue d)
    else if dropped then PDrop
    else PSend (wire cl d).

Definition deliver_to (s : state) (orc : oracle) (drops : list cid) (m : msg) (c : cid) (cl : client) : pres :=
  match merged_client c cl (m_topic m) orc with
  | None => PNone
  | Some sub => publish_to_client s c cl sub m (existsb (beq_bytes c) drops)
  end.

(* inline subscriptions: Subscribers.InlineSubscriptions is keyed by the identifier *)
Fixpoint nodup_N (l : list N) : list N :=
  match l with [] => [] | x :: r => if existsb (N.eqb x) r then nodup_N r else x :: nodup_N r end.
Definition inline_ids (s : state) (t : bytes) : list N :=
  nodup_N (map fst (filter (fun e => topic_matches (snd e) t) (st_inline s))).
Definition inline_delivery (m : msg) (id : N) : delivery :=
  mkD (TInline id) (m_topic m) (m_payload m) (m_qos m) (m_retain m) [] (m_props m).

(* publishToSubscribers *)
Definition route (s : state) (orc : oracle) (drops : list cid) (m : msg) : list (cid * pres) :=
  map (fun e => (fst e, deliver_to s orc drops m (fst e) (snd e))) (st_clients s).
Definition route_inline (s : state) (m : msg) : list delivery := map (inline_delivery m) (inline_ids s (m_topic m)).

Definition sends (r : list (cid * pres)) : list delivery :=
  flat_map (fun e => match snd e with PSend d => [d] | _ => [] end) r.

(* ---------- publishRetainedToClient ---------- *)
Definition retained_sub (f : bytes) (o : subopt) : msub :=
  mkMS f (so_id o) (if pos (so_id o) then Some [(f, so_id o)] else None) (so_qos o) (so_rap o) (so_nolocal o) true.

Definition retained_matching (s : state) (f : bytes) : list msg :=
  map snd (filter (fun e => topic_matches f (fst e)) (st_retained s)).

Definition retained_for (s : state) (c : cid) (cl : client) (f : bytes) (o : subopt) (existed : bool) : list pres :=
  if is_share f then []
  else if ((so_rh o =? 1) && existed) || (so_rh o =? 2) then []
  else map (fun m => publish_to_client s c cl (retained_sub f o) m false) (retained_matching s f).

(* ---------- operations ---------- *)
Inductive op :=
| OConnect (c : cid) (ver : N) (clean persist rpi0 : bool)
| ODisconnect (c : cid)
| OSubscribe (c : cid) (subs : list (bytes * subopt))
| OUnsubscribe (c : cid) (fs : list bytes)
| OPublish (c : cid) (m : msg)
| OInlinePublish (m : msg)
| OInlineSubscribe (id : N) (f : bytes)
| OInlineUnsubscribe (id : N) (f : bytes).

Record sout := mkOut { o_deliv : list delivery; o_codes : list N }.
Definition no_out : sout := mkOut [] [].

Definition set_client (s : state) (c : cid) (cl : client) : state := with_clients s (al_set beq_bytes c cl (st_clients s)).
Definition get_client (s : state) (c : cid) : option client := al_get beq_bytes c (st_clients s).

(* IsValidFilter(topic, true) after the C30 fixes: no wildcard characters, does not start with $SYS *)
Fixpoint prefixb (p s : bytes) : bool :=
  match p, s with [], _ => true | x :: p', y :: s' => (x =? y) && prefixb p' s' | _, [] => false end.
Definition valid_pub_topic (t : bytes) : bool := negb (has 35 t) && negb (has 43 t) && negb (prefixb (tag "$SYS") t).

(* processSubscribe: reason code of one filter, without the MQTT 3 mapping *)
Definition sub_code_raw (s : state) (c : cid) (fo : bytes * subopt) : N :=
  if negb (valid_filter_spec (fst fo)) then 143
  else if so_nolocal (snd fo) && is_share (fst fo) then 130
  else if denied s c (fst fo) then 135
  else if st_maxqos s <? so_qos (snd fo) then st_maxqos s else so_qos (snd fo).
Definition sub_code (s : state) (c : cid) (ver : N) (fo : bytes * subopt) : N :=
  let raw := sub_code_raw s c fo in if (2 <? raw) && (ver <? 5) then 128 else raw.
Definition sub_accepted (s : state) (c : cid) (fo : bytes * subopt) : bool := sub_code_raw s c fo <=? 2.

(* first loop of processSubscribe: subscriptions stored one filter after the other; remembers, per filter,
   the code and whether the subscription existed *)
Fixpoint subscribe_all (s : state) (c : cid) (ver : N) (subs : list (bytes * subopt)) (cur : list (bytes * subopt))
  : list (bytes * subopt) * list (N * bool) :=
  match subs with
  | [] => (cur, [])
  | fo :: r =>
      if sub_accepted s c fo then
        let existed := al_mem beq_bytes (fst fo) cur in
        let '(cur', info) := subscribe_all s c ver r (al_set beq_bytes (fst fo) (snd fo) cur) in
        (cur', (sub_code s c ver fo, existed) :: info)
      else
        let '(cur', info) := subscribe_all s c ver r cur in
        (cur', (sub_code s c ver fo, false) :: info)
  end.

Fixpoint zip {A B} (a : list A) (b : list B) : list (A * B) :=
  match a, b with x :: a', y :: b' => (x, y) :: zip a' b' | _, _ => [] end.

Definition pres_sends (l : list pres) : list delivery := flat_map (fun p => match p with PSend d => [d] | _ => [] end) l.

(* second loop of processSubscribe *)
Definition retained_burst (s : state) (c : cid) (cl : client) (subs : list (bytes * subopt)) (info : list (N * bool))
  : list delivery :=
  flat_map (fun e => let '(fo, (code, existed)) := e in
                     if 128 <=? code then [] else pres_sends (retained_for s c cl (fst fo) (snd fo) existed))
           (zip subs info).

(* retainMessage / TopicsIndex.RetainMessage *)
Definition retain_message (s : state) (m : msg) : state :=
  if negb (st_retain_avail s) then s
  else if nilb (m_payload m) then with_retained s (al_del beq_bytes (m_topic m) (st_retained s))
  else with_retained s (al_set beq_bytes (m_topic m) m (st_retained s)).

(* messages kept in flight for offline sessions *)
Definition queue_pending (r : list (cid * pres)) (cs : list (cid * client)) : list (cid * client) :=
  map (fun e => let '(c, cl) := e in
                match al_get beq_bytes c r with
                | Some (PQueue d) => (c, mkCl (cl_conn cl) (cl_ver cl) (cl_rpi0 cl) (cl_persist cl) (cl_subs cl) (cl_pending cl ++ [d]))
                | _ => (c, cl)
                end) cs.

(* processPublish from the point where the packet is accepted (m_qos already as sent by the publisher) *)
Definition publish (orc : oracle) (drops : list cid) (s : state) (m0 : msg) : state * sout :=
  let m := mkMsg (m_topic m0) (m_payload m0) (if st_maxqos s <? m_qos m0 then st_maxqos s else m_qos m0)
                 (m_retain m0) (m_props m0) (m_origin m0) in
  let s1 := if m_retain m then retain_message s m else s in
  let r := route s1 orc drops m in
  (with_clients s1 (queue_pending r (st_clients s1)), mkOut (route_inline s1 m ++ sends r) []).

Definition inline_origin : cid := tag "inline".

Definition step (orc : oracle) (drops : list cid) (s : state) (o : op) : state * sout :=
  match o with
  | OConnect c ver clean persist rpi0 =>
      let persist' := if ver <? 5 then negb clean else persist in
      match get_client s c with
      | Some old =>
          if clean then (set_client s c (mkCl true ver rpi0 persist' [] []), no_out)
          else
            let cl := mkCl true ver rpi0 persist' (cl_subs old) [] in
            (set_client s c cl, mkOut (map (wire cl) (cl_pending old)) [])      (* ResendInflightMessages *)
      | None => (set_client s c (mkCl true ver rpi0 persist' [] []), no_out)
      end
  | ODisconnect c =>
      match get_client s c with
      | Some cl =>
          if cl_persist cl then (set_client s c (mkCl false (cl_ver cl) (cl_rpi0 cl) true (cl_subs cl) (cl_pending cl)), no_out)
          else (with_clients s (al_del beq_bytes c (st_clients s)), no_out)        (* UnsubscribeClient + Clients.Delete *)
      | None => (s, no_out)
      end
  | OSubscribe c subs =>
      match get_client s c with
      | Some cl =>
          if cl_conn cl then
            let '(cur, info) := subscribe_all s c (cl_ver cl) subs (cl_subs cl) in
            let cl' := mkCl true (cl_ver cl) (cl_rpi0 cl) (cl_persist cl) cur (cl_pending cl) in
            (set_client s c cl', mkOut (retained_burst s c cl' subs info) (map fst info))
          else (s, no_out)
      | None => (s, no_out)
      end
  | OUnsubscribe c fs =>
      match get_client s c with
      | Some cl =>
          if cl_conn cl then
            (set_client s c (mkCl true (cl_ver cl) (cl_rpi0 cl) (cl_persist cl)
                                  (fold_left (fun acc f => al_del beq_bytes f acc) fs (cl_subs cl)) (cl_pending cl)), no_out)
          else (s, no_out)
      | None => (s, no_out)
      end
  | OPublish c m =>                     (* a PUBLISH packet arrived on c's connection *)
      if valid_pub_topic (m_topic m)
      then publish orc drops s (mkMsg (m_topic m) (m_payload m) (m_qos m) (m_retain m) (m_props m) c)
      else (s, no_out)
  | OInlinePublish m =>
      publish orc drops s (mkMsg (m_topic m) (m_payload m) (m_qos m) (m_retain m) (m_props m) inline_origin)
  | OInlineSubscribe id f =>
      if valid_filter_spec f then
        let il := if existsb (fun e => (fst e =? id) && beq_bytes (snd e) f) (st_inline s) then st_inline s
                  else st_inline s ++ [(id, f)] in
        (with_inline s il, mkOut (map (fun m => inline_delivery m id) (retained_matching s f)) [])
      else (s, no_out)
  | OInlineUnsubscribe id f =>
      if valid_filter_spec f then
        (with_inline s (filter (fun e => negb ((fst e =? id) && beq_bytes (snd e) f)) (st_inline s)), no_out)
      else (s, no_out)
  end.

(* histories: the oracles of the individual steps do not influence the state reached except through the
   pending queues, so [run] takes one oracle pair per step *)
Fixpoint run (s : state) (h : list (oracle * list cid * op)) : state :=
  match h with [] => s | (orc, drops, o) :: r => run (fst (step orc drops s o)) r end.

(* ====================================================================================================
   SPECIFICATION side: computed from the set of matching subscriptions, not from the merge
   ==================================================================================================== *)

(* the subscriptions of client c that entitle it to a publish on t: the matching non-shared ones and the
   shared ones for which c was chosen *)
Definition ent_subs (c : cid) (cl : client) (t : bytes) (orc : oracle) : list (bytes * subopt) :=
  nonshared_matching cl t ++ picks_of c cl t orc.

Definition max_qos (l : list (bytes * subopt)) : N := fold_right (fun fo a => N.max (so_qos (snd fo)) a) 0 l.

(* C04: delivered QoS = min (published QoS, highest matching subscription QoS, server maximum) *)
Definition spec_qos (maxqos pubqos : N) (l : list (bytes * subopt)) : N := N.min pubqos (N.min (max_qos l) maxqos).
(* C04: identifiers of the matching subscriptions that have one (as a multiset) *)
Definition spec_ids (l : list (bytes * subopt)) : list N := filter pos (map (fun fo => so_id (snd fo)) l).
(* C04: retain flag on live delivery is cleared unless a matching (MQTT 5) subscription asked for RAP *)
Definition spec_retain (ver : N) (pubretain : bool) (l : list (bytes * subopt)) : bool :=
  pubretain && (ver =? 5) && existsb (fun fo => so_rap (snd fo)) l.
(* C04: granted QoS *)
Definition spec_granted (maxqos req : N) : N := N.min req maxqos.

(* C03: entitled = connected, holds a matching subscription it may read whose No Local does not exclude m *)
Definition not_excluded (c : cid) (m : msg) (fo : bytes * subopt) : bool :=
  negb (so_nolocal (snd fo) && beq_bytes (m_origin m) c).
Definition spec_entitled (s : state) (c : cid) (cl : client) (m : msg) (l : list (bytes * subopt)) : bool :=
  cl_conn cl && negb (denied s c (m_topic m)) && existsb (not_excluded c m) l.

(* KF C03-1: the publisher itself holds matching subscriptions with and without No Local; the merged
   subscription has No Local set (packets.go Merge, pinned by TestMergeSubscription) *)
Definition KF_C03_nolocal_merge (c : cid) (m : msg) (l : list (bytes * subopt)) : bool :=
  beq_bytes (m_origin m) c && existsb (fun fo => so_nolocal (snd fo)) l && existsb (fun fo => negb (so_nolocal (snd fo))) l.

(* C06: groups.  The code identifies a group by the full filter string ($share/<name>/<filter>); the
   property speaks of share groups (= share names). *)
Definition shared_cands (s : state) (t : bytes) : list (bytes * cid) :=
  flat_map (fun e => map (fun fo => (fst fo, fst e)) (filter (fun fo => shared_matches t (fst fo)) (cl_subs (snd e))))
           (st_clients s).
Definition shared_keys (s : state) (t : bytes) : list bytes := map fst (shared_cands s t).
Definition is_member (s : state) (k : bytes) (c : cid) : bool :=
  match get_client s c with Some cl => al_mem beq_bytes k (cl_subs cl) | None => false end.

Fixpoint nodup_b (l : list bytes) : list bytes :=
  match l with [] => [] | x :: r => if existsb (beq_bytes x) r then nodup_b r else x :: nodup_b r end.
Fixpoint nodupb (l : list bytes) : bool :=
  match l with [] => true | x :: r => negb (existsb (beq_bytes x) r) && nodupb r end.

(* a well-formed oracle: exactly one entry per key of Subscribers.Shared, choosing a member of that key *)
Definition wf_oracle (s : state) (t : bytes) (orc : oracle) : bool :=
  nodupb (map fst orc)
  && forallb (fun kc => shared_matches t (fst kc) && is_member s (fst kc) (snd kc)) orc
  && forallb (fun k => existsb (fun kc => beq_bytes (fst kc) k) orc) (shared_keys s t).

(* KF C06-1: one share name with two different matching filters is treated as two groups *)
Definition KF_C06_group_by_filter (s : state) (t : bytes) : bool :=
  negb (nodupb (map share_group (nodup_b (shared_keys s t)))).

(* the picks made for share name g *)
Definition picks_for_name (g : bytes) (orc : oracle) : list (bytes * cid) :=
  filter (fun kc => beq_bytes (share_group (fst kc)) g) orc.

(* C05: the retained message a topic must have after a history: the most recent retained publish to it,
   nothing if that one had an empty payload, nothing at all while retain is unavailable *)
Definition pub_of (o : op) : option msg :=
  match o with
  | OPublish c m => if valid_pub_topic (m_topic m) then Some (mkMsg (m_topic m) (m_payload m) (m_qos m) (m_retain m) (m_props m) c) else None
  | OInlinePublish m => Some (mkMsg (m_topic m) (m_payload m) (m_qos m) (m_retain m) (m_props m) inline_origin)
  | _ => None
  end.
(* the message as accepted by the server: QoS downgraded to the server maximum *)
Definition accepted (maxqos : N) (m : msg) : msg :=
  mkMsg (m_topic m) (m_payload m) (if maxqos <? m_qos m then maxqos else m_qos m) (m_retain m) (m_props m) (m_origin m).

Fixpoint latest (ravail : bool) (maxqos : N) (h : list op) (t : bytes) (acc : option msg) : option msg :=
  match h with
  | [] => acc
  | o :: r =>
      latest ravail maxqos r t
        (match pub_of o with
         | Some m => if m_retain m && ravail && beq_bytes (m_topic m) t
                     then (if nilb (m_payload m) then None else Some (accepted maxqos m)) else acc
         | None => acc
         end)
  end.

(* C05: Retain Handling *)
Definition rh_sends (rh : N) (existed : bool) : bool := (rh =? 0) || ((rh =? 1) && negb existed).

(* C40: the inline subscriptions a history leaves: (id, filter) added by Subscribe, removed by Unsubscribe of
   exactly that pair *)
Definition inline_matching (s : state) (t : bytes) (id : N) : bool :=
  existsb (fun e => (fst e =? id) && topic_matches (snd e) t) (st_inline s).
