(* C08-C12: small vocabulary for the witness histories used in Properties/C08.v ... C12.v. *)
From MV Require Import Base.Val Session.Pkt Session.Inflight Session.QosSpecs.
Open Scope N_scope.

(* server receive maximum rm, maximumPacketID mp; defaults otherwise *)
Definition wcfg (rm : Z) (mp : N) : cfg := {| c_maxpid := mp; c_maxinfl := 8192; c_srvrm := rm; c_maxexp := 86400 |}.
(* the client connects: MQTT 5, clean start 0, session expiry 300 s, receive maximum 1 *)
Definition w_connect : op * list N := (Reconnect true false 300 1, []).
Definition w_netclose : op * list N := (Disconnect false, []).
(* a publisher's message uid with QoS q reaches the session (subscription QoS 2), at second 100 *)
Definition w_out (q uid : N) : op * list N := (OutPublish q 2 uid 0 100 0 true false, []).
(* the client publishes / acknowledges *)
Definition w_pub (q pid : N) (dup : bool) (uid : N) : op * list N := (InPublish q pid dup uid 100, []).
Definition w_ack (ty pid : N) : op * list N := (InAck ty pid 0 100, []).
Definition w_ping : op * list N := (InOther, []).
