(* C24 — topic aliases.  Model of topics.go OutboundTopicAliases.Set / InboundTopicAliases.Set and of
   the places that use them (server.go publishToClient's alias block, which after fix 8111849 runs
   only for the copy that is queued for writing; processPublish's alias resolution with the refusal
   of unknown aliases, fix de3df06; PublishValidate's alias rules; the in-flight store written
   verbatim by ResendInflightMessages / the deferred send), the receiver-side specification, and the
   engine.  No proofs here. *)
From MV Require Import Base.Val Session.Pkt.
Open Scope N_scope.

Definition is_empty (b : bytes) : bool := match b with [] => true | _ => false end.

(* ================= outbound: broker -> one subscriber connection ================= *)

Record otab := { o_max : N; o_map : list (bytes * N); o_cursor : N }.

Definition oinit (max : N) : otab := {| o_max := max; o_map := []; o_cursor := 0 |}.

Fixpoint lookup_t (topic : bytes) (m : list (bytes * N)) : option N :=
  match m with [] => None | (t, a) :: r => if beq_bytes t topic then Some a else lookup_t topic r end.

(* OutboundTopicAliases.Set: (alias, existed) *)
Definition out_set (t : otab) (topic : bytes) : N * bool * otab :=
  if o_max t =? 0 then (0, false, t)
  else match lookup_t topic (o_map t) with
       | Some i => (i, true, t)
       | None =>
           if o_max t <? o_cursor t + 1 then (0, false, t)
           else (o_cursor t + 1, false,
                 {| o_max := o_max t; o_map := (topic, o_cursor t + 1) :: o_map t; o_cursor := o_cursor t + 1 |})
       end.

(* what happens to one message on its way to the subscriber connection *)
Inductive oev :=
| EQueue (topic : bytes) (written : bool)   (* publishToClient reached the pending-writes queue: the alias is
                                               chosen; written = false: the queue was full, the message dropped *)
| EStored (topic : bytes).                  (* a stored in-flight copy is written (resend after CONNACK,
                                               deferred send): full topic, no alias *)

(* a PUBLISH on the wire: (topic the message belongs to, Topic Name field, Topic Alias or 0) *)
Definition wire := (bytes * bytes * N)%type.

Definition out_step (t : otab) (e : oev) : otab * list wire :=
  match e with
  | EQueue topic w =>
      let '(a, ex, t') := out_set t topic in
      (t', if w then [(topic, if (0 <? a) && ex then [] else topic, a)] else [])
  | EStored topic => (t, [(topic, topic, 0)])
  end.

Fixpoint out_run (t : otab) (evs : list oev) : list wire :=
  match evs with
  | [] => []
  | e :: r => let '(t', w) := out_step t e in w ++ out_run t' r
  end.

(* ---------- specification: the receiver's view of one connection (MQTT 5, 3.3.2.3.4) ---------- *)

Fixpoint lookup_a (a : N) (m : list (N * bytes)) : option bytes :=
  match m with [] => None | (x, t) :: r => if x =? a then Some t else lookup_a a r end.

(* every PUBLISH has a non-empty topic, or an alias bound earlier on this connection to the topic the
   message belongs to; aliases never exceed the receiver's Topic Alias Maximum (none when it is 0) *)
Fixpoint recv_ok (tam : N) (tab : list (N * bytes)) (ws : list wire) : bool :=
  match ws with
  | [] => true
  | (intended, wt, a) :: r =>
      if a =? 0 then negb (is_empty wt) && beq_bytes wt intended && recv_ok tam tab r
      else
        (a <=? tam) &&
        (if is_empty wt then
           match lookup_a a tab with
           | Some t => beq_bytes t intended && recv_ok tam tab r
           | None => false
           end
         else beq_bytes wt intended && recv_ok tam ((a, wt) :: tab) r)
  end.

(* ---------- known finding ---------- *)

(* C24-2 (rest): the message that would have announced a NEW alias is dropped after the alias was
   recorded (pending-writes queue full; the same happens when that packet is refused later for the
   client's Maximum Packet Size): later messages for the topic carry only the alias *)
Definition KF_C24_binding_dropped (t : otab) (e : oev) : bool :=
  match e with
  | EQueue topic false => let '(a, ex, _) := out_set t topic in (0 <? a) && negb ex
  | _ => false
  end.

Fixpoint out_kf_free (t : otab) (evs : list oev) : bool :=
  match evs with
  | [] => true
  | e :: r => negb (KF_C24_binding_dropped t e) && out_kf_free (fst (out_step t e)) r
  end.

Definition ev_topic (e : oev) : bytes := match e with EQueue t _ => t | EStored t => t end.

(* ================= inbound: one client connection -> broker ================= *)

Record itab := { i_max : N; i_map : list (N * bytes) }.
Definition iinit (max : N) : itab := {| i_max := max; i_map := [] |}.

Fixpoint set_a (a : N) (t : bytes) (m : list (N * bytes)) : list (N * bytes) :=
  match m with
  | [] => [(a, t)]
  | (x, u) :: r => if x =? a then (x, t) :: r else (x, u) :: set_a a t r
  end.

(* InboundTopicAliases.Set (a missing map entry reads as "") *)
Definition in_set (t : itab) (id : N) (topic : bytes) : bytes * itab :=
  if i_max t =? 0 then (topic, t)
  else if is_empty topic then (match lookup_a id (i_map t) with Some x => x | None => [] end, t)
  else (topic, {| i_max := i_max t; i_map := set_a id topic (i_map t) |}).

Inductive inres := IReject | IRoute (topic : bytes).

(* PublishValidate's alias rules, then processPublish's resolution *)
Definition in_step (t : itab) (topic : bytes) (alias : N) : inres * itab :=
  if i_max t <? alias then (IReject, t)                         (* ErrTopicAliasInvalid *)
  else if is_empty topic && (alias =? 0) then (IReject, t)      (* ErrProtocolViolationNoTopic *)
  else if alias =? 0 then (IRoute topic, t)
  else
    let '(tp, t') := in_set t alias topic in
    if is_empty tp then (IReject, t') else (IRoute tp, t').

(* a refusal ends the connection *)
Fixpoint in_run (t : itab) (evs : list (bytes * N)) : list inres :=
  match evs with
  | [] => []
  | (topic, alias) :: r =>
      let '(res, t') := in_step t topic alias in
      res :: match res with IReject => [] | IRoute _ => in_run t' r end
  end.

(* ---------- specification, from the property text: the topic the client LAST bound to the alias on
   this connection, searched in the history (most recent first) ---------- *)
Fixpoint last_binding (alias : N) (prev : list (bytes * N)) : option bytes :=
  match prev with
  | [] => None
  | (tp, a) :: r => if (a =? alias) && negb (is_empty tp) then Some tp else last_binding alias r
  end.

Definition spec_in (smax : N) (prev : list (bytes * N)) (topic : bytes) (alias : N) : inres :=
  if smax <? alias then IReject
  else if is_empty topic then
    (if alias =? 0 then IReject
     else match last_binding alias prev with Some t => IRoute t | None => IReject end)
  else IRoute topic.

Fixpoint spec_run (smax : N) (prev : list (bytes * N)) (evs : list (bytes * N)) : list inres :=
  match evs with
  | [] => []
  | (topic, alias) :: r =>
      let res := spec_in smax prev topic alias in
      res :: match res with IReject => [] | IRoute _ => spec_run smax ((topic, alias) :: prev) r end
  end.

(* ================= engine =================
   case = (0 tam ((kind topic wireTopic wireAlias) ...))     kind 0 queued+written, 1 queue full, 2 from the store
        | (1 smax ((topic alias closed (routedTopic ...)) ...)) *)

Definition beq_wire (x y : wire) : bool :=
  let '(i1, t1, a1) := x in let '(i2, t2, a2) := y in beq_bytes i1 i2 && beq_bytes t1 t2 && (a1 =? a2).
Fixpoint beq_wires (x y : list wire) : bool :=
  match x, y with
  | [], [] => true
  | a :: x', b :: y' => beq_wire a b && beq_wires x' y'
  | _, _ => false
  end.

Definition as_oev (v : val) : option (oev * list wire) :=
  match v with
  | VL [VN k; VB topic; VB wt; VN wa] =>
      if k =? 0 then Some (EQueue topic true, [(topic, wt, wa)])
      else if k =? 1 then Some (EQueue topic false, [])
      else if k =? 2 then Some (EStored topic, [(topic, wt, wa)])
      else None
  | _ => None
  end.

Definition out_engine (tam : N) (evs : list val) : val :=
  match map_opt as_oev evs with
  | None => bad_case
  | Some l =>
      let mevs := map fst l in
      let obs := concat (map snd l) in
      let model := out_run (oinit tam) mevs in
      let nontriv := existsb (fun w : wire => 0 <? snd w) obs in
      let has_store := existsb (fun e => match e with EStored _ => true | _ => false end) mevs in
      let has_drop := existsb (fun e => match e with EQueue _ false => true | _ => false end) mevs in
      let tg := if tam =? 0 then tag "out-no-alias" else if has_drop then tag "out-queue-full"
                else if has_store then tag "out-resend" else tag "out-plain" in
      if negb (recv_ok tam [] obs) then
        if negb (out_kf_free (oinit tam) mevs) && beq_wires obs model
        then verdict 3 tg nontriv [VB (tag "KF_C24_binding_dropped")]
        else verdict 1 tg nontriv []
      else if beq_wires obs model then verdict 0 tg nontriv []
      else verdict 2 tg nontriv []
  end.

Definition as_iev (v : val) : option (bytes * N * bool * list bytes) :=
  match v with
  | VL [VB topic; VN alias; closed; routed] =>
      do c <- as_bool closed; do r <- as_BL routed; Some (topic, alias, c, r)
  | _ => None
  end.

Definition is_empty_l (l : list bytes) : bool := match l with [] => true | _ => false end.

(* does the observation of one inbound PUBLISH agree with an expected outcome? *)
Definition in_obs_is (res : inres) (closed : bool) (routed : list bytes) : bool :=
  match res with
  | IReject => closed && is_empty_l routed
  | IRoute t => negb closed && match routed with [x] => beq_bytes x t | _ => false end
  end.

(* the property: refused publishes are not routed (however the refusal is signalled); accepted ones
   are routed under the resolved topic, once *)
Definition in_obs_ok (res : inres) (routed : list bytes) : bool :=
  match res with
  | IReject => is_empty_l routed
  | IRoute t => match routed with [x] => beq_bytes x t | _ => false end
  end.

(* walk one connection: code 1 = spec broken, 2 = differs from the model, 0 = fine *)
Fixpoint in_walk (smax : N) (t : itab) (prev : list (bytes * N)) (evs : list (bytes * N * bool * list bytes)) : N :=
  match evs with
  | [] => 0
  | (topic, alias, closed, routed) :: r =>
      let want := spec_in smax prev topic alias in
      let '(m, t') := in_step t topic alias in
      if negb (in_obs_ok want routed) then 1
      else if negb (in_obs_is m closed routed) then 2
      else match want with
           | IReject => if closed then 0 else in_walk smax t' prev r
           | IRoute _ => in_walk smax t' ((topic, alias) :: prev) r
           end
  end.

Definition in_engine (smax : N) (evs : list val) : val :=
  match map_opt as_iev evs with
  | None => bad_case
  | Some l =>
      let code := in_walk smax (iinit smax) [] l in
      let nontriv := existsb (fun e : bytes * N * bool * list bytes => let '(tp, a, _, _) := e in (0 <? a) && is_empty tp) l in
      let rej := existsb (fun e : bytes * N * bool * list bytes => let '(_, _, c, _) := e in c) l in
      verdict code (if rej then tag "in-refused" else tag "in-routed") nontriv []
  end.

(* ---------- unit level: the exported tables driven directly with long sequences ----------
   case = (2 max goBad (seg ...))   OutboundTopicAliases of mqtt.NewOutboundTopicAliases(max); topic number i
                                    stands for a distinct topic
          seg = (0 from to)         Set on the fresh topics from..to, each answered (0, false)
              | (1 i alias exists)  one Set call and its answer
          goBad = number of calls the harness' own running receiver check found unresolvable (cross-check only)
        | (3 smax ((id topic result) ...))   InboundTopicAliases.Set(id, topic) = result; topic 0 = ""

   Every outbound Set call is read as one queued-and-written PUBLISH, as publishToClient would form it
   (topic stripped iff the alias existed), and the receiver's check [recv_step] decides. *)

Definition topic_of (i : N) : bytes := [117; i mod 256; (i / 256) mod 256; i / 65536].

(* one packet of [recv_ok]: the receiver's table afterwards, or None if the packet is not acceptable *)
Definition recv_step (tam : N) (tab : list (N * bytes)) (w : wire) : option (list (N * bytes)) :=
  let '(intended, wt, a) := w in
  if a =? 0 then (if negb (is_empty wt) && beq_bytes wt intended then Some tab else None)
  else if negb (a <=? tam) then None
  else if is_empty wt then
    match lookup_a a tab with
    | Some t => if beq_bytes t intended then Some tab else None
    | None => None
    end
  else if beq_bytes wt intended then Some ((a, wt) :: tab) else None.

Record ustate := { u_tab : otab; u_rtab : list (N * bytes); u_spec_bad : bool; u_model_bad : bool; u_idx : N }.

Definition unit_call (tam : N) (s : ustate) (i alias : N) (exists_ : bool) : ustate :=
  let tp := topic_of i in
  let '(ma, mex, t') := out_set (u_tab s) tp in
  let w : wire := (tp, if (0 <? alias) && exists_ then [] else tp, alias) in
  let model_ok := (ma =? alias) && Bool.eqb mex exists_ in
  match recv_step tam (u_rtab s) w with
  | Some tab' =>
      {| u_tab := t'; u_rtab := tab'; u_spec_bad := u_spec_bad s; u_model_bad := u_model_bad s || negb model_ok; u_idx := i |}
  | None =>
      {| u_tab := t'; u_rtab := u_rtab s; u_spec_bad := true; u_model_bad := u_model_bad s || negb model_ok; u_idx := i |}
  end.

Definition unit_seg (tam : N) (s : ustate) (v : val) : option ustate :=
  match v with
  | VL [VN 0; VN from; VN to] =>
      if to <? from then Some s
      else Some (snd (N.iter (to - from + 1)
                        (fun p : N * ustate => let '(i, st) := p in (i + 1, unit_call tam st i 0 false)) (from, s)))
  | VL [VN 1; VN i; VN alias; ex] => do e <- as_bool ex; Some (unit_call tam s i alias e)
  | _ => None
  end.

Fixpoint unit_segs (tam : N) (s : ustate) (l : list val) : option ustate :=
  match l with
  | [] => Some s
  | v :: r => match unit_seg tam s v with Some s' => unit_segs tam s' r | None => None end
  end.

Definition unit_out_engine (max goBad : N) (segs : list val) : val :=
  let s0 := {| u_tab := oinit max; u_rtab := []; u_spec_bad := false; u_model_bad := false; u_idx := 0 |} in
  match unit_segs max s0 segs with
  | None => bad_case
  | Some s =>
      let tg := tag "unit-out" in
      if u_spec_bad s then verdict 1 tg true []
      else if u_model_bad s || negb (goBad =? 0) then verdict 2 tg true []
      else verdict 0 tg true []
  end.

Definition idx_topic (i : N) : bytes := if i =? 0 then [] else topic_of i.

(* InboundTopicAliases.Set on its own: the answer is the topic given, or for an empty topic the last
   non-empty topic given for that alias ("" if none) *)
Fixpoint unit_in_walk (t : itab) (prev : list (bytes * N)) (l : list val) (model_bad : bool) : option N :=
  match l with
  | [] => Some (if model_bad then 2 else 0)
  | VL [VN id; VN ti; VN ri] :: r =>
      let tp := idx_topic ti in
      let want := if is_empty tp then match last_binding id prev with Some x => x | None => [] end else tp in
      let '(m, t') := in_set t id tp in
      if negb (beq_bytes (idx_topic ri) want) then Some 1
      else unit_in_walk t' ((tp, id) :: prev) r (model_bad || negb (beq_bytes m (idx_topic ri)))
  | _ => None
  end.

Definition unit_in_engine (smax : N) (l : list val) : val :=
  match unit_in_walk (iinit smax) [] l false with
  | Some code => verdict code (tag "unit-in") true []
  | None => bad_case
  end.

(* ENGINE alias Session.Alias.alias_engine *)
Definition alias_engine (v : val) : val :=
  match v with
  | VL [VN 0; VN tam; VL evs] => out_engine tam evs
  | VL [VN 1; VN smax; VL evs] => in_engine smax evs
  | VL [VN 2; VN max; VN goBad; VL segs] => unit_out_engine max goBad segs
  | VL [VN 3; VN smax; VL calls] => unit_in_engine smax calls
  | _ => bad_case
  end.
