(* C38 under concurrent connection attempts: for every schedule, at every point where no teardown is
   pending, Info.ClientsConnected equals the number of established connections (from C35's counter
   invariant, Conc/LimitProofs.v). *)
From Coq Require Import Lia.
From MV Require Import Base.Val Base.Sched Conc.Limit Conc.LimitProofs Session.StatsLimit.
Open Scope Z_scope.

Lemma wsum_quiet l : existsb is_kicked l = false -> wsum l = count_est l.
Proof.
  unfold count_est. induction l as [|s r IH]; [reflexivity|].
  cbn [existsb]. intros H. apply Bool.orb_false_iff in H. destruct H as [Hs Hr]. specialize (IH Hr).
  cbn [wsum filter]. rewrite IH.
  destruct s; cbn [is_est weight length is_kicked] in *; try discriminate; lia.
Qed.

Theorem connected_exact_when_quiet (max : Z) (specs : list tspec) (sched : list tid) :
  0 <= max ->
  let c := run exec sched (limit_threads max specs) in
  quiet c = true -> connected_ok c /\ 0 <= l_counter (shared c).
Proof.
  intros Hm c Q. destruct (limit_counter max specs sched Hm) as [Hc Hr]. fold c in Hc, Hr.
  unfold quiet in Q. apply Bool.negb_true_iff in Q.
  split; [unfold connected_ok, connected; rewrite Hc; apply wsum_quiet, Q|lia].
Qed.
