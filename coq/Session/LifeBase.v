(* C13-C16 — structural facts about the life-cycle model used by all the proofs: client objects are
   never removed and never reopen, packets are only written to open connections, a CONNACK is only
   written by attach. *)
From MV Require Import Base.Val Session.Lifecycle.
From Coq Require Import Lia ZifyBool ZifyN ZifyNat.
Open Scope N_scope.

(* ---------- objects ---------- *)
Lemma get_put_same (o : cobj) (l : list cobj) : get_obj (o_conn o) (put_obj o l) = Some o.
Proof.
  induction l as [|x r IH]; cbn.
  - rewrite N.eqb_refl. reflexivity.
  - destruct (o_conn x =? o_conn o) eqn:E; cbn.
    + rewrite N.eqb_refl. reflexivity.
    + rewrite E. exact IH.
Qed.

Lemma get_put_other (o : cobj) (c : N) (l : list cobj) :
  c <> o_conn o -> get_obj c (put_obj o l) = get_obj c l.
Proof.
  intro H. induction l as [|x r IH]; cbn.
  - destruct (o_conn o =? c) eqn:E; [apply N.eqb_eq in E; congruence|reflexivity].
  - destruct (o_conn x =? o_conn o) eqn:E; cbn.
    + apply N.eqb_eq in E. destruct (o_conn o =? c) eqn:E1; [apply N.eqb_eq in E1; congruence|].
      rewrite E. rewrite E1. reflexivity.
    + destruct (o_conn x =? c); [reflexivity|exact IH].
Qed.

Lemma get_obj_conn (c : N) (l : list cobj) (o : cobj) : get_obj c l = Some o -> o_conn o = c.
Proof.
  induction l as [|x r IH]; cbn; [discriminate|].
  destruct (o_conn x =? c) eqn:E; [intro H; inversion H; subst; apply N.eqb_eq; exact E|exact IH].
Qed.

Definition hasobj (s : state) (c : N) : bool :=
  match get_obj c (st_objs s) with Some _ => true | None => false end.
Definition openc (s : state) (c : N) : bool :=
  match get_obj c (st_objs s) with Some o => o_open o | None => false end.

Lemma openc_hasobj s c : openc s c = true -> hasobj s c = true.
Proof. unfold openc, hasobj. destruct (get_obj c (st_objs s)); [reflexivity|discriminate]. Qed.

(* evolution of the state inside one operation, attach's creation of the new object excepted:
   same connection numbers used, same objects, nothing reopens *)
Definition ev (s s' : state) : Prop :=
  st_used s' = st_used s /\
  (forall c, hasobj s' c = hasobj s c) /\
  (forall c, openc s' c = true -> openc s c = true).

Lemma ev_refl s : ev s s.
Proof. repeat split; auto. Qed.

Lemma ev_trans s1 s2 s3 : ev s1 s2 -> ev s2 s3 -> ev s1 s3.
Proof.
  intros (U1 & H1 & O1) (U2 & H2 & O2). repeat split.
  - congruence.
  - intro c. rewrite H2. apply H1.
  - intros c H. apply O1, O2, H.
Qed.

Lemma ev_upd (s : state) (o o0 : cobj) :
  get_obj (o_conn o) (st_objs s) = Some o0 -> (o_open o = true -> o_open o0 = true) -> ev s (upd_obj s o).
Proof.
  intros G HO. unfold ev, upd_obj, hasobj, openc; cbn. repeat split.
  - intro c. destruct (N.eq_dec c (o_conn o)) as [->|N].
    + rewrite get_put_same, G. reflexivity.
    + rewrite get_put_other by exact N. reflexivity.
  - intro c. destruct (N.eq_dec c (o_conn o)) as [->|N].
    + rewrite get_put_same, G. exact HO.
    + rewrite get_put_other by exact N. auto.
Qed.

Lemma ev_set_clients s x : ev s (set_clients s x).
Proof. repeat split; auto. Qed.
Lemma ev_set_index s x : ev s (set_index s x).
Proof. repeat split; auto. Qed.
Lemma ev_set_wills s x : ev s (set_wills s x).
Proof. repeat split; auto. Qed.
Lemma ev_set_retained s x : ev s (set_retained s x).
Proof. repeat split; auto. Qed.

(* ---------- what a sub-step may write ---------- *)

(* every packet goes to a connection that is open in s and is not a CONNACK; every close concerns an
   existing object *)
Definition sends_ok (s : state) (outs : list out) : Prop :=
  forall x, In x outs ->
    match x with
    | OPkt c p => is_connack p = false /\ openc s c = true
    | OClose c => hasobj s c = true
    | _ => True
    end.

Lemma sends_ok_nil s : sends_ok s [].
Proof. intros x []. Qed.

Lemma sends_ok_app s a b : sends_ok s a -> sends_ok s b -> sends_ok s (a ++ b).
Proof. intros A B x H. apply in_app_or in H. destruct H; [apply A|apply B]; assumption. Qed.

Lemma sends_ok_ev s s' outs : ev s s' -> sends_ok s' outs -> sends_ok s outs.
Proof.
  intros (U & H & O) S x I. specialize (S x I). destruct x; auto.
  - destruct S as [A B]. split; [exact A|apply O, B].
  - rewrite <- H. exact S.
Qed.

Lemma sends_ok_cons s x l : sends_ok s [x] -> sends_ok s l -> sends_ok s (x :: l).
Proof. intros A B. change (x :: l) with ([x] ++ l). apply sends_ok_app; assumption. Qed.

(* ---------- the sub-steps ---------- *)
Lemma client_of_obj s id o : client_of s id = Some o -> get_obj (o_conn o) (st_objs s) = Some o.
Proof.
  unfold client_of. destruct (aget id (st_clients s)) as [c|]; [|discriminate].
  intro G. pose proof (get_obj_conn _ _ _ G) as E. rewrite E. exact G.
Qed.

Lemma deliver_ok (k : caps) (m : msg) (ix : list (bytes * bytes * N)) :
  forall s, ev s (fst (deliver k m ix s)) /\ sends_ok s (snd (deliver k m ix s)).
Proof.
  induction ix as [|[[id f] q] r IH]; intro s; cbn [deliver].
  - split; [apply ev_refl|apply sends_ok_nil].
  - destruct (beq_bytes f (m_topic m)); [|apply IH].
    destruct (client_of s id) as [o|] eqn:C; [|apply IH].
    pose proof (client_of_obj _ _ _ C) as G.
    set (q' := minN (minN (m_qos m) q) (k_maxqos k)).
    set (m' := {| m_topic := m_topic m; m_payload := m_payload m; m_qos := q'; m_retain := m_retain m && (o_ver o =? 5) |}).
    set (o' := if 0 <? q' then with_session o (o_subs o) (o_infl o ++ [m']) else o).
    assert (E1 : ev s (upd_obj s o')).
    { apply ev_upd with (o0 := o); subst o'; destruct (0 <? q'); cbn; auto. }
    specialize (IH (upd_obj s o')).
    destruct (deliver k m r (upd_obj s o')) as [s'' outs] eqn:D. cbn [fst snd] in *.
    destruct IH as [E2 S2]. split.
    + eapply ev_trans; eassumption.
    + apply sends_ok_app.
      * destruct (o_open o) eqn:OO; [|apply sends_ok_nil].
        intros x [<-|[]]. split; [reflexivity|]. unfold openc. rewrite G. exact OO.
      * eapply sends_ok_ev; eassumption.
Qed.

Lemma publish_ok k m s : ev s (fst (publish k m s)) /\ sends_ok s (snd (publish k m s)).
Proof. apply deliver_ok. Qed.

Lemma retain_msg_ev k m s : ev s (retain_msg k m s).
Proof.
  unfold retain_msg. destruct (k_retain k); [|apply ev_refl].
  destruct (m_payload m); apply ev_set_retained.
Qed.

Lemma send_lwt_ok k now c s : ev s (fst (send_lwt k now c s)) /\ sends_ok s (snd (send_lwt k now c s)).
Proof.
  unfold send_lwt. destruct (get_obj c (st_objs s)) as [o|] eqn:G; [|split; [apply ev_refl|apply sends_ok_nil]].
  destruct (w_flag (o_will o)); cbn [negb]; [|split; [apply ev_refl|apply sends_ok_nil]].
  destruct (0 <? w_delay (o_will o)); [cbn [fst snd]; split; [apply ev_set_wills|apply sends_ok_nil]|].
  set (s1 := if w_retain (o_will o) then retain_msg k (will_msg (o_will o)) s else s).
  assert (E1 : ev s s1) by (subst s1; destruct (w_retain (o_will o)); [apply retain_msg_ev|apply ev_refl]).
  pose proof (publish_ok k (will_msg (o_will o)) s1) as [E2 S2].
  destruct (publish k (will_msg (o_will o)) s1) as [s2 outs] eqn:P. cbn [fst snd] in *.
  assert (E12 : ev s s2) by (eapply ev_trans; eassumption).
  assert (H2 : hasobj s2 c = true).
  { destruct E12 as (_ & H & _). rewrite H. unfold hasobj. rewrite G. reflexivity. }
  unfold hasobj in H2. destruct (get_obj c (st_objs s2)) as [o2|] eqn:G2; [|discriminate].
  pose proof (get_obj_conn _ _ _ G2) as EC.
  split.
  - eapply ev_trans; [exact E12|]. apply ev_upd with (o0 := o2); cbn; [rewrite EC; exact G2|auto].
  - apply sends_ok_cons; [intros x [<-|[]]; exact I|].
    apply sends_ok_app; [apply (sends_ok_ev s s1); assumption|intros x [<-|[]]; exact I].
Qed.

Lemma unsubscribe_client_ev c s : ev s (unsubscribe_client c s).
Proof.
  unfold unsubscribe_client. destruct (get_obj c (st_objs s)) as [o|] eqn:G; [|apply ev_refl].
  pose proof (get_obj_conn _ _ _ G) as EC.
  assert (E1 : ev s (upd_obj s (with_session o [] (o_infl o)))).
  { apply ev_upd with (o0 := o); cbn; [rewrite EC; exact G|auto]. }
  destruct (o_tko o); [exact E1|]. eapply ev_trans; [exact E1|apply ev_set_index].
Qed.

Lemma clear_inflights_ev c s : ev s (clear_inflights c s).
Proof.
  unfold clear_inflights. destruct (get_obj c (st_objs s)) as [o|] eqn:G; [|apply ev_refl].
  pose proof (get_obj_conn _ _ _ G) as EC.
  apply ev_upd with (o0 := o); cbn; [rewrite EC; exact G|auto].
Qed.

Lemma stopped_conn o now : o_conn (stopped o now) = o_conn o.
Proof. unfold stopped. destruct (o_open o); reflexivity. Qed.
Lemma stopped_open o now : o_open (stopped o now) = false.
Proof. unfold stopped. destruct (o_open o) eqn:E; [reflexivity|exact E]. Qed.

Lemma handler_tail_ok k now c err s :
  ev s (fst (handler_tail k now c err s)) /\ sends_ok s (snd (handler_tail k now c err s)).
Proof.
  unfold handler_tail.
  assert (A : ev s (fst (if err then send_lwt k now c s else (s, []))) /\
              sends_ok s (snd (if err then send_lwt k now c s else (s, [])))).
  { destruct err; [apply send_lwt_ok|split; [apply ev_refl|apply sends_ok_nil]]. }
  destruct (if err then send_lwt k now c s else (s, [])) as [s1 o1]. cbn [fst snd] in A. destruct A as [E1 S1].
  destruct (get_obj c (st_objs s1)) as [o|] eqn:G; [|split; assumption].
  pose proof (get_obj_conn _ _ _ G) as EC.
  set (o' := if err then stopped o now else with_will o no_will).
  assert (EC' : o_conn o' = c) by (subst o'; destruct err; [rewrite stopped_conn|cbn]; exact EC).
  assert (E2 : ev s1 (upd_obj s1 o')).
  { apply ev_upd with (o0 := o); [rewrite EC'; exact G|].
    subst o'. destruct err; [rewrite stopped_open; discriminate|cbn; auto]. }
  set (s2 := upd_obj s1 o') in *.
  set (s3 := if expire_cond o' && negb (o_tko o')
             then set_clients (unsubscribe_client c (clear_inflights c s2)) (adel (o_id o') (st_clients s2)) else s2).
  assert (E3 : ev s2 s3).
  { subst s3. destruct (expire_cond o' && negb (o_tko o')); [|apply ev_refl].
    eapply ev_trans; [apply clear_inflights_ev|]. eapply ev_trans; [apply unsubscribe_client_ev|]. apply ev_set_clients. }
  assert (E4 : ev s3 (match get_obj c (st_objs s3) with Some x => upd_obj s3 (with_phase x PhDone) | None => s3 end)).
  { destruct (get_obj c (st_objs s3)) as [x|] eqn:G3; [|apply ev_refl].
    apply ev_upd with (o0 := x); cbn; [rewrite (get_obj_conn _ _ _ G3); exact G3|auto]. }
  cbn [fst snd]. split.
  - eapply ev_trans; [exact E1|]. eapply ev_trans; [exact E2|]. eapply ev_trans; [exact E3|exact E4].
  - apply sends_ok_app; [exact S1|]. apply sends_ok_app.
    + destruct (err && o_open o); [|apply sends_ok_nil]. intros x [<-|[]].
      destruct E1 as (_ & H & _). rewrite <- H. unfold hasobj. rewrite G. reflexivity.
    + intros x [<-|[]]. exact I.
Qed.

Lemma disconnect_client_ok now c code s :
  ev s (fst (disconnect_client now c code s)) /\ sends_ok s (snd (disconnect_client now c code s)).
Proof.
  unfold disconnect_client. destruct (get_obj c (st_objs s)) as [o|] eqn:G; [|split; [apply ev_refl|apply sends_ok_nil]].
  pose proof (get_obj_conn _ _ _ G) as EC.
  destruct (o_open o) eqn:OO; [|split; [apply ev_refl|apply sends_ok_nil]].
  cbn [fst snd]. split.
  - apply ev_upd with (o0 := o); [rewrite stopped_conn, EC; exact G|rewrite stopped_open; discriminate].
  - intros x [<-|[<-|[]]].
    + split; [reflexivity|]. unfold openc. rewrite G. exact OO.
    + unfold hasobj. rewrite G. reflexivity.
Qed.

Lemma ev_tko s e : ev s (match get_obj e (st_objs s) with Some x => upd_obj s (with_tko x) | None => s end).
Proof.
  destruct (get_obj e (st_objs s)) as [x|] eqn:G; [|apply ev_refl].
  apply ev_upd with (o0 := x); cbn; [rewrite (get_obj_conn _ _ _ G); exact G|auto].
Qed.

Lemma inherit_ok k now p n s :
  let '(s1, n1, sp, o1) := inherit k now p n s in
  ev s s1 /\ sends_ok s o1 /\ o_conn n1 = o_conn n /\ o_open n1 = o_open n /\ o_id n1 = o_id n.
Proof.
  unfold inherit. destruct (aget (o_id n) (st_clients s)) as [e|]; [|repeat split; [apply ev_refl|apply sends_ok_nil]].
  destruct (get_obj e (st_objs s)) as [eo0|] eqn:G0; [|repeat split; [apply ev_refl|apply sends_ok_nil]].
  pose proof (disconnect_client_ok now e 142 s) as [E1 S1].
  destruct (disconnect_client now e 142 s) as [s1 o1]. cbn [fst snd] in *.
  set (s1' := match get_obj e (st_objs s1) with
              | Some x => if (match o_phase x with PhReading => true | _ => false end) && negb (o_open x)
                          then upd_obj s1 (with_phase x PhHeld) else s1
              | None => s1 end).
  assert (E1' : ev s1 s1').
  { subst s1'. destruct (get_obj e (st_objs s1)) as [x|] eqn:G1; [|apply ev_refl].
    destruct ((match o_phase x with PhReading => true | _ => false end) && negb (o_open x)); [|apply ev_refl].
    apply ev_upd with (o0 := x); cbn; [rewrite (get_obj_conn _ _ _ G1); exact G1|auto]. }
  assert (E01 : ev s s1') by (eapply ev_trans; eassumption).
  destruct (cp_clean p || (o_clean eo0 && (o_ver eo0 <? 5))).
  - split; [|split; [exact S1|split; [reflexivity|split; reflexivity]]].
    eapply ev_trans; [exact E01|]. eapply ev_trans; [apply unsubscribe_client_ev|].
    eapply ev_trans; [apply clear_inflights_ev|]. apply ev_tko.
  - split; [|split; [exact S1|split; [reflexivity|split; reflexivity]]].
    eapply ev_trans; [exact E01|]. eapply ev_trans; [apply ev_tko|].
    eapply ev_trans; [apply ev_set_index|]. eapply ev_trans; [apply unsubscribe_client_ev|]. apply clear_inflights_ev.
Qed.

(* ---------- attach ---------- *)
(* evolution across a whole operation: connection numbers are only added, objects stay, a connection
   that is open afterwards was open before or is new *)
Definition evx (s s' : state) : Prop :=
  (forall c, memN c (st_used s) = true -> memN c (st_used s') = true) /\
  (forall c, hasobj s c = true -> hasobj s' c = true) /\
  (forall c, openc s' c = true -> openc s c = true \/ memN c (st_used s) = false).

Lemma ev_evx s s' : ev s s' -> evx s s'.
Proof.
  intros (U & H & O). repeat split.
  - intros c M. rewrite U. exact M.
  - intros c M. rewrite H. exact M.
  - intros c M. left. apply O, M.
Qed.

Lemma evx_refl s : evx s s.
Proof. apply ev_evx, ev_refl. Qed.

Lemma memN_cons c x l : memN c (x :: l) = (c =? x) || memN c l.
Proof. reflexivity. Qed.

Lemma memN_true c l : memN c l = true <-> In c l.
Proof.
  unfold memN. rewrite existsb_exists. split.
  - intros (x & I & E). apply N.eqb_eq in E. subst. exact I.
  - intro I. exists c. split; [exact I|apply N.eqb_refl].
Qed.

Definition refusal (c : N) (outs : list out) : Prop :=
  outs = [OClose c] \/ exists code, code <> 0 /\ outs = [OPkt c (PConnack code false); OClose c].

Lemma connack_code_nz ver code : 128 <= code -> connack_code ver code <> 0.
Proof.
  intro H. unfold connack_code, v3_code.
  destruct ((128 <=? code) && (ver <? 5)); [|lia].
  destruct (code =? 132); [lia|]. destruct (code =? 133); [lia|]. destruct (code =? 134); lia.
Qed.

Lemma connect_validate_range p : connect_validate p = 0 \/ connect_validate p = 130.
Proof.
  unfold connect_validate.
  repeat match goal with |- context [if ?b then _ else _] => destruct b end; auto.
Qed.

Lemma validate_connect_range k p : validate_connect k p = 0 \/ 128 <= validate_connect k p.
Proof.
  unfold validate_connect. destruct (connect_validate_range p) as [E|E]; rewrite E; cbn [N.eqb negb].
  - repeat match goal with |- context [if ?b then _ else _] => destruct b end; auto; right; lia.
  - right. cbn. lia.
Qed.

(* the shape of attach: a refusal, or [packets to the previous holder] ++ CONNACK ++ resent messages *)
Lemma attach_shape k c now p a e s :
  hasobj s c = false ->
  let (s', outs) := attach k c now p a e s in
  (s' = s /\ refusal c outs) \/
  (a = true /\ cp_trunc p = false /\ validate_connect k p = 0 /\
   exists o1 sp l, outs = o1 ++ [OPkt c (PConnack 0 sp)] ++ resend c l /\ sends_ok s o1 /\
     st_used s' = st_used s /\
     (forall c', hasobj s' c' = hasobj s c' || (c' =? c)) /\
     (forall c', openc s' c' = true -> openc s c' = true \/ c' = c) /\
     openc s' c = true).
Proof.
  intro HN. unfold attach.
  destruct (cp_trunc p); [left; split; [reflexivity|left; reflexivity]|].
  destruct (validate_connect_range k p) as [V|V].
  2:{ destruct (validate_connect k p =? 0) eqn:E; [apply N.eqb_eq in E; lia|]. cbn [negb].
      left. split; [reflexivity|]. right. eexists. split; [|reflexivity]. apply connack_code_nz, V. }
  rewrite V. cbn [N.eqb negb].
  destruct a; cbn [negb].
  2:{ left. split; [reflexivity|]. right. eexists. split; [|reflexivity]. apply connack_code_nz. lia. }
  pose proof (inherit_ok k now p (parse_connect c p e) s) as I.
  destruct (inherit k now p (parse_connect c p e) s) as [[[s1 n1] sp] o1].
  destruct I as (E1 & S1 & NC & NO & NI). cbn in NC, NO.
  right. repeat split; auto.
  set (n2 := if k_maxsei k <? o_sei n1 then with_sei n1 (k_maxsei k) true else n1).
  assert (C2 : o_conn n2 = c) by (subst n2; destruct (k_maxsei k <? o_sei n1); cbn; exact NC).
  assert (O2 : o_open n2 = true) by (subst n2; destruct (k_maxsei k <? o_sei n1); cbn; exact NO).
  exists o1, sp, (if sp then o_infl n2 else []).
  destruct E1 as (U1 & H1 & OP1).
  split; [destruct sp; reflexivity|]. split; [exact S1|].
  cbn. split; [exact U1|]. split; [|split].
  - intro c'. unfold hasobj. cbn. destruct (N.eq_dec c' c) as [->|NE].
    + rewrite <- C2 at 1. rewrite get_put_same. rewrite N.eqb_refl, orb_true_r. reflexivity.
    + rewrite get_put_other by congruence. fold (hasobj s1 c'). rewrite H1.
      destruct (c' =? c) eqn:EE; [apply N.eqb_eq in EE; congruence|]. rewrite orb_false_r. reflexivity.
  - intros c'. unfold openc. cbn. destruct (N.eq_dec c' c) as [->|NE]; [right; reflexivity|].
    rewrite get_put_other by congruence. intro H. left. apply OP1. exact H.
  - unfold openc. cbn. rewrite <- C2 at 1. rewrite get_put_same. exact O2.
Qed.

(* ---------- the operations ---------- *)
Definition okstep (s : state) (r : state * list out) : Prop := ev s (fst r) /\ sends_ok s (snd r).

Lemma okstep_seq s s1 o1 (f : state -> state * list out) :
  ev s s1 -> sends_ok s o1 -> okstep s1 (f s1) -> okstep s (fst (f s1), o1 ++ snd (f s1)).
Proof.
  intros E S [E2 S2]. split; cbn [fst snd].
  - eapply ev_trans; eassumption.
  - apply sends_ok_app; [exact S|eapply sends_ok_ev; eassumption].
Qed.

Lemma reading_obj s c o : reading s c = Some o -> get_obj c (st_objs s) = Some o /\ o_open o = true.
Proof.
  unfold reading. destruct (get_obj c (st_objs s)) as [x|]; [|discriminate].
  destruct (o_phase x); try discriminate. destruct (o_open x) eqn:E; [|discriminate].
  intro H. inversion H. subst. auto.
Qed.

Lemma do_disconnect_ok k c now rc sei s : okstep s (do_disconnect k c now rc sei s).
Proof.
  unfold do_disconnect. destruct (reading s c) as [o|] eqn:R; [|split; [apply ev_refl|apply sends_ok_nil]].
  apply reading_obj in R. destruct R as [G OO]. pose proof (get_obj_conn _ _ _ G) as EC.
  destruct (match sei with Some v => (0 <? v) && (o_sei o =? 0) | None => false end).
  - pose proof (disconnect_client_ok now c 130 s) as [E1 S1].
    destruct (disconnect_client now c 130 s) as [s1 o1]. cbn [fst snd] in *.
    pose proof (okstep_seq s s1 o1 (handler_tail k now c true) E1 S1 (handler_tail_ok k now c true s1)) as K.
    destruct (handler_tail k now c true s1) as [s2 o2]. exact K.
  - set (o' := match sei with Some v => with_sei o (if k_maxsei k <? v then k_maxsei k else v) true | None => o end).
    assert (C' : o_conn o' = c) by (subst o'; destruct sei; cbn; exact EC).
    assert (E1 : ev s (upd_obj s o')).
    { apply ev_upd with (o0 := o); [rewrite C'; exact G|auto]. }
    destruct (negb (rc =? 0)).
    + pose proof (okstep_seq s (upd_obj s o') [] (handler_tail k now c true) E1 (sends_ok_nil s)
                    (handler_tail_ok k now c true _)) as K. cbn [app] in K.
      destruct (handler_tail k now c true (upd_obj s o')) as [s2 o2]. exact K.
    + set (s2 := set_wills (upd_obj s o') (adel (o_id o') (st_wills (upd_obj s o')))).
      assert (E2 : ev s s2) by (eapply ev_trans; [exact E1|apply ev_set_wills]).
      assert (G2 : get_obj c (st_objs s2) = Some o').
      { subst s2. cbn. rewrite <- C'. apply get_put_same. }
      assert (E3 : ev s (upd_obj s2 (stopped o' now))).
      { eapply ev_trans; [exact E2|]. apply ev_upd with (o0 := o'); [rewrite stopped_conn, C'; exact G2|].
        rewrite stopped_open. discriminate. }
      assert (S3 : sends_ok s [OClose c]).
      { intros x [<-|[]]. unfold hasobj. rewrite G. reflexivity. }
      pose proof (okstep_seq s _ [OClose c] (handler_tail k now c false) E3 S3 (handler_tail_ok k now c false _)) as K.
      destruct (handler_tail k now c false (upd_obj s2 (stopped o' now))) as [s4 o4]. exact K.
Qed.

Lemma do_netclose_ok k c now s : okstep s (do_netclose k c now s).
Proof.
  unfold do_netclose. destruct (reading s c); [apply handler_tail_ok|split; [apply ev_refl|apply sends_ok_nil]].
Qed.

Lemma do_teardown_ok k c now s : okstep s (do_teardown k c now s).
Proof.
  unfold do_teardown. destruct (get_obj c (st_objs s)) as [o|]; [|split; [apply ev_refl|apply sends_ok_nil]].
  destruct (o_phase o); try (split; [apply ev_refl|apply sends_ok_nil]). apply handler_tail_ok.
Qed.

Lemma do_second_connect_ok k c now s : okstep s (do_second_connect k c now s).
Proof.
  unfold do_second_connect. destruct (reading s c) as [o|]; [|split; [apply ev_refl|apply sends_ok_nil]].
  pose proof (send_lwt_ok k now c s) as [E1 S1]. destruct (send_lwt k now c s) as [s1 o1]. cbn [fst snd] in *.
  assert (A : okstep s1 (if o_ver o =? 5 then disconnect_client now c 130 s1 else (s1, []))).
  { destruct (o_ver o =? 5); [apply disconnect_client_ok|split; [apply ev_refl|apply sends_ok_nil]]. }
  destruct (if o_ver o =? 5 then disconnect_client now c 130 s1 else (s1, [])) as [s2 o2].
  destruct A as [E2 S2]. cbn [fst snd] in *.
  pose proof (handler_tail_ok k now c true s2) as [E3 S3].
  destruct (handler_tail k now c true s2) as [s3 o3]. cbn [fst snd] in *.
  split; cbn [fst snd].
  - eapply ev_trans; [exact E1|]. eapply ev_trans; eassumption.
  - apply sends_ok_app; [exact S1|]. apply sends_ok_app.
    + apply (sends_ok_ev s s1); assumption.
    + apply (sends_ok_ev s s1); [exact E1|]. apply (sends_ok_ev s1 s2); assumption.
Qed.

Lemma tick_clients_ok k now l : forall s, okstep s (tick_clients k now l s).
Proof.
  induction l as [|[id c] r IH]; intro s; cbn [tick_clients]; [split; [apply ev_refl|apply sends_ok_nil]|].
  destruct (get_obj c (st_objs s)) as [o|]; [|apply IH].
  destruct (o_disc o =? 0)%Z; [apply IH|].
  match goal with |- context [if (?a <? now)%Z then _ else _] => destruct (a <? now)%Z end; [|apply IH].
  set (s2 := set_clients (unsubscribe_client c (clear_inflights c s))
                         (adel id (st_clients (unsubscribe_client c (clear_inflights c s))))).
  assert (E : ev s s2).
  { eapply ev_trans; [apply clear_inflights_ev|]. eapply ev_trans; [apply unsubscribe_client_ev|]. apply ev_set_clients. }
  specialize (IH s2). destruct (tick_clients k now r s2) as [s3 outs]. destruct IH as [E3 S3]. cbn [fst snd] in *.
  split; cbn [fst snd].
  - eapply ev_trans; eassumption.
  - apply sends_ok_cons; [intros x [<-|[]]; exact I|]. eapply sends_ok_ev; eassumption.
Qed.

Lemma tick_will_ok k now l : forall s, okstep s (tick_will k now l s).
Proof.
  induction l as [|[id d] r IH]; intro s; cbn [tick_will]; [split; [apply ev_refl|apply sends_ok_nil]|].
  destruct (d_due d <? now)%Z; [|apply IH].
  pose proof (publish_ok k (d_msg d) s) as [E1 S1]. destruct (publish k (d_msg d) s) as [s1 o1]. cbn [fst snd] in *.
  assert (A : okstep s1 (match client_of s1 id with
                         | Some o => (upd_obj (if m_retain (d_msg d) then retain_msg k (d_msg d) s1 else s1) (with_will o no_will),
                                      [OWillSent id])
                         | None => (s1, []) end)).
  { destruct (client_of s1 id) as [o|] eqn:C; [|split; [apply ev_refl|apply sends_ok_nil]].
    pose proof (client_of_obj _ _ _ C) as G. split; cbn [fst snd].
    - set (s' := if m_retain (d_msg d) then retain_msg k (d_msg d) s1 else s1).
      assert (E' : ev s1 s') by (subst s'; destruct (m_retain (d_msg d)); [apply retain_msg_ev|apply ev_refl]).
      eapply ev_trans; [exact E'|]. apply ev_upd with (o0 := o); cbn; [|auto].
      subst s'. destruct (m_retain (d_msg d)); [|exact G].
      unfold retain_msg. destruct (k_retain k); [|exact G]. destruct (m_payload (d_msg d)); exact G.
    - intros x [<-|[]]. exact I. }
  destruct (match client_of s1 id with
            | Some o => (upd_obj (if m_retain (d_msg d) then retain_msg k (d_msg d) s1 else s1) (with_will o no_will), [OWillSent id])
            | None => (s1, []) end) as [s2 o2].
  destruct A as [E2 S2]. cbn [fst snd] in *.
  set (s3 := set_wills s2 (adel id (st_wills s2))).
  specialize (IH s3). destruct (tick_will k now r s3) as [s4 o4]. destruct IH as [E4 S4]. cbn [fst snd] in *.
  assert (E3 : ev s s3).
  { eapply ev_trans; [exact E1|]. eapply ev_trans; [exact E2|]. apply ev_set_wills. }
  split; cbn [fst snd].
  - eapply ev_trans; eassumption.
  - apply sends_ok_cons; [intros x [<-|[]]; exact I|].
    apply sends_ok_app; [exact S1|]. apply sends_ok_app.
    + apply (sends_ok_ev s s1); assumption.
    + apply (sends_ok_ev s s3); assumption.
Qed.

Lemma do_subscribe_ok c f q s : okstep s (do_subscribe c f q s).
Proof.
  unfold do_subscribe. destruct (reading s c) as [o|] eqn:R; [|split; [apply ev_refl|apply sends_ok_nil]].
  apply reading_obj in R. destruct R as [G OO]. split; cbn [fst snd]; [|apply sends_ok_nil].
  eapply ev_trans; [|apply ev_set_index].
  apply ev_upd with (o0 := o); cbn; [rewrite (get_obj_conn _ _ _ G); exact G|auto].
Qed.

Lemma do_publish_ok k c m s : okstep s (do_publish k c m s).
Proof.
  unfold do_publish. destruct (reading s c); [|split; [apply ev_refl|apply sends_ok_nil]].
  set (s1 := if m_retain m then retain_msg k m s else s).
  assert (E1 : ev s s1) by (subst s1; destruct (m_retain m); [apply retain_msg_ev|apply ev_refl]).
  pose proof (publish_ok k m s1) as [E2 S2]. split.
  - eapply ev_trans; eassumption.
  - eapply sends_ok_ev; eassumption.
Qed.

(* every operation but the CONNECT of a new connection *)
Definition is_new_conn (s : state) (o : op) : option N :=
  match o with
  | OConnect c _ _ _ _ | OBadFirst c _ => if memN c (st_used s) then None else Some c
  | _ => None
  end.

Lemma step_old_ok k s o : is_new_conn s o = None -> okstep s (step k s o).
Proof.
  destruct o; cbn [is_new_conn step]; intro H.
  - destruct (memN c (st_used s)); [split; [apply ev_refl|apply sends_ok_nil]|discriminate].
  - destruct (memN c (st_used s)); [split; [apply ev_refl|apply sends_ok_nil]|discriminate].
  - apply do_disconnect_ok.
  - apply do_netclose_ok.
  - apply do_teardown_ok.
  - apply tick_clients_ok.
  - apply tick_will_ok.
  - apply do_subscribe_ok.
  - apply do_publish_ok.
  - apply do_second_connect_ok.
Qed.

(* structural invariant: objects only on used connection numbers *)
Definition objs_used (s : state) : Prop := forall c, hasobj s c = true -> memN c (st_used s) = true.

Lemma objs_used_init : objs_used init.
Proof. intros c H. discriminate. Qed.

Lemma hasobj_set_used s x c : hasobj (set_used s x) c = hasobj s c.
Proof. reflexivity. Qed.
Lemma openc_set_used s x c : openc (set_used s x) c = openc s c.
Proof. reflexivity. Qed.

Lemma sends_ok_set_used s x outs : sends_ok (set_used s x) outs <-> sends_ok s outs.
Proof. split; intros H y I; specialize (H y I); destruct y; exact H. Qed.

Lemma used_cons s c c' : memN c' (st_used (set_used s (c :: st_used s))) = (c' =? c) || memN c' (st_used s).
Proof. reflexivity. Qed.
Lemma used_cons_l (u : list N) c c' : memN c' (c :: u) = (c' =? c) || memN c' u.
Proof. reflexivity. Qed.
Global Opaque memN.

(* the shape of a whole step *)
Lemma step_shape k s o :
  objs_used s ->
  let (s', outs) := step k s o in
  objs_used s' /\ evx s s' /\
  match is_new_conn s o with
  | None => sends_ok s outs /\ st_used s' = st_used s /\ (forall c', hasobj s' c' = hasobj s c')
  | Some c =>
      st_used s' = c :: st_used s /\ hasobj s c = false /\
      (((forall c', hasobj s' c' = hasobj s c') /\ refusal c outs) \/
       (exists p a e now, o = OConnect c now p a e /\ a = true /\ cp_trunc p = false /\ validate_connect k p = 0 /\
          (forall c', hasobj s' c' = hasobj s c' || (c' =? c)) /\
          exists o1 sp l, outs = o1 ++ [OPkt c (PConnack 0 sp)] ++ resend c l /\ sends_ok s o1 /\ openc s' c = true))
  end.
Proof.
  intro W. destruct (is_new_conn s o) as [c|] eqn:N.
  - assert (M : memN c (st_used s) = false).
    { destruct o; cbn [is_new_conn] in N; try discriminate;
      destruct (memN c0 (st_used s)) eqn:M; try discriminate; inversion N; subst; exact M. }
    assert (HS : hasobj s c = false).
    { destruct (hasobj s c) eqn:H; [apply W in H; congruence|reflexivity]. }
    destruct o; cbn [is_new_conn] in N; try discriminate.
    + destruct (memN c0 (st_used s)) eqn:M0; [discriminate|]. inversion N; subst c0. clear N.
      cbn [step]. rewrite M.
      pose proof (attach_shape k c now p auth_ok effid (set_used s (c :: st_used s)) HS) as A.
      destruct (attach k c now p auth_ok effid (set_used s (c :: st_used s))) as [s' outs].
      destruct A as [[-> R]|(Ha & Ht & Hv & o1 & sp & l & -> & S1 & U & H & O & OC)].
      * split; [|split; [|split; [reflexivity|split; [exact HS|]]]].
        -- intros c' Hc. rewrite hasobj_set_used in Hc. apply W in Hc. rewrite used_cons, Hc. apply orb_true_r.
        -- repeat split.
           ++ intros c' Hc. rewrite used_cons, Hc. apply orb_true_r.
           ++ intros c' Hc. exact Hc.
           ++ intros c' Hc. left. exact Hc.
        -- left. split; [intro c'; reflexivity|exact R].
      * split; [|split; [|split; [exact U|split; [exact HS|]]]].
        -- intros c' Hc. rewrite U, used_cons. rewrite H in Hc. rewrite hasobj_set_used in Hc.
           apply orb_true_iff in Hc. destruct Hc as [Hc|Hc]; [apply W in Hc; rewrite Hc; apply orb_true_r|].
           rewrite Hc. reflexivity.
        -- repeat split.
           ++ intros c' Hc. rewrite U, used_cons, Hc. apply orb_true_r.
           ++ intros c' Hc. rewrite H, hasobj_set_used, Hc. reflexivity.
           ++ intros c' Hc. apply O in Hc. rewrite openc_set_used in Hc. destruct Hc as [Hc| ->]; [left; exact Hc|right; exact M].
        -- right. exists p, auth_ok, effid, now. repeat split; auto.
           exists o1, sp, l. repeat split; auto.
    + destruct (memN c0 (st_used s)) eqn:M0; [discriminate|]. inversion N; subst c0. clear N.
      cbn [step]. rewrite M. split; [|split; [|split; [reflexivity|split; [exact HS|]]]].
      * intros c' Hc. rewrite hasobj_set_used in Hc. apply W in Hc. rewrite used_cons, Hc. apply orb_true_r.
      * repeat split.
        -- intros c' Hc. rewrite used_cons, Hc. apply orb_true_r.
        -- intros c' Hc. exact Hc.
        -- intros c' Hc. left. exact Hc.
      * left. split; [intro c'; reflexivity|left; reflexivity].
  - pose proof (step_old_ok k s o N) as [E S]. destruct (step k s o) as [s' outs]. cbn [fst snd] in *.
    destruct E as (U & H & OO).
    split; [|split; [apply ev_evx; repeat split; assumption|split; [exact S|split; [exact U|exact H]]]].
    intros c Hc. rewrite U. apply W. rewrite <- H. exact Hc.
Qed.
